from base import *
import time, warnings; warnings.filterwarnings("ignore")
s=time.time()
o=yadism.run_yadism(theory(PTO=3),obs({"FL_total":[dict(x=0.1,Q2=30.0)],"F2_total":[dict(x=0.1,Q2=30.0)]},prDIS="CC"))
print("time",time.time()-s)
r=o["FL_total"][0]
for k,v in r.orders.items():
    if k[0]==3 and k[2]==0 and k[3]==0: print(k, np.abs(v[0]).max(), v[0][8][:6])
