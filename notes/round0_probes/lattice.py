from base import *
import itertools, traceback, sys, collections, warnings
warnings.filterwarnings("ignore")
kinds = ["F2","FL","F3","g1","gL","g4"]
heav = ["total","light","charm","bottom","top","charmlight","bottomlight"]
procs = ["EM","NC","CC"]
schemes = [("ZM-VFNS",4),("FFNS",3),("FFNS",4),("FFN0",3),("FFN0",4),("FONLL-FFNS",4),("FONLL-FFN0",4)]
ptos = [int(a) for a in sys.argv[1].split(",")]
res = collections.Counter(); examples = {}
xg = list(np.geomspace(1e-2, 1.0, 6))
for kind,h,pr,(fns,nfff),pto in itertools.product(kinds,heav,procs,schemes,ptos):
    for proj in (["electron"] if pr!="CC" else ["electron","antineutrino"]):
        t = theory(PTO=pto, FNS=fns, NfFF=nfff)
        o = obs({f"{kind}_{h}":[dict(x=0.15,Q2=30.0)]}, prDIS=pr, ProjectileDIS=proj, interpolation_xgrid=xg, interpolation_polynomial_degree=2)
        try:
            out = yadism.run_yadism(t,o)
            r = out[f"{kind}_{h}"][0]
            fin = all(np.isfinite(v).all() and np.isfinite(e).all() for v,e in r.orders.values())
            key = "ok" if fin else "nonfinite"
        except Exception as e:
            key = type(e).__name__+": "+str(e)[:90]
        res[key]+=1
        examples.setdefault(key,[]).append((kind,h,pr,proj,fns,nfff,pto))
for k,v in res.most_common():
    print(v,k)
    for ex in examples[k][:6]: print("    ",ex)
    if k!="ok":
        import collections as c
        print("    kinds",c.Counter(e[0] for e in examples[k]), "heav",c.Counter(e[1] for e in examples[k]),"proc",c.Counter(e[2] for e in examples[k]),"fns",c.Counter(e[4] for e in examples[k]),"pto",c.Counter(e[6] for e in examples[k]))
