from base import *
import warnings; warnings.filterwarnings("ignore")
from scipy import integrate, interpolate
class PDF:
    def hasFlavor(self,pid): return pid in (1,2,-1,-2,21,3,-3)
    def xfxQ2(self,pid,x,Q2):
        if pid==1: return x**0.5*(1-x)**3*2.0
        if pid==2: return x**0.6*(1-x)**3*3.0
        if pid in(-1,-2,3,-3): return 0.3*x**-0.1*(1-x)**6
        if pid==21: return 2*x**-0.1*(1-x)**5
        return 0.0
pdf=PDF()
xg=[float(v) for v in np.concatenate([np.geomspace(1e-3,0.1,25,endpoint=False),np.linspace(0.1,1,35)])]
M=0.938; Q2=4.0; x=0.4
mu=M**2/Q2; rho=np.sqrt(1+4*x*x*mu); xi=2*x/(1+rho)
us=[float(u) for u in np.linspace(xi,0.999,150)]
for kind in ["F3","F2"]:
    common=dict(prDIS="CC",ProjectileDIS="neutrino",interpolation_xgrid=xg,interpolation_polynomial_degree=4)
    o0=yadism.run_yadism(theory(PTO=0,TMC=0,MP=M),obs({kind+"_total":[dict(x=u,Q2=Q2) for u in us]},**common))
    G=np.array([r.apply_pdf(pdf,o0["pids"],o0["xgrid"]["grid"],lambda q:0.2,lambda q:0.0,1.0,1.0)["result"] for r in o0[kind+"_total"]])
    Gf=interpolate.interp1d(us+[1.0],list(G)+[0.0],kind="cubic")
    h2=integrate.quad(lambda u:Gf(u)/u**2,xi,1.0,limit=200)[0]
    g2=integrate.quad(lambda u:(u-xi)*Gf(u)/u**2,xi,1.0,limit=200)[0]
    hK1=integrate.quad(lambda u:Gf(u)/u,xi,1.0,limit=200)[0]
    if kind=="F3":
        pub=x**2/(xi**2*rho**2)*G[0]+2*mu*x**3/rho**3*h2     # Schienbein with G=uF3: h3=int G/u^2
        alt=x**2/(xi**2*rho**2)*G[0]+2*mu*x**3/rho**3*hK1    # what kernel=1 computes
    else:
        pub=x**2/(xi**2*rho**3)*G[0]+6*mu*x**3/rho**4*h2+12*mu**2*x**4/rho**5*g2
        alt=None
    o3=yadism.run_yadism(theory(PTO=0,TMC=3,MP=M),obs({kind+"_total":[dict(x=x,Q2=Q2)]},**common))
    r3=o3[kind+"_total"][0].apply_pdf(pdf,o3["pids"],o3["xgrid"]["grid"],lambda q:0.2,lambda q:0.0,1.0,1.0)["result"]
    print(kind,"yadism TMC=3:",r3,"published:",pub,"kernel-1 variant:",alt)
