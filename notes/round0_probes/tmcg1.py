from base import *
import warnings; warnings.filterwarnings("ignore")
from scipy import integrate, interpolate
class PDF:
    def hasFlavor(self,pid): return pid in (1,2,-1,-2,21,3,-3)
    def xfxQ2(self,pid,x,Q2):
        if pid==1: return x**0.5*(1-x)**3*2.0
        if pid==2: return x**0.6*(1-x)**3*3.0
        if pid in(-1,-2,3,-3): return 0.3*x**-0.1*(1-x)**6
        if pid==21: return 2*x**-0.1*(1-x)**5
        return 0.0
pdf=PDF()
xg=[float(v) for v in np.concatenate([np.geomspace(1e-3,0.1,25,endpoint=False),np.linspace(0.1,1,35)])]
M=0.938; Q2=4.0; x=0.4
mu=M**2/Q2; rho=np.sqrt(1+4*x*x*mu); xi=2*x/(1+rho)
us=[float(u) for u in np.linspace(xi,0.999,150)]
common=dict(prDIS="EM",interpolation_xgrid=xg,interpolation_polynomial_degree=4)
o0=yadism.run_yadism(theory(PTO=0,TMC=0,MP=M),obs({"g1_total":[dict(x=u,Q2=Q2) for u in us]},**common))
ap=lambda r,o:r.apply_pdf(pdf,o["pids"],o["xgrid"]["grid"],lambda q:0.2,lambda q:0.0,1.0,1.0)["result"]
G=np.array([ap(r,o0) for r in o0["g1_total"]])   # G(u)=2u g1(u)
Gf=interpolate.interp1d(us+[1.0],list(G)+[0.0],kind="cubic")
g1=lambda u: Gf(u)/(2*u)
I1=integrate.quad(lambda u:g1(u)/u,xi,1.0,limit=200)[0]
I2=integrate.quad(lambda u:np.log(u/xi)*g1(u)/u,xi,1.0,limit=200)[0]
g1tmc = x/(xi*rho**3)*g1(xi) + 4*mu*x*x/rho**4*((x+xi)/xi*I1 - (3-rho**2)/(2*rho)*I2)   # Blumlein-Tkabladze
for tmc in (3,1,2):
    o3=yadism.run_yadism(theory(PTO=0,TMC=tmc,MP=M),obs({"g1_total":[dict(x=x,Q2=Q2)]},**common))
    print("TMC",tmc,"yadism:",ap(o3["g1_total"][0],o3),"published 2x*g1TMC:",2*x*g1tmc,"2xi*g1TMC:",2*xi*g1tmc, "xi/x",xi/x)
