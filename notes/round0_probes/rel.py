from base import *
import warnings; warnings.filterwarnings("ignore")
def run(t,o): return yadism.run_yadism(t,o)
def maxdiff(a,b):
    ks = set(a.orders)|set(b.orders); m=0
    for k in ks:
        va = a.orders.get(k,(0,0))[0]; vb=b.orders.get(k,(0,0))[0]
        m=max(m,np.abs(np.asarray(va)-np.asarray(vb)).max())
    return m
def add(rs):
    r=rs[0]
    for x in rs[1:]: r=r+x
    return r
pts=[dict(x=0.05,Q2=20.0),dict(x=0.3,Q2=90.0)]
print("== C07 additivity FFNS nf=3 ==")
for pr in ["EM","NC","CC"]:
  for kind in ["F2","FL","F3"]:
    for pto in [1,2]:
        names=[f"{kind}_{h}" for h in ["total","light","charm","bottom","top"]]
        try:
            out=run(theory(PTO=pto,FNS="FFNS",NfFF=3),obs({n:pts for n in names},prDIS=pr,ProjectileDIS="electron"))
        except Exception as e:
            print(pr,kind,pto,"ERR",type(e).__name__,str(e)[:80]); continue
        for i in range(len(pts)):
            d=maxdiff(out[names[0]][i], add([out[n][i] for n in names[1:]]))
            print(pr,kind,pto,i,"diff total-(l+c+b+t)=%.2e"%d)
