from base import *
import warnings; warnings.filterwarnings("ignore")
from eko import basis_rotation as br
idx=br.flavor_basis_pids.index
m=1.51
light=[idx(p) for p in (21,1,2,3,-1,-2,-3)]
for pr,kind in [("EM","F2"),("NC","FL")]:
  for Q2 in [5.0,30.0]:
    xthr=Q2/(Q2+4*m*m)
    xs=[float(np.nextafter(xthr,0)),float(xthr),float(np.nextafter(xthr,1)),xthr*0.9,xthr*0.999,min(xthr*1.05,0.99)]
    o=yadism.run_yadism(theory(PTO=2,FNS="FFNS",NfFF=3,mc=m),obs({kind+"_charm":[dict(x=x,Q2=Q2) for x in xs]},prDIS=pr))
    for x,r in zip(xs,o[kind+"_charm"]):
        shat=Q2*(1-x)/x
        print(pr,kind,"Q2",Q2,"x=%.17g"%x,"below" if shat<=4*m*m else "above","max|light rows|=%.3e"%max(np.abs(v[0][light]).max() for v in r.orders.values()),"max|charm rows|=%.3e"%max(np.abs(v[0][[idx(4),idx(-4)]]).max() for v in r.orders.values()))
