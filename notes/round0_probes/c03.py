import numpy as np, importlib, inspect, warnings
warnings.filterwarnings("ignore")
from yadism.coefficient_functions import splitting_functions as split
from yadism.coefficient_functions.partonic_channel import PartonicChannel, RSL
def check(name, rsl):
    if rsl is None or rsl.loc is None: return
    out=[]
    for x in [0.05,0.3,0.6,0.9]:
        h=1e-6
        d=(rsl.loc(x+h,rsl.args["loc"])-rsl.loc(x-h,rsl.args["loc"]))/(2*h)
        s=rsl.sing(x,rsl.args["sing"]) if rsl.sing is not None else 0.0
        out.append((d+s)/(abs(s)+abs(d)+1e-30))
    flag = "BAD" if max(abs(o) for o in out)>1e-4 else "ok"
    print(f"{flag:4s} {name:60s}", " ".join("%.1e"%o for o in out))
for lab_set in split.raw_labels:
    for l,f in lab_set.items():
        for nf in [3,5]: check(f"split {l} nf={nf}", f(nf))
class ESF: 
    def __init__(s,x,Q2): s.x=x; s.Q2=Q2
esf=ESF(0.1,30.0)
import pkgutil, yadism.coefficient_functions as cfpkg
for fam in ["light","heavy","asy","intrinsic"]:
    pkg=importlib.import_module(f"yadism.coefficient_functions.{fam}")
    for m in pkgutil.iter_modules(pkg.__path__):
        if not (m.name.endswith("_nc") or m.name.endswith("_cc")): continue
        try: mod=importlib.import_module(f"yadism.coefficient_functions.{fam}.{m.name}")
        except Exception as e: print("IMPORT-ERR",fam,m.name,type(e).__name__); continue
        for cname,cls in inspect.getmembers(mod,inspect.isclass):
            if not issubclass(cls,PartonicChannel) or cls.__module__!=mod.__name__: continue
            for nf in [3,5]:
                try:
                    if fam=="light": obj=cls(esf,nf)
                    elif fam=="heavy": obj=cls(esf,nf,m2hq=2.0)
                    elif fam=="asy": obj=cls(esf,nf,m2hq=2.0)
                    else:
                        obj=cls(esf,nf,m1sq=2.0,m2sq=2.0) if m.name.endswith("_nc") else cls(esf,nf,m1sq=2.0)
                except Exception as e: print("INIT-ERR",fam,m.name,cname,type(e).__name__,str(e)[:60]); break
                for o in range(4):
                    try: rsl=obj[o]()
                    except Exception as e: print("ORD-ERR",fam,m.name,cname,o,type(e).__name__,str(e)[:60]); continue
                    try: check(f"{fam}.{m.name}.{cname}[{o}] nf={nf}", rsl)
                    except Exception as e: print("CHK-ERR",fam,m.name,cname,o,type(e).__name__,str(e)[:60])
