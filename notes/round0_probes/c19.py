from base import *
import warnings; warnings.filterwarnings("ignore")
class PDF:
    def __init__(s,c): s.c=c
    def hasFlavor(self,pid): return pid in self.c
    def xfxQ2(self,pid,x,Q2):
        t=np.log(x); a=self.c[pid]
        return x*(a[0]+a[1]*t+a[2]*t*t)
pdf=PDF({1:(1.0,0.3,0.05),2:(2.0,-0.1,0.02),-1:(0.2,0.1,0.01),-2:(0.3,0.0,0.03),21:(3.0,0.5,0.1),3:(0.1,0.1,0.0),-3:(0.1,0.1,0.0)})
grids={"g12d3":([float(v) for v in np.geomspace(1e-3,1,12)],3),"g25d3":([float(v) for v in np.geomspace(1e-3,1,25)],3),"g18d5":([float(v) for v in np.geomspace(2e-3,1,18)],5),"mix":([float(v) for v in np.concatenate([np.geomspace(1e-3,0.1,10,endpoint=False),np.linspace(0.1,1,8)])],2)}
pts=[dict(x=0.05,Q2=20.0),dict(x=0.31,Q2=20.0),dict(x=0.7,Q2=20.0)]
for pr,kind,pto in [("NC","F2",2),("CC","F3",2),("NC","FL",2)]:
    res={}
    for name,(xg,d) in grids.items():
        o=yadism.run_yadism(theory(PTO=pto),obs({kind+"_total":pts},prDIS=pr,interpolation_xgrid=xg,interpolation_polynomial_degree=d))
        res[name]=[r.apply_pdf(pdf,o["pids"],o["xgrid"]["grid"],lambda q:0.25*4*np.pi/ (4*np.pi)*1.0,lambda q:0.0,1.0,1.0)["result"] for r in o[kind+"_total"]]
    base=res["g12d3"]
    for name in grids: print(pr,kind,name,["%.3e"%((a-b)/abs(b)) for a,b in zip(res[name],base)], ["%.6g"%a for a in res[name]])
