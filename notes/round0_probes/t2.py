from base import *
import traceback
t = theory(PTO=1, FNS="FFN0", NfFF=3); o = obs({"F2_charm":[dict(x=0.1,Q2=10.0)]})
try:
    out = yadism.run_yadism(t,o)
except Exception: traceback.print_exc()
