from rel import run,maxdiff,add
from base import *
import copy, io, tempfile, os, pathlib
from yadism.esf import exs
from yadism.output import Output
print("== C11 XS vs SF ==")
for pr,proj,xs in [("NC","electron","XSHERANC"),("NC","positron","XSHERANC"),("NC","electron","XSHERANCAVG"),("CC","positron","XSHERACC"),("CC","neutrino","XSCHORUSCC"),("CC","antineutrino","XSNUTEVCC"),("CC","neutrino","XSNUTEVNU"),("CC","neutrino","FW"),("NC","electron","F1"),("CC","antineutrino","XSFPFCC"),("NC","electron","g5")]:
  for tmc in [0,1]:
    kin=[dict(x=0.05,Q2=20.0,y=0.4),dict(x=0.3,Q2=90.0,y=0.8)]
    sfk=[{k:v for k,v in p.items() if k!="y"} for p in kin]
    a,b,c=("g4","gL","g1") if xs=="g5" else ("F2","FL","F3")
    try:
        t=theory(PTO=1,TMC=tmc)
        o=run(t,obs({xs+"_charm":kin,a+"_charm":sfk,b+"_charm":sfk,c+"_charm":sfk},prDIS=pr,ProjectileDIS=proj))
    except Exception as e: print(xs,pr,proj,tmc,"ERR",type(e).__name__,str(e)[:80]); continue
    for i,p in enumerate(kin):
        if xs=="g5": co=exs.xs_coeffs_polarized("g5")
        else: co=exs.xs_coeffs_unpolarized(xs,p["y"],p["x"],p["Q2"],dict(projectilePID={"electron":11,"positron":-11,"neutrino":12,"antineutrino":-12}[proj],M2target=t["MP"]**2,M2W=t["MW"]**2,GF=t["GF"]))
        comb=co[0]*o[a+"_charm"][i]+co[1]*o[b+"_charm"][i]+co[2]*o[c+"_charm"][i]
        print(xs,pr,proj,"tmc",tmc,i,"%.2e"%maxdiff(o[xs+"_charm"][i],comb), "scale %.2e"%max(np.abs(v[0]).max() for v in comb.orders.values()))
