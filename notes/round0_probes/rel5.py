from rel import run,maxdiff,add
from base import *
import copy, itertools, random
def same(a,b):
    if set(a.orders)!=set(b.orders): return False
    return all(np.array_equal(a.orders[k][0],b.orders[k][0]) and np.array_equal(a.orders[k][1],b.orders[k][1]) for k in a.orders) and a.x==b.x and a.Q2==b.Q2
print("== C14 history independence ==")
ptsA=[dict(x=0.05,Q2=20.0),dict(x=0.3,Q2=90.0),dict(x=0.3,Q2=20.0),dict(x=0.05,Q2=20.0),dict(x=0.12,Q2=5.0)]
for tmc in [0,1,3]:
  for pr in ["NC","CC"]:
    t=theory(PTO=1,TMC=tmc,FNS="FFNS",NfFF=3)
    base={}
    for name in ["F2_total","FL_total","F3_total","F2_charm"]:
        for p in ptsA:
            o=run(t,obs({name:[p]},prDIS=pr))
            base[(name,p["x"],p["Q2"])]=o[name][0]
    # combined runs in random orders, with XS mixed
    rng=random.Random(1)
    bad=0;n=0
    for trial in range(4):
        names=["F2_total","FL_total","F3_total","F2_charm"]; rng.shuffle(names)
        od={}
        for nm in names:
            pp=ptsA[:]; rng.shuffle(pp); od[nm]=pp
        if trial%2: 
            od={"XSHERANC":[dict(x=0.05,Q2=20.0,y=0.4),dict(x=0.3,Q2=90.0,y=0.2)] if pr=="NC" else [dict(x=0.05,Q2=20.0,y=0.4)], **od}
            if pr=="CC": od["XSCHORUSCC"]=od.pop("XSHERANC")
        o=run(t,obs(od,prDIS=pr))
        for nm in names:
            for p,r in zip(od[nm],o[nm]):
                n+=1
                if not same(r,base[(nm,p["x"],p["Q2"])]): 
                    bad+=1; print("  DIFF",tmc,pr,nm,p,maxdiff(r,base[(nm,p["x"],p["Q2"])]))
    print("tmc",tmc,pr,"compared",n,"bad",bad)
