from rel import run,maxdiff,add
from base import *
import copy
pts=[dict(x=0.05,Q2=20.0),dict(x=0.3,Q2=90.0)]
print("== C07 FONLL parts ==")
for fns in ["FONLL-FFNS"]:
  for pr,kind,h in [("NC","F2","total"),("NC","F2","charm"),("CC","F3","total"),("EM","FL","bottom"),("CC","F2","charm"),("NC","F3","total")]:
    for pto in [1,2]:
      outs={}
      try:
        for part in ["full","massless","massive"]:
            outs[part]=run(theory(PTO=pto,FNS=fns,NfFF=4,FONLLParts=part),obs({f"{kind}_{h}":pts},prDIS=pr))
        for i in range(2):
            print(fns,pr,kind,h,pto,i,"%.2e"%maxdiff(outs["full"][f"{kind}_{h}"][i], outs["massless"][f"{kind}_{h}"][i]+outs["massive"][f"{kind}_{h}"][i]))
      except Exception as e: print(fns,pr,kind,h,pto,"ERR",type(e).__name__,str(e)[:100])
print("== C07 nc_pos_charge ==")
for pr,kind,h,fns,nfff in [("NC","F2","total","ZM-VFNS",4),("NC","F3","total","ZM-VFNS",4),("EM","FL","total","FFNS",3),("NC","F2","charm","FFNS",3),("NC","F2","total","FFNS",4),("NC","g1","total","ZM-VFNS",4)]:
  for pto in [1,2,3]:
    try:
      full=run(theory(PTO=pto,FNS=fns,NfFF=nfff),obs({f"{kind}_{h}":pts},prDIS=pr))
      parts=[run(theory(PTO=pto,FNS=fns,NfFF=nfff),obs({f"{kind}_{h}":pts},prDIS=pr,NCPositivityCharge=q)) for q in ["down","up","strange","charm","bottom","top"]]
      for i in range(2):
        print(pr,kind,h,fns,pto,i,"%.2e"%maxdiff(full[f"{kind}_{h}"][i], add([p[f"{kind}_{h}"][i] for p in parts])))
    except Exception as e: print(pr,kind,h,fns,pto,"ERR",type(e).__name__,str(e)[:100])
