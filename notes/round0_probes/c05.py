from base import *
import warnings; warnings.filterwarnings("ignore")
pts=[dict(x=0.1,Q2=30.0)]
print("== C05 switch-off ==")
for pr,kind,fns,nfff in [("NC","F2","ZM-VFNS",4),("CC","F3","FFNS",3)]:
  for pto in [2,3]:
    outs={}
    for ren in (True,False):
        for fact in (True,False):
            outs[(ren,fact)]=yadism.run_yadism(theory(PTO=pto,FNS=fns,NfFF=nfff,RenScaleVar=ren,FactScaleVar=fact),obs({kind+"_total":pts},prDIS=pr))[kind+"_total"][0]
    full=outs[(True,True)]
    for (ren,fact),r in outs.items():
        bad=[]
        for k,(v,e) in full.orders.items():
            killed=(not ren and k[2]>0) or (not fact and k[3]>0)
            w=r.orders.get(k,(np.zeros_like(v),))[0]
            if killed:
                if np.abs(w).max()!=0: bad.append(("notzero",k))
            else:
                if not np.array_equal(w,v): bad.append(("changed",k,float(np.abs(w-v).max())))
        print(pr,kind,pto,"ren",ren,"fact",fact,"keys",len(r.orders),"bad",bad[:4])
print("== C09 thresholds ==")
m=1.51
for Q2 in [5.0,30.0]:
    xthr=Q2/(Q2+4*m*m)
    xs=[float(np.nextafter(xthr,0)),float(xthr),float(np.nextafter(xthr,1)),xthr*0.9,min(xthr*1.05,0.99)]
    o=yadism.run_yadism(theory(PTO=2,FNS="FFNS",NfFF=3,mc=m),obs({"F2_charm":[dict(x=x,Q2=Q2) for x in xs]},prDIS="EM"))
    for x,r in zip(xs,o["F2_charm"]):
        shat=Q2*(1-x)/x
        print("Q2",Q2,"x=%.17g"%x,"shat-4m2=%.3e"%(shat-4*m*m),"max|op|=%.3e"%max(np.abs(v[0]).max() for v in r.orders.values()))
