from base import *
import warnings; warnings.filterwarnings("ignore")
p1={"x":0.5,"Q2":0.7}; p2={"Q2":0.5,"x":0.7}
t=theory(PTO=1,Q0=0.5)
both=yadism.run_yadism(t,obs({"F2_light":[p1,p2]}))
alone=yadism.run_yadism(t,obs({"F2_light":[p2]}))
a=both["F2_light"][1]; b=alone["F2_light"][0]
print("in combined run: x,Q2 =",a.x,a.Q2," alone:",b.x,b.Q2)
print("equal tensors:", all(np.array_equal(a.orders[k][0],b.orders[k][0]) for k in b.orders))
