from rel import run,maxdiff,add
from base import *
import copy, itertools
pts=[dict(x=0.05,Q2=20.0),dict(x=0.3,Q2=90.0)]
pids=list(range(-6,0))+[21]+list(range(1,7))
def row(r,pid,k): 
    from eko import basis_rotation as br
    return r.orders[k][0][br.flavor_basis_pids.index(pid)]
print("== C12 isospin: neutron = proton with u<->d ==")
from eko import basis_rotation as br
idx=br.flavor_basis_pids.index
def swap_ud(v):
    w=v.copy(); 
    for s in (1,-1):
        w[idx(s*1)],w[idx(s*2)]=v[idx(s*2)].copy(),v[idx(s*1)].copy()
    return w
for pr,kind,fns,nfff,pto in [("NC","F2","ZM-VFNS",4,2),("CC","F3","ZM-VFNS",4,2),("CC","F2","FFNS",3,1),("NC","FL","FFNS",3,2),("CC","FL","FFN0",3,1),("NC","g1","ZM-VFNS",4,1)]:
    p=run(theory(PTO=pto,FNS=fns,NfFF=nfff),obs({kind+"_total":pts},prDIS=pr,TargetDIS="proton"))
    n=run(theory(PTO=pto,FNS=fns,NfFF=nfff),obs({kind+"_total":pts},prDIS=pr,TargetDIS="neutron"))
    fe=run(theory(PTO=pto,FNS=fns,NfFF=nfff),obs({kind+"_total":pts},prDIS=pr,TargetDIS="iron"))
    Z,A=23.403,49.618
    for i in range(2):
        m=0;m2=0
        for k in p[kind+"_total"][i].orders:
            vp=p[kind+"_total"][i].orders[k][0]; vn=n[kind+"_total"][i].orders[k][0]; vf=fe[kind+"_total"][i].orders[k][0]
            m=max(m,np.abs(swap_ud(vp)-vn).max())
            # iron: operator rows: O_fe[u] = (Z O_p[u] + (A-Z) O_p[d])/A
            exp=vp.copy()
            for s in (1,-1):
                exp[idx(s*2)]=(Z*vp[idx(s*2)]+(A-Z)*vp[idx(s*1)])/A
                exp[idx(s*1)]=(Z*vp[idx(s*1)]+(A-Z)*vp[idx(s*2)])/A
            m2=max(m2,np.abs(exp-vf).max())
        print(pr,kind,fns,pto,i,"neutron %.2e iron %.2e"%(m,m2))
