from base import *
import warnings; warnings.filterwarnings("ignore")
class PDF:
    def hasFlavor(self,pid): return pid in (1,2,-1,-2,21)
    def xfxQ2(self,pid,x,Q2): return x**0.5*(1-x)**3*(1+0.1*np.log(Q2))
for fns,nfff in [("ZM-VFNS",4),("FFNS",3),("FONLL-FFNS",4)]:
    t=theory(PTO=2,FNS=fns,NfFF=nfff,XIR=2.0,XIF=0.5)
    o=yadism.run_yadism(t,obs({"F2_total":[dict(x=0.1,Q2=30.0)]}))
    try:
        r=o.apply_pdf(PDF()); print(fns,r["F2_total"])
    except Exception as e:
        import traceback; traceback.print_exc()
