from base import *
import copy, io, tempfile, pathlib, warnings
warnings.filterwarnings("ignore")
from yadism.output import Output
run=yadism.run_yadism
print("== C06 thresholds ==")
for fns,nfff in [("ZM-VFNS",4),("FFNS",4),("FONLL-FFNS",4)]:
    t=theory(PTO=2,FNS=fns,NfFF=nfff,mc=1.5,mb=4.5,kcThr=2.0,kbThr=1.0,mt=170.0)
    thr=(1.5*2.0)**2
    qs=[np.nextafter(thr,0),thr,np.nextafter(thr,1e9), 4.5**2*0.999, 4.5**2, 170.**2]
    o=run(t,obs({"F2_light":[dict(x=0.1,Q2=q) for q in qs]}))
    from eko import beta
    for q,r in zip(qs,o["F2_light"]):
        a=r.orders[(2,0,1,0)][0]; b=r.orders[(1,0,0,0)][0]
        m=np.abs(b)>1e-8
        ratio=np.median(a[m]/b[m])
        print(fns,"Q2=%.17g"%q,"ratio(2,0,1,0)/(1,0,0,0)=%.6f"%ratio,{nf:round(beta.beta_qcd_as2(nf),4) for nf in (3,4,5,6)})
print("== C20 inputs untouched ==")
t=theory(PTO=1,FNS="FONLL-FFNS",NfFF=4); o=obs({"F2_total":[dict(x=0.1,Q2=10.0)],"XSHERANC":[dict(x=0.1,Q2=10.0,y=0.5)]},TargetDIS="iron")
t0=copy.deepcopy(t);o0=copy.deepcopy(o)
out=run(t,o)
print("theory same",t==t0,"obs same",o==o0, "echo", out.theory==t0, out.observables==o0, out["projectilePID"], list(out["pids"])[:3], out["xgrid"]["log"])
print("== C15 roundtrip ==")
with tempfile.TemporaryDirectory() as d:
    p=pathlib.Path(d)/"o.tar"; out.dump_tar(p); l=Output.load_tar(p)
    def eqout(a,b):
        ok=True
        for k in a:
            if yadism.observable_name.ObservableName.is_valid(k):
                for ra,rb in zip(a[k],b[k]):
                    ok&= (ra.x==rb.x and ra.Q2==rb.Q2 and set(ra.orders)==set(rb.orders) and all(np.array_equal(ra.orders[q][0],rb.orders[q][0]) and np.array_equal(ra.orders[q][1],rb.orders[q][1]) for q in ra.orders) and ra.nf==rb.nf and type(ra)==type(rb) and getattr(ra,"y",None)==getattr(rb,"y",None))
            else:
                try: ok&= bool(np.all(np.asarray(a[k]==b[k]))) if not isinstance(a[k],dict) else (str(a[k])==str(b[k]) or all(np.array_equal(np.asarray(a[k][z]),np.asarray(b[k][z])) for z in a[k]))
                except Exception as e: print("cmp err",k,e); ok=False
                if not ok: print("meta diff",k,a[k],b[k]); 
        return ok
    print("tar",eqout(out,l), "theory",l.theory==out.theory, "obs",l.observables==out.observables)
    if l.observables!=out.observables:
        for k in out.observables:
            if out.observables[k]!=l.observables.get(k): print("   obs diff",k,type(out.observables[k]),type(l.observables.get(k)))
    s=out.dump_yaml(); l2=Output.load_yaml(io.StringIO(s))
    print("yaml",eqout(out,l2),"theory",l2.theory==out.theory,"obs",l2.observables==out.observables)
