import ast, pathlib, collections
root=pathlib.Path("/repo/src/yadism")
cnt=collections.Counter(); funcs=[]; calls=collections.Counter(); sigs=collections.Counter()
for f in root.rglob("*.py"):
    t=ast.parse(f.read_text())
    for n in ast.walk(t):
        if isinstance(n,ast.FunctionDef):
            dec=[ast.unparse(d) for d in n.decorator_list]
            if any("njit" in d for d in dec):
                funcs.append((str(f.relative_to(root)),n.name))
                for d in dec: sigs[d]+=1
                for m in ast.walk(n):
                    cnt[type(m).__name__]+=1
                    if isinstance(m,ast.Call): calls[ast.unparse(m.func)]+=1
print(len(funcs),"njit functions"); print(sigs)
print(cnt.most_common())
print(calls.most_common())
import itertools
by=collections.Counter(f for f,_ in funcs); print(by.most_common())
