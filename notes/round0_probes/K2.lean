import Proto.K
open KExpr
def d81 : KExpr := .div (.lit 1) (.lit 81)
def d3 : KExpr := .div (.lit 1) (.lit 3)
-- nf^2 part of c2ns3b_fl2*(1-y) and of c2np3c_fl2 as on the pinned tree (1/5) and repaired (1/2)
def singN2 : KExpr :=
  .add (.add (.sub (.mul (.mul (.lit 64) d81) (.pow L1 3)) (.mul (.mul (.lit 464) d81) (.pow L1 2)))
    (.mul (.lit 7.67505) L1)) (.lit 1.00830)
def locN2 (den : Rat) : KExpr :=
  .add (.add (.add (.add (.sub (.mul (.mul (.lit 16) d81) (.pow L1 4)) (.mul (.mul (.mul (.lit 464) d81) d3) (.pow L1 3)))
    (.mul (.div (.mul (.lit 7.67505) (.lit 1)) (.lit den)) (.pow L1 2))) (.mul (.lit 1.0083) L1)) (.lit (-103.2521))) (.lit 0.0155)
def ob (den : Rat) : Bool :=
  match normL 4 singN2, normL 4 (locN2 den) with
  | some a, some (_ :: b) => coeffsClose (1/10000) a b 0
  | _, _ => false
#eval (ob 5, ob 2)
theorem pinned_is_inconsistent : ob 5 = false := by decide +kernel
theorem repaired_is_consistent : ob 2 = true := by decide +kernel
