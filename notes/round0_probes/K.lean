import Mathlib.Analysis.SpecialFunctions.Log.Basic
import Mathlib.Tactic.Ring
import Mathlib.Tactic.FieldSimp
import Mathlib.Data.Rat.Cast.Order

/-- kernel expression (fragment): z, args[i], rational literals, arithmetic, log -/
inductive KExpr where
  | lit  : Rat → KExpr
  | z    : KExpr
  | arg  : Nat → KExpr
  | add  : KExpr → KExpr → KExpr
  | sub  : KExpr → KExpr → KExpr
  | mul  : KExpr → KExpr → KExpr
  | div  : KExpr → KExpr → KExpr
  | pow  : KExpr → Nat → KExpr
  | log  : KExpr → KExpr
  deriving Repr, DecidableEq

namespace KExpr

noncomputable def evalR (args : Nat → ℝ) (z : ℝ) : KExpr → ℝ
  | lit q => (q : ℝ)
  | .z => z
  | arg i => args i
  | add a b => evalR args z a + evalR args z b
  | sub a b => evalR args z a - evalR args z b
  | mul a b => evalR args z a * evalR args z b
  | div a b => evalR args z a / evalR args z b
  | pow a n => evalR args z a ^ n
  | log a => Real.log (evalR args z a)

/-- dense polynomial in L = log(1-z) with rational coefficients -/
abbrev PolyL := List Rat

def PolyL.add : PolyL → PolyL → PolyL
  | [], q => q
  | p, [] => p
  | a :: p, b :: q => (a + b) :: PolyL.add p q

def PolyL.smul (c : Rat) (p : PolyL) : PolyL := p.map (c * ·)

def PolyL.mul : PolyL → PolyL → PolyL
  | [], _ => []
  | a :: p, q => PolyL.add (PolyL.smul a q) (0 :: PolyL.mul p q)

def PolyL.pow (p : PolyL) : Nat → PolyL
  | 0 => [1]
  | n+1 => PolyL.mul p (PolyL.pow p n)

noncomputable def PolyL.eval (L : ℝ) : PolyL → ℝ
  | [] => 0
  | a :: p => (a : ℝ) + L * PolyL.eval L p

theorem PolyL.eval_add (L : ℝ) : ∀ p q : PolyL, (PolyL.add p q).eval L = p.eval L + q.eval L
  | [], q => by simp [PolyL.add, PolyL.eval]
  | a :: p, [] => by simp [PolyL.add, PolyL.eval]
  | a :: p, b :: q => by
      simp [PolyL.add, PolyL.eval, PolyL.eval_add L p q]; ring

theorem PolyL.eval_smul (L : ℝ) (c : Rat) : ∀ p : PolyL, (PolyL.smul c p).eval L = c * p.eval L
  | [] => by simp [PolyL.smul, PolyL.eval]
  | a :: p => by
      have ih := PolyL.eval_smul L c p
      simp only [PolyL.smul, List.map_cons, PolyL.eval] at ih ⊢
      rw [ih]; push_cast; ring

theorem PolyL.eval_mul (L : ℝ) : ∀ p q : PolyL, (PolyL.mul p q).eval L = p.eval L * q.eval L
  | [], q => by simp [PolyL.mul, PolyL.eval]
  | a :: p, q => by
      simp only [PolyL.mul, PolyL.eval_add, PolyL.eval_smul, PolyL.eval, PolyL.eval_mul L p q]
      push_cast; ring

theorem PolyL.eval_pow (L : ℝ) (p : PolyL) : ∀ n, (PolyL.pow p n).eval L = p.eval L ^ n
  | 0 => by simp [PolyL.pow, PolyL.eval]
  | n+1 => by simp [PolyL.pow, PolyL.eval_mul, PolyL.eval_pow L p n, pow_succ]; ring

/-- is this the syntactic atom log(1 - z)? -/
def isL1 : KExpr → Bool
  | log (sub (lit q) .z) => q == 1
  | _ => false

/-- normalise to a polynomial in L1 for a given numeric value of args[0] (= nf) -/
def normL (nf : Rat) : KExpr → Option PolyL
  | lit q => some [q]
  | arg 0 => some [nf]
  | add a b => do let p ← normL nf a; let q ← normL nf b; pure (PolyL.add p q)
  | sub a b => do let p ← normL nf a; let q ← normL nf b; pure (PolyL.add p (PolyL.smul (-1) q))
  | mul a b => do let p ← normL nf a; let q ← normL nf b; pure (PolyL.mul p q)
  | pow a n => do let p ← normL nf a; pure (PolyL.pow p n)
  | div a (lit q) => if q = 0 then none else do let p ← normL nf a; pure (PolyL.smul (1/q) p)
  | e@(log _) => if isL1 e then some [0, 1] else none
  | _ => none

theorem normL_sound (nf : Rat) (args : Nat → ℝ) (h0 : args 0 = nf) (z : ℝ) :
    ∀ (e : KExpr) (p : PolyL), normL nf e = some p →
      evalR args z e = p.eval (Real.log (1 - z)) := by
  intro e
  induction e with
  | lit q => intro p h; simp [normL] at h; subst h; simp [evalR, PolyL.eval]
  | z => intro p h; simp [normL] at h
  | arg i =>
      intro p h
      cases i with
      | zero => simp [normL] at h; subst h; simp [evalR, PolyL.eval, h0]
      | succ n => simp [normL] at h
  | add a b iha ihb =>
      intro p h
      simp only [normL, Option.bind_eq_bind, Option.pure_def] at h
      cases ha : normL nf a with
      | none => simp [ha] at h
      | some pa =>
        cases hb : normL nf b with
        | none => simp [ha, hb] at h
        | some pb =>
          simp [ha, hb] at h; subst h
          simp [evalR, PolyL.eval_add, iha pa ha, ihb pb hb]
  | sub a b iha ihb =>
      intro p h
      simp only [normL, Option.bind_eq_bind, Option.pure_def] at h
      cases ha : normL nf a with
      | none => simp [ha] at h
      | some pa =>
        cases hb : normL nf b with
        | none => simp [ha, hb] at h
        | some pb =>
          simp [ha, hb] at h; subst h
          simp [evalR, PolyL.eval_add, PolyL.eval_smul, iha pa ha, ihb pb hb]; ring
  | mul a b iha ihb =>
      intro p h
      simp only [normL, Option.bind_eq_bind, Option.pure_def] at h
      cases ha : normL nf a with
      | none => simp [ha] at h
      | some pa =>
        cases hb : normL nf b with
        | none => simp [ha, hb] at h
        | some pb =>
          simp [ha, hb] at h; subst h
          simp [evalR, PolyL.eval_mul, iha pa ha, ihb pb hb]
  | div a b iha _ =>
      intro p h
      cases b with
      | lit q =>
        simp only [normL] at h
        split at h
        · simp at h
        · rename_i hq
          cases ha : normL nf a with
          | none => simp [ha] at h
          | some pa =>
            simp [ha] at h; subst h
            have hq' : (q : ℝ) ≠ 0 := by exact_mod_cast hq
            simp [evalR, PolyL.eval_smul, iha pa ha]; field_simp
      | _ => simp [normL] at h
  | pow a n iha =>
      intro p h
      simp only [normL, Option.bind_eq_bind, Option.pure_def] at h
      cases ha : normL nf a with
      | none => simp [ha] at h
      | some pa =>
        simp [ha] at h; subst h
        simp [evalR, PolyL.eval_pow, iha pa ha]
  | log a _ =>
      intro p h
      simp only [normL] at h
      split at h
      · rename_i hl
        simp at h; subst h
        -- a must be `1 - z`
        match a, hl with
        | sub (lit q) .z, hl =>
          simp [isL1] at hl; subst hl
          simp [evalR, PolyL.eval]
      · simp at h

end KExpr

open KExpr

-- what the translator would emit for c2ns2b*(1-y) and c2nn2c (NNLO F2 non-singlet)
def L1 : KExpr := .log (.sub (.lit 1) .z)
def c2ns2b_num : KExpr :=
  .add (.add (.add (.sub (.mul (.lit 14.2222) (.pow L1 3)) (.mul (.lit 61.3333) (.pow L1 2)))
    (.mul (.lit (-31.105)) L1)) (.lit 188.64))
    (.mul (.arg 0) (.add (.sub (.mul (.lit 1.77778) (.pow L1 2)) (.mul (.lit 8.5926) L1)) (.lit 6.3489)))
def c2nn2c : KExpr :=
  .add (.add (.add (.add (.sub (.sub (.mul (.lit 3.55555) (.pow L1 4)) (.mul (.lit 20.4444) (.pow L1 3)))
    (.mul (.lit 15.5525) (.pow L1 2))) (.mul (.lit 188.64) L1)) (.lit (-338.531))) (.lit 0.485))
    (.mul (.arg 0) (.add (.add (.sub (.mul (.lit 0.592593) (.pow L1 3)) (.mul (.lit 4.2963) (.pow L1 2)))
      (.mul (.lit 6.3489) L1)) (.lit (46.844 - 0.0035))))

#eval normL 4 c2ns2b_num
#eval normL 4 c2nn2c

/-- coefficient obligation: (k+1) b_{k+1} ≈ a_k within relative τ -/
def coeffsClose (τ : Rat) : List Rat → List Rat → Nat → Bool
  | [], [], _ => true
  | a :: as, b :: bs, k => (decide (((k+1 : Nat) * b - a).abs ≤ τ * a.abs)) && coeffsClose τ as bs (k+1)
  | _, _, _ => false

def obligation (nf : Rat) : Bool :=
  match normL nf c2ns2b_num, normL nf c2nn2c with
  | some a, some (_ :: b) => coeffsClose (1/10000) a b 0
  | _, _ => false

theorem c2ns2_consistent : ∀ nf ∈ [(3:Rat),4,5,6], obligation nf = true := by decide +kernel
#print axioms c2ns2_consistent
#print axioms KExpr.normL_sound
