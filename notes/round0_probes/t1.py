from base import *
t = theory(PTO=1); o = obs({"F2_total":[dict(x=0.1,Q2=10.0)], "FL_total":[dict(x=0.1,Q2=10.0)]})
s=time.time()
out = yadism.run_yadism(t,o)
print(time.time()-s)
r = out["F2_total"][0]
print(r.orders.keys())
print(r.orders[(0,0,0,0)][0][:, :].round(4))
