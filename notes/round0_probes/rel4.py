from rel import run,maxdiff,add
from base import *
import copy, itertools
from eko import basis_rotation as br
idx=br.flavor_basis_pids.index
pts=[dict(x=0.05,Q2=20.0),dict(x=0.3,Q2=90.0)]
def cmp(a,b,f=lambda v:v):
    m=0
    for k in set(a.orders)|set(b.orders):
        m=max(m,np.abs(f(a.orders[k][0])-b.orders[k][0]).max())
    return m
print("== C13a NC -> EM when Z decoupled (MZ huge) ==")
for kind in ["F2","FL","g1"]:
    a=run(theory(PTO=2,MZ=1e12),obs({kind+"_total":pts},prDIS="NC"))
    b=run(theory(PTO=2),obs({kind+"_total":pts},prDIS="EM"))
    print(kind,[ "%.2e"%cmp(a[kind+"_total"][i],b[kind+"_total"][i]) for i in range(2)])
print("== C13b positron P == electron -P ==")
for kind in ["F2","F3","gL","g4","g1"]:
    a=run(theory(PTO=1),obs({kind+"_total":pts},prDIS="NC",ProjectileDIS="positron",PolarizationDIS=0.37))
    b=run(theory(PTO=1),obs({kind+"_total":pts},prDIS="NC",ProjectileDIS="electron",PolarizationDIS=-0.37))
    print(kind,[ "%.2e"%cmp(a[kind+"_total"][i],b[kind+"_total"][i]) for i in range(2)])
print("== C13c nubar = nu on conjugated PDFs, F3 sign flips ==")
def conj(v):
    w=v.copy()
    for q in range(1,7): w[idx(q)],w[idx(-q)]=v[idx(-q)].copy(),v[idx(q)].copy()
    return w
for fns,nfff in [("ZM-VFNS",4),("FFNS",3),("FFN0",3)]:
  for kind,sgn in [("F2",1),("FL",1),("F3",-1)]:
    for h in ["total","charm"]:
      for (pa,pb) in [("antineutrino","neutrino"),("positron","electron")]:
        try:
            a=run(theory(PTO=1,FNS=fns,NfFF=nfff),obs({kind+"_"+h:pts},prDIS="CC",ProjectileDIS=pa))
            b=run(theory(PTO=1,FNS=fns,NfFF=nfff),obs({kind+"_"+h:pts},prDIS="CC",ProjectileDIS=pb))
            print(fns,kind,h,pa,[ "%.2e"%cmp(b[kind+"_"+h][i],a[kind+"_"+h][i],lambda v:sgn*conj(v)) for i in range(2)])
        except Exception as e: print(fns,kind,h,pa,"ERR",type(e).__name__,str(e)[:60])
