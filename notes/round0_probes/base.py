import copy, time, numpy as np
import yadism, yadism.log
yadism.log.silent_mode = True

def theory(**kw):
    t = dict(
        PTO=1, PTODIS=None, FNS="ZM-VFNS", NfFF=4, nf0=4, nfref=5,
        mc=1.51, mb=4.92, mt=172.5, kcThr=1.0, kbThr=1.0, ktThr=1.0,
        MaxNfPdf=6, MP=0.938, Q0=1.65, Qref=91.2, alphas=0.118, alphaqed=0.007496252,
        HQ="POLE", TMC=0, XIR=1.0, XIF=1.0, ModEv="EXA", IC=1, IB=0, QED=0,
        CKM="0.97428 0.22530 0.003470 0.22520 0.97345 0.041000 0.00862 0.04030 0.999152",
        MW=80.398, MZ=91.1876, GF=1.1663787e-05, SIN2TW=0.23126,
        FONLLParts=None, n3lo_cf_variation=0, Qmc=1.51, Qmb=4.92, Qmt=172.5, ModSV=None,
        DAMP=0, SxRes=0, SxOrd="LL", nf0_=None, MaxNfAs=6, fact_to_ren_scale_ratio=1.0,
    )
    t.update(kw); return t

def obs(observables, **kw):
    xg = [float(v) for v in np.geomspace(1e-3, 1.0, 12)]
    o = dict(
        interpolation_xgrid=xg, interpolation_polynomial_degree=3, interpolation_is_log=True,
        prDIS="NC", TargetDIS="proton", ProjectileDIS="electron", PolarizationDIS=0.0,
        PropagatorCorrection=0.0, NCPositivityCharge=None, observables=observables,
    )
    o.update(kw); return o
