"""Translator: Python `ast` of the numerical kernels -> Lean `KExpr` terms, regenerated from
/repo's working tree on every run (DESIGN.md section 3).

It is deliberately dumb: it copies syntax.  Anything it cannot copy (loops, branches, unknown calls)
is reported as `untranslated` with the reason, never guessed.
"""

import ast
import fractions
import importlib
import inspect
import json
import pathlib
import pkgutil
import re
import textwrap

from .common import LEAN, REPO

GEN_DIR = LEAN / "YadismModel" / "Generated"

EXT1 = {"li2": "li2", "ddilog": "li2", "s2": "s2", "S2": "s2", "spence": "spence"}
EXT3 = {"wgplg": "wgplg"}


class Untranslatable(Exception):
    pass


# ------------------------------------------------------------------------------------------------
# expression terms (python side): tuples ("lit", Fraction) ("const", name) ("z",) ("arg", i)
# ("param", name) ("add", a, b) ... ("pow", a, n) ("log", a) ("sqrt", a) ("ext1", name, a)
# ("ext3", name, n, p, a)


def subst(e, zexpr, argmap):
    """substitute z and args in a callee's term. argmap: None = keep, {} = no args available"""
    t = e[0]
    if t == "z":
        return zexpr
    if t == "arg":
        if argmap is None:
            return e
        if e[1] in argmap:
            return argmap[e[1]]
        raise Untranslatable(f"callee reads args[{e[1]}] but the caller passes none")
    if t in ("lit", "const", "param"):
        return e
    if t in ("add", "sub", "mul", "div"):
        return (t, subst(e[1], zexpr, argmap), subst(e[2], zexpr, argmap))
    if t in ("neg", "log", "sqrt"):
        return (t, subst(e[1], zexpr, argmap))
    if t == "pow":
        return (t, subst(e[1], zexpr, argmap), e[2])
    if t == "ext1":
        return (t, e[1], subst(e[2], zexpr, argmap))
    if t == "ext3":
        return (t, e[1], e[2], e[3], subst(e[4], zexpr, argmap))
    raise AssertionError(t)


def lit_from_source(node, src):
    """exact decimal value of a numeric literal as written"""
    if isinstance(node.value, bool) or not isinstance(node.value, (int, float)):
        raise Untranslatable(f"non-numeric constant {node.value!r}")
    txt = ast.get_source_segment(src, node) if src else None
    if txt is None:
        return fractions.Fraction(node.value)
    txt = txt.replace("_", "").lower()
    try:
        return fractions.Fraction(txt)
    except ValueError:
        return fractions.Fraction(node.value)


class ModuleInfo:
    cache = {}

    def __init__(self, mod):
        self.mod = mod
        self.src = inspect.getsource(mod)
        self.tree = ast.parse(self.src)
        self.funcs = {}
        self.assigns = {}
        for n in self.tree.body:
            if isinstance(n, ast.FunctionDef):
                self.funcs[n.name] = n
            elif isinstance(n, ast.Assign) and len(n.targets) == 1 and isinstance(n.targets[0], ast.Name):
                self.assigns[n.targets[0].id] = n.value
        # names that some function of the module rebinds at run time (`global X; X = ...`): a compiled
        # kernel freezes the value such a name had when it was compiled, the interpreter looks it up on
        # every call - a kernel that reads one has no single meaning
        self.rebound = set()
        for n in ast.walk(self.tree):
            if isinstance(n, ast.Global):
                self.rebound.update(n.names)

    @classmethod
    def of(cls, mod):
        if mod.__name__ not in cls.cache:
            cls.cache[mod.__name__] = cls(mod)
        return cls.cache[mod.__name__]


def known_constants():
    import numpy as np
    from eko import constants

    from yadism.coefficient_functions.special import zeta

    out = {id(constants.CF): "CF", id(constants.CA): "CA", id(constants.TR): "TR", id(np.pi): "pi"}
    for nm in ("zeta2", "zeta3", "zeta4", "zeta5"):
        if hasattr(zeta, nm):
            out[id(getattr(zeta, nm))] = nm
    return out


class Translator:
    def __init__(self):
        self.done = {}  # (module name, func name) -> term or Untranslatable
        self.consts = known_constants()
        self.stack = []

    # -- resolution of a global name of module `mi`
    def global_value(self, mi, name, depth=0):
        mod = mi.mod
        if name in mi.rebound:
            raise Untranslatable(f"module-level name {name} is rebound at run time (`global {name}`): compiled code freezes it, the interpreter does not")
        if not hasattr(mod, name):
            raise Untranslatable(f"unknown name {name}")
        val = getattr(mod, name)
        if id(val) in self.consts:
            return ("const", self.consts[id(val)])
        if isinstance(val, (int, float)) and not isinstance(val, bool):
            # prefer the defining expression (e.g. d81 = 1.0 / 81.0) so that rationals stay exact
            if name in mi.assigns and depth < 5:
                try:
                    return self.expr(mi, mi.assigns[name], {}, None, None, depth + 1)
                except Untranslatable:
                    pass
            else:
                # imported from another module of the package?
                for n in mi.tree.body:
                    if isinstance(n, ast.ImportFrom):
                        for a in n.names:
                            if (a.asname or a.name) == name:
                                try:
                                    src_mod = importlib.import_module("." * n.level + (n.module or ""), mod.__package__) if n.level else importlib.import_module(n.module)
                                    smi = ModuleInfo.of(src_mod)
                                    if a.name in smi.assigns and depth < 5:
                                        return self.expr(smi, smi.assigns[a.name], {}, None, None, depth + 1)
                                except Exception:
                                    pass
            return ("lit", fractions.Fraction(val))
        return ("pyobj", val)

    def resolve_callable(self, mi, node):
        """python object a call target refers to (module-level resolution only)"""
        if isinstance(node, ast.Name):
            if hasattr(mi.mod, node.id):
                return getattr(mi.mod, node.id)
            raise Untranslatable(f"unknown callable {node.id}")
        if isinstance(node, ast.Attribute):
            base = self.resolve_callable(mi, node.value)
            return getattr(base, node.attr)
        raise Untranslatable("call target " + ast.dump(node)[:60])

    def expr(self, mi, node, env, zname, aname, depth=0):
        src = mi.src
        if isinstance(node, ast.Constant):
            return ("lit", lit_from_source(node, src))
        if isinstance(node, ast.Name):
            if node.id in env:
                if env[node.id][0] == "pyobj":
                    raise Untranslatable(f"name {node.id} is a function")
                return env[node.id]
            if node.id == zname:
                return ("z",)
            if node.id == aname:
                raise Untranslatable("bare use of the args vector")
            g = self.global_value(mi, node.id, depth)
            if g[0] == "pyobj":
                raise Untranslatable(f"name {node.id} is not a number")
            return g
        if isinstance(node, ast.Attribute) and node.attr == "real" and isinstance(node.value, ast.Call):
            # nielsen(n, p, x).real
            c = node.value
            try:
                obj = self.resolve_callable(mi, c.func) if not (isinstance(c.func, ast.Name) and c.func.id in env) else env[c.func.id][1]
            except Untranslatable:
                obj = None
            oname = getattr(obj, "__name__", None) or getattr(getattr(obj, "py_func", None), "__name__", None)
            if oname == "nielsen" and len(c.args) == 3 and isinstance(c.args[0], ast.Constant) and isinstance(c.args[1], ast.Constant):
                return ("ext3", "nielsen_re", int(c.args[0].value), int(c.args[1].value), self.expr(mi, c.args[2], env, zname, aname, depth))
            raise Untranslatable(".real of " + ast.unparse(c.func))
        if isinstance(node, ast.Attribute):
            obj = self.resolve_callable(mi, node)
            if id(obj) in self.consts:
                return ("const", self.consts[id(obj)])
            if isinstance(obj, (int, float)) and not isinstance(obj, bool):
                # a number defined in another module of the package: prefer its defining expression
                try:
                    base = self.resolve_callable(mi, node.value)
                    if inspect.ismodule(base) and base.__name__.startswith("yadism") and depth < 5:
                        bmi = ModuleInfo.of(base)
                        if node.attr in bmi.assigns:
                            return self.expr(bmi, bmi.assigns[node.attr], {}, None, None, depth + 1)
                except (Untranslatable, OSError, TypeError):
                    pass
                return ("lit", fractions.Fraction(obj))
            raise Untranslatable("attribute " + ast.unparse(node))
        if isinstance(node, ast.UnaryOp):
            a = self.expr(mi, node.operand, env, zname, aname, depth)
            if isinstance(node.op, ast.USub):
                return ("neg", a)
            if isinstance(node.op, ast.UAdd):
                return a
            raise Untranslatable("unary " + type(node.op).__name__)
        if isinstance(node, ast.BinOp):
            if isinstance(node.op, ast.Pow):
                base = self.expr(mi, node.left, env, zname, aname, depth)
                ex = node.right
                neg = False
                if isinstance(ex, ast.UnaryOp) and isinstance(ex.op, ast.USub):
                    neg, ex = True, ex.operand
                if isinstance(ex, ast.Constant) and isinstance(ex.value, (int, float)) and float(ex.value) == int(ex.value) and int(ex.value) >= 0:
                    p = ("pow", base, int(ex.value))
                    return ("div", ("lit", fractions.Fraction(1)), p) if neg else p
                if isinstance(ex, ast.Constant) and ex.value == 0.5 and not neg:
                    return ("sqrt", base)
                raise Untranslatable("power with exponent " + ast.unparse(node.right))
            a = self.expr(mi, node.left, env, zname, aname, depth)
            b = self.expr(mi, node.right, env, zname, aname, depth)
            ops = {ast.Add: "add", ast.Sub: "sub", ast.Mult: "mul", ast.Div: "div"}
            if type(node.op) in ops:
                return (ops[type(node.op)], a, b)
            raise Untranslatable("binop " + type(node.op).__name__)
        if isinstance(node, ast.Subscript):
            if isinstance(node.value, ast.Name) and node.value.id == aname:
                idx = node.slice
                if isinstance(idx, ast.Constant) and isinstance(idx.value, int) and idx.value >= 0:
                    return ("arg", idx.value)
            raise Untranslatable("subscript " + ast.unparse(node))
        if isinstance(node, ast.Call):
            fn = node.func
            fname = ast.unparse(fn)
            if fname in ("int", "float") and len(node.args) == 1:
                return self.expr(mi, node.args[0], env, zname, aname, depth)
            if fname in ("np.log", "numpy.log", "math.log") and len(node.args) == 1:
                return ("log", self.expr(mi, node.args[0], env, zname, aname, depth))
            if fname in ("np.sqrt", "numpy.sqrt", "math.sqrt") and len(node.args) == 1:
                return ("sqrt", self.expr(mi, node.args[0], env, zname, aname, depth))
            if fname in ("np.power",) and len(node.args) == 2:
                return self.expr(mi, ast.BinOp(left=node.args[0], op=ast.Pow(), right=node.args[1]), env, zname, aname, depth)
            if isinstance(fn, ast.Name) and fn.id in env and env[fn.id][0] == "pyobj":
                obj = env[fn.id][1]
            else:
                obj = self.resolve_callable(mi, fn)
            oname = getattr(obj, "__name__", None) or getattr(getattr(obj, "py_func", None), "__name__", None)
            if oname in EXT1 and len(node.args) == 1:
                return ("ext1", EXT1[oname], self.expr(mi, node.args[0], env, zname, aname, depth))
            if oname in EXT3 and len(node.args) == 3:
                n, p = node.args[0], node.args[1]
                if isinstance(n, ast.Constant) and isinstance(p, ast.Constant):
                    return ("ext3", EXT3[oname], int(n.value), int(p.value), self.expr(mi, node.args[2], env, zname, aname, depth))
                raise Untranslatable("wgplg with non-literal indices")
            # another kernel of the package
            pyf = getattr(obj, "py_func", obj)
            if inspect.isfunction(pyf) and pyf.__module__.startswith("yadism"):
                callee = self.function(importlib.import_module(pyf.__module__), pyf.__name__)
                zexpr = self.expr(mi, node.args[0], env, zname, aname, depth)
                if len(node.args) == 1:
                    return subst(callee, zexpr, None)
                a2 = node.args[1]
                if isinstance(a2, ast.Name) and a2.id == aname:
                    return subst(callee, zexpr, None)
                if isinstance(a2, ast.Name) and a2.id in env and env[a2.id][0] == "arglist":
                    return subst(callee, zexpr, dict(enumerate(env[a2.id][1])))
                if isinstance(a2, ast.Call) and ast.unparse(a2.func) in ("np.array", "numpy.array"):
                    lst = a2.args[0]
                    if isinstance(lst, ast.List):
                        items = [self.expr(mi, it, env, zname, aname, depth) for it in lst.elts]
                        return subst(callee, zexpr, dict(enumerate(items)))
                raise Untranslatable("kernel call with args " + ast.unparse(a2)[:40])
            raise Untranslatable("call " + fname)
        raise Untranslatable("node " + type(node).__name__)

    def function(self, mod, name):
        key = (mod.__name__, name)
        if key in self.done:
            r = self.done[key]
            if isinstance(r, Untranslatable):
                raise r
            return r
        if key in self.stack:
            raise Untranslatable("recursive kernel")
        self.stack.append(key)
        try:
            mi = ModuleInfo.of(mod)
            if name not in mi.funcs:
                raise Untranslatable(f"{name} is not a module-level function of {mod.__name__}")
            fd = mi.funcs[name]
            params = [a.arg for a in fd.args.args]
            zname = params[0] if params else None
            aname = params[1] if len(params) > 1 else None
            env = {}
            result = None
            for st in fd.body:
                if isinstance(st, ast.Expr) and isinstance(st.value, ast.Constant):
                    continue  # docstring
                if isinstance(st, ast.Assign) and len(st.targets) == 1 and isinstance(st.targets[0], ast.Name):
                    try:
                        env[st.targets[0].id] = self.expr(mi, st.value, env, zname, aname)
                    except Untranslatable:
                        # a local alias of a function (`S2 = special.s2`)
                        if isinstance(st.value, (ast.Name, ast.Attribute)):
                            obj = self.resolve_callable(mi, st.value)
                            if callable(obj):
                                env[st.targets[0].id] = ("pyobj", obj)
                                continue
                        raise
                    continue
                if isinstance(st, ast.AugAssign) and isinstance(st.target, ast.Name) and st.target.id in env:
                    ops = {ast.Add: "add", ast.Sub: "sub", ast.Mult: "mul", ast.Div: "div"}
                    if type(st.op) in ops:
                        env[st.target.id] = (ops[type(st.op)], env[st.target.id], self.expr(mi, st.value, env, zname, aname))
                        continue
                if isinstance(st, ast.Return):
                    result = self.expr(mi, st.value, env, zname, aname)
                    break
                raise Untranslatable("statement " + type(st).__name__)
            if result is None:
                raise Untranslatable("no return")
            self.done[key] = result
            return result
        except Untranslatable as e:
            self.done[key] = e
            raise
        finally:
            self.stack.pop()


# ------------------------------------------------------------------------------------------------
# Lean output


def lean_rat(f):
    if f.denominator == 1:
        return f"({f.numerator} : Rat)" if f.numerator >= 0 else f"(({f.numerator}) : Rat)"
    return f"(({f.numerator} : Rat) / {f.denominator})"


def to_lean(e):
    t = e[0]
    if t == "lit":
        return f"(lit {lean_rat(e[1])})"
    if t == "const":
        return f'(const "{e[1]}")'
    if t == "param":
        return f'(param "{e[1]}")'
    if t == "z":
        return "z"
    if t == "arg":
        return f"(arg {e[1]})"
    if t in ("add", "sub", "mul", "div"):
        return f"({t} {to_lean(e[1])} {to_lean(e[2])})"
    if t in ("neg", "log", "sqrt"):
        return f"({t} {to_lean(e[1])})"
    if t == "pow":
        return f"(pow {to_lean(e[1])} {e[2]})"
    if t == "ext1":
        return f'(ext1 "{e[1]}" {to_lean(e[2])})'
    if t == "ext3":
        return f'(ext3 "{e[1]}" {e[2]} {e[3]} {to_lean(e[4])})'
    raise AssertionError(t)


def size(e):
    return 1 + sum(size(x) for x in e[1:] if isinstance(x, tuple))


def lean_ident(mod, name):
    short = mod.replace("yadism.coefficient_functions.", "").replace("yadism.", "")
    return "k_" + re.sub(r"[^A-Za-z0-9_]", "_", short + "__" + name)


def njit_functions():
    """all `@nb.njit` decorated module-level functions of the package: (module, name, signature)"""
    import yadism

    out = []
    for m in pkgutil.walk_packages(yadism.__path__, "yadism."):
        if ".tests" in m.name:
            continue
        try:
            mod = importlib.import_module(m.name)
        except Exception:
            continue
        try:
            mi = ModuleInfo.of(mod)
        except (OSError, TypeError):
            continue
        for name, fd in mi.funcs.items():
            for d in fd.decorator_list:
                txt = ast.unparse(d)
                if "njit" in txt:
                    sig = re.search(r"'([^']+)'", txt)
                    out.append((mod, name, sig.group(1) if sig else ""))
    return out


def generate(write=True):
    """translate every njit kernel; write Generated/Kernels.lean; return the report dict"""
    tr = Translator()
    kernels = {}
    untranslated = {}
    for mod, name, sig in njit_functions():
        full = f"{mod.__name__}.{name}"
        try:
            term = tr.function(mod, name)
            kernels[full] = dict(term=term, sig=sig, ident=lean_ident(mod.__name__, name), size=size(term))
        except Untranslatable as e:
            untranslated[full] = dict(sig=sig, reason=str(e))
        except RecursionError:
            untranslated[full] = dict(sig=sig, reason="recursion")
    if write:
        GEN_DIR.mkdir(parents=True, exist_ok=True)
        lines = [
            "/- GENERATED by harness/translate.py from /repo's working tree: do not edit. -/",
            "import YadismModel.Model.KExpr",
            "set_option maxRecDepth 100000",
            "namespace Yadism.Gen",
            "open Yadism Yadism.KExpr",
            "",
        ]
        for full, k in sorted(kernels.items()):
            lines.append(f"/-- `{full}` ({k['sig']}) -/")
            lines.append(f"def {k['ident']} : KExpr :=")
            lines.append("  " + to_lean(k["term"]))
            lines.append("")
        lines.append("def kernelTable : List (String × KExpr) := [")
        lines.append(",\n".join(f'  ("{full}", {k["ident"]})' for full, k in sorted(kernels.items())))
        lines.append("]")
        lines.append("")
        lines.append("end Yadism.Gen")
        (GEN_DIR / "Kernels.lean").write_text("\n".join(lines) + "\n")
    return dict(kernels=kernels, untranslated=untranslated)


def generate_callsites(rep, sites, write=True):
    """Generated/CallSites.lean: every (class, order, part) that hands an argument vector to a
    translated module-level kernel: (label, kernel term, length of the vector)."""
    rows = []
    seen = set()
    skipped = {}
    for s in sites:
        for part, (name, module_level, alen) in s["parts"].items():
            if not module_level:
                continue
            label = f"{s['fam']}.{s['module']}.{s['cls']}[{s['order']}].{part}"
            if name not in rep["kernels"]:
                skipped[label] = name
                continue
            key = (label, name, alen)
            if key in seen:
                continue  # same for every nf
            seen.add(key)
            rows.append((label, name, rep["kernels"][name]["ident"], alen))
    if write:
        lines = [
            "/- GENERATED by harness/translate.py (call sites read from the live classes): do not edit. -/",
            "import YadismModel.Generated.Kernels",
            "namespace Yadism.Gen",
            "open Yadism",
            "",
            "/-- `(call site, kernel name, kernel term, len(args[part]))` -/",
            "def callSites : List (String × String × KExpr × Nat) := [",
            ",\n".join(f'  ("{lab}", "{name}", {ident}, {alen})' for lab, name, ident, alen in sorted(rows)),
            "]",
            "",
            "end Yadism.Gen",
        ]
        (GEN_DIR / "CallSites.lean").write_text("\n".join(lines) + "\n")
    return rows, skipped


C03_EXPECTED = pathlib.Path(__file__).resolve().parent / "c03_expected.json"


def generate_triples(rep, sites, classify, write=True):
    """Generated/Triples.lean: the (sing, loc) pairs and loc-only kernels of the live call sites.

    `classify(sing_name, loc_name)` -> 'exact' | 'approx' | 'outside' asks the Lean normaliser.
    Pairs listed in c03_expected.json keep the class recorded there (so that a pair that *stops*
    satisfying its obligation breaks the theorem instead of silently changing class)."""
    expected = json.loads(C03_EXPECTED.read_text()) if C03_EXPECTED.exists() else {}
    pairs = {}
    loc_only = {}
    from_distr = 0
    closures = {}
    for s in sites:
        if s["status"] != "rsl":
            continue
        p = s["parts"]
        label = f"{s['fam']}.{s['module']}.{s['cls']}[{s['order']}]"
        sing, loc = p.get("sing"), p.get("loc")
        if sing is None and loc is None:
            continue
        if sing and sing[0].endswith("sing_from_distr_coeffs") and loc and loc[0].endswith("loc_from_distr_coeffs"):
            from_distr += 1
            continue
        if loc and loc[0].endswith("loc_from_delta") and sing is None:
            from_distr += 1
            continue
        if sing is None:
            if loc[1] and loc[0] in rep["kernels"]:
                loc_only.setdefault(loc[0], label)
            else:
                closures.setdefault(("-", loc[0]), label)
            continue
        if loc is None:
            closures.setdefault((sing[0], "-"), label)
            continue
        if sing[1] and loc[1] and sing[0] in rep["kernels"] and loc[0] in rep["kernels"]:
            pairs.setdefault((sing[0], loc[0]), label)
        else:
            closures.setdefault((sing[0], loc[0]), label)
    classes = {}
    for (sn, ln), label in pairs.items():
        key = f"{sn}|{ln}"
        classes[key] = expected.get(key) or classify(sn, ln)
    if write:
        K = rep["kernels"]
        def rows(cls):
            return ",\n".join(f'  ("{label}", {K[sn]["ident"]}, {K[ln]["ident"]})' for (sn, ln), label in sorted(pairs.items()) if classes[f"{sn}|{ln}"] == cls)
        lines = [
            "/- GENERATED by harness/translate.py (pairs read from the live classes): do not edit. -/",
            "import YadismModel.Generated.Kernels",
            "namespace Yadism.Gen",
            "open Yadism",
            "",
            "/-- `(first call site, sing, loc)`: obligation expected to hold exactly -/",
            "def exactPairs : List (String × KExpr × KExpr) := [",
            rows("exact"),
            "]",
            "",
            "/-- obligation expected to hold within the digits of the published parametrisation -/",
            "def approxPairs : List (String × KExpr × KExpr) := [",
            rows("approx"),
            "]",
            "",
            "/-- local parts without a singular part -/",
            "def locOnly : List (String × KExpr) := [",
            ",\n".join(f'  ("{label}", {K[ln]["ident"]})' for ln, label in sorted(loc_only.items())),
            "]",
            "",
            "end Yadism.Gen",
        ]
        (GEN_DIR / "Triples.lean").write_text("\n".join(lines) + "\n")
    return dict(pairs=pairs, classes=classes, loc_only=loc_only, from_distr_sites=from_distr, closures=closures)


def generate_dispatch(sites, modules, write=True):
    """Generated/Dispatch.lean: which {family}/{kind}_{process} modules exist, which partonic-channel
    classes each provides and what each order's constructor does (read from the live classes), the
    TMC map keys and the observable-name tables."""
    from yadism import observable_name as on
    from yadism.esf import tmc

    table = {}
    for s in sites:
        if s["fam"] == "split" or s["order"] is None:
            continue
        kind, proc = s["module"].rsplit("_", 1)
        key = (s["fam"], kind, proc)
        cls = table.setdefault(key, {}).setdefault(s["cls"], {})
        st = "rsl" if s["status"] == "rsl" else ("none" if s["status"] == "none" else "err")
        # an order is as bad as its worst nf (heavy nf=6 is unreachable and not instantiated)
        prev = cls.get(s["order"])
        rank = {"none": 0, "rsl": 1, "err": 2}
        if prev is None or rank[st] > rank[prev]:
            cls[s["order"]] = st
    for (fam, mod), status in modules.items():
        if mod.endswith("_nc") or mod.endswith("_cc"):
            kind, proc = mod.rsplit("_", 1)
            if status != "ok":
                table[(fam, kind, proc)] = "import-error"
            else:
                table.setdefault((fam, kind, proc), {})
    if write:
        def row(key, v):
            fam, kind, proc = key
            if v == "import-error":
                return f'  (("{fam}", "{kind}", "{proc}"), none)'
            cl = ", ".join(f'("{c}", [{", ".join(chr(34) + o.get(i, "none") + chr(34) for i in range(4))}])' for c, o in sorted(v.items()))
            return f'  (("{fam}", "{kind}", "{proc}"), some [{cl}])'
        lines = [
            "/- GENERATED by harness/translate.py (read from the live modules/classes): do not edit. -/",
            "namespace Yadism.Gen",
            "",
            "/-- `(family, kind, process) ↦ none` (module exists but fails to import) or the classes it",
            "provides with, per order 0..3, `rsl` / `none` / `err` (constructor raises) -/",
            "def moduleTable : List ((String × String × String) × Option (List (String × List String))) := [",
            ",\n".join(row(k, v) for k, v in sorted(table.items())),
            "]",
            "",
            f"def tmcKinds : List String := [{', '.join(chr(34) + k + chr(34) for k in tmc.ESFTMCmap)}]",
            f"def sfKinds : List String := [{', '.join(chr(34) + k + chr(34) for k in on.sfs)}]",
            f"def xsKinds : List String := [{', '.join(chr(34) + k + chr(34) for k in on.xs)}]",
            f"def allKinds : List String := [{', '.join(chr(34) + k + chr(34) for k in on.kinds)}]",
            f"def allFlavors : List String := [{', '.join(chr(34) + k + chr(34) for k in on.flavors)}]",
            "",
            "end Yadism.Gen",
        ]
        (GEN_DIR / "Dispatch.lean").write_text("\n".join(lines) + "\n")
    return table
