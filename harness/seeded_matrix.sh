#!/bin/sh
# usage: harness/seeded_matrix.sh [ids…] : apply every seeded change to /repo in turn, run the check(s)
# recorded in its meta.json (quick tier), undo it, and print one line per change.
# Never run concurrently with anything else that uses /repo.
cd /verif || exit 2
ids="$@"; [ -z "$ids" ] && ids=$(ls seeded)
for id in $ids; do
  patch=/verif/seeded/$id/patch.diff
  checks=$(python3 -c "import json;print(' '.join(json.load(open('seeded/$id/meta.json'))['detection']['caught_by']))")
  if ! git -C /repo apply --check "$patch" 2>/dev/null; then echo "$id: PATCH-DOES-NOT-APPLY"; continue; fi
  git -C /repo apply "$patch"
  res=""
  for c in $checks; do
    out=$(./check "$c" quick 2>&1); rc=$?
    if echo "$out" | grep -q "^VIOLATION.*no-failing-input-found"; then v="violation(no-input)";
    elif echo "$out" | grep -q "^VIOLATION"; then v="violation+input";
    elif [ $rc -eq 0 ]; then v="MISSED"; else v="rc=$rc"; fi
    res="$res $c:$v"
  done
  git -C /repo checkout -- .
  echo "$id:$res"
done
git -C /repo status --short | head -3
