#!/bin/sh
# usage: harness/mutcheck.sh <patch> <tier> <check ids...> : apply a seeded change to /repo, run checks, undo
patch="$1"; tier="$2"; shift 2
git -C /repo apply "$patch" || exit 3
for c in "$@"; do
  out=$(/verif/check "$c" "$tier" 2>&1); rc=$?
  echo "== $c rc=$rc"; echo "$out" | grep -E "VIOLATION|KNOWN|OK property|INFRA|failing:|broken:" | cut -c1-300 | head -6
done
git -C /repo checkout -- .
git -C /repo status --short | head -3
