"""The configuration lattice of C16 and two ways of exercising a cell on the real code:
`structural` (Runner construction, Combiner, every kernel's RSL construction and one evaluation of
each part — no quadrature) and `full` (a real run)."""

import itertools

import numpy as np

from . import cards

KINDS = ["F2", "FL", "F3", "g1", "gL", "g4"]
FLAVORS = ["total", "light", "charm", "bottom", "top"]
SCHEMES = [("ZM-VFNS", 4), ("ZM-VFNS@1e5", 4), ("FFN0%3", 3), ("FFN0%3", 4), ("FONLL-FFN0%3", 3), ("FFNS", 6), ("FFNS", 3), ("FFNS", 4), ("FFNS", 5), ("FFN0", 3), ("FFN0", 4), ("FFN0", 5), ("FONLL-FFNS", 3), ("FONLL-FFNS", 4), ("FONLL-FFN0", 3), ("FONLL-FFN0", 4),
           ("ZM-VFNS%+", 4), ("FFNS%+", 3), ("FFN0%+", 3), ("FONLL-FFN0%+", 4)]
PROCS = [("EM", "electron"), ("EM", "positron"), ("NC", "electron"), ("NC", "positron"), ("CC", "electron"), ("CC", "positron"), ("CC", "neutrino"), ("CC", "antineutrino")]
XSKINDS = cards.XS


def all_cells():
    """(name-kind, flavor, process, projectile, FNS, NfFF, PTO, TMC)"""
    for kind, fl, (pr, proj), (fns, nfff), pto, tmc in itertools.product(KINDS + XSKINDS, FLAVORS, PROCS, SCHEMES, (0, 1, 2, 3), (0, 1, 2, 3)):
        yield (kind, fl, pr, proj, fns, nfff, pto, tmc)


def evol_order(cell):
    """order of the evolution (theory card `PTO`): the DIS order capped at 2, or equal to it for the
    `%3` variants (N3LL asymptotic logarithms), or one above it for the `%+` variants (card option
    `PTODIS` below `PTO`: evolution at a higher order than the coefficient functions)"""
    if "%+" in cell[4]:
        return min(cell[6] + 1, 3)
    return cell[6] if "%3" in cell[4] else min(cell[6], 2)


EXPLICIT = (ValueError, NotImplementedError)


def classify_exception(e):
    """'rejected' = an explicit error naming the unsupported request / kinematic domain"""
    msg = str(e)
    if isinstance(e, NotImplementedError):
        return "rejected:" + msg[:60]
    if isinstance(e, ValueError) and any(t in msg for t in ("Kinematics", "outside xgrid", "not available", "not implemented", "Unknown", "not recognized", "cannot convolve")):
        return "rejected:" + msg[:60]
    return f"internal:{type(e).__name__}:{msg[:60]}"


def make_cards(cell, x=0.15, Q2=30.0, y=0.5, grid=None):
    kind, fl, pr, proj, fns, nfff, pto, tmc = cell
    if "@" in fns:  # same scheme at a virtuality above the top threshold (six active flavours)
        fns, q2s = fns.split("@")
        Q2 = float(q2s)
    evol = evol_order(cell)
    fns = fns.split("%")[0]
    grid = grid or [float(v) for v in np.geomspace(1e-2, 1.0, 6)]
    t = cards.theory(PTO=evol, PTODIS=pto, FNS=fns, NfFF=nfff, TMC=tmc)
    kin = dict(x=x, Q2=Q2)
    if kind in XSKINDS:
        kin["y"] = y
    o = cards.obs({f"{kind}_{fl}": [kin]}, prDIS=pr, ProjectileDIS=proj, interpolation_xgrid=grid, interpolation_polynomial_degree=2)
    return t, o


def structural(cell):
    """outcome class of a cell without running any quadrature"""
    import yadism
    from yadism import observable_name as on
    from yadism.coefficient_functions import Combiner
    from yadism.esf import tmc as tmcmod

    kind, fl, pr, proj, fns, nfff, pto, tmc = cell
    t, o = make_cards(cell)
    try:
        runner = yadism.Runner(t, o)
        name = f"{kind}_{fl}"
        obj = runner.observables[name]
        todo = []
        if kind in XSKINDS:
            sfs = ["g4", "gL", "g1"] if kind == "g5" else ["F2", "FL", "F3"]
            for s_ in sfs:
                todo.append(on.ObservableName(f"{s_}_{fl}"))
        else:
            todo.append(on.ObservableName(name))
        for oname in todo:
            sf = runner.get_sf(oname)
            Q2 = o["observables"][name][0]["Q2"]
            esf = sf.get_esf(oname, dict(x=0.15, Q2=Q2), use_raw=False)
            if type(esf).__name__.startswith("ESFTMC"):
                # the TMC formulas request the same kind and F2 (g1) at shifted kinematics
                inner = [oname] + ([oname.apply_kind("F2")] if oname.kind in ("F2", "FL") else []) + ([oname.apply_kind("g1")] if oname.kind == "g1" else [])
                esfs = [sf.get_esf(i_, dict(x=0.2, Q2=Q2)) for i_ in inner]
            else:
                esfs = [esf]
            for e_ in esfs:
                for k in Combiner(e_).collect_elems():
                    for od in e_.orders:
                        if not k.has_order(od):
                            continue
                        rsl = k.coeff[od]()
                        if rsl is None:
                            continue
                        for part in ("reg", "sing", "loc"):
                            f = getattr(rsl, part)
                            if f is not None:
                                f(0.5, rsl.args[part])
        return "ok"
    except Exception as e:  # noqa
        return classify_exception(e)


def structural_values(cell, zs=(0.5, 0.25, 0.8)):
    """like `structural`, but returns the values of every part of every kernel at a few z
    (used to compare compiled and interpreted execution cell by cell): (outcome, [values])"""
    import yadism
    from yadism import observable_name as on
    from yadism.coefficient_functions import Combiner

    kind, fl, pr, proj, fns, nfff, pto, tmc = cell
    t, o = make_cards(cell)
    vals = []
    try:
        runner = yadism.Runner(t, o)
        name = f"{kind}_{fl}"
        oname = on.ObservableName(name)
        sf = runner.get_sf(oname)
        Q2 = o["observables"][name][0]["Q2"]
        esf = sf.get_esf(oname, dict(x=0.15, Q2=Q2), use_raw=True)
        for k in Combiner(esf).collect_elems():
            for od in esf.orders:
                if not k.has_order(od):
                    continue
                rsl = k.coeff[od]()
                if rsl is None:
                    continue
                for part in ("reg", "sing", "loc"):
                    f = getattr(rsl, part)
                    if f is not None:
                        for z in zs:
                            vals.append(float(f(z, rsl.args[part])))
        return "ok", vals
    except Exception as e:  # noqa
        return classify_exception(e), vals


def full(cell):
    import yadism

    t, o = make_cards(cell)
    kind, fl = cell[0], cell[1]
    try:
        out = yadism.run_yadism(t, o)
        r = out[f"{kind}_{fl}"][0]
        fin = all(np.isfinite(v).all() and np.isfinite(e).all() for v, e in r.orders.values())
        return "ok" if fin else "nonfinite"
    except Exception as e:  # noqa
        return classify_exception(e)


def full_multi(cell):
    """a real run over a list of points with a repeated entry (same point listed twice, and a third
    one in between): outcome class, and the output must hold one finite result per listed point"""
    import yadism

    t, o = make_cards(cell)
    kind, fl = cell[0], cell[1]
    name = f"{kind}_{fl}"
    kin = o["observables"][name][0]
    pts = [dict(kin), dict(kin, x=0.3), dict(kin), dict(kin, Q2=kin["Q2"] * 2), dict(kin, x=0.3)]
    o["observables"][name] = pts
    try:
        out = yadism.run_yadism(t, o)
        rs = out[name]
        if len(rs) != len(pts) or any(r is None for r in rs):
            return f"internal:shape:{len(rs)} results for {len(pts)} points"
        if any(float(r.x) != p["x"] or float(r.Q2) != p["Q2"] for r, p in zip(rs, pts)):
            return "internal:shape:results not in the order of the request"
        fin = all(np.isfinite(v).all() and np.isfinite(e).all() for r in rs for v, e in r.orders.values())
        return "ok" if fin else "nonfinite"
    except Exception as e:  # noqa
        return classify_exception(e)


def full_variant(req):
    """a real run of a request shape outside the lattice: `short` = the observable named by its kind
    alone (flavour defaults to total); `top` = an interpolation grid ending at `top` < 1 with a point
    above it; outcome class, finiteness, and the output keyed by the name as given"""
    import yadism

    kind, pr, proj, tmc, short, top, x = req
    name = kind if short else f"{kind}_total"
    kin = dict(x=x, Q2=20.0)
    if kind in XSKINDS:
        kin["y"] = 0.5
    grid = [float(v) * top for v in np.geomspace(1e-2, 1.0, 7)]
    t = cards.theory(PTO=0 if kind != "FL" else 1, TMC=tmc)
    o = cards.obs({name: [kin]}, prDIS=pr, ProjectileDIS=proj, interpolation_xgrid=grid, interpolation_polynomial_degree=2)
    try:
        out = yadism.run_yadism(t, o)
        r = out[name][0]
        fin = all(np.isfinite(v).all() and np.isfinite(e).all() for v, e in r.orders.values())
        return "ok" if fin else "nonfinite"
    except Exception as e:  # noqa
        return classify_exception(e)


def _init():
    from . import common

    common.setup_env()


def run_parallel(fn, cells, procs=14):
    import multiprocessing as mp

    ctx = mp.get_context("fork")
    with ctx.Pool(procs, initializer=_init) as pool:
        return pool.map(fn, cells, chunksize=max(1, len(cells) // (procs * 8)))
