"""Translator for the heavy-quark threshold logic (C09): copies the guard of
`NeutralCurrentBase.is_below_pair_threshold`, `_xi`, `_eta`, the charged-current `labda` and
`convolution_point` to `KExpr` terms, and records the *shape* facts the theorems need as tables:
which closures carry the partonic guard, that the hadronic decorator wraps every order, the early
exits of `conv.convolution`, and which mass each heavy kernel generator looks up."""

import ast
import fractions
import importlib
import inspect

from .translate import GEN_DIR, Untranslatable, lit_from_source, to_lean

CMP = {ast.LtE: "le", ast.Lt: "lt", ast.GtE: "ge", ast.Gt: "gt"}
NC_MODULES = ["f2_nc", "fl_nc", "f3_nc", "g1_nc", "gl_nc", "g4_nc"]
CC_MODULES = ["f2_cc", "fl_cc", "f3_cc"]
ORDERS = ["LO", "NLO", "NNLO", "N3LO"]


class Ex:
    """tiny expression copier with a name environment"""

    def __init__(self, src):
        self.src = src

    def ex(self, node, env):
        if isinstance(node, ast.Constant):
            return ("lit", lit_from_source(node, self.src))
        txt = ast.unparse(node)
        if txt in env:
            return env[txt]
        if isinstance(node, ast.UnaryOp) and isinstance(node.op, ast.USub):
            return ("neg", self.ex(node.operand, env))
        if isinstance(node, ast.BinOp):
            if isinstance(node.op, ast.Pow) and isinstance(node.right, ast.Constant) and isinstance(node.right.value, int) and node.right.value >= 0:
                return ("pow", self.ex(node.left, env), node.right.value)
            op = {ast.Add: "add", ast.Sub: "sub", ast.Mult: "mul", ast.Div: "div"}.get(type(node.op))
            if op:
                return (op, self.ex(node.left, env), self.ex(node.right, env))
        if isinstance(node, ast.Call) and txt.startswith("np.log(") and len(node.args) == 1:
            return ("log", self.ex(node.args[0], env))
        raise Untranslatable("expression " + txt[:60])


def class_node(tree, name):
    for n in tree.body:
        if isinstance(n, ast.ClassDef) and n.name == name:
            return n
    raise Untranslatable(f"class {name} not found")


def method_node(cls, name):
    for n in cls.body:
        if isinstance(n, ast.FunctionDef) and n.name == name:
            return n
    raise Untranslatable(f"method {cls.name}.{name} not found")


def body_wo_doc(fd):
    return [s for s in fd.body if not (isinstance(s, ast.Expr) and isinstance(s.value, ast.Constant))]


def extract():
    rep = dict(failed={})
    hp = importlib.import_module("yadism.coefficient_functions.heavy.partonic_channel")
    src = inspect.getsource(hp)
    tree = ast.parse(src)
    E = Ex(src)

    def attempt(key, fn):
        try:
            rep[key] = fn()
        except Untranslatable as e:
            rep["failed"][key] = str(e)
            rep[key] = None

    # --- NeutralCurrentBase
    ncb = class_node(tree, "NeutralCurrentBase")
    base_env = {"self.ESF.Q2": ("param", "Q2"), "m2hq": ("param", "m2hq"), "self.m2hq": ("param", "m2hq")}

    def nc_init():
        env = dict(base_env)
        out = {}
        for st in body_wo_doc(method_node(ncb, "__init__")):
            if isinstance(st, ast.Assign) and len(st.targets) == 1:
                t = ast.unparse(st.targets[0])
                if t == "self._xi":
                    out["xi"] = env["self._xi"] = E.ex(st.value, env)
                elif t == "self._eta":
                    if not isinstance(st.value, ast.Lambda) or len(st.value.args.args) != 1:
                        raise Untranslatable("_eta is not a one-argument lambda")
                    e2 = dict(env)
                    e2[st.value.args.args[0].arg] = ("z",)
                    out["eta"] = E.ex(st.value.body, e2)
        if "xi" not in out or "eta" not in out:
            raise Untranslatable("_xi/_eta not found")
        return out

    attempt("nc_init", nc_init)

    def guard():
        fd = method_node(ncb, "is_below_pair_threshold")
        zname = fd.args.args[1].arg
        env = dict(base_env)
        env[zname] = ("z",)
        for st in body_wo_doc(fd):
            if isinstance(st, ast.Assign) and len(st.targets) == 1 and isinstance(st.targets[0], ast.Name):
                env[st.targets[0].id] = E.ex(st.value, env)
            elif isinstance(st, ast.Return):
                c = st.value
                eta_clause = False
                if isinstance(c, ast.BoolOp) and isinstance(c.op, ast.Or) and len(c.values) == 2:
                    # `<threshold comparison> or eta <= 0.0`: the second clause closes the one-ulp gap between
                    # the rounding of shat and of eta(z); over exact numbers it is implied by the first
                    # (theorem eta_clause_is_redundant), so the model keeps the first comparison
                    c2 = c.values[1]
                    ok2 = (
                        isinstance(c2, ast.Compare)
                        and len(c2.ops) == 1
                        and isinstance(c2.ops[0], ast.LtE)
                        and E.ex(c2.left, env) == rep["nc_init"]["eta"]
                        and E.ex(c2.comparators[0], env) == ("lit", fractions.Fraction(0))
                    ) if rep.get("nc_init") else False
                    if not ok2:
                        raise Untranslatable("second clause of the guard is not `eta(z) <= 0`")
                    eta_clause = True
                    c = c.values[0]
                if not isinstance(c, ast.Compare) or len(c.ops) != 1 or type(c.ops[0]) not in CMP:
                    raise Untranslatable("guard is not a single comparison")
                return dict(lhs=E.ex(c.left, env), op=CMP[type(c.ops[0])], rhs=E.ex(c.comparators[0], env), eta_clause=eta_clause)
            else:
                raise Untranslatable("statement in is_below_pair_threshold")
        raise Untranslatable("no return")

    attempt("guard", guard)

    def decorator():
        fd = method_node(ncb, "decorator")
        b = body_wo_doc(fd)
        ok = (
            len(b) == 2
            and isinstance(b[0], ast.If)
            and ast.unparse(b[0].test) == "self.is_below_pair_threshold(self.ESF.x)"
            and len(b[0].body) == 1
            and isinstance(b[0].body[0], ast.Return)
            and ast.unparse(b[0].body[0].value) in ("lambda: pc.RSL()", "lambda : pc.RSL()")
            and not b[0].orelse
            and isinstance(b[1], ast.Return)
            and ast.unparse(b[1].value) == fd.args.args[1].arg
        )
        return bool(ok)

    attempt("decorator_ok", decorator)

    # --- PartonicChannel.__init__ wraps every order
    def wraps():
        pcm = importlib.import_module("yadism.coefficient_functions.partonic_channel")
        t2 = ast.parse(inspect.getsource(pcm))
        fd = method_node(class_node(t2, "PartonicChannel"), "__init__")
        got = {}
        for st in body_wo_doc(fd):
            if isinstance(st, ast.Assign) and isinstance(st.targets[0], ast.Subscript) and ast.unparse(st.targets[0].value) == "self":
                idx = st.targets[0].slice
                if isinstance(idx, ast.Constant):
                    got[idx.value] = ast.unparse(st.value)
        return [k for k in sorted(got) if got[k] == f"self.decorator(self.{ORDERS[k]})"] if all(isinstance(k, int) and 0 <= k < 4 for k in got) else []

    attempt("decorated_orders", wraps)

    # --- the partonic guard of every regular part
    def guards():
        rows = []
        for mn in NC_MODULES:
            try:
                mod = importlib.import_module(f"yadism.coefficient_functions.heavy.{mn}")
            except Exception as e:  # noqa
                rows.append((f"{mn}:import-error", False, False, False))
                continue
            msrc = inspect.getsource(mod)
            mt = ast.parse(msrc)
            for c in mt.body:
                if not isinstance(c, ast.ClassDef):
                    continue
                live = getattr(mod, c.name)
                if not issubclass(live, hp.NeutralCurrentBase):
                    continue
                for m in c.body:
                    if not (isinstance(m, ast.FunctionDef) and m.name in ORDERS):
                        continue
                    label = f"{mn}.{c.name}.{m.name}"
                    funcs = {f.name: f for f in m.body if isinstance(f, ast.FunctionDef)}
                    rets = [s for s in m.body if isinstance(s, ast.Return)]
                    if len(rets) != 1 or not isinstance(rets[0].value, ast.Call) or ast.unparse(rets[0].value.func) not in ("RSL", "pc.RSL"):
                        rows.append((label, False, False, False))
                        continue
                    call = rets[0].value
                    parts = dict(zip(["reg", "sing", "loc"], [ast.unparse(a) for a in call.args]))
                    for kw in call.keywords:
                        parts[kw.arg] = ast.unparse(kw.value)
                    reg = parts.get("reg")
                    guarded = False
                    if reg is None or reg == "None":
                        guarded = True  # nothing to guard
                    elif reg in funcs:
                        f = funcs[reg]
                        b = body_wo_doc(f)
                        z = f.args.args[0].arg if f.args.args else None
                        guarded = (
                            len(b) >= 1
                            and isinstance(b[0], ast.If)
                            and ast.unparse(b[0].test) == f"self.is_below_pair_threshold({z})"
                            and len(b[0].body) == 1
                            and isinstance(b[0].body[0], ast.Return)
                            and isinstance(b[0].body[0].value, ast.Constant)
                            and b[0].body[0].value.value == 0
                            and not b[0].orelse
                        )
                    rows.append((label, bool(guarded), parts.get("sing") not in (None, "None"), parts.get("loc") not in (None, "None")))
        return rows

    attempt("guards", guards)

    # --- charged current
    ccb = class_node(tree, "ChargedCurrentBase")

    def cc():
        env = dict(base_env)
        env["self.ESF.x"] = ("param", "x")
        for st in body_wo_doc(method_node(ccb, "__init__")):
            if isinstance(st, ast.Assign) and len(st.targets) == 1:
                t = ast.unparse(st.targets[0])
                if t in ("self.labda", "self.x"):
                    env[t] = E.ex(st.value, env)
        fd = method_node(ccb, "convolution_point")
        b = body_wo_doc(fd)
        if len(b) != 1 or not isinstance(b[0], ast.Return):
            raise Untranslatable("convolution_point is not a single return")
        if "self.labda" not in env:
            raise Untranslatable("labda not found")
        return dict(labda=env["self.labda"], point=E.ex(b[0].value, env))

    attempt("cc", cc)

    def cc_overrides():
        rows = []
        for mn in CC_MODULES:
            mod = importlib.import_module(f"yadism.coefficient_functions.heavy.{mn}")
            for name, obj in sorted(vars(mod).items()):
                if inspect.isclass(obj) and issubclass(obj, hp.ChargedCurrentBase) and obj.__module__ == mod.__name__:
                    rows.append((f"{mn}.{name}", obj.convolution_point is hp.ChargedCurrentBase.convolution_point))
        return rows

    attempt("cc_point_inherited", cc_overrides)

    # --- conv.convolution early exits and the use of the convolution point
    def conv_exits():
        cm = importlib.import_module("yadism.esf.conv")
        csrc = inspect.getsource(cm)
        ct = ast.parse(csrc)
        fd = [n for n in ct.body if isinstance(n, ast.FunctionDef) and n.name == "convolution"][0]
        b = body_wo_doc(fd)
        xname = fd.args.args[1].arg
        first = b[0]
        ok1 = isinstance(first, ast.If) and ast.unparse(first.test) in (f"{xname} >= 1 - eps_integration_border",) and ast.unparse(first.body[0]) == "return (0.0, 0.0)"
        second = b[1]
        ok2 = isinstance(second, ast.If) and ast.unparse(second.test) == f"pdf_func.is_below_x({xname})" and ast.unparse(second.body[0]) == "return (0.0, 0.0)"
        eps = fractions.Fraction(str(cm.eps_integration_border)) if ok1 else None
        em = importlib.import_module("yadism.esf.esf")
        esrc = inspect.getsource(em.EvaluatedStructureFunction.compute_local)
        uses = "convolution_point = cfe.coeff.convolution_point()" in esrc and "conv.convolve_vector(" in esrc and "convolution_point\n" in esrc.split("conv.convolve_vector(")[1][:200] and "convolution_point * val" in esrc
        return dict(empty_domain=bool(ok1), below_support=bool(ok2), eps=eps, esf_uses_point=bool(uses))

    attempt("conv", conv_exits)

    # --- which mass the generators look up
    def masses():
        rows = []
        for modname, fns in (("heavy.kernels", ["generate", "generate_missing"]),):
            mod = importlib.import_module(f"yadism.coefficient_functions.{modname}")
            mt = ast.parse(inspect.getsource(mod))
            for fd in mt.body:
                if isinstance(fd, ast.FunctionDef) and fd.name in fns:
                    found = None
                    for st in ast.walk(fd):
                        if isinstance(st, ast.Assign) and ast.unparse(st.targets[0]) == "m2hq":
                            v = st.value
                            if isinstance(v, ast.Subscript) and ast.unparse(v.value) == "esf.info.m2hq" and isinstance(v.slice, ast.BinOp) and isinstance(v.slice.op, ast.Sub) and isinstance(v.slice.left, ast.Name) and isinstance(v.slice.right, ast.Constant):
                                found = (v.slice.left.id, int(v.slice.right.value))
                            else:
                                found = ("?", 0)
                    rows.append((f"{modname}.{fd.name}", found[0] if found else "?", found[1] if found else 0))
        return rows

    attempt("mass_lookup", masses)
    return rep


def lean_bool(b):
    return "true" if b else "false"


def generate_thr(write=True):
    rep = extract()
    if write:
        un = '(param "untranslated")'
        g = rep.get("guard")
        nc = rep.get("nc_init")
        cc = rep.get("cc")
        cv = rep.get("conv") or dict(empty_domain=False, below_support=False, eps=None, esf_uses_point=False)
        eps = cv["eps"] if cv["eps"] is not None else fractions.Fraction(-1)
        lines = [
            "/- GENERATED by harness/translate_thr.py from /repo's working tree: do not edit. -/",
            "import YadismModel.Model.Threshold",
            "namespace Yadism.Gen",
            "open Yadism Yadism.KExpr",
            "",
            "/-- the guard has a second clause `or eta(z) <= 0` (rounding safety; redundant over exact numbers) -/",
            f"def pairGuardEtaClause : Bool := {lean_bool(bool(g and g.get('eta_clause')))}",
            "/-- `NeutralCurrentBase.is_below_pair_threshold(z)` -/",
            f"def pairGuard : Guard := ⟨{to_lean(g['lhs']) if g else un}, Cmp.{g['op'] if g else 'lt'}, {to_lean(g['rhs']) if g else un}⟩",
            "/-- `self._xi`, `self._eta(z)` -/",
            f"def ncXi : KExpr := {to_lean(nc['xi']) if nc else un}",
            f"def ncEta : KExpr := {to_lean(nc['eta']) if nc else un}",
            "/-- the hadronic decorator returns the empty RSL below threshold and the order otherwise -/",
            f"def decoratorShape : Bool := {lean_bool(rep.get('decorator_ok'))}",
            "/-- the orders `PartonicChannel.__init__` passes through `self.decorator` -/",
            f"def decoratedOrders : List Nat := {list(rep.get('decorated_orders') or [])}",
            "/-- `(module.class.order, regular part starts with the partonic guard, has sing, has loc)` -/",
            "def ncGuards : List (String × Bool × Bool × Bool) := [",
            ",\n".join(f'  ("{a}", {lean_bool(b)}, {lean_bool(c)}, {lean_bool(d)})' for a, b, c, d in (rep.get("guards") or [])),
            "]",
            "/-- `ChargedCurrentBase`: `labda`, `convolution_point()` -/",
            f"def ccLabda : KExpr := {to_lean(cc['labda']) if cc else un}",
            f"def ccPoint : KExpr := {to_lean(cc['point']) if cc else un}",
            "/-- every charged-current heavy class inherits that convolution point -/",
            "def ccPointInherited : List (String × Bool) := [" + ", ".join(f'("{a}", {lean_bool(b)})' for a, b in (rep.get("cc_point_inherited") or [])) + "]",
            "/-- `conv.convolution`: `if x >= 1 - eps: return 0`, `if pdf.is_below_x(x): return 0`; `compute_local` uses the channel's point -/",
            f"def convEmptyDomainExit : Bool := {lean_bool(cv['empty_domain'])}",
            f"def convBelowSupportExit : Bool := {lean_bool(cv['below_support'])}",
            f"def convEps : Rat := ({eps.numerator} : Rat) / {eps.denominator}",
            f"def esfUsesChannelPoint : Bool := {lean_bool(cv['esf_uses_point'])}",
            "/-- `m2hq = esf.info.m2hq[<var> - <k>]` in the heavy kernel generators -/",
            "def massLookup : List (String × String × Nat) := [" + ", ".join(f'("{a}", "{b}", {c})' for a, b, c in (rep.get("mass_lookup") or [])) + "]",
            "",
            "end Yadism.Gen",
        ]
        (GEN_DIR / "Threshold.lean").write_text("\n".join(lines) + "\n")
    return rep
