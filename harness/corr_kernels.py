"""Validation of the translator: every generated `KExpr` is evaluated in Lean `Float` and compared
with the real Python function (interpreter mode) at sampled admissible arguments.  External special
functions (li2, wgplg, nielsen, s2) are recorded on the Python side and replayed in Lean."""

import importlib
import struct
import sys

import numpy as np

from . import translate
from .common import Driver, q

REC = []
_patched = False


def _wrap(name, fn, real_part=False):
    def w(*a):
        v = fn(*a)
        val = float(np.real(v)) if real_part else float(v)
        REC.append((name, [float(x) for x in a], val))
        return v

    w.__wrapped_ext__ = True
    return w


def patch_externals():
    """wrap li2/ddilog/s2/wgplg/nielsen wherever a module of the package holds a reference"""
    global _patched
    if _patched:
        return
    _patched = True
    targets = {"li2": ("li2", False), "ddilog": ("li2", False), "s2": ("s2", False), "S2": ("s2", False), "wgplg": ("wgplg", False), "nielsen": ("nielsen_re", True)}
    for mname, mod in list(sys.modules.items()):
        if not mname.startswith("yadism"):
            continue
        for attr, (ext, re_) in targets.items():
            f = mod.__dict__.get(attr)
            if f is None or not callable(f) or getattr(f, "__wrapped_ext__", False):
                continue
            pyf = getattr(f, "py_func", f)
            if getattr(pyf, "__module__", "").startswith("yadism"):
                # do not wrap wgplg's own use of nielsen twice: both are recorded, harmless
                mod.__dict__[attr] = _wrap(ext, f, re_)


def const_table():
    from eko import constants

    from yadism.coefficient_functions.special import zeta

    t = {"CF": constants.CF, "CA": constants.CA, "TR": constants.TR, "pi": float(np.pi)}
    for nm in ("zeta2", "zeta3", "zeta4", "zeta5"):
        if hasattr(zeta, nm):
            t[nm] = float(getattr(zeta, nm))
    return t


def bits_to_float(s):
    return struct.unpack(">d", struct.pack(">Q", int(s)))[0]


def sample_args(r, nargs):
    a = []
    for i in range(nargs):
        if i == 0:
            a.append(float(r.choice([3, 4, 5, 6])))
        else:
            a.append(float(r.choice([r.uniform(0.5, 8.0), r.choice([3, 4, 5]), r.uniform(0.1, 0.9)])))
    return a


def regenerate(chk):
    """translate /repo's current kernels and rebuild the generated Lean module"""
    from .common import lake_build

    rep = translate.generate()
    ok, log, dt = lake_build(["YadismModel.Generated.Kernels"])
    chk.extra["generated_build_s"] = round(dt, 1)
    if not ok:
        chk.obligation("generated-kernels-build", False, log[-400:])
    return rep


def run_kernels(chk, r, n_points, report=None, stream="kernel_translation"):
    """returns the translator report"""
    rep = report or regenerate(chk)
    patch_externals()
    consts = const_table()
    drv = Driver()
    # argument counts from the model itself
    names = sorted(rep["kernels"])
    info_idx = {n: drv.add(f"kinfo {n}") for n in names}
    infos = drv.run()
    drv = Driver()
    pend = []
    for n in names:
        k = rep["kernels"][n]
        toks = infos[info_idx[n]].split()
        if len(toks) != 3:
            chk.corr_case(stream, False, dict(kernel=n), dict(kernel=n, model=infos[info_idx[n]]), "info")
            continue
        max_arg = -1 if toks[1] == "-" else int(toks[1])
        modname, fname = n.rsplit(".", 1)
        f = getattr(importlib.import_module(modname), fname)
        f = getattr(f, "py_func", f)
        two = k["sig"].startswith("f8(f8,f8[:])")
        for _ in range(n_points):
            z = float(r.choice([r.uniform(0.02, 0.98), r.uniform(0.001, 0.1), r.uniform(0.9, 0.999)]))
            args = sample_args(r, max_arg + 1)
            del REC[:]
            try:
                py = float(f(z, np.array(args, dtype=float))) if two else float(f(z))
            except Exception as e:
                chk.corr_case(stream, False, dict(kernel=n, z=z, args=args), dict(kernel=n, z=z, args=args, py_error=f"{type(e).__name__}: {e}"), "py-error")
                continue
            exts = list(REC)
            toks = ["keval", n, q(z), str(len(args))] + [q(a) for a in args]
            toks += [str(len(consts))] + [t for nm, v in consts.items() for t in (nm, q(float(v)))]
            toks += ["0"]
            toks.append(str(len(exts)))
            for nm, xs, v in exts:
                if not np.isfinite(v):
                    v = 0.0
                toks += [nm, str(len(xs))] + [q(x) for x in xs] + [q(v)]
            pend.append((drv.add(" ".join(toks)), n, z, args, py, len(exts)))
    lines = drv.run()
    worst = {}
    for idx, n, z, args, py, nex in pend:
        line = lines[idx]
        fam = n.split(".")[2] if n.count(".") > 2 else "esf"
        feat = f"{fam}/{'ext' if nex else 'plain'}"
        if not line.isdigit():
            chk.corr_case(stream, False, dict(kernel=n, z=z, args=args, py=py), dict(kernel=n, z=z, args=args, py=py, model=line), feat)
            continue
        m = bits_to_float(line)
        if np.isnan(py) and np.isnan(m):
            ok = True
        else:
            ok = abs(py - m) <= 1e-9 * max(1.0, abs(py)) or (np.isinf(py) and py == m)
        rel = abs(py - m) / max(1.0, abs(py)) if np.isfinite(py) and np.isfinite(m) else 0.0
        worst[n] = max(worst.get(n, 0.0), rel)
        chk.corr_case(stream, ok, dict(kernel=n, z=z, args=args, py=py, model=m), None if ok else dict(kernel=n, z=z, args=args, py=py, model=m), feat)
    chk.extra["translator"] = dict(
        njit_total=len(rep["kernels"]) + len(rep["untranslated"]),
        translated=len(rep["kernels"]),
        untranslated={k: v["reason"] for k, v in rep["untranslated"].items()},
        nodes=sum(k["size"] for k in rep["kernels"].values()),
        worst_relative_difference=max(worst.values()) if worst else None,
    )
    return rep
