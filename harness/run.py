"""Entry point: python -m harness.run <Cxx> <quick|thorough>"""

import importlib
import sys
import traceback

from . import common


def main(argv):
    if len(argv) < 2:
        print("usage: check <Cxx> <quick|thorough>")
        return 2
    pid, tier = argv[0], argv[1]
    if tier not in ("quick", "thorough"):
        print("tier must be quick or thorough")
        return 2
    try:
        mod = importlib.import_module(f"harness.checks.{pid.lower()}")
    except ModuleNotFoundError:
        print(f"no check for {pid}")
        return 2
    try:
        common.setup_env()
        chk = mod.run(tier)
        return chk.finish()
    except Exception:  # infrastructure failure: never a VIOLATION line
        traceback.print_exc()
        print(f"INFRA-ERROR property={pid}")
        return 2


if __name__ == "__main__":
    sys.exit(main(sys.argv[1:]))
