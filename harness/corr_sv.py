"""Correspondence for the scale-variation algebra and the glue of `compute_local`:
the real `EvaluatedStructureFunction.compute_local` runs on real Combiner kernels, with
`convolve_vector` stubbed to return prescribed small-integer vectors and the raw splitting
operators pre-filled with small-integer matrices (so that every product is exact in doubles),
and the resulting tensors are compared with the Lean model (`Model/Orders.lean`)."""

import numpy as np

from . import cards
from .common import Driver, q, unq

BASIS = [22, -6, -5, -4, -3, -2, -1, 21, 1, 2, 3, 4, 5, 6]


def one_case(r, drv, kinds=None):
    import yadism
    from eko import basis_rotation as br
    from yadism import coefficient_functions as cf
    from yadism.coefficient_functions import splitting_functions as split
    from yadism.esf import esf as esfmod

    N = r.choice([3, 4, 5])
    grid = cards.default_grid(N, 1e-2)
    pto = r.choice([0, 1, 2, 3])
    act_ren = r.random() < 0.75
    act_fact = r.random() < 0.75
    process = r.choice(["EM", "NC", "CC"])
    scheme, nfff = r.choice([("ZM-VFNS", 4), ("ZM-VFNS", 4), ("ZM-VFNS", 4), ("FFNS", 3), ("FFNS", 4), ("FFN0", 3), ("FONLL-FFNS", 4)])
    kind = r.choice(kinds or (cards.UNPOL if process == "CC" else ["F2", "FL", "F3", "g1"]))
    if pto == 3 and kind in ("g1",):
        pto = 2
    fl = r.choice(["total", "light", "charm", "bottom"])
    if pto == 3 and scheme != "ZM-VFNS":
        fl = "light"  # massive N3LO needs interpolation tables (slow); the algebra is channel blind
    name = f"{kind}_{fl}"
    Q2 = float(r.choice([3.0, 30.0, 300.0]))
    # a second point, usually on the other side of a threshold: it is computed *first* on the same
    # runner so that every memo of the scale-variation manager is already populated (history)
    Q2_first = float(r.choice([q for q in (3.0, 30.0, 300.0, 1.5) if q != Q2]))
    x = float(r.choice([0.02, 0.1, 0.5]))
    t = cards.theory(PTO=r.choice([0, 1]), PTODIS=pto, FNS=scheme, NfFF=nfff, RenScaleVar=act_ren, FactScaleVar=act_fact)
    o = cards.obs({name: [dict(x=x, Q2=Q2), dict(x=x, Q2=Q2_first)]}, prDIS=process, ProjectileDIS=r.choice(["electron", "neutrino"]) if process == "CC" else "electron", interpolation_xgrid=grid, interpolation_polynomial_degree=2, TargetDIS=r.choice(["proton", "iron"]))
    runner = yadism.Runner(t, o)
    esf = runner.observables[name].elements[0]
    svm = runner.configs.managers["sv_manager"]
    mats = {}
    for order_labels in split.raw_labels[:pto]:
        for lab in order_labels:
            m = np.array([[float(r.randint(-3, 3)) for _ in range(N)] for _ in range(N)])
            mats[lab] = m
            for nf in (3, 4, 5, 6):
                svm.operators[(lab, nf)] = m
    calls = []
    captured = {}
    orig_collect = cf.Combiner.collect_elems
    orig_conv = esfmod.conv.convolve_vector

    def fake_collect(self):
        ks = orig_collect(self)
        captured["kernels"] = ks
        captured["nf"] = self.nf
        return ks

    def fake_conv(rsl, interp, cp):
        v = np.array([float(r.randint(-4, 4)) for _ in range(N)])
        calls.append((v, float(cp)))
        return v, np.zeros(N)

    cf.Combiner.collect_elems = fake_collect
    esfmod.conv.convolve_vector = fake_conv
    try:
        runner.observables[name].elements[1].compute_local()  # history: another point (another nf) first
        del calls[:]
        esf.compute_local()
    finally:
        cf.Combiner.collect_elems = orig_collect
        esfmod.conv.convolve_vector = orig_conv
    kernels = captured["kernels"]
    nf = int(captured["nf"])
    # reconstruct which call belongs to which (kernel, order)
    it = iter(calls)
    kers = []
    for k in kernels:
        vals = []
        cp = float(k.coeff.convolution_point())
        for od in esf.orders:
            present = k.has_order(od) and k.coeff[od]() is not None
            if present:
                v, cpc = next(it)
                assert cpc == cp
                vals.append(v)
            else:
                vals.append(None)
        kers.append((k.channel == "intrinsic", [float(k.partons.get(p, 0.0)) for p in BASIS], cp, vals))
    assert next(it, None) is None
    proj = br.ad_projectors(nf, False)
    toks = ["sv", str(N), str(nf), str(pto), q(act_ren), q(act_fact)]
    toks += [q(float(v)) for v in proj.reshape(-1)]
    toks.append(str(len(mats)))
    for lab, m in mats.items():
        toks.append(lab)
        toks += [q(float(v)) for v in m.reshape(-1)]
    toks.append(str(len(kers)))
    for intr, partons, cp, vals in kers:
        toks.append(q(intr))
        toks += [q(v) for v in partons]
        toks.append(q(cp))
        toks.append(str(len(vals)))
        for v in vals:
            if v is None:
                toks.append("0")
            else:
                toks.append("1")
                toks += [q(float(a)) for a in v]
    idx = drv.add(" ".join(toks))
    py = {k: np.array(v[0]) for k, v in esf.res.orders.items()}
    nchan = len(set(k.channel for k in kernels))
    feat = f"pto{pto}/ren{int(act_ren)}/fact{int(act_fact)}/nf{nf}/{'intr' if any(kk[0] for kk in kers) else 'nointr'}/{process}"
    sample = dict(obs=name, process=process, FNS=scheme, NfFF=nfff, pto=pto, RenScaleVar=act_ren, FactScaleVar=act_fact, nf=nf, N=N, x=x, Q2=Q2, n_kernels=len(kers), channels=sorted(set(k.channel for k in kernels)), keys=sorted(str(k) for k in py))
    return idx, py, N, sample, feat


def compare(line, py, N):
    if line == "bad-op":
        return False, "model: bad-op"
    model = {}
    for part in line.split(" | "):
        key, vals = part.split(": ")
        k = tuple(int(a) for a in key.split(","))
        model[k] = np.array([float(unq(v)) for v in vals.split()]).reshape(14, N)
    if set(model) != set(py):
        return False, dict(py_keys=sorted(py), model_keys=sorted(model))
    for k in py:
        s = max(1.0, float(np.abs(model[k]).max()))
        d = float(np.abs(model[k] - py[k]).max())
        if d > 1e-11 * s:
            return False, dict(key=k, maxdiff=d, scale=s, py=py[k].tolist(), model=model[k].tolist())
    return True, None


def run_sv(chk, n, r, stream="compute_local_sv", kinds=None):
    drv = Driver()
    pend = []
    for _ in range(n):
        try:
            pend.append(one_case(r, drv, kinds))
        except Exception as e:  # crashes of the real code are C16's business
            chk.extra.setdefault("sv_py_errors", {})
            k = f"{type(e).__name__}:{str(e)[:70]}"
            chk.extra["sv_py_errors"][k] = chk.extra["sv_py_errors"].get(k, 0) + 1
    lines = drv.run()
    for idx, py, N, sample, feat in pend:
        ok, det = compare(lines[idx], py, N)
        chk.corr_case(stream, ok, sample, None if ok else dict(sample=sample, diff=det), feat)
