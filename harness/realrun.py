"""Helpers that run the real yadism and compare outputs."""

import numpy as np

BASIS = [22, -6, -5, -4, -3, -2, -1, 21, 1, 2, 3, 4, 5, 6]


def run(theory, observables):
    import yadism

    return yadism.run_yadism(theory, observables)


def maxdiff(a, b, keys=None):
    """max |a-b| over all order keys (missing key = 0) and the scale max(|a|,|b|)."""
    ks = set(a.orders) | set(b.orders) if keys is None else keys
    m = 0.0
    s = 0.0
    for k in ks:
        va = np.asarray(a.orders[k][0]) if k in a.orders else 0.0
        vb = np.asarray(b.orders[k][0]) if k in b.orders else 0.0
        m = max(m, float(np.abs(va - vb).max()))
        s = max(s, float(np.abs(va).max()), float(np.abs(vb).max()))
    return m, s


def add(rs):
    r = rs[0]
    for x in rs[1:]:
        r = r + x
    return r


def all_finite(res):
    return all(np.isfinite(v).all() and np.isfinite(e).all() for v, e in res.orders.values())


def identical(a, b):
    if set(a.orders) != set(b.orders):
        return False
    return all(np.array_equal(a.orders[k][0], b.orders[k][0]) and np.array_equal(a.orders[k][1], b.orders[k][1]) for k in a.orders)


def apply(res, out, pdf, a_s=0.2, xiR=1.0, xiF=1.0):
    r = res.apply_pdf(pdf, out["pids"], out["xgrid"]["grid"], lambda q: a_s * 4 * np.pi / (4 * np.pi), lambda q: 0.0, xiR, xiF)
    return r["result"]
