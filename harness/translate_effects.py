"""Effect translator for C20: which objects do the functions that receive the caller's cards write to?

Reads the syntax tree of `yadism.input.compatibility.update`, `CouplingConstants.from_dict` and
`Runner.__init__` from the working tree, inlines calls to functions defined in yadism (depth <= 3) and emits
`lean/YadismModel/Generated/Effects.lean`: for each root function a flat `List Heap.Stmt`
(copy / write / writeNested / alias, every branch kept) and the list of *escapes* (calls that hand an
object reachable from a tracked name to code that is not analysed).  Anything the reader does not
understand raises `Untranslatable` (never guessed).

Conventions (see Model/Heap.lean):
* `X = Y.copy()`, `X = {..}`, `X = [..]`, `X = dict(..)`, `X = SomeClass(..)` as an *unconditional* statement
  of the root function -> `copy X Y` (a new object; `Y = "<new>"` for displays and constructors);
  the same inside a branch, loop or inlined callee that is itself called conditionally -> `alias X`;
* every other binding of a name (also dotted names `self.a.b`, loop targets, tuple targets) -> `alias`;
* `X[k] = v`, `X[k] op= v`, `del X[k]`, `X.<mutator>(..)` with `X` a (dotted) name -> `write X`;
  the same with `X` a subscript expression (`a[k][j] = v`, `a[k].append(v)`) -> `writeNested root`.
"""
import ast
import builtins
import copy as _copy
import importlib
import inspect
import pathlib
import textwrap

from . import common

OUT = common.LEAN / "YadismModel" / "Generated" / "Effects.lean"


def src_root():
    """/repo/src/ (a scratch worktree when the translator is tried on a seeded change); evaluated lazily: the
    harness fixes the import path and the numba mode before yadism is imported"""
    return str(pathlib.Path(importlib.import_module("yadism").__file__).resolve().parent.parent) + "/"


MUTATORS = {"pop", "update", "setdefault", "clear", "popitem", "append", "extend", "insert", "remove", "sort", "reverse", "add", "discard", "__setitem__", "__delitem__", "resize", "fill", "put", "itemset", "setflags"}
READERS = {"get", "items", "keys", "values", "copy", "index", "count", "format", "join", "split", "lower", "upper", "startswith", "endswith", "info", "debug", "warning", "tolist", "strip"}
PURE_BUILTINS = {"isinstance", "str", "len", "enumerate", "range", "float", "int", "abs", "tuple", "sorted", "min", "max", "sum", "zip", "bool", "repr", "type", "print", "ValueError", "KeyError", "NotImplementedError", "TypeError", "any", "all", "round", "iter", "next", "hasattr", "getattr", "id", "filter", "map", "reversed", "frozenset", "super", "object", "AttributeError", "RuntimeError", "ZeroDivisionError"}
FRESH_BUILTINS = {"dict", "list", "set"}
ROOTS = [
    ("update", "yadism.input.compatibility", "update"),
    ("fromDict", "yadism.coefficient_functions.coupling_constants", "CouplingConstants.from_dict"),
    ("runnerInit", "yadism.runner", "Runner.__init__"),
    ("sfLoad", "yadism.sf", "StructureFunction.load"),
    ("xsLoad", "yadism.xs", "CrossSection.load"),
    # the constructors the kinematics dicts of the observables card are handed to
    ("esfInit", "yadism.esf.esf", "EvaluatedStructureFunction.__init__"),
    ("exsInit", "yadism.esf.exs", "EvaluatedCrossSection.__init__"),
    ("tmcInit", "yadism.esf.tmc", "EvaluatedStructureFunctionTMC.__init__"),
]


# an object's life: constructor, then its methods in any order, any number of times
LIFECYCLES = [
    ("sf", "yadism.sf", "StructureFunction", ["load", "get_esf", "drop_cache", "get_result"]),
    ("xs", "yadism.xs", "CrossSection", ["load", "get_esf", "get_result"]),
    # the evaluated objects keep a reference to the caller's kinematics dict: none of their methods may store into it
    # (EvaluatedCrossSection.get_result and the TMC integration loop store into attributes of objects they
    # have just built - `sigma.orders[...] = v` - which this flat analysis cannot tell from a store through
    # an alias: not claimed, left to the deep comparison of real runs)
    ("esfObj", "yadism.esf.esf", "EvaluatedStructureFunction", ["get_result"]),
    ("tmcObj", "yadism.esf.tmc", "EvaluatedStructureFunctionTMC", ["get_result"]),
]


class Untranslatable(Exception):
    pass


def dotted(node):
    """`a`, `a.b.c` -> "a.b.c"; anything else -> None"""
    parts = []
    while isinstance(node, ast.Attribute):
        parts.append(node.attr)
        node = node.value
    if isinstance(node, ast.Name):
        parts.append(node.id)
        return ".".join(reversed(parts))
    return None


def root_of(node):
    """root (dotted) name and number of subscripts/calls stripped of an expression like a.b[k][j]"""
    depth = 0
    while True:
        d = dotted(node)
        if d is not None:
            return d, depth
        if isinstance(node, ast.Subscript):
            node = node.value
            depth += 1
        elif isinstance(node, ast.Attribute):
            node = node.value
        elif isinstance(node, ast.Call):
            return None, depth
        else:
            return None, depth


def resolve(mod, node):
    """the live object a call target refers to, or None"""
    d = dotted(node)
    if d is None:
        return None
    obj = mod
    for part in d.split("."):
        if part in ("self", "cls"):
            return None
        if not hasattr(obj, part):
            return getattr(builtins, part, None) if obj is mod else None
        obj = getattr(obj, part)
    return obj


class Walker:
    def __init__(self):
        self.stmts = []
        self.escapes = []
        self.n_inlined = 0

    def emit(self, kind, *a):
        self.stmts.append((kind,) + a)

    # --- expressions -----------------------------------------------------------------------
    def expr(self, node, mod, ren, branch, depth):
        """visit every call inside an expression"""
        for sub in ast.walk(node):
            if isinstance(sub, (ast.NamedExpr, ast.Await, ast.Yield, ast.YieldFrom)):
                raise Untranslatable(type(sub).__name__)
            if isinstance(sub, ast.Call):
                self.call(sub, mod, ren, branch, depth)

    def name(self, d, ren):
        head, _, tail = d.partition(".")
        head = ren.get(head, head)
        return head + ("." + tail if tail else "")

    def call(self, node, mod, ren, branch, depth):
        f = node.func
        arg_nodes = list(node.args) + [k.value for k in node.keywords]
        if isinstance(f, ast.Attribute):
            base, meth = f.value, f.attr
            bd = dotted(base)
            target = resolve(mod, f)
            is_lib = target is not None and (inspect.ismodule(resolve(mod, base)) or inspect.isclass(resolve(mod, base)))
            if not is_lib:
                if meth in MUTATORS:
                    if bd is not None:
                        self.emit("write", self.name(bd, ren))
                    else:
                        r, _ = root_of(base)
                        if r is None:
                            raise Untranslatable("mutator on " + ast.unparse(base))
                        self.emit("writeNested", self.name(r, ren))
                    return
                if meth in READERS:
                    return
                # unknown method of an object: the object and the arguments escape
                roots = [root_of(a)[0] for a in [base] + arg_nodes]
                self.escapes.append((ast.unparse(f), sorted({self.name(r, ren) for r in roots if r})))
                return
            f_obj = target
        else:
            if dotted(f) is None:
                # computed call target (a table of classes, a returned function): not followed
                roots = sorted({self.name(r, ren) for r in (root_of(a)[0] for a in arg_nodes) if r})
                self.escapes.append((ast.unparse(f), roots))
                return
            f_obj = resolve(mod, f)
        fname = ast.unparse(f)
        if f_obj is None and (dotted(f) or "").split(".")[0] in ("self", "cls"):
            # the class under construction / a method of the object itself: not followed
            roots = sorted({self.name(r, ren) for r in (root_of(a)[0] for a in arg_nodes) if r})
            self.escapes.append((fname, roots))
            return
        if f_obj is None:
            # a local name or parameter that holds a callable: not followed
            roots = sorted({self.name(r, ren) for r in (root_of(a)[0] for a in arg_nodes) if r})
            self.escapes.append((fname, roots))
            return
        if f_obj in (_copy.copy, _copy.deepcopy):
            return  # a copy reads its argument
        if getattr(f_obj, "__module__", "") == "builtins" or f_obj in (vars(builtins).values()):
            if fname in PURE_BUILTINS or fname in FRESH_BUILTINS:
                return
            raise Untranslatable("builtin " + fname)
        src = None
        try:
            src = inspect.getsourcefile(f_obj)
        except TypeError:
            pass
        fn = getattr(f_obj, "__func__", f_obj)
        if src and src.startswith(src_root()) and inspect.isfunction(fn) and depth < 3:
            self.inline(fn, node, mod, ren, branch, depth)
            return
        roots = [root_of(a)[0] for a in arg_nodes]
        roots = sorted({self.name(r, ren) for r in roots if r})
        if roots:
            self.escapes.append((fname, roots))

    def inline(self, fn, node, mod, ren, branch, depth):
        self.n_inlined += 1
        tree = ast.parse(textwrap.dedent(inspect.getsource(fn))).body[0]
        params = [a.arg for a in tree.args.args]
        if params and params[0] in ("self", "cls"):
            params = params[1:]
        if node.keywords or len(node.args) > len(params) or tree.args.vararg or tree.args.kwarg:
            # keyword / variadic call: not inlined, the arguments escape to the callee
            arg_nodes = list(node.args) + [k.value for k in node.keywords]
            roots = sorted({self.name(r, ren) for r in (root_of(a)[0] for a in arg_nodes) if r})
            self.escapes.append((ast.unparse(node.func), roots))
            return
        tag = f"{fn.__name__}{self.n_inlined}"
        new_ren = {}
        for p, a in zip(params, node.args):
            d = dotted(a)
            if d is not None:
                new_ren[p] = self.name(d, ren)
            else:
                new_ren[p] = f"{tag}.{p}"
                self.emit("alias", new_ren[p])
        cmod = importlib.import_module(fn.__module__)
        local = LocalRen(new_ren, tag)
        # a callee's unconditional statements are unconditional only if the call is
        self.body(tree.body, cmod, local, branch, depth + 1)

    # --- statements ------------------------------------------------------------------------
    def bind(self, tgt, value, mod, ren, branch):
        if isinstance(tgt, (ast.Tuple, ast.List)):
            for t in tgt.elts:
                self.bind(t, None, mod, ren, branch)
            return
        if isinstance(tgt, ast.Starred):
            return self.bind(tgt.value, None, mod, ren, branch)
        d = dotted(tgt)
        if d is not None:
            nm = self.name(d, ren) if "." in d or d in ren else ren.local(d)
            src = fresh_source(value, mod, lambda x: self.name(x, ren)) if value is not None else None
            if src is not None and not branch:
                self.emit("copy", nm, src)
            elif src is not None and "." not in d:
                # a new object bound inside a branch / loop body: for the rest of *this block* (whose
                # statements run only after this one did) the name refers to it; emitted under a unique
                # name, so that the allocation may be taken as unconditional without changing what any
                # other name refers to.  Outside the block the name is unknown again (alias at block end).
                self.uid = getattr(self, "uid", 0) + 1
                u = f"{nm}@{self.uid}"
                self.emit("copy", u, src)
                ren[d] = u
                ren.overrides.append(nm)
            else:
                if d in ren and "@" in ren[d]:
                    # rebinding a block-local fresh name to something else: back to the outer name
                    outer = ren[d].split("@")[0]
                    del ren[d]
                    if outer != d:
                        ren[d] = outer
                    nm = outer
                self.emit("alias", nm)
            return
        if isinstance(tgt, ast.Subscript):
            bd = dotted(tgt.value)
            if bd is not None:
                self.emit("write", self.name(bd, ren))
            else:
                r, _ = root_of(tgt.value)
                if r is None:
                    raise Untranslatable("store into " + ast.unparse(tgt))
                self.emit("writeNested", self.name(r, ren))
            return
        raise Untranslatable("target " + ast.unparse(tgt))

    def block(self, stmts, mod, ren, depth):
        """a nested statement list (branch, loop body, handler)"""
        sub = ren.fork()
        self.body(stmts, mod, sub, True, depth)
        for outer in sub.overrides:
            self.emit("alias", outer)

    def body(self, stmts, mod, ren, branch, depth):
        for st in stmts:
            if isinstance(st, ast.Expr):
                if isinstance(st.value, ast.Constant):
                    continue
                self.expr(st.value, mod, ren, branch, depth)
            elif isinstance(st, ast.Assign):
                self.expr(st.value, mod, ren, branch, depth)
                for t in st.targets:
                    self.sub_exprs(t, mod, ren, branch, depth)
                    self.bind(t, st.value, mod, ren, branch)
            elif isinstance(st, ast.AnnAssign):
                if st.value is not None:
                    self.expr(st.value, mod, ren, branch, depth)
                    self.bind(st.target, st.value, mod, ren, branch)
            elif isinstance(st, ast.AugAssign):
                self.expr(st.value, mod, ren, branch, depth)
                d = dotted(st.target)
                if d is not None:
                    # `x |= d`, `x += [..]` change a mutable object in place: count it as a write
                    # afterwards the name refers to the same (changed) object or to a new one: if it was the
                    # program's own before, it still is
                    self.emit("write", self.name(d, ren) if "." in d or d in ren else ren.local(d))
                else:
                    self.bind(st.target, None, mod, ren, branch)
            elif isinstance(st, ast.Delete):
                for t in st.targets:
                    self.bind(t, None, mod, ren, branch)
            elif isinstance(st, ast.If):
                self.expr(st.test, mod, ren, branch, depth)
                self.block(st.body, mod, ren, depth)
                self.block(st.orelse, mod, ren, depth)
            elif isinstance(st, (ast.For, ast.While)):
                if isinstance(st, ast.For):
                    self.expr(st.iter, mod, ren, branch, depth)
                    self.bind(st.target, None, mod, ren, True)
                else:
                    self.expr(st.test, mod, ren, branch, depth)
                self.block(st.body, mod, ren, depth)
                self.block(st.orelse, mod, ren, depth)
            elif isinstance(st, ast.Return):
                if st.value is not None:
                    self.expr(st.value, mod, ren, branch, depth)
            elif isinstance(st, ast.Raise):
                if st.exc is not None:
                    self.expr(st.exc, mod, ren, branch, depth)
            elif isinstance(st, (ast.Pass, ast.Continue, ast.Break)):
                pass  # control flow only: every statement is optional for the oracle anyway
            elif isinstance(st, ast.Try):
                self.block(st.body, mod, ren, depth)
                for h in st.handlers:
                    self.block(h.body, mod, ren, depth)
                self.block(st.orelse, mod, ren, depth)
                self.block(st.finalbody, mod, ren, depth)
            elif isinstance(st, ast.With):
                for it in st.items:
                    self.expr(it.context_expr, mod, ren, branch, depth)
                    if it.optional_vars is not None:
                        self.bind(it.optional_vars, None, mod, ren, True)
                self.body(st.body, mod, ren, branch, depth)
            elif isinstance(st, ast.Assert):
                self.expr(st.test, mod, ren, branch, depth)
            else:
                raise Untranslatable("statement " + type(st).__name__)

    def sub_exprs(self, tgt, mod, ren, branch, depth):
        # calls hidden in a store target, e.g. d[f(x)] = v
        for sub in ast.walk(tgt):
            if isinstance(sub, ast.Call):
                self.call(sub, mod, ren, branch, depth)


class LocalRen(dict):
    """parameter renaming of one (inlined) function; other local names get the call's tag as prefix"""

    def __init__(self, m, tag):
        super().__init__(m)
        self.tag = tag
        self.overrides = []

    def get(self, k, default=None):
        if k in self:
            return self[k]
        if k in ("self", "cls") or self.tag is None:
            return default if default is not None else k
        return f"{self.tag}.{k}"

    def local(self, k):
        return self.get(k, k)

    def fork(self):
        """the renaming inside a nested block: names freshly bound there get a unique emitted name for the
        rest of the block (`overrides`), invisible outside"""
        f = LocalRen(dict(self), self.tag)
        f.overrides = []
        return f


def fresh_source(value, mod, name):
    """`Y` if value is `Y.copy()`; "<new>" for displays, dict()/list()/set() and class instantiation; else None"""
    if isinstance(value, (ast.Dict, ast.List, ast.Set, ast.DictComp, ast.ListComp, ast.SetComp)):
        return "<new>"
    if isinstance(value, (ast.Constant, ast.BinOp, ast.UnaryOp, ast.Compare, ast.JoinedStr, ast.Tuple)):
        # numbers, strings, tuples and the results of arithmetic are new (or immutable) objects: nothing
        # the caller holds can be changed through them at depth 0
        return "<new>"
    if isinstance(value, ast.Call):
        f = value.func
        if isinstance(f, ast.Attribute) and f.attr == "copy" and not value.args and dotted(f.value) is not None:
            return name(dotted(f.value))
        if dotted(f) == "cls":
            return "<new>"
        if resolve(mod, f) in (_copy.copy, _copy.deepcopy) and len(value.args) == 1 and dotted(value.args[0]) is not None:
            return name(dotted(value.args[0]))
        obj = resolve(mod, f)
        if obj in (dict, list, set) or (inspect.isclass(obj) and not issubclass(obj, BaseException)):
            return "<new>"
    return None


def translate_one(modname, qual):
    mod = importlib.import_module(modname)
    obj = mod
    for part in qual.split("."):
        obj = getattr(obj, part)
    fn = getattr(obj, "__func__", obj)
    tree = ast.parse(textwrap.dedent(inspect.getsource(fn))).body[0]
    params = [a.arg for a in tree.args.args if a.arg not in ("self", "cls")]
    w = Walker()
    ren = LocalRen({p: p for p in params}, None)
    w.body(tree.body, mod, ren, False, 0)
    return dict(params=params, stmts=w.stmts, escapes=w.escapes, source=f"{modname}.{qual}")


def translate_lifecycles():
    out = {}
    for nm, modname, cls, methods in LIFECYCLES:
        out[nm] = dict(init=translate_one(modname, f"{cls}.__init__"), methods={m: translate_one(modname, f"{cls}.{m}") for m in methods}, source=f"{modname}.{cls}")
    return out


def translate():
    out = {}
    for lean_name, modname, qual in ROOTS:
        mod = importlib.import_module(modname)
        obj = mod
        for part in qual.split("."):
            obj = getattr(obj, part)
        fn = getattr(obj, "__func__", obj)
        tree = ast.parse(textwrap.dedent(inspect.getsource(fn))).body[0]
        params = [a.arg for a in tree.args.args if a.arg not in ("self", "cls")]
        w = Walker()
        ren = LocalRen({p: p for p in params}, None)
        w.body(tree.body, mod, ren, False, 0)
        out[lean_name] = dict(params=params, stmts=w.stmts, escapes=w.escapes, source=f"{modname}.{qual}")
    return out


def lean_str(s):
    return '"' + s.replace("\\", "\\\\").replace('"', '\\"') + '"'


def render(tr, life=None):
    L = ["/- GENERATED by harness/translate_effects.py from /repo's working tree: do not edit. -/", "import YadismModel.Model.Heap", "", "namespace Yadism.Generated.Effects", "", "open Yadism.Heap", ""]
    for nm, d in tr.items():
        L.append(f"/-- `{d['source']}`({', '.join(d['params'])}), callees inlined, every branch kept -/")
        L.append(f"def {nm} : List Stmt := [")
        rows = []
        for s in d["stmts"]:
            rows.append("  ." + s[0] + " " + " ".join(lean_str(a) for a in s[1:]))
        L.append(",\n".join(rows))
        L.append("]")
        L.append("")
        L.append(f"def {nm}Params : List String := [" + ", ".join(lean_str(p) for p in d["params"]) + "]")
        L.append("")
        L.append(f"/-- calls that hand (an object reachable from) the listed names to code that is not analysed -/")
        L.append(f"def {nm}Escapes : List (String × List String) := [")
        L.append(",\n".join("  (" + lean_str(f) + ", [" + ", ".join(lean_str(r) for r in rs) + "])" for f, rs in d["escapes"]))
        L.append("]")
        L.append("")
    for nm, d in (life or {}).items():
        L.append(f"/-- `{d['source']}`: the constructor -/")
        L.append(f"def {nm}Init : List Stmt := [")
        L.append(",\n".join("  ." + s_[0] + " " + " ".join(lean_str(a) for a in s_[1:]) for s_ in d["init"]["stmts"]))
        L.append("]")
        L.append("")
        L.append(f"/-- `{d['source']}`: the methods " + ", ".join(d["methods"]) + " -/")
        L.append(f"def {nm}Methods : List (List Stmt) := [")
        L.append(",\n".join("  [" + ", ".join("." + s_[0] + " " + " ".join(lean_str(a) for a in s_[1:]) for s_ in m["stmts"]) + "]" for m in d["methods"].values()))
        L.append("]")
        L.append("")
        esc = list(d["init"]["escapes"]) + [e for m in d["methods"].values() for e in m["escapes"]]
        L.append(f"def {nm}LifeEscapes : List (String × List String) := [")
        L.append(",\n".join("  (" + lean_str(f) + ", [" + ", ".join(lean_str(r) for r in rs) + "])" for f, rs in esc))
        L.append("]")
        L.append("")
    L.append("end Yadism.Generated.Effects")
    return "\n".join(L) + "\n"


def regenerate():
    tr = translate()
    life = translate_lifecycles()
    tr["_lifecycles"] = {k: dict(stmts=[s_ for m in [v["init"]] + list(v["methods"].values()) for s_ in m["stmts"]], escapes=[e for m in [v["init"]] + list(v["methods"].values()) for e in m["escapes"]], source=v["source"], params=[]) for k, v in life.items()}
    txt = render({k: v for k, v in tr.items() if k != "_lifecycles"}, life)
    tr.update({f"{k}Life": v for k, v in tr.pop("_lifecycles").items()})
    changed = not OUT.exists() or OUT.read_text() != txt
    if changed:
        OUT.write_text(txt)
    return tr, changed


if __name__ == "__main__":
    common.setup_env()
    t, ch = regenerate()
    for k, v in t.items():
        print(k, len(v["stmts"]), "statements;", len(v["escapes"]), "escapes", "(changed)" if ch else "")
        for s in v["stmts"]:
            print("   ", s)
        for e in v["escapes"]:
            print("    escape", e)
