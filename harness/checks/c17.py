"""C17 — applying a PDF contracts the operator with the right scales and couplings (alpha_s construction: partial)."""

import math

import numpy as np

from .. import cards, common, realrun
from ..common import Driver, q, unq


class RecPDF:
    def __init__(self, pids, table):
        self.pids = pids
        self.table = table  # (pid, x) -> value of xf
        self.calls = []

    def hasFlavor(self, pid):
        return pid in self.pids

    def xfxQ2(self, pid, x, Q2):
        self.calls.append((pid, x, Q2))
        return self.table[(pid, x)]


def corr(chk, r, n):
    from yadism.esf.result import ESFResult, EXSResult

    drv = Driver()
    pend = []
    for _ in range(n):
        npid = r.choice([3, 14])
        pids = [22, -6, -5, -4, -3, -2, -1, 21, 1, 2, 3, 4, 5, 6][:npid] if npid == 14 else [21, 1, -2]
        ng = r.choice([2, 3, 5])
        xgrid = sorted(float(r.uniform(0.01, 1.0)) for _ in range(ng))
        if r.random() < 0.6:
            xgrid[-1] = 1.0  # interpolation grids end at x = 1: that node is contracted like any other
        has = [r.random() < 0.7 for _ in pids]
        table = {(pid, x): float(r.randint(-5, 5)) * x for pid in pids for x in xgrid}
        pdf = RecPDF([p for p, h in zip(pids, has) if h], table)
        Q2 = cards.rand_q2(r)
        xiR = float(r.choice([1.0, 1.0, 2.0, 0.5, r.uniform(0.3, 3)]))
        xiF = float(r.choice([1.0, 1.0, 2.0, 0.5, r.uniform(0.3, 3)]))
        keys = r.sample([(a, b, c, d) for a in range(4) for b in range(2) for c in range(3) for d in range(3)], r.choice([1, 3, 6]))
        orders = {k: (np.array([[float(r.randint(-4, 4)) for _ in range(ng)] for _ in pids]), np.zeros((npid, ng))) for k in keys}
        is_xs = r.random() < 0.3
        res = EXSResult(0.1, Q2, 0.4, None, orders) if is_xs else ESFResult(0.1, Q2, None, orders)
        as_calls, aq_calls = [], []
        a_val, q_val = float(r.uniform(0.1, 0.5)), float(r.choice([1.0, 0.0078, r.uniform(0.001, 0.1)]))

        def alpha_s(mu, _c=as_calls, _v=a_val):
            _c.append(mu)
            return _v

        def alpha_qed(mu, _c=aq_calls, _v=q_val):
            _c.append(mu)
            return _v

        out = res.apply_pdf(pdf, pids, xgrid, alpha_s, alpha_qed, xiR, xiF)
        # scale arguments actually used
        mu_ok = all(m == np.sqrt(Q2) * xiR for m in as_calls + aq_calls) and len(as_calls) >= 1
        muF2 = Q2 * xiF**2
        expected_calls = {(pid, x, muF2) for pid in pdf.pids for x in xgrid}
        args_ok = mu_ok and set(pdf.calls) == expected_calls and out["x"] == 0.1 and out["Q2"] == Q2 and (out.get("y") == 0.4 if is_xs else "y" not in out)
        a_s = a_val / (4 * np.pi)
        LR = float(np.log((1 / xiR) ** 2))
        LF = float(np.log((1 / xiF) ** 2))
        toks = ["applypdf", q(float(a_s)), q(q_val), q(LR), q(LF), str(npid), str(ng)] + [q(h) for h in has]
        toks += [q(table[(pid, x)] / x) for pid in pids for x in xgrid]
        toks.append(str(len(orders)))
        for k, (v, _) in orders.items():
            toks += [str(i) for i in k] + [q(float(a)) for a in v.reshape(-1)]
        idx = drv.add(" ".join(toks))
        # the documented formula evaluated directly (failing-input oracle on the real function)
        direct = 0.0
        for k, (v, _) in orders.items():
            pref = a_s ** k[0] * q_val ** k[1] * (LR ** k[2]) * (LF ** k[3])
            direct += pref * sum(v[ai, j] * table[(pid, x)] / x for ai, pid in enumerate(pids) if has[ai] for j, x in enumerate(xgrid))
        ok_direct = abs(float(out["result"]) - direct) <= 1e-10 * max(1.0, abs(direct))
        chk.search_case("apply_pdf_vs_documented_formula", ok_direct, what="ESFResult.apply_pdf != sum_o as^k a^l lnR^i lnF^j <v, f/x>", data=dict(Q2=Q2, xiR=xiR, xiF=xiF, keys=[list(k) for k in keys], py=float(out["result"]), formula=direct), sample=None, nontrivial=direct != 0.0)
        sample = dict(Q2=Q2, xiR=xiR, xiF=xiF, keys=[list(k) for k in keys], npid=npid, ngrid=ng, has=has, xs=is_xs, py_result=float(out["result"]))
        pend.append((idx, float(out["result"]), args_ok, sample, f"xiR{'1' if xiR == 1 else 'x'}/xiF{'1' if xiF == 1 else 'x'}/npid{npid}/{'xs' if is_xs else 'sf'}/n{len(keys)}"))
    lines = drv.run()
    for idx, py, args_ok, sample, feat in pend:
        m = float(unq(lines[idx])) if lines[idx] != "bad-op" else None
        ok = m is not None and abs(py - m) <= 1e-10 * max(1.0, abs(m))
        chk.corr_case("apply_pdf", ok, sample, None if ok else dict(sample=sample, model=m), feat)
        chk.search_case("apply_pdf_scale_arguments", args_ok, what="alpha_s/alpha/xfxQ2 called with the wrong scale or point set, or kinematics not echoed", data=sample, sample=None)


def search_output_dispatch(chk, r):
    from yadism.esf.result import ESFResult
    from yadism.output import Output

    out = Output()
    out["xgrid"] = dict(grid=[0.1, 0.5, 1.0], log=True)
    out["pids"] = [21, 1]
    out["projectilePID"] = 11
    out["interpolation_polynomial_degree"] = 2
    mk = lambda Q2: ESFResult(0.1, Q2, None, {(0, 0, 0, 0): (np.array([[1.0, 2.0, 3.0], [0.5, 0.0, -1.0]]), np.zeros((2, 3)))})
    out["F2_total"] = [mk(10.0), mk(20.0)]
    out["FL_charm"] = None
    out["XSHERANC_light"] = []
    pdf = cards.ToyPDF(pids=[21, 1])
    res = out.apply_pdf_alphas_alphaqed_xir_xif(pdf, lambda m: 0.2, lambda m: 0.0, 1.0, 1.0)
    ok = set(res) == {"F2_total", "XSHERANC_light"} and len(res["F2_total"]) == 2 and res["XSHERANC_light"] == []
    exp = sum(v * pdf.xfxQ2(pid, x, 10.0) / x for row, pid in zip([[1.0, 2.0, 3.0], [0.5, 0.0, -1.0]], [21, 1]) for v, x in zip(row, [0.1, 0.5, 1.0]))
    ok = ok and abs(res["F2_total"][0]["result"] - exp) <= 1e-12 * abs(exp)
    chk.search_case("output_dispatch", ok, what="Output.apply_pdf_* dispatch over observables/None/metadata keys", data=dict(keys=sorted(res)), sample=dict(keys=sorted(res), first=res["F2_total"][0]))


def search_alpha_s(chk, r, n):
    """alpha_s built from the theory card: reference value reproduced, FFNS runs with NfFF (LO analytic)"""
    from yadism.esf.result import ESFResult
    from yadism.output import Output

    for _ in range(n):
        # FONLL-* runs are fixed-flavour runs (the parts are combined afterwards): nf = NfFF as well
        fns, nfff = r.choice([("FFNS", 3), ("FFNS", 4), ("FFNS", 5), ("FFN0", 4), ("ZM-VFNS", 4), ("FONLL-FFNS", 3), ("FONLL-FFNS", 4), ("FONLL-FFN0", 4)])
        aref = float(r.choice([0.118, 0.13, 0.35]))
        Qref = float(r.choice([91.2, 10.0, 2.0]))
        nfref = {3: 3, 4: 4, 5: 5}[nfff] if fns != "ZM-VFNS" else (5 if Qref > 4.92 else (4 if Qref > 1.51 else 3))
        th = cards.theory(PTO=0, FNS=fns, NfFF=nfff, alphas=aref, Qref=Qref, nfref=nfref, XIR=1.0, XIF=1.0)
        Qs = [Qref, float(r.uniform(2.0, 4.5)), float(r.uniform(6.0, 80.0))]
        out = Output()
        out["xgrid"] = dict(grid=[0.5, 1.0], log=True)
        out["pids"] = [21]
        out["F2_total"] = [ESFResult(0.5, Q * Q, None, {(1, 0, 0, 0): (np.array([[1.0, 0.0]]), np.zeros((1, 2)))}) for Q in Qs]
        out.theory = th

        class P:
            def hasFlavor(self, pid):
                return True

            def xfxQ2(self, pid, x, Q2):
                return x  # so that result = a_s exactly

        try:
            res = out.apply_pdf(P())
        except Exception as e:
            chk.extra.setdefault("search_exceptions", {})
            k = f"alpha_s:{type(e).__name__}:{str(e)[:80]}"
            chk.extra["search_exceptions"][k] = chk.extra["search_exceptions"].get(k, 0) + 1
            continue
        got = [4 * math.pi * p["result"] for p in res["F2_total"]]
        ok = abs(got[0] - aref) <= 1e-9 * aref
        detail = dict(FNS=fns, NfFF=nfff, alphas=aref, Qref=Qref, Qs=Qs, alpha_s=got)
        if fns != "ZM-VFNS":
            b0 = 11 - 2 * nfff / 3
            for Q, g in zip(Qs, got):
                den = 1 + aref * b0 / (4 * math.pi) * math.log(Q * Q / (Qref * Qref))
                if den <= 0.2:
                    continue  # at or beyond the Landau pole of this (unphysical) reference value: no coupling to compare
                lo = aref / den
                ok = ok and abs(g - lo) <= 1e-7 * abs(lo)
            detail["rule"] = "LO analytic running with nf=NfFF"
        chk.search_case("alpha_s_from_theory_card", ok, what=f"{fns} NfFF={nfff}: alpha_s used by apply_pdf does not follow the theory card", data=detail, sample=detail)


def lo_alpha_s(Q, aref, Qref, walls):
    """LO running with nf = 3 + #(walls <= mu^2), continuous at the walls (independent of eko)"""
    def nf_at(mu2):
        return 3 + sum(1 for w in walls if w <= mu2)

    def run_to(a, mu2_from, mu2_to, nf):
        b0 = 11 - 2 * nf / 3
        return a / (1 + a * b0 / (4 * math.pi) * math.log(mu2_to / mu2_from))

    mu2, target = Qref * Qref, Q * Q
    a = aref
    if target >= mu2:
        for w in sorted(walls):
            if mu2 < w <= target:
                a = run_to(a, mu2, w, nf_at(mu2))
                mu2 = w
        return run_to(a, mu2, target, nf_at(mu2))
    for w in sorted(walls, reverse=True):
        if target < w <= mu2:
            # below the wall the lower nf applies
            a = run_to(a, mu2, w, nf_at(mu2)) if mu2 > w else a
            mu2 = w
            a_low_nf = 3 + sum(1 for ww in walls if ww < w)
            nxt = max([ww for ww in walls if ww < w and ww > target] + [target])
            a = run_to(a, mu2, nxt, a_low_nf)
            mu2 = nxt
    if mu2 != target:
        a = run_to(a, mu2, target, nf_at(target))
    return a


def search_alpha_s_vfns(chk, r, n):
    """ZM-VFNS with threshold ratios != 1: the coupling changes nf at (k m)^2"""
    from yadism.esf.result import ESFResult
    from yadism.output import Output

    for _ in range(n):
        kc, kb = float(r.choice([1.0, 0.8, 2.0])), float(r.choice([2.0, 1.0, 0.7]))
        mc, mb, mt = 1.51, 4.92, 172.5
        aref, Qref = 0.35, 1.2
        th = cards.theory(PTO=0, FNS="ZM-VFNS", alphas=aref, Qref=Qref, nfref=3, kcThr=kc, kbThr=kb, XIR=float(r.choice([1.0, 0.5, 2.0])), XIF=1.0, Q0=1.0, nf0=3)
        walls = [(kc * mc) ** 2, (kb * mb) ** 2, mt**2]
        Qs = sorted({float(math.sqrt(kb) * mb * 1.02), float(kb * mb * 0.97), float(kb * mb * 1.05), float(math.sqrt(kc) * mc * 1.03) if kc != 1 else 2.0, 30.0, 3.0})
        out = Output()
        out["xgrid"] = dict(grid=[0.5, 1.0], log=True)
        out["pids"] = [21]
        out["F2_total"] = [ESFResult(0.5, Q * Q, None, {(1, 0, 0, 0): (np.array([[1.0, 0.0]]), np.zeros((1, 2)))}) for Q in Qs]
        out.theory = th

        class P:
            def hasFlavor(self, pid):
                return True

            def xfxQ2(self, pid, x, Q2):
                return x

        try:
            res = out.apply_pdf(P())
        except Exception as e:
            chk.extra.setdefault("search_exceptions", {})
            k = f"alpha_s_vfns:{type(e).__name__}:{str(e)[:80]}"
            chk.extra["search_exceptions"][k] = chk.extra["search_exceptions"].get(k, 0) + 1
            continue
        got = [4 * math.pi * p["result"] for p in res["F2_total"]]
        exp = [lo_alpha_s(Q * th["XIR"], aref, Qref, walls) for Q in Qs]
        bad = [(Q, g, e) for Q, g, e in zip(Qs, got, exp) if abs(g - e) > 2e-6 * e]
        detail = dict(kcThr=kc, kbThr=kb, XIR=th["XIR"], Qs=Qs, alpha_s=got, lo_reference=exp, mismatches=bad[:3])
        chk.search_case("alpha_s_vfns_thresholds", not bad, what=f"ZM-VFNS kcThr={kc} kbThr={kb}: alpha_s(xiR*Q) does not switch nf at (k*m)^2", data=detail, sample=detail)


def search_alpha_s_on_walls(chk, r, n):
    """beyond LO the coupling jumps at a matching scale when k != 1 (and at NNLO always): exactly on
    (k m)^2 the upper flavour number applies, as for the coefficient functions.  eko's coupling
    evolution is external: the oracle is eko's own `Couplings` object asked for
    nf = 3 + #{(k m)^2 <= muR^2}, with masses and ratios chosen so that the walls and the scales are
    exact in double arithmetic"""
    from eko.couplings import Couplings, couplings_mod_ev
    from eko.io import dictlike, runcards, types
    from yadism.esf.result import ESFResult
    from yadism.output import Output

    for i in range(n):
        pto = [1, 2][i % 2]
        kc, kb = [(2.0, 2.0), (0.5, 2.0), (1.0, 0.5), (2.0, 1.0)][i % 4]
        xir = [1.0, 2.0, 0.5][i % 3]
        mc, mb, mt = 1.5, 4.5, 172.5
        # the order of the running is the card's PTO; PTODIS only truncates the coefficient functions
        ptodis = [None, max(pto - 1, 0), pto + 1][(i // 2) % 3]
        th = cards.theory(PTO=pto, PTODIS=ptodis, FNS="ZM-VFNS", alphas=0.25, Qref=2.0 if kc < 2 else 4.0, nfref=4, mc=mc, mb=mb, mt=mt, Qmc=mc, Qmb=mb, kcThr=kc, kbThr=kb, XIR=xir, XIF=1.0, Q0=1.0, nf0=3)
        walls = [(kc * mc) ** 2, (kb * mb) ** 2, mt**2]
        q2s = []
        for w in walls[:2]:
            q2s += [w / (xir * xir), 0.81 * w / (xir * xir), 1.21 * w / (xir * xir)]
        exact = [float(np.sqrt(q2_) * xir) ** 2 == w for q2_, w in zip(q2s[0::3], walls[:2])]
        out = Output()
        out["xgrid"] = dict(grid=[0.5, 1.0], log=True)
        out["pids"] = [21]
        out["F2_total"] = [ESFResult(0.5, float(q2_), None, {(1, 0, 0, 0): (np.array([[1.0, 0.0]]), np.zeros((1, 2)))}) for q2_ in q2s]
        out.theory = th

        class P:
            def hasFlavor(self, pid):
                return True

            def xfxQ2(self, pid, x, Q2):
                return x

        try:
            res = out.apply_pdf(P())
            new = runcards.Legacy(theory=th, operator={}).new_theory
            method = couplings_mod_ev(dictlike.load_enum(types.EvolutionMethod, runcards.Legacy.MOD_EV2METHOD.get(th["ModEv"], th["ModEv"])))
            sc = Couplings(couplings=new.couplings, order=new.order, method=method, masses=[mq**2 for mq, _ in new.heavy.masses], hqm_scheme=new.heavy.masses_scheme, thresholds_ratios=np.power(new.heavy.matching_ratios, 2).tolist())
        except Exception as e:
            chk.extra.setdefault("search_exceptions", {})
            k = f"alpha_s_walls:{type(e).__name__}:{str(e)[:80]}"
            chk.extra["search_exceptions"][k] = chk.extra["search_exceptions"].get(k, 0) + 1
            continue
        got = [4 * math.pi * p_["result"] for p_ in res["F2_total"]]
        bad, rows = [], []
        for q2_, g in zip(q2s, got):
            mu2 = float(np.sqrt(q2_) * xir) ** 2
            nf = 3 + sum(1 for w in walls if w <= mu2)
            ref = float(sc.a_s(mu2, nf_to=nf)) * 4 * math.pi
            other = float(sc.a_s(mu2, nf_to=nf - 1)) * 4 * math.pi if nf > 3 else None
            rows.append(dict(Q2=q2_, muR2=mu2, nf=nf, alpha_s=g, reference=ref, with_one_flavour_less=other))
            if abs(g - ref) > 1e-10 * ref:
                bad.append(rows[-1])
        detail = dict(PTO=pto, PTODIS=ptodis, kcThr=kc, kbThr=kb, XIR=xir, walls=walls[:2], on_wall_exact=exact, points=rows, mismatches=bad[:3])
        chk.search_case("alpha_s_on_matching_scales", not bad and all(exact), what=f"ZM-VFNS PTO={pto} PTODIS={ptodis} kcThr={kc} kbThr={kb} xiR={xir}: alpha_s used by apply_pdf is not the nf = 3 + #(walls <= muR^2) coupling: {bad[:1]}", data=detail, sample=detail if i == 0 else None, nontrivial=any(o is not None and abs(o - r_["reference"]) > 1e-7 for r_ in rows for o in [r_["with_one_flavour_less"]]))


def run(tier):
    chk = common.Check("C17", tier)
    thorough = tier == "thorough"
    common.lean_proof_step(chk, "YadismModel.Properties.C17", thorough=thorough)
    r = common.rng("C17")
    corr(chk, r, 3000 if thorough else 300)
    search_output_dispatch(chk, r)
    search_alpha_s(chk, r, 40 if thorough else 6)
    search_alpha_s_vfns(chk, r, 20 if thorough else 4)
    search_alpha_s_on_walls(chk, r, 24 if thorough else 6)
    chk.assumptions += [
        "PARTIAL: the contraction (orders, powers, logs, masking, linearity) is proved; the construction of alpha_s from the theory card uses eko's Couplings, which is external: it is only observed (reference value reproduced; LO analytic running with nf=NfFF in fixed-flavour schemes)",
        "logarithms and the couplings' values enter the model as rational parameters",
    ]
    return chk
