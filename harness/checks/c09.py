"""C09 — heavy-quark production respects its kinematic threshold."""

import fractions
import importlib
import math

import numpy as np
import scipy.integrate

from .. import cards, common, translate_thr
from ..callsites import StubESF
from ..common import Driver, q, unq

PIDS = [22, -6, -5, -4, -3, -2, -1, 21, 1, 2, 3, 4, 5, 6]
MASS = dict(charm=1.51, bottom=4.92, top=172.5)
IHQ = dict(charm=4, bottom=5, top=6)


def boundary_points(r, n):
    """(Q2, m, z) with Q2 (1-z)/z == 4 m^2 exactly in double arithmetic (checked)"""
    out = []
    cands = [(0.5, 1.0), (0.25, 3.0), (0.125, 7.0), (0.75, 1.0 / 3.0), (0.2, 4.0), (0.8, 0.25)]
    tries = 0
    while len(out) < n and tries < 10000:
        tries += 1
        z, ratio = r.choice(cands)
        m = float(r.choice([1.5, 0.75, 3.0, 4.5, 1.25, 2.5, 1.51, 4.92]))
        m2 = m**2
        Q2 = 4 * m2 / ratio
        F = fractions.Fraction
        if Q2 * (1 - z) / z == 4 * m2 and F(Q2) * (1 - F(z)) / F(z) == 4 * F(m2) and F(m) * F(m) == F(m2):
            out.append((Q2, m, z))
    return out


def corr_guard(chk, r, n):
    """the real is_below_pair_threshold / _eta / convolution_point vs the generated terms on exact rationals"""
    hp = importlib.import_module("yadism.coefficient_functions.heavy.partonic_channel")
    f2 = importlib.import_module("yadism.coefficient_functions.heavy.f2_nc")
    f2cc = importlib.import_module("yadism.coefficient_functions.heavy.f2_cc")
    drv = Driver()
    pend = []
    cases = []
    for Q2, m, z in boundary_points(r, n // 3):
        cases.append((Q2, m * m, z, z, "on"))
        cases.append((Q2, m * m, z / 2, float(np.nextafter(z, 0)), "just-above"))
        cases.append((Q2, m * m, z / 2, float(np.nextafter(z, 1)), "just-below"))
    for _ in range(n):
        Q2 = float(math.exp(r.uniform(math.log(0.5), math.log(1e4))))
        m2 = float(r.choice(list(MASS.values()))) ** 2
        cases.append((Q2, m2, float(r.uniform(0.001, 0.999)), float(r.uniform(0.001, 0.999)), "random"))
    for Q2, m2, x, z, feat in cases:
        esf = StubESF(x, Q2)
        nc = f2.GluonVV(esf, 3, m2hq=m2)
        cc = f2cc.NonSinglet(esf, 3, m2hq=m2)
        try:
            py = dict(below_z=bool(nc.is_below_pair_threshold(z)), below_x=bool(nc.is_below_pair_threshold(x)), eta=float(nc._eta(z)), labda=float(cc.labda), point=float(cc.convolution_point()))  # pylint: disable=protected-access
            # the decorator: below threshold the order is the empty RSL
            rsl = nc[1]()
            py["decorated_empty"] = rsl.reg is None and rsl.sing is None and rsl.loc is None
        except Exception as e:  # noqa
            chk.corr_case("pair_guard", False, None, dict(Q2=Q2, m2=m2, x=x, z=z, py_error=f"{type(e).__name__}: {e}"), feat)
            continue
        pend.append((drv.add(f"thr {q(Q2)} {q(m2)} {q(x)} {q(z)}"), dict(Q2=Q2, m2=m2, x=x, z=z), py, feat))
    lines = drv.run()
    for idx, case, py, feat in pend:
        t = lines[idx].split()
        if len(t) != 5:
            chk.corr_case("pair_guard", False, case, dict(case, model=lines[idx]), feat)
            continue
        shat = case["Q2"] * (1 - case["z"]) / case["z"]
        # exact model vs double arithmetic: only comparable when the double computation is exact
        # (the constructed boundary points) or the point is not within rounding of the boundary
        near = abs(shat - 4 * case["m2"]) <= 1e-12 * max(shat, 4 * case["m2"]) and feat == "random"
        shx = case["Q2"] * (1 - case["x"]) / case["x"]
        nearx = abs(shx - 4 * case["m2"]) <= 1e-12 * max(shx, 4 * case["m2"]) and feat == "random"
        ok = True
        if not near and feat != "just-above" and feat != "just-below":
            ok &= t[0] == q(py["below_z"])
        if feat in ("just-above", "just-below"):
            # one ulp away from an exact boundary: the double result must be on the right side or on the boundary
            # (since the repair of F26 the guard also fires when the double eta(z) comes out <= 0: one ulp on
            # the open side may therefore count as below; over exact numbers that clause is redundant)
            ok &= py["below_z"] == (feat == "just-below") or shat == 4 * case["m2"] or (feat == "just-above" and py["below_z"] and py["eta"] <= 0.0)
        if not nearx:
            ok &= t[1] == q(py["below_x"]) and py["decorated_empty"] == py["below_x"]
        sign = "+" if py["eta"] > 0 else ("neg" if py["eta"] < 0 else "0")
        if not near and feat == "random":
            ok &= t[2] == sign
        ok &= abs(unq(t[3]) - py["labda"]) <= 1e-13 and abs(unq(t[4]) - py["point"]) <= 1e-12 * max(1.0, abs(py["point"]))
        chk.corr_case("pair_guard", ok, dict(case=case, py=py, model=lines[idx]), None if ok else dict(case, py=py, model=lines[idx]), feat + ("/below" if py["below_z"] else "/above"))


def corr_convolution(chk, r, n):
    """conv.convolution on the real eko basis vs the model of its exits and its assembly"""
    import yadism
    from yadism.coefficient_functions.partonic_channel import RSL
    from yadism.esf import conv

    grid = cards.default_grid(9, 0.01)
    t = cards.theory(PTO=0)
    interp = yadism.Runner(t, cards.obs({"F2_light": [dict(x=0.5, Q2=10.0)]}, interpolation_xgrid=grid, interpolation_polynomial_degree=3)).configs.interpolator
    eps = conv.eps_integration_border
    # the code compares with the double 1 - eps: give the model the eps' with 1 - eps' == that double
    F = fractions.Fraction
    e_ = 1 - F(1.0 - eps)
    eps_q = f"{e_.numerator}/{e_.denominator}"
    drv = Driver()
    pend = []
    combos = [(True, False), (False, True), (True, True), (False, False)]
    # structured block: every combination of pieces at points inside the domain (generic, on a node,
    # next to 1) against a basis function that does not vanish there
    structured = [(c, pt) for c in combos for pt in (0.137, float(grid[4]), 0.9999)]
    for i in range(n + len(structured)):
        j = r.randrange(len(grid))
        point = float(r.choice([1.0, 1.0 - eps, float(np.nextafter(1.0 - eps, 0)), 1.0 - 2 * eps, 1.2, r.uniform(0.02, 0.99), r.uniform(0.02, 0.99), r.choice(grid[1:-1]), 0.9999]))
        has_reg, has_loc = r.choice(combos)
        if i < len(structured):
            (has_reg, has_loc), point = structured[i]
        if point < 1 and (i < len(structured) or r.random() < 0.6):
            live = [jj for jj in range(len(grid)) if float(interp[jj](point)) != 0.0]
            if live:
                j = r.choice(live)
        pj = interp[j]
        locv = float(r.uniform(-3, 3))
        rsl = RSL(reg=(lambda z, a: 1.0 + z) if has_reg else None, loc=(lambda x, a, v=locv: v) if has_loc else None)
        real = float(conv.convolution(rsl, point, pj)[0])
        bs = bool(pj.is_below_x(point)) if point < 1 - eps else False
        pdf = float(pj(point)) if point < 1 else 0.0
        quad = 0.0
        if has_reg and point < 1 - eps and not bs:
            brk = sorted({point / g for g in grid if point < point / g < 1.0})
            edges = [point] + brk + [1.0]
            for a, b in zip(edges[:-1], edges[1:]):
                quad += scipy.integrate.quad(lambda z: (1.0 + z) * pj.evaluate_x(point / z) / z, a, b, epsabs=1e-13, epsrel=1e-12)[0]
        idx = drv.add(f"convm {eps_q} {q(point)} {q(bs)} {q(has_reg)} 0 {q(has_loc)} {q(quad)} {q(pdf)} {q(locv)} 1/1 0")
        pend.append((idx, dict(point=point, basis=j, has_reg=has_reg, has_loc=has_loc, loc=locv), real, point))
    lines = drv.run()
    for idx, case, real, point in pend:
        model = unq(lines[idx])
        # the model returns point * convolution (the factor of compute_local)
        ok = abs(model - point * real) <= 1e-8 * max(1.0, abs(real))
        feat = ("beyond-one" if point >= 1 - eps else "inside") + ("/reg" if case["has_reg"] else "") + ("/loc" if case["has_loc"] else "")
        chk.corr_case("convolution_exits", ok, dict(case=case, py=real, model=model), None if ok else dict(case, py=real, model=model), feat)


def search_partonic(chk, r, thorough):
    """every regular part of every heavy NC class is exactly 0.0 beyond the partonic threshold and the
    massive coefficient functions are never evaluated at eta <= 0"""
    import LeProHQ

    hp = importlib.import_module("yadism.coefficient_functions.heavy.partonic_channel")
    recorded = []
    originals = {}
    for name in dir(LeProHQ):
        f = getattr(LeProHQ, name)
        if callable(f) and not name.startswith("_") and name[0] in "cd":
            originals[name] = f

            def wrap(*a, _f=f, _n=name):
                if len(a) == 4:
                    recorded.append((_n, float(a[3])))
                return _f(*a)

            setattr(LeProHQ, name, wrap)
    try:
        for mn in translate_thr.NC_MODULES:
            mod = importlib.import_module(f"yadism.coefficient_functions.heavy.{mn}")
            for cname, cls in sorted(vars(mod).items()):
                if not (isinstance(cls, type) and issubclass(cls, hp.NeutralCurrentBase) and cls.__module__ == mod.__name__):
                    continue
                for order in (1, 2, 3) if thorough else (1, 2):
                    for Q2, m, zb in boundary_points(r, 2) + [(30.0, 1.51, None), (3.0, 4.92, None)]:
                        m2 = m * m
                        zmax = 1.0 / (1.0 + 4 * m2 / Q2)
                        x = min(0.5 * zmax, 0.05)
                        try:
                            obj = cls(StubESF(x, Q2), 3, m2hq=m2)
                            rsl = obj[order]()
                        except Exception as e:  # noqa
                            chk.search_case("integrand_zero_beyond_partonic_threshold", False, what=f"{mn}.{cname}[{order}]: construction failed: {type(e).__name__}: {e}"[:200], data=dict(site=f"{mn}.{cname}[{order}]"))
                            continue
                        if rsl is None or rsl.reg is None:
                            continue
                        label = f"{mn}.{cname}[{order}]"
                        del recorded[:]
                        zs_beyond = [z for z in ([zb] if zb else []) + [float(np.nextafter(zmax, 1)) if not zb else zb, 0.5 * (zmax + 1), 0.999, 1.0] if z is not None]
                        bad = None
                        for z in zs_beyond:
                            if Q2 * (1 - z) / z > 4 * m2:
                                continue  # rounding put it on the open side
                            try:
                                v = rsl.reg(z, rsl.args["reg"])
                            except Exception as e:  # noqa: beyond the threshold nothing may be evaluated at all
                                bad = f"reg({z}) raises {type(e).__name__}: {e} although Q2(1-z)/z = {Q2 * (1 - z) / z} <= 4m2 = {4 * m2}"[:220]
                                continue
                            if not (isinstance(v, float) and v == 0.0):
                                bad = f"reg({z}) = {v!r} although Q2(1-z)/z = {Q2 * (1 - z) / z} <= 4m2 = {4 * m2}"
                        called_beyond = [c for c in recorded]
                        if called_beyond:
                            bad = bad or f"LeProHQ.{called_beyond[0][0]} evaluated at eta = {called_beyond[0][1]} beyond the threshold"
                        del recorded[:]
                        inside = 0.5 * zmax
                        try:
                            vin = float(rsl.reg(inside, rsl.args["reg"]))
                        except Exception as e:  # noqa
                            vin = float("nan")
                        neg_eta = [c for c in recorded if c[1] <= 0]
                        if neg_eta:
                            bad = bad or f"LeProHQ.{neg_eta[0][0]} evaluated at eta = {neg_eta[0][1]} <= 0"
                        d = dict(site=label, Q2=Q2, m2=m2, zmax=zmax, problem=bad, value_inside=vin)
                        if order <= 2 and zb is None:
                            # generic masses: at the doubles next to the threshold the guard (computed from
                            # Q2 (1-z)/z) and eta(z) (computed from Q2/m2) round independently; whatever side
                            # the guard takes, the part returns a finite number and the massive library is
                            # not called at eta <= 0
                            probe_bad, n_probe = None, 0
                            for _ in range(12 if thorough else 4):
                                m2g, Q2g = float(r.uniform(1.0, 30.0)), float(r.uniform(2.0, 500.0))
                                zt = Q2g / (Q2g + 4 * m2g)
                                try:
                                    og = cls(StubESF(min(0.05, zt / 2), Q2g), 3, m2hq=m2g)[order]()
                                except Exception:
                                    continue
                                if og is None or og.reg is None:
                                    continue
                                cands = [zt]
                                for _k in range(2):
                                    cands = [float(np.nextafter(cands[0], 0.0))] + cands + [float(np.nextafter(cands[-1], 1.0))]
                                for zz in cands:
                                    del recorded[:]
                                    n_probe += 1
                                    try:
                                        vv = og.reg(zz, og.args["reg"])
                                        if not np.all(np.isfinite(vv)):
                                            probe_bad = probe_bad or dict(Q2=Q2g, m2=m2g, z=zz, value=repr(vv), guard_below=bool(Q2g * (1 - zz) / zz <= 4 * m2g))
                                    except Exception as e:  # noqa
                                        probe_bad = probe_bad or dict(Q2=Q2g, m2=m2g, z=zz, error=f"{type(e).__name__}: {e}"[:80])
                                    if [c_ for c_ in recorded if c_[1] <= 0] and probe_bad is None:
                                        probe_bad = dict(Q2=Q2g, m2=m2g, z=zz, called=f"LeProHQ.{recorded[0][0]} at eta = {recorded[0][1]}")
                            del recorded[:]
                            if n_probe:
                                chk.search_case("finite_at_the_partonic_threshold", probe_bad is None, what=f"{label}: regular part next to the partonic threshold (generic masses): {probe_bad}", data=dict(site=label, problem=probe_bad), sample=None, nontrivial=True)
                        chk.search_case("integrand_zero_beyond_partonic_threshold", bad is None, what=f"{label} Q2={Q2} m={m}: {bad}", data=d, sample=d if cname == "GluonVV" and order == 1 else None, nontrivial=vin != 0.0)
    finally:
        for name, f in originals.items():
            setattr(LeProHQ, name, f)


def rows_of(res, pids):
    out = {}
    for k, (v, e) in res.orders.items():
        v = np.asarray(v)
        out[k] = float(np.abs(v[[PIDS.index(p) for p in pids]]).max()) if len(pids) else 0.0
    return out


def search_hadronic(chk, r, n, max_pto):
    """real runs: at or below the pair threshold the rows of gluon and lighter quarks of a heavy NC
    structure function are exactly zero; just above they are not"""
    import yadism

    grid = cards.default_grid(8, 0.01)
    plans = []
    # far above the mass the threshold sits next to x = 1: z = 1 - 2^-k gives Q2 (1-z)/z = 4 m^2 exactly
    # for Q2 = 4 m^2 (2^k - 1) (Q2/m2 = 32764 and 131068)
    for k_, m_ in ((13, 1.5), (15, 0.75)):
        z_, Q2_ = 1.0 - 2.0**-k_, 4.0 * m_ * m_ * (2**k_ - 1)
        F = fractions.Fraction
        assert Q2_ * (1 - z_) / z_ == 4 * m_ * m_ and F(Q2_) * (1 - F(z_)) / F(z_) == 4 * F(m_) * F(m_)
        plans.append((z_, Q2_, m_, "on"))
        plans.append(((z_ + 1.0) / 2.0, Q2_, m_, "below"))
    n += len(plans)
    for Q2, m, z in boundary_points(r, max(2, n // 3)):
        plans.append((z, Q2, m, "on"))
        plans.append((min(0.95, z * 1.3), Q2, m, "below"))
        plans.append((z * 0.6, Q2, m, "above"))
    for x, Q2, m, where in plans[:n]:
        kind = r.choice(["F2", "FL", "g1"]) if max_pto > 1 else r.choice(["F2", "FL"])
        fl = r.choice(["charm", "bottom", "top"])
        nfff = 3 if fl != "top" or r.random() < 0.5 else 4
        if fl == "charm":
            nfff = 3
        pto = r.choice([1, max_pto])
        masses = dict(mc=1.51, mb=4.92, mt=172.5)
        # put the quark under study at mass m, keep the ordering of the masses
        if fl == "charm":
            masses = dict(mc=m, mb=max(4.92, 2 * m), mt=max(172.5, 4 * m))
        elif fl == "bottom":
            masses = dict(mc=min(1.51, m / 2), mb=m, mt=max(172.5, 2 * m))
        else:
            masses = dict(mc=min(1.51, m / 4), mb=min(4.92, m / 2), mt=m)
        name = f"{kind}_{fl}"
        t = cards.theory(PTO=min(pto, 2), PTODIS=pto, FNS="FFNS", NfFF=nfff, IC=r.choice([0, 1]), **masses)
        o = cards.obs({name: [dict(x=x, Q2=Q2)]}, prDIS=r.choice(["NC", "EM"]), interpolation_xgrid=grid, interpolation_polynomial_degree=3)
        case = dict(obs=name, x=x, Q2=Q2, m=m, where=where, NfFF=nfff, PTO=pto, IC=t["IC"], shat=Q2 * (1 - x) / x, four_m2=4 * m * m)
        try:
            res = yadism.run_yadism(t, o)[name][0]
        except Exception as e:  # noqa
            chk.search_case("hadronic_threshold_rows_zero", False, what=f"{name} x={x} Q2={Q2} m={m}: {type(e).__name__}: {e}"[:200], data=case)
            continue
        ih = IHQ[fl]
        others = [p for p in PIDS if abs(p) != ih and p != 22 and (abs(p) < ih or p == 21)]
        worst = max(rows_of(res, others).values())
        case["max_abs_non_heavy_rows"] = worst
        if where == "above":
            chk.search_case("hadronic_threshold_rows_zero", True, what=None, data=case, nontrivial=worst > 0)
        else:
            chk.search_case("hadronic_threshold_rows_zero", worst == 0.0, what=f"{name} FFNS NfFF={nfff} PTO={pto} x={x} Q2={Q2} m={m} ({where} threshold: Q2(1-x)/x={case['shat']} vs 4m2={case['four_m2']}): gluon/light rows not zero (max {worst})", data=case, sample=case if where == "on" else None)


def search_missing(chk, r, n):
    """the light-quark-initiated heavy-pair ('missing') channel at NNLO carries a local term: on or
    below threshold the light structure function must not depend on that heavy-quark mass"""
    import yadism

    grid = cards.default_grid(7, 0.02)
    pts = [(0.5, 9.0, 1.5), (0.25, 3.0, 1.5), (0.5, 81.0, 4.5), (0.25, 27.0, 4.5)]
    for i in range(n):
        x, Q2, m = pts[i % len(pts)]
        kind = ["F2", "FL", "F3", "g1"][(i // len(pts)) % 4]
        which = "mc" if m < 2 else "mb"
        name = f"{kind}_light"
        okw = dict(interpolation_xgrid=grid, interpolation_polynomial_degree=2, prDIS="NC")
        base = dict(mc=1.5, mb=4.5, mt=172.5)
        res = []
        for mm in (m, m * 1.07, m * 2.0 if which == "mc" else m * 1.5):
            th = dict(base)
            th[which] = mm
            if which == "mc":
                th["mb"] = max(4.5, 1.2 * mm)
            t = cards.theory(PTO=2, FNS="FFNS", NfFF=3, **th)
            res.append(yadism.run_yadism(t, cards.obs({name: [dict(x=x, Q2=Q2)]}, **okw))[name][0])
        v = [np.asarray(rr.orders[(2, 0, 0, 0)][0]) for rr in res]
        scale = float(np.abs(v[0]).max())
        diff = max(float(np.abs(v[0] - v[1]).max()), float(np.abs(v[0] - v[2]).max()))
        case = dict(obs=name, x=x, Q2=Q2, mass=which, on_threshold_value=m, maxdiff=diff, scale=scale)
        chk.search_case("light_sf_independent_of_mass_on_threshold", diff <= 1e-12 * max(scale, 1.0), what=f"{name} PTO=2 FFNS3 x={x} Q2={Q2}: NNLO operator depends on {which} although Q2(1-x)/x <= 4 {which}^2 (exactly on threshold at {which}={m}): diff {diff}", data=case, sample=case, nontrivial=scale > 0)


def search_cc(chk, r, n, thorough):
    """charged current: LO operator = weight x chi x p_j(chi) at chi = x (1 + m^2/Q2) for the mass of the
    produced quark; everything is zero when chi >= 1"""
    import yadism
    from yadism.coefficient_functions import Combiner
    from yadism import observable_name as on

    grid = cards.default_grid(9, 0.01)
    for i in range(n):
        kind = ["F2", "F3", "FL"][i % 3]
        fl = ["charm", "bottom", "top"][(i // 3) % 3] if thorough or i % 2 else r.choice(["charm", "bottom"])
        nfff = 3
        m = dict(charm=1.51, bottom=4.92, top=30.0)[fl]
        beyond = i % 4 == 3
        Q2 = float(r.choice([2.0, 5.0, 20.0, 100.0])) if fl != "top" else float(r.choice([200.0, 1000.0]))
        lam = 1.0 / (1.0 + m * m / Q2)
        x = float(r.uniform(lam, min(1.0, lam * 1.5))) if beyond else float(max(r.uniform(0.02, 0.9) * lam, 0.0105))  # inside the grid
        if beyond and r.random() < 0.4:
            x = float(lam)  # chi == 1 up to rounding
        on_node = False
        if i % 3 == 0 or i % 4 == 3:
            # Bjorken x exactly on a node of the interpolation grid (the slow-rescaling point is not)
            nodes = [float(g) for g in grid[:-1] if (g * (1 + m * m / Q2) >= 1.0) == beyond and g >= 0.0105]
            if nodes:
                x, on_node = float(r.choice(nodes)), True
        chi = x * (1 + m * m / Q2)
        pto = 0 if not beyond else r.choice([0, 1])
        name = f"{kind}_{fl}"
        t = cards.theory(PTO=pto, FNS="FFNS", NfFF=nfff, mc=1.51, mb=4.92, mt=30.0 if fl == "top" else 172.5, IC=0)
        o = cards.obs({name: [dict(x=x, Q2=Q2)]}, prDIS="CC", ProjectileDIS=r.choice(["neutrino", "antineutrino", "electron", "positron"]), interpolation_xgrid=grid, interpolation_polynomial_degree=3)
        case = dict(obs=name, x=x, x_on_grid_node=on_node, Q2=Q2, m=m, chi=chi, PTO=pto, projectile=o["ProjectileDIS"])
        try:
            runner = yadism.Runner(t, o)
            out = runner.get_result()
            res = out[name][0]
        except Exception as e:  # noqa
            chk.search_case("cc_slow_rescaling", False, what=f"{name} CC x={x} Q2={Q2}: {type(e).__name__}: {e}"[:200], data=case)
            continue
        interp = runner.configs.interpolator
        # rows of the produced quark itself belong to the heavy-initiated (intrinsic) channel, which has
        # no production threshold: the property is about the rows of the other partons
        keep = [i_ for i_, p_ in enumerate(PIDS) if abs(p_) != IHQ[fl]]
        if chi >= 1.0 - 1e-10:
            worst = max(float(np.abs(np.asarray(v)[keep]).max()) for v, _ in res.orders.values())
            case["max_abs"] = worst
            chk.search_case("cc_slow_rescaling", worst == 0.0, what=f"{name} CC PTO={pto} x={x} Q2={Q2} m={m}: chi={chi} >= 1 but operator not zero (max {worst})", data=case, sample=case)
            continue
        v = np.asarray(res.orders[(0, 0, 0, 0)][0])[keep]
        basis = np.array([float(pj(chi)) for pj in interp])
        # every non-zero row must be proportional to p_j(chi): compare directions
        worst = 0.0
        nz = 0
        for row in v:
            if np.abs(row).max() == 0:
                continue
            nz += 1
            k = int(np.argmax(np.abs(basis)))
            c = row[k] / basis[k]
            worst = max(worst, float(np.abs(row - c * basis).max() / max(abs(c), 1e-300)))
        case.update(rows=nz, worst_direction_mismatch=worst)
        ok = worst <= 1e-10 and (nz > 0 or kind == "FL")
        chk.search_case("cc_slow_rescaling", ok, what=f"{name} CC LO x={x} Q2={Q2} m={m}: operator rows are not located at chi = x(1+m2/Q2) = {chi} (mismatch {worst}, {nz} rows)", data=case, sample=case if fl == "bottom" else None, nontrivial=nz > 0)


def search_mass_choice(chk, r):
    """the mass every heavy kernel carries is the one of the produced quark"""
    import yadism
    from yadism import observable_name as on
    from yadism.coefficient_functions import Combiner

    for proc in ("NC", "CC"):
        for nfff in (3, 4):
            for fl in ("charm", "bottom", "top"):
                if IHQ[fl] <= nfff:
                    continue
                name = f"F2_{fl}"
                t = cards.theory(PTO=1, FNS="FFNS", NfFF=nfff, IC=0)
                o = cards.obs({name: [dict(x=0.1, Q2=50.0)]}, prDIS=proc, ProjectileDIS="neutrino" if proc == "CC" else "electron")
                runner = yadism.Runner(t, o)
                sf = runner.get_sf(on.ObservableName(name))
                esf = sf.get_esf(on.ObservableName(name), dict(x=0.1, Q2=50.0))
                m2 = MASS[fl] ** 2
                for k in Combiner(esf).collect_elems():
                    c = k.coeff
                    got = None
                    if hasattr(c, "m2hq"):
                        got = float(c.m2hq)
                    elif hasattr(c, "labda"):
                        got = float(50.0 * (1.0 / c.labda - 1.0))
                    if got is None:
                        continue
                    d = dict(obs=name, process=proc, NfFF=nfff, channel=type(c).__name__, mass2_used=got, mass2_of_produced_quark=m2)
                    chk.search_case("mass_of_produced_quark", abs(got - m2) <= 1e-9 * m2, what=f"{name} {proc} FFNS NfFF={nfff}: {type(c).__name__} uses m2={got}, the produced quark has m2={m2}", data=d, sample=d if fl == "bottom" and proc == "CC" else None)


def search_total_closed_flavours(chk, r, n):
    """F_total of a fixed-flavour run contains charm, bottom and top pair production side by side (same
    classes, different masses): the part of a flavour whose threshold is closed must vanish, i.e.
    total - light - (open flavours) has zero gluon / light-quark rows"""
    import yadism

    grid = cards.default_grid(8, 0.01)
    plans = [
        # (process, projectile, x, Q2, open flavours): NC: charm open, bottom closed; CC: chi_b >= 1
        ("NC", "electron", 0.1, 8.0, ["charm"]),
        ("EM", "electron", 0.05, 4.0, ["charm"]),
        ("CC", "neutrino", 0.5, 20.0, ["charm"]),
        ("CC", "antineutrino", 0.6, 30.0, ["charm"]),
        ("NC", "positron", 0.3, 60.0, ["charm"]),
    ]
    for i in range(n):
        proc, proj, x, Q2, open_fl = plans[i % len(plans)]
        kind = r.choice(["F2", "FL"]) if proc != "CC" else r.choice(["F2", "F3"])
        names = [f"{kind}_{f}" for f in ["total", "light"] + open_fl]
        t = cards.theory(PTO=1, FNS="FFNS", NfFF=3, IC=0)
        o = cards.obs({nm: [dict(x=x, Q2=Q2)] for nm in names}, prDIS=proc, ProjectileDIS=proj, interpolation_xgrid=grid, interpolation_polynomial_degree=3)
        case = dict(kind=kind, process=proc, projectile=proj, x=x, Q2=Q2, open=open_fl, closed=["bottom", "top"])
        # the closed flavours really are closed
        mb2, mt2 = 4.92**2, 172.5**2
        closed_ok = (x * (1 + mb2 / Q2) >= 1.0) if proc == "CC" else (Q2 * (1 - x) / x <= 4 * mb2)
        try:
            out = yadism.run_yadism(t, o)
        except Exception as e:  # noqa
            chk.search_case("total_minus_open_flavours", False, what=f"{kind}_total {proc} FFNS3 x={x} Q2={Q2}: {type(e).__name__}: {e}"[:200], data=case)
            continue
        worst, scale = 0.0, 0.0
        rows = [i_ for i_, p_ in enumerate(PIDS) if abs(p_) <= 3 or p_ == 21]
        for k in out[names[0]][0].orders:
            tot = np.asarray(out[names[0]][0].orders[k][0])
            rest = sum(np.asarray(out[nm][0].orders[k][0]) for nm in names[1:])
            worst = max(worst, float(np.abs((tot - rest)[rows]).max()))
            scale = max(scale, float(np.abs(tot[rows]).max()))
        case.update(max_abs_remainder=worst, scale=scale)
        chk.search_case("total_minus_open_flavours", (not closed_ok) or worst <= 1e-12 * max(scale, 1e-300), what=f"{kind}_total {proc} {proj} FFNS NfFF=3 PTO=1 x={x} Q2={Q2}: total - light - {'-'.join(open_fl)} has gluon/light rows up to {worst} although bottom and top are closed", data=case, sample=case if i == 0 else None, nontrivial=closed_ok and scale > 0)


def run(tier):
    chk = common.Check("C09", tier)
    thorough = tier == "thorough"
    r = common.rng("C09")
    rep = translate_thr.generate_thr()
    ok, log, dt = common.lake_build(["YadismModel.Generated.Threshold"])
    chk.obligation("threshold-logic-translated", ok and not rep["failed"], (str(rep["failed"]) + log[-300:]) if not (ok and not rep["failed"]) else "")
    chk.extra["threshold_translator"] = dict(failed=rep["failed"], guard_op=(rep.get("guard") or {}).get("op"), nc_sites=len(rep.get("guards") or []), unguarded=[g[0] for g in (rep.get("guards") or []) if not g[1]], mass_lookup=rep.get("mass_lookup"))
    common.lean_proof_step(chk, "YadismModel.Properties.C09", thorough=thorough)
    corr_guard(chk, r, 400 if thorough else 90)
    corr_convolution(chk, r, 200 if thorough else 40)
    search_partonic(chk, r, thorough)
    search_mass_choice(chk, r)
    search_cc(chk, r, 48 if thorough else 16, thorough)
    search_hadronic(chk, r, 36 if thorough else 9, 2)
    search_missing(chk, r, 16 if thorough else 2)
    search_total_closed_flavours(chk, r, 10 if thorough else 4)
    chk.assumptions += [
        "the guard, _xi, _eta, labda and the convolution point are regenerated from the source each run and compared with the real methods on exact boundary points (double arithmetic exact there) and random points",
        "shape facts (every regular part starts with the guard, no singular parts, the decorator wraps all orders, early exits of conv.convolution, mass lookup) are read from the syntax tree each run and decided by the kernel; the hand model of conv.convolution's assembly is tied by the convolution_exits correspondence on the real eko basis",
        "LeProHQ (the massive coefficient functions) is an external parameter: only its domain (eta > 0) is checked",
        "points within one unit of rounding of the threshold are decided by double arithmetic in the code and by exact rationals in the model: compared only where the double computation is exact",
    ]
    return chk
