"""C13 — symmetry and decoupling relations between processes and beams."""

import numpy as np

from .. import cards, common, corr_weights, realrun

B = realrun.BASIS


def relmax(a, b):
    d = 0.0
    s = 0.0
    for k in set(a) | set(b):
        va = np.asarray(a[k]) if k in a else 0.0
        vb = np.asarray(b[k]) if k in b else 0.0
        d = max(d, float(np.abs(va - vb).max()))
        s = max(s, float(np.abs(va).max()), float(np.abs(vb).max()))
    return d, s


def ops(res):
    return {k: np.array(v[0]) for k, v in res.orders.items()}


def conj(o, sigma):
    """O'[pid] = sigma * O[-pid] (gluon and photon self-conjugate)"""
    out = {}
    for k, v in o.items():
        w = np.zeros_like(v)
        for i, pid in enumerate(B):
            j = B.index(-pid) if pid not in (21, 22) else i
            w[i] = sigma * v[j]
        out[k] = w
    return out


def search(chk, r, n, max_pto):
    for i in range(n):
        which = r.choice(["nc_em", "positron", "cc_conj", "exchange"])
        pto = r.choice(list(range(max_pto + 1)))
        p = [dict(x=float(r.choice([0.02, 0.1, 0.4])), Q2=float(r.choice([10.0, 100.0, 2000.0])))]
        th_kw, ob_kw = cards.rand_ew(r)
        try:
            if which == "nc_em":
                kind = r.choice(["F2", "FL", "g1"])
                fl = r.choice(["total", "light", "charm"])
                scheme, nfff = r.choice([("ZM-VFNS", 4), ("FFNS", 3)])
                name = f"{kind}_{fl}"
                th_kw["MZ"] = 1e9
                th_kw["MW"] = 1e9
                th = cards.theory(PTO=pto, FNS=scheme, NfFF=nfff, **th_kw)
                a = realrun.run(th, cards.obs({name: p}, prDIS="NC", **ob_kw))[name][0]
                b = realrun.run(th, cards.obs({name: p}, prDIS="EM", **ob_kw))[name][0]
                d, s = relmax(ops(a), ops(b))
                sample = dict(rel=which, obs=name, pto=pto, FNS=scheme, point=p[0], ew=th_kw, maxdiff=d, scale=s)
                chk.search_case("nc_to_em_decoupled_Z", d <= 1e-9 * max(s, 1e-300), what="NC with decoupled Z != EM", data=sample, sample=sample, nontrivial=s > 0)
            elif which == "positron":
                kind = r.choice(cards.SFS)
                fl = r.choice(["total", "light", "charm"])
                scheme, nfff = r.choice([("ZM-VFNS", 4), ("FFNS", 3), ("FFN0", 3)])
                name = f"{kind}_{fl}"
                P = float(r.choice([0.3, -0.7, 1.0, r.uniform(-1, 1)]))
                th = cards.theory(PTO=pto, FNS=scheme, NfFF=nfff, **th_kw)
                ob_kw2 = dict(ob_kw)
                ob_kw2.pop("PolarizationDIS")
                a = realrun.run(th, cards.obs({name: p}, prDIS="NC", ProjectileDIS="positron", PolarizationDIS=P, **ob_kw2))[name][0]
                b = realrun.run(th, cards.obs({name: p}, prDIS="NC", ProjectileDIS="electron", PolarizationDIS=-P, **ob_kw2))[name][0]
                d, s = relmax(ops(a), ops(b))
                sample = dict(rel=which, obs=name, pto=pto, FNS=scheme, P=P, point=p[0], maxdiff=d, scale=s)
                chk.search_case("positron_P_vs_electron_minusP", d <= 1e-12 * max(s, 1e-300), what="e+ with P != e- with -P", data=sample, sample=sample, nontrivial=s > 0)
            elif which == "cc_conj":
                kind = r.choice(cards.UNPOL)
                fl = r.choice(["total", "light", "charm", "bottom"])
                scheme, nfff = r.choice([("ZM-VFNS", 4), ("FFNS", 3), ("FFNS", 4), ("FFN0", 3)])
                name = f"{kind}_{fl}"
                pair = r.choice([("neutrino", "antineutrino"), ("electron", "positron")])
                th = cards.theory(PTO=pto, FNS=scheme, NfFF=nfff, **th_kw)
                # the relation holds for every target (isospin rotates quarks and antiquarks alike)
                ob_kw = dict(ob_kw, TargetDIS=r.choice(["proton", "isoscalar", "iron", "neutron", dict(Z=1.0, A=3.0)]))
                a = realrun.run(th, cards.obs({name: p}, prDIS="CC", ProjectileDIS=pair[0], **ob_kw))[name][0]
                b = realrun.run(th, cards.obs({name: p}, prDIS="CC", ProjectileDIS=pair[1], **ob_kw))[name][0]
                sigma = -1.0 if kind == "F3" else 1.0
                d, s = relmax(ops(b), conj(ops(a), sigma))
                sample = dict(rel=which, obs=name, pto=pto, FNS=scheme, NfFF=nfff, beams=pair, target=ob_kw["TargetDIS"], point=p[0], ckm=th_kw["CKM"], maxdiff=d, scale=s)
                chk.search_case("cc_charge_conjugation", d <= 1e-12 * max(s, 1e-300), what="CC conjugate beam != sigma * operator on conjugated pids", data=sample, sample=sample, nontrivial=s > 0)
            else:
                kind = r.choice(cards.SFS)
                proc = r.choice(["EM", "NC"])
                name = f"{kind}_light"
                th = cards.theory(PTO=pto, FNS="ZM-VFNS", **th_kw)
                a = ops(realrun.run(th, cards.obs({name: p}, prDIS=proc, **ob_kw))[name][0])
                nf = 3 + sum(1 for m in (1.51, 4.92, 172.5) if m * m <= p[0]["Q2"])
                pairs = [(1, 3)] + ([(2, 4)] if nf >= 4 else []) + ([(1, 5), (3, 5)] if nf >= 5 else [])
                d = s = 0.0
                for q1, q2_ in pairs:
                    for sg in (1, -1):
                        for k, v in a.items():
                            d = max(d, float(np.abs(v[B.index(sg * q1)] - v[B.index(sg * q2_)]).max()))
                            s = max(s, float(np.abs(v[B.index(sg * q1)]).max()))
                sample = dict(rel=which, obs=name, process=proc, pto=pto, nf=nf, pairs=pairs, point=p[0], maxdiff=d, scale=s)
                chk.search_case("equal_charge_exchange", d <= 1e-12 * max(s, 1e-300), what="operator rows of equally charged active quarks differ", data=sample, sample=sample, nontrivial=s > 0)
        except Exception as e:
            chk.extra.setdefault("search_exceptions", {})
            k = f"{which}:{type(e).__name__}:{str(e)[:80]}"
            chk.extra["search_exceptions"][k] = chk.extra["search_exceptions"].get(k, 0) + 1


def search_exchange_kernels(chk, r, n):
    """equal-charge exchange on the real Combiner, no convolution needed (so every order up to N3LO):
    in a massless scheme on a proton target every kernel gives equally charged active quarks other
    than the tagged one the same weight; and with the Z decoupled (M_Z = 1e30) the NC weights of the
    real coupling object are the EM ones, for the ordinary and the fl11 weights"""
    import yadism
    from yadism.coefficient_functions import Combiner

    B = realrun.BASIS
    for t, o in corr_weights.combiner_configs(r, n, processes=["EM", "NC"], schemes=["ZM-VFNS"]):
        o = dict(o, TargetDIS="proton", NCPositivityCharge=None)
        o["observables"] = {nm: [dict(x=0.1, Q2=q2) for q2 in (1.5, 10.0, 100.0, 1e5)] for nm in o["observables"]}
        t = dict(t, mc=1.51, mb=4.92, mt=172.5, kcThr=1.0, kbThr=1.0, ktThr=1.0)
        try:
            runner = yadism.Runner(t, o)
        except Exception:
            continue
        for name, obj in runner.observables.items():
            for esf in obj.elements:
                try:
                    comb = Combiner(esf)
                    elems = comb.collect_elems()
                except Exception:
                    continue
                nf = int(comb.nf)
                tagged = esf.info.obs_name.hqnumber
                groups = [[q_ for q_ in (1, 3, 5) if q_ <= nf and q_ != tagged], [q_ for q_ in (2, 4, 6) if q_ <= nf and q_ != tagged]]
                worst, where, scale = 0.0, None, 0.0
                for k in elems:
                    for g in groups:
                        for sg in (1, -1):
                            ws = [float(k.partons.get(sg * q_, 0.0)) for q_ in g]
                            if len(ws) >= 2:
                                d = max(ws) - min(ws)
                                scale = max(scale, max(abs(w) for w in ws))
                                if d > worst:
                                    worst, where = d, dict(kernel=type(k.coeff).__module__.split(".")[-2] + "." + type(k.coeff).__name__, quarks=[sg * q_ for q_ in g], weights=ws)
                sample = dict(obs=name, process=o["prDIS"], projectile=o["ProjectileDIS"], pto=t["PTODIS"], Q2=float(esf.Q2), nf=nf, tagged=tagged, worst=worst, where=where)
                chk.search_case("equal_charge_exchange_kernel_weights", worst <= 1e-13 * max(scale, 1e-300), what=f"{name} {o['prDIS']} pto={t['PTODIS']} nf={nf}: a kernel weighs equally charged active quarks differently: {where}", data=sample, sample=sample if worst else None, nontrivial=scale > 0)


def search_decoupling_weights(chk, r, n):
    """Z decoupling on the real coupling object: with M_Z -> infinity the NC weights (ordinary and
    fl11, every quark, every coupling type, polarised beams) are the EM ones"""
    from yadism.coefficient_functions.coupling_constants import CouplingConstants

    for i in range(n):
        th_kw, ob_kw = cards.rand_ew(r)
        th_kw["MZ"] = 1e30
        proj = r.choice(["electron", "positron"])
        th = cards.theory(**th_kw)
        objs = {}
        # the coupling restriction of the positivity observables is an option of both processes
        pos_ = [None, "u", "d", "all", "s", "c"][i % 6]
        try:
            for proc in ("NC", "EM"):
                ob = cards.obs({}, prDIS=proc, ProjectileDIS=proj, **dict(ob_kw, NCPositivityCharge=pos_))
                import yadism

                runner = yadism.Runner(th, dict(ob, observables={"F2_total": [dict(x=0.1, Q2=10.0)]}))
                objs[proc] = runner.configs.coupling_constants
        except Exception as e:
            chk.extra.setdefault("search_exceptions", {})
            k = f"decoupling:{type(e).__name__}:{str(e)[:80]}"
            chk.extra["search_exceptions"][k] = chk.extra["search_exceptions"].get(k, 0) + 1
            continue
        Q2 = float(r.choice([1.0, 20.0, 5000.0, 1e5]))
        worst, where, scale = 0.0, None, 0.0
        for pid in range(1, 7):
            for qct in ("VV", "AA", "VA", "AV"):
                a, b = float(objs["NC"].get_weight(pid, Q2, qct)), float(objs["EM"].get_weight(pid, Q2, qct))
                scale = max(scale, abs(b))
                if abs(a - b) > worst:
                    worst, where = abs(a - b), dict(fn="get_weight", pid=pid, qct=qct, NC=a, EM=b)
                for nf in (3, 4, 5, 6):
                    if qct not in ("VV", "AA"):
                        continue
                    try:
                        a, b = float(objs["NC"].get_fl11_weight(pid, Q2, nf, qct)), float(objs["EM"].get_fl11_weight(pid, Q2, nf, qct))
                    except Exception:
                        continue
                    scale = max(scale, abs(b))
                    if abs(a - b) > worst:
                        worst, where = abs(a - b), dict(fn="get_fl11_weight", pid=pid, nf=nf, qct=qct, NC=a, EM=b)
        sample = dict(projectile=proj, polarization=ob_kw.get("PolarizationDIS"), NCPositivityCharge=pos_, Q2=Q2, MZ=1e30, worst=worst, where=where)
        chk.search_case("nc_weights_with_decoupled_Z_are_em", worst <= 1e-12 * max(scale, 1e-300), what=f"NC weight with M_Z=1e30 differs from the EM weight: {where}", data=sample, sample=sample if i == 0 or worst else None, nontrivial=scale > 0)


def run(tier):
    chk = common.Check("C13", tier)
    thorough = tier == "thorough"
    common.lean_proof_step(chk, "YadismModel.Properties.C13", thorough=thorough)
    r = common.rng("C13")
    corr_weights.run_weights(chk, 1500 if thorough else 150, r)
    search(chk, r, 160 if thorough else 20, 2 if thorough else 1)
    search_exchange_kernels(chk, r, 120 if thorough else 25)
    search_decoupling_weights(chk, r, 40 if thorough else 8)
    chk.assumptions += ["relations are proved for the weight maps; their lift to whole outputs uses linearity of the operator in the weights (opEntry) and is observed on pairs of real runs", "NC->EM: proved as NC-EM = eta*(A+eta*B); the real-run search uses MZ=MW=1e9"]
    return chk
