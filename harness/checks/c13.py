"""C13 — symmetry and decoupling relations between processes and beams."""

import numpy as np

from .. import cards, common, corr_weights, realrun

B = realrun.BASIS


def relmax(a, b):
    d = 0.0
    s = 0.0
    for k in set(a) | set(b):
        va = np.asarray(a[k]) if k in a else 0.0
        vb = np.asarray(b[k]) if k in b else 0.0
        d = max(d, float(np.abs(va - vb).max()))
        s = max(s, float(np.abs(va).max()), float(np.abs(vb).max()))
    return d, s


def ops(res):
    return {k: np.array(v[0]) for k, v in res.orders.items()}


def conj(o, sigma):
    """O'[pid] = sigma * O[-pid] (gluon and photon self-conjugate)"""
    out = {}
    for k, v in o.items():
        w = np.zeros_like(v)
        for i, pid in enumerate(B):
            j = B.index(-pid) if pid not in (21, 22) else i
            w[i] = sigma * v[j]
        out[k] = w
    return out


def search(chk, r, n, max_pto):
    for i in range(n):
        which = r.choice(["nc_em", "positron", "cc_conj", "exchange"])
        pto = r.choice(list(range(max_pto + 1)))
        p = [dict(x=float(r.choice([0.02, 0.1, 0.4])), Q2=float(r.choice([10.0, 100.0, 2000.0])))]
        th_kw, ob_kw = cards.rand_ew(r)
        try:
            if which == "nc_em":
                kind = r.choice(["F2", "FL", "g1"])
                fl = r.choice(["total", "light", "charm"])
                scheme, nfff = r.choice([("ZM-VFNS", 4), ("FFNS", 3)])
                name = f"{kind}_{fl}"
                th_kw["MZ"] = 1e9
                th_kw["MW"] = 1e9
                th = cards.theory(PTO=pto, FNS=scheme, NfFF=nfff, **th_kw)
                a = realrun.run(th, cards.obs({name: p}, prDIS="NC", **ob_kw))[name][0]
                b = realrun.run(th, cards.obs({name: p}, prDIS="EM", **ob_kw))[name][0]
                d, s = relmax(ops(a), ops(b))
                sample = dict(rel=which, obs=name, pto=pto, FNS=scheme, point=p[0], ew=th_kw, maxdiff=d, scale=s)
                chk.search_case("nc_to_em_decoupled_Z", d <= 1e-9 * max(s, 1e-300), what="NC with decoupled Z != EM", data=sample, sample=sample, nontrivial=s > 0)
            elif which == "positron":
                kind = r.choice(cards.SFS)
                fl = r.choice(["total", "light", "charm"])
                scheme, nfff = r.choice([("ZM-VFNS", 4), ("FFNS", 3), ("FFN0", 3)])
                name = f"{kind}_{fl}"
                P = float(r.choice([0.3, -0.7, 1.0, r.uniform(-1, 1)]))
                th = cards.theory(PTO=pto, FNS=scheme, NfFF=nfff, **th_kw)
                ob_kw2 = dict(ob_kw)
                ob_kw2.pop("PolarizationDIS")
                a = realrun.run(th, cards.obs({name: p}, prDIS="NC", ProjectileDIS="positron", PolarizationDIS=P, **ob_kw2))[name][0]
                b = realrun.run(th, cards.obs({name: p}, prDIS="NC", ProjectileDIS="electron", PolarizationDIS=-P, **ob_kw2))[name][0]
                d, s = relmax(ops(a), ops(b))
                sample = dict(rel=which, obs=name, pto=pto, FNS=scheme, P=P, point=p[0], maxdiff=d, scale=s)
                chk.search_case("positron_P_vs_electron_minusP", d <= 1e-12 * max(s, 1e-300), what="e+ with P != e- with -P", data=sample, sample=sample, nontrivial=s > 0)
            elif which == "cc_conj":
                kind = r.choice(cards.UNPOL)
                fl = r.choice(["total", "light", "charm", "bottom"])
                scheme, nfff = r.choice([("ZM-VFNS", 4), ("FFNS", 3), ("FFNS", 4), ("FFN0", 3)])
                name = f"{kind}_{fl}"
                pair = r.choice([("neutrino", "antineutrino"), ("electron", "positron")])
                th = cards.theory(PTO=pto, FNS=scheme, NfFF=nfff, **th_kw)
                # the relation holds for every target (isospin rotates quarks and antiquarks alike)
                ob_kw = dict(ob_kw, TargetDIS=r.choice(["proton", "isoscalar", "iron", "neutron", dict(Z=1.0, A=3.0)]))
                a = realrun.run(th, cards.obs({name: p}, prDIS="CC", ProjectileDIS=pair[0], **ob_kw))[name][0]
                b = realrun.run(th, cards.obs({name: p}, prDIS="CC", ProjectileDIS=pair[1], **ob_kw))[name][0]
                sigma = -1.0 if kind == "F3" else 1.0
                d, s = relmax(ops(b), conj(ops(a), sigma))
                sample = dict(rel=which, obs=name, pto=pto, FNS=scheme, NfFF=nfff, beams=pair, target=ob_kw["TargetDIS"], point=p[0], ckm=th_kw["CKM"], maxdiff=d, scale=s)
                chk.search_case("cc_charge_conjugation", d <= 1e-12 * max(s, 1e-300), what="CC conjugate beam != sigma * operator on conjugated pids", data=sample, sample=sample, nontrivial=s > 0)
            else:
                kind = r.choice(cards.SFS)
                proc = r.choice(["EM", "NC"])
                name = f"{kind}_light"
                th = cards.theory(PTO=pto, FNS="ZM-VFNS", **th_kw)
                a = ops(realrun.run(th, cards.obs({name: p}, prDIS=proc, **ob_kw))[name][0])
                nf = 3 + sum(1 for m in (1.51, 4.92, 172.5) if m * m <= p[0]["Q2"])
                pairs = [(1, 3)] + ([(2, 4)] if nf >= 4 else []) + ([(1, 5), (3, 5)] if nf >= 5 else [])
                d = s = 0.0
                for q1, q2_ in pairs:
                    for sg in (1, -1):
                        for k, v in a.items():
                            d = max(d, float(np.abs(v[B.index(sg * q1)] - v[B.index(sg * q2_)]).max()))
                            s = max(s, float(np.abs(v[B.index(sg * q1)]).max()))
                sample = dict(rel=which, obs=name, process=proc, pto=pto, nf=nf, pairs=pairs, point=p[0], maxdiff=d, scale=s)
                chk.search_case("equal_charge_exchange", d <= 1e-12 * max(s, 1e-300), what="operator rows of equally charged active quarks differ", data=sample, sample=sample, nontrivial=s > 0)
        except Exception as e:
            chk.extra.setdefault("search_exceptions", {})
            k = f"{which}:{type(e).__name__}:{str(e)[:80]}"
            chk.extra["search_exceptions"][k] = chk.extra["search_exceptions"].get(k, 0) + 1


def run(tier):
    chk = common.Check("C13", tier)
    thorough = tier == "thorough"
    common.lean_proof_step(chk, "YadismModel.Properties.C13", thorough=thorough)
    r = common.rng("C13")
    corr_weights.run_weights(chk, 1500 if thorough else 150, r)
    search(chk, r, 160 if thorough else 20, 2 if thorough else 1)
    chk.assumptions += ["relations are proved for the weight maps; their lift to whole outputs uses linearity of the operator in the weights (opEntry) and is observed on pairs of real runs", "NC->EM: proved as NC-EM = eta*(A+eta*B); the real-run search uses MZ=MW=1e9"]
    return chk
