"""C03 — every coefficient/splitting kernel is one well-defined distribution."""

import math

import numpy as np
import scipy.integrate

from .. import callsites, common, corr_kernels, translate
from ..common import Driver

XS = (1e-4, 1e-3, 0.05, 0.3, 0.6, 0.9)  # small x too: a z-dependent piece slipped into a local part shows as a log(x) drift


def classify(sn, ln):
    d = Driver()
    a = d.add(f"distok 0 {sn} {ln}")
    b = d.add(f"distok 1/10000 {sn} {ln}")
    r = d.run()
    return "exact" if r[a].startswith("1") else ("approx" if r[b].startswith("1") else "outside")


def parts_at(rsl, x):
    """(loc(x), loc(0), int_0^x sing) on the real callables"""
    with np.errstate(all="ignore"):
        l0 = float(np.real(rsl.loc(0.0, rsl.args["loc"]))) if rsl.loc is not None else 0.0
    if not math.isfinite(l0):
        # the delta coefficient is the limit x -> 0 of the local part; where the closed form cannot be
        # evaluated at 0 itself (0 * log 0) take it next to 0
        x0 = 1e-12
        l0 = float(np.real(rsl.loc(x0, rsl.args["loc"])))
        if rsl.sing is not None:
            l0 += scipy.integrate.quad(lambda z: float(np.real(rsl.sing(z, rsl.args["sing"]))), 0.0, x0, epsabs=1e-14, epsrel=1e-12)[0]
    lx = float(np.real(rsl.loc(x, rsl.args["loc"]))) if rsl.loc is not None else 0.0
    i = 0.0
    if rsl.sing is not None:
        i = scipy.integrate.quad(lambda z: float(rsl.sing(z, rsl.args["sing"])), 0.0, x, epsabs=1e-12, epsrel=1e-12, limit=300)[0]
    return lx, l0, i


def search_consistency(chk, sites, tol_exact=1e-7, tol_comp=1e-3):
    """loc(x) - loc(0) + int_0^x sing = 0 on every live RSL with a local part, decomposed into powers
    of nf (a wrong coefficient of a sub-leading nf power is invisible in the total)"""
    groups = {}
    for s in sites:
        if s["status"] == "rsl" and ("loc" in s["parts"]):
            groups.setdefault((s["fam"], s["module"], s["cls"], s["order"]), {})[s["nf"]] = s["rsl"]
    seen = set()
    for key, by_nf in sorted(groups.items()):
        any_rsl = next(iter(by_nf.values()))
        names = (callsites.qualname(any_rsl.sing), callsites.qualname(any_rsl.loc))
        if names in seen and "<locals>" not in (names[1] or ""):
            continue
        seen.add(names)
        label = "{}.{}.{}[{}]".format(*key)
        nfs = sorted(by_nf)
        worst = 0.0
        worst_at = None
        try:
            for x in XS:
                vals = {nf: parts_at(by_nf[nf], x) for nf in nfs}
                R = np.array([vals[nf][0] - vals[nf][1] + vals[nf][2] for nf in nfs])
                S = np.array([abs(vals[nf][0]) + abs(vals[nf][1]) + abs(vals[nf][2]) for nf in nfs])
                # total; a part that is not a finite number (here or at x = 0, which defines the delta
                # coefficient) has no residual at all: that is a failing case, not a passing one
                if not (np.all(np.isfinite(R)) and np.all(np.isfinite(S))):
                    worst, worst_at = float("inf"), dict(x=x, component="total", residual=[repr(v) for v in R.tolist()], scale=[repr(v) for v in S.tolist()], loc_at_0=[repr(vals[nf][1]) for nf in nfs])
                    break
                rel = float(np.max(np.abs(R) / (S + 1e-300)))
                if rel > worst:
                    worst, worst_at = rel, dict(x=x, component="total", residual=R.tolist(), scale=S.tolist())
                # components in nf (exact polynomial fit through the available nf values)
                if len(nfs) >= 3:
                    V = np.vander(np.array(nfs, dtype=float), len(nfs), increasing=True)
                    comp_R = np.linalg.solve(V, R)
                    comps = [np.linalg.solve(V, np.array([vals[nf][j] for nf in nfs])) for j in range(3)]
                    for c in range(min(len(nfs), 3)):
                        sc = sum(abs(cc[c]) for cc in comps) * float(nfs[-1]) ** c
                        tot = float(np.max(S))
                        if sc > 1e-6 * tot:  # the component exists
                            relc = abs(comp_R[c]) * float(nfs[-1]) ** c / sc
                            if relc > worst and relc > tol_comp:
                                worst, worst_at = relc, dict(x=x, component=f"nf^{c}", residual=float(comp_R[c]), scale=sc / float(nfs[-1]) ** c)
        except Exception as e:
            chk.search_case("loc_minus_delta_plus_int_sing", False, what=f"{label}: evaluation failed: {type(e).__name__}: {e}"[:200], data=dict(site=label))
            continue
        vogt = any(t in (names[1] or "") for t in ("nnlo.x", "n3lo.x"))
        tol = tol_comp if vogt else tol_exact
        ok = worst <= tol or (worst_at is not None and worst_at["component"] == "total" and worst <= tol)
        data = dict(site=label, sing=names[0], loc=names[1], worst_relative_residual=worst, at=worst_at, tolerance=tol)
        chk.search_case("loc_minus_delta_plus_int_sing", ok, what=f"{label}: loc(x) != delta - int_0^x sing ({(names[1] or '').split('.')[-1]})", data=data, sample=data if "c2nn2c" in (names[1] or "") else None, nontrivial=any_rsl.sing is not None)


def search_mass_ratios(chk, sites):
    """the same identity for the mass-dependent families over the whole range of Q2/m2 a run can
    reach (the closures choose formulas by that ratio): loc(b) - loc(a) + int_a^b sing = 0 on three
    intervals, relative to |loc(b) - loc(a)| + int |sing| (loc itself carries constants ~ m2/Q2)"""
    import importlib

    done = set()
    for s in sites:
        if s["fam"] not in ("heavy", "intrinsic", "asy") or s["status"] != "rsl" or "loc" not in s["parts"] or "sing" not in s["parts"]:
            continue
        key = (s["fam"], s["module"], s["cls"], s["order"])
        if key in done:
            continue
        done.add(key)
        cls = getattr(importlib.import_module(f"yadism.coefficient_functions.{s['fam']}.{s['module']}"), s["cls"])
        label = "{}.{}.{}[{}]".format(*key)
        worst, worst_at, n_eval = 0.0, None, 0
        for ratio in (1e-3, 5e-3, 2e-2, 0.3, 15.0, 1e3):
            m2 = 2.0
            Q2 = ratio * m2
            xb = min(0.1, 0.5 / (1.0 + m2 / Q2))  # keeps the slow-rescaling point below 1
            try:
                rsl = callsites.instantiate(s["fam"], s["module"], cls, s["nf"], x=xb, Q2=Q2, m2=m2)[s["order"]]()
            except Exception as e:
                chk.search_case("loc_vs_sing_over_mass_ratios", False, what=f"{label} at Q2/m2={ratio}: {type(e).__name__}: {e}"[:200], data=dict(site=label, ratio=ratio))
                continue
            if rsl is None or rsl.loc is None or rsl.sing is None:
                continue
            for a, b in ((0.05, 0.3), (0.3, 0.6), (0.6, 0.9)):
                la, lb = float(rsl.loc(a, rsl.args["loc"])), float(rsl.loc(b, rsl.args["loc"]))
                i_ = scipy.integrate.quad(lambda z: float(rsl.sing(z, rsl.args["sing"])), a, b, epsabs=1e-13, epsrel=1e-12, limit=300)[0]
                ia = scipy.integrate.quad(lambda z: abs(float(rsl.sing(z, rsl.args["sing"]))), a, b, epsabs=1e-13, epsrel=1e-12, limit=300)[0]
                n_eval += 1
                sc = abs(lb - la) + ia
                if sc == 0.0:
                    continue
                rel = abs(lb - la + i_) / sc
                if rel > worst:
                    worst, worst_at = rel, dict(ratio=ratio, interval=[a, b], loc_a=la, loc_b=lb, int_sing=i_)
        if n_eval:
            data = dict(site=label, worst_relative_residual=worst, at=worst_at)
            # a_s^2 and a_s^3 pieces are built from the Vogt et al. parametrisations (5-6 digits)
            tol = 1e-7 if s["order"] <= 1 else 1e-3
            data["tolerance"] = tol
            chk.search_case("loc_vs_sing_over_mass_ratios", worst <= tol, what=f"{label}: loc(b) - loc(a) != -int_a^b sing at Q2/m2 = {worst_at and worst_at['ratio']}", data=data, sample=data if worst_at and worst_at["ratio"] < 0.01 else None, nontrivial=True)


def search_x_independence(chk, sites):
    """a coefficient function is one x-independent distribution: the parts of the RSL a class builds
    do not depend on the Bjorken x of the point it is built for (only on Q2, the masses, nf); classes
    whose threshold decorator returns the empty RSL for some x are compared on the x where it is not"""
    import importlib

    done = set()
    for s in sites:
        if s["fam"] not in ("heavy", "intrinsic", "asy") or s["status"] != "rsl":
            continue
        key = (s["fam"], s["module"], s["cls"], s["order"])
        if key in done:
            continue
        done.add(key)
        cls = getattr(importlib.import_module(f"yadism.coefficient_functions.{s['fam']}.{s['module']}"), s["cls"])
        label = "{}.{}.{}[{}]".format(*key)
        worst, worst_at, compared = 0.0, None, 0
        for ratio in (0.5, 2.0, 15.0):
            m2 = 2.0
            Q2 = ratio * m2
            vals = {}
            for xb in (0.02, 0.3, 0.7, 0.9):
                try:
                    rsl = callsites.instantiate(s["fam"], s["module"], cls, s["nf"], x=xb, Q2=Q2, m2=m2)[s["order"]]()
                except Exception:
                    continue
                if rsl is None or (rsl.reg is None and rsl.sing is None and rsl.loc is None):
                    continue
                row = []
                for part in ("reg", "sing", "loc"):
                    f = getattr(rsl, part)
                    for z in (0.25, 0.6):
                        try:
                            row.append(None if f is None else float(f(z, rsl.args[part])))
                        except Exception:
                            row.append(None)
                vals[xb] = row
            xs_ = sorted(vals)
            for xb in xs_[1:]:
                for j, (a, b) in enumerate(zip(vals[xs_[0]], vals[xb])):
                    if a is None or b is None or not (np.isfinite(a) and np.isfinite(b)):
                        continue
                    compared += 1
                    rel = abs(a - b) / max(abs(a), abs(b), 1e-300)
                    if rel > worst:
                        worst, worst_at = rel, dict(ratio=ratio, part=("reg", "sing", "loc")[j // 2], z=(0.25, 0.6)[j % 2], x_a=xs_[0], value_a=a, x_b=xb, value_b=b)
        if compared:
            data = dict(site=label, worst_relative_difference=worst, at=worst_at)
            chk.search_case("parts_do_not_depend_on_bjorken_x", worst <= 1e-9, what=f"{label}: a part of the RSL depends on the Bjorken x of the point: {worst_at}", data=data, sample=data if s["fam"] == "intrinsic" and s["order"] == 0 else None, nontrivial=True)


def search_finite(chk, sites, r):
    """all parts return finite real scalars on (0,1) for every admissible nf"""
    seen = set()
    for s in sites:
        if s["status"] != "rsl":
            continue
        rsl = s["rsl"]
        for part in ("reg", "sing", "loc"):
            f = getattr(rsl, part)
            if f is None:
                continue
            key = (callsites.qualname(f), s["nf"], s["fam"], s["module"], s["cls"], s["order"]) if "<locals>" in callsites.qualname(f) else (callsites.qualname(f), s["nf"])
            if key in seen:
                continue
            seen.add(key)
            bad = None
            for z in (0.003, 0.1, 0.5, 0.9, 0.997, float(r.uniform(0.01, 0.99))):
                try:
                    v = f(z, rsl.args[part])
                    v = float(np.asarray(v).reshape(-1)[0])
                    if not np.isfinite(v):
                        bad = f"{part}({z}) = {v}"
                except Exception as e:
                    bad = f"{part}({z}) raised {type(e).__name__}: {e}"[:160]
            label = f"{s['fam']}.{s['module']}.{s['cls']}[{s['order']}].{part} nf={s['nf']}"
            chk.search_case("parts_finite_on_unit_interval", bad is None, what=f"{label}: {bad}", data=dict(site=label, problem=bad), nontrivial=True)


def run(tier):
    chk = common.Check("C03", tier)
    thorough = tier == "thorough"
    r = common.rng("C03")
    rep = corr_kernels.regenerate(chk)
    sites, modules = callsites.collect(nfs=(3, 4, 5))
    sites += callsites.splitting_sites(nfs=(3, 4, 5, 6))
    # light/asy/intrinsic also exist for nf = 6
    extra, _ = callsites.collect(nfs=(6,))
    sites += [s for s in extra if s["fam"] != "heavy"]
    tri = translate.generate_triples(rep, sites, classify)
    chk.extra["triples"] = dict(
        pairs={k: v for k, v in tri["classes"].items()},
        loc_only=sorted(tri["loc_only"]),
        from_distr_coeffs_sites=tri["from_distr_sites"],
        closures_and_outside_fragment=sorted({f"{a} | {b}" for (a, b) in tri["closures"]} | {k for k, v in tri["classes"].items() if v == "outside"}),
    )
    common.lean_proof_step(chk, "YadismModel.Properties.C03", thorough=thorough)
    corr_kernels.run_kernels(chk, r, 25 if thorough else 3, report=rep)
    search_consistency(chk, sites)
    search_mass_ratios(chk, sites)
    search_x_independence(chk, sites)
    search_finite(chk, sites, r)
    chk.assumptions += [
        "closures (heavy CC h_q, intrinsic asymptotics, asy F2 NC non-singlet) and the triple pqq0_2 (log z, Li2) are outside the normaliser's fragment: for them the property is checked numerically on the real functions (loc(x) - loc(0) + int_0^x sing at 4 x values, nf = 3..6), not proved",
        "approximate pairs: Vogt et al. parametrisations carry 5-6 digits; the theorem bounds every coefficient of the residual by 1e-4 relative (distribution_residual gives the exact residual formula)",
        "decimal literals are taken as their exact decimal value (the double differs by at most 2^-53 relative)",
        "mass-ratio dependent closures are instantiated at Q2/m2 = 15 in the nf-decomposed search and at six ratios from 1e-3 to 1e3 in loc_vs_sing_over_mass_ratios",
    ]
    return chk
