"""C07 — heavyness, FONLL parts and coupling-restricted results add up."""

from .. import cards, common, corr_weights, realrun

TOL = 1e-10


def pts(r, n=2):
    return [dict(x=float(r.choice([0.01, 0.05, 0.1, 0.3, 0.6])), Q2=float(r.choice([4.0, 20.0, 90.0, 600.0]))) for _ in range(n)]


def rel(chk, oracle, what, lhs, rhs_list, sample):
    d, s = realrun.maxdiff(lhs, realrun.add(rhs_list))
    ok = d <= TOL * max(s, 1e-300) or (d == 0.0)
    sample = dict(sample, maxdiff=d, scale=s)
    chk.search_case(oracle, ok, what=what, data=sample, sample=sample, nontrivial=s > 0)


def search(chk, r, n, max_pto):
    # deterministic cases first: the partitions must also hold with target-mass corrections switched
    # on (every piece is corrected the same way) and for a pure-Z beam at low Q2 (couplings ~ 1e-8)
    forced = [dict(which="ffns", process="EM", kind="F2", pto=1, proj="electron", nfff=3, fns="FFNS", tmc=2, p=[dict(x=0.1, Q2=20.0), dict(x=0.3, Q2=8.0)]),
              dict(which="pos", process="NC", kind="F2", pto=1, proj="neutrino", fns="ZM-VFNS", nfff=4, fl="total", tmc=0, p=[dict(x=0.1, Q2=2.0), dict(x=0.1, Q2=2.6)]),
              dict(which="ffns", process="NC", kind="FL", pto=1, proj="positron", nfff=3, fns="FFNS", tmc=2, p=[dict(x=0.3, Q2=8.0)]),
              # the coupling restriction and target-mass corrections are independent options
              dict(which="pos", process="EM", kind="F2", pto=0, proj="electron", fns="ZM-VFNS", nfff=4, fl="total", tmc=1, p=[dict(x=0.3, Q2=4.0)]),
              # charged current on a non-isoscalar nucleus, every heavyness (the u/d rows are where a missing rotation shows)
              dict(which="ffns", process="CC", kind="F2", pto=1, proj="neutrino", nfff=3, fns="FFNS", tmc=0, p=[dict(x=0.1, Q2=20.0)], target="iron")]
    for i in range(n + len(forced)):
        process = r.choice(["EM", "NC", "CC"])
        kinds = cards.UNPOL if process == "CC" else r.choice([cards.UNPOL, ["g1"]])
        kind = r.choice(kinds)
        pto = r.choice(list(range(0, max_pto + 1)))
        proj = r.choice(list(cards.PROJECTILES)) if process in ("CC", "NC") else r.choice(["electron", "positron"])
        target = r.choice(["proton", "isoscalar", "iron"])
        p = pts(r)
        which = r.choice(["ffns", "ffns", "zm", "fonll", "pos"])
        tmc = r.choice([0, 0, 0, 2, 1]) if pto <= 1 and kind != "g1" else 0
        f_ = forced[i] if i < len(forced) else {}
        if f_:
            which, process, kind, pto, proj, tmc, p, target = f_["which"], f_["process"], f_["kind"], f_["pto"], f_["proj"], f_["tmc"], f_["p"], f_.get("target", "proton")
        kw = dict(prDIS=process, ProjectileDIS=proj, TargetDIS=target, PolarizationDIS=float(r.choice([0.0, 0.4])))
        if tmc:
            kw["interpolation_xgrid"] = cards.default_grid(8, 0.02)
            p = [pt for pt in p if pt["x"] >= 0.05] or [dict(x=0.1, Q2=20.0)]
        base = dict(kind=kind, process=process, projectile=proj, pto=pto, target=target, pts=p, TMC=tmc)
        try:
            if which == "ffns":
                nfff = r.choice([3, 3, 3, 4, 5])
                fns = r.choice(["FFNS", "FFNS", "FFN0"]) if not (process != "CC" and kind in ("F2", "FL")) else "FFNS"
                if f_:
                    nfff, fns = f_["nfff"], f_["fns"]
                names = [f"{kind}_{h}" for h in ["total", "light", "charm", "bottom", "top"]]
                out = realrun.run(cards.theory(PTO=pto, FNS=fns, NfFF=nfff, TMC=tmc), cards.obs({n_: p for n_ in names}, **kw))
                # sharp form valid for every NfFF (theorem total_decomposition): the massive parts only
                outm = realrun.run(cards.theory(PTO=pto, FNS=fns, NfFF=nfff, FONLLParts="massive", TMC=tmc), cards.obs({n_: p for n_ in names[2:]}, **kw))
                for j in range(len(p)):
                    rel(chk, "ffns_total_vs_light_plus_massive", f"{fns} NfFF={nfff}: total != light + sum_h massive part of F_h", out[names[0]][j], [out[names[1]][j]] + [outm[n_][j] for n_ in names[2:]], dict(base, FNS=fns, NfFF=nfff, point=j))
                for j in range(len(p)):
                    rel(chk, "ffns_total_vs_parts", f"{fns} NfFF={nfff}: total != light+charm+bottom+top" + (" (heavylight double counting, NfFF>=4)" if nfff >= 4 else ""), out[names[0]][j], [out[n_][j] for n_ in names[1:]], dict(base, FNS=fns, NfFF=nfff, point=j))
            elif which == "zm":
                names = [f"{kind}_total", f"{kind}_light"]
                out = realrun.run(cards.theory(PTO=pto, FNS="ZM-VFNS", TMC=tmc), cards.obs({n_: p for n_ in names}, **kw))
                for j in range(len(p)):
                    rel(chk, "zm_total_vs_light", "ZM-VFNS: total != light", out[names[0]][j], [out[names[1]][j]], dict(base, point=j))
            elif which == "fonll":
                fns = "FONLL-FFNS" if (process != "CC" and kind in ("F2", "FL")) else r.choice(["FONLL-FFNS", "FONLL-FFN0"])
                nfff = r.choice([3, 4])
                fl = r.choice(["total", "light", "charm", "bottom"])
                name = f"{kind}_{fl}"
                outs = {}
                for parts in ("full", "massless", "massive"):
                    outs[parts] = realrun.run(cards.theory(PTO=pto, FNS=fns, NfFF=nfff, FONLLParts=parts, TMC=tmc), cards.obs({name: p}, **kw))
                for j in range(len(p)):
                    rel(chk, "fonll_full_vs_parts", f"{fns}: full != massless+massive", outs["full"][name][j], [outs["massless"][name][j], outs["massive"][name][j]], dict(base, FNS=fns, NfFF=nfff, obs=name, point=j))
            else:
                if process == "CC":
                    continue
                fns, nfff = r.choice([("ZM-VFNS", 4), ("FFNS", 3), ("FFNS", 4)])
                fl = r.choice(["total", "light", "charm"])
                if f_:
                    fns, nfff, fl = f_["fns"], f_["nfff"], f_["fl"]
                name = f"{kind}_{fl}"
                th = cards.theory(PTO=pto, FNS=fns, NfFF=nfff, TMC=tmc)
                allq = realrun.run(th, cards.obs({name: p}, NCPositivityCharge=r.choice([None, "all"]), **kw))
                parts = [realrun.run(th, cards.obs({name: p}, NCPositivityCharge=qn, **kw)) for qn in cards.QUARKS]
                for j in range(len(p)):
                    rel(chk, "pos_charge_sum", "sum over NCPositivityCharge != unrestricted", allq[name][j], [o[name][j] for o in parts], dict(base, FNS=fns, NfFF=nfff, obs=name, point=j))
        except Exception as e:  # crashes are C16's business
            chk.extra.setdefault("search_exceptions", {})
            k = f"{which}:{type(e).__name__}:{str(e)[:80]}"
            chk.extra["search_exceptions"][k] = chk.extra["search_exceptions"].get(k, 0) + 1


def search_cross_sections(chk, r, n):
    """the decompositions hold for every observable, also for the cross sections (linear in the
    structure functions): FFNS NfFF=3 total = light + charm + bottom + top, ZM total = light"""
    plans = [
        ("XSHERANC", "NC", "electron", dict(x=0.05, Q2=2000.0, y=0.7)),
        ("XSHERANC", "NC", "positron", dict(x=0.1, Q2=600.0, y=0.4)),
        ("XSHERACC", "CC", "positron", dict(x=0.05, Q2=2000.0, y=0.7)),
        ("XSHERANCAVG", "NC", "electron", dict(x=0.1, Q2=90.0, y=0.5)),
        ("XSCHORUSCC", "CC", "neutrino", dict(x=0.2, Q2=20.0, y=0.6)),
        ("F1", "NC", "electron", dict(x=0.1, Q2=90.0, y=0.5)),
    ]
    for i in range(n):
        kind, process, proj, pt = plans[i % len(plans)]
        kw = dict(prDIS=process, ProjectileDIS=proj)
        names = [f"{kind}_{h}" for h in ["total", "light", "charm", "bottom", "top"]]
        base = dict(kind=kind, process=process, projectile=proj, point=pt)
        try:
            out = realrun.run(cards.theory(PTO=0, FNS="FFNS", NfFF=3), cards.obs({n_: [dict(pt)] for n_ in names}, **kw))
            rel(chk, "cross_section_total_vs_parts", f"FFNS NfFF=3 {kind}: total != light+charm+bottom+top", out[names[0]][0], [out[n_][0] for n_ in names[1:]], dict(base, FNS="FFNS", NfFF=3))
            outz = realrun.run(cards.theory(PTO=0, FNS="ZM-VFNS"), cards.obs({n_: [dict(pt)] for n_ in names[:2]}, **kw))
            rel(chk, "cross_section_total_vs_parts", f"ZM-VFNS {kind}: total != light", outz[names[0]][0], [outz[names[1]][0]], dict(base, FNS="ZM-VFNS"))
        except Exception as e:
            chk.extra.setdefault("search_exceptions", {})
            k = f"xs:{type(e).__name__}:{str(e)[:80]}"
            chk.extra["search_exceptions"][k] = chk.extra["search_exceptions"].get(k, 0) + 1


def search_pos_kernels(chk, r, n):
    """kernel-list level positivity partition on the real Combiner (no convolution needed):
    for every kernel the weights of the six restricted runs sum to the unrestricted weights"""
    import yadism
    from yadism.coefficient_functions import Combiner

    # deterministic configurations first: the flavour-averaged (fl11) weights exist at a_s^3 only
    forced = [(cards.theory(FNS="ZM-VFNS", NfFF=4, PTODIS=3, PTO=2), cards.obs({nm: [dict(x=0.1, Q2=30.0), dict(x=0.3, Q2=3000.0)] for nm in ("F2_total", "FL_light", "F2_charm")}, prDIS=pr_, ProjectileDIS=pj_, PolarizationDIS=0.3)) for pr_, pj_ in (("NC", "electron"), ("EM", "positron"), ("NC", "neutrino"))]
    forced += [(cards.theory(FNS="FFNS", NfFF=3, PTODIS=2, PTO=2), cards.obs({nm: [dict(x=0.1, Q2=30.0)] for nm in ("F2_total", "F3_total", "FL_charm")}, prDIS="NC"))]
    for t, o in forced + list(corr_weights.combiner_configs(r, n, processes=["EM", "NC"])):
        lists = {}
        try:
            for pos in [None] + list(cards.QUARKS):
                o2 = dict(o, NCPositivityCharge=pos)
                runner = yadism.Runner(t, o2)
                for name, obj in runner.observables.items():
                    for i, esf in enumerate(obj.elements[:2]):
                        lists.setdefault((name, i), {})[pos] = corr_weights.canon_py_kernels([k for comp in Combiner(esf).collect() for k in comp])
        except Exception as e:
            chk.extra.setdefault("search_exceptions", {})
            k = f"pos:{type(e).__name__}:{str(e)[:80]}"
            chk.extra["search_exceptions"][k] = chk.extra["search_exceptions"].get(k, 0) + 1
            continue
        for (name, i), d in lists.items():
            base = d[None]
            ok = all([k for k, _ in d[qn]] == [k for k, _ in base] for qn in cards.QUARKS)
            worst = 0.0
            if ok:
                for j, (kid, w) in enumerate(base):
                    tot = [sum(d[qn][j][1][a] for qn in cards.QUARKS) for a in range(14)]
                    worst = max(worst, max(abs(x - y) for x, y in zip(tot, w)) / max(1e-300, max(abs(v) for v in w) or 1.0))
            sample = dict(obs=name, FNS=t["FNS"], NfFF=t["NfFF"], pto=t["PTODIS"], process=o["prDIS"], n_kernels=len(base), worst=worst)
            chk.search_case("pos_charge_kernel_weights", ok and worst <= 1e-12, what=f"{name} {t['FNS']} pto={t['PTODIS']}: restricted kernel weights do not sum to the unrestricted ones", data=sample, sample=sample, nontrivial=len(base) > 0)


def search_parts_kernels(chk, r, n):
    """kernel-list level (no convolution): full = massless + massive, and total = light + massive
    parts of c, b, t, as multisets of (channel id, weights) on the real Combiner, all orders"""
    import collections

    import yadism
    from yadism.coefficient_functions import Combiner

    def ms(esf):
        c = collections.Counter()
        for kid, w in corr_weights.canon_py_kernels(Combiner(esf).collect_elems()):
            c[(kid, tuple(round(v, 12) for v in w))] += 1
        return c

    for t, o in corr_weights.combiner_configs(r, n):
        name = next(iter(o["observables"]))
        kind = name.split("_")[0]
        kin = o["observables"][name][:1]
        try:
            lists = {}
            for parts in ("full", "massless", "massive"):
                names = [f"{kind}_{f}" for f in ("total", "light", "charm", "bottom", "top")]
                runner = yadism.Runner(dict(t, FONLLParts=parts), dict(o, observables={n_: kin for n_ in names}))
                lists[parts] = {n_: ms(runner.observables[n_].elements[0]) for n_ in names}
        except Exception as e:
            chk.extra.setdefault("search_exceptions", {})
            k = f"parts:{type(e).__name__}:{str(e)[:80]}"
            chk.extra["search_exceptions"][k] = chk.extra["search_exceptions"].get(k, 0) + 1
            continue
        base = dict(kind=kind, FNS=t["FNS"], NfFF=t["NfFF"], pto=t["PTODIS"], process=o["prDIS"], Q2=kin[0]["Q2"])
        for n_ in lists["full"]:
            ok = lists["full"][n_] == lists["massless"][n_] + lists["massive"][n_]
            chk.search_case("parts_kernel_lists", ok, what=f"{n_} {t['FNS']} pto={t['PTODIS']}: kernels(full) != kernels(massless)+kernels(massive)", data=dict(base, obs=n_), sample=dict(base, obs=n_, n=sum(lists["full"][n_].values())), nontrivial=sum(lists["full"][n_].values()) > 0)
        tot = lists["full"][f"{kind}_total"]
        rhs = lists["full"][f"{kind}_light"] + lists["massive"][f"{kind}_charm"] + lists["massive"][f"{kind}_bottom"] + lists["massive"][f"{kind}_top"]
        chk.search_case("total_kernel_lists", tot == rhs, what=f"{kind} {t['FNS']} pto={t['PTODIS']}: kernels(total) != kernels(light)+massive kernels of c,b,t", data=base, sample=base, nontrivial=sum(tot.values()) > 0)


def run(tier):
    chk = common.Check("C07", tier)
    thorough = tier == "thorough"
    common.lean_proof_step(chk, "YadismModel.Properties.C07", thorough=thorough)
    r = common.rng("C07")
    # the theorems are list equalities for arbitrary weight functions: the tie they need is *which*
    # kernels the Combiner builds (ids); weight values are C02's business
    corr_weights.run_combiner(chk, 400 if thorough else 40, r, mode="ids")
    search_pos_kernels(chk, r, 60 if thorough else 8)
    search_parts_kernels(chk, r, 200 if thorough else 30)
    search(chk, r, 120 if thorough else 14, 2 if thorough else 1)
    search_cross_sections(chk, r, 12 if thorough else 4)
    chk.assumptions += [
        "operator entries are linear in the kernel list: `conv` (coefficient function x basis function, quadrature, scale-variation matrices) is an arbitrary parameter of the theorems",
        "kernel-list level statement of the positivity partition is proved for the weight functions (get_weight, get_fl11_weight, pair weights); its lift to every generator is observed by the real-run search, not proved",
    ]
    return chk
