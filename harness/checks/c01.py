"""C01 — operator entries are the convolution of the coefficient functions with the basis."""

import math

import numpy as np
import scipy.integrate

from .. import cards, common
from ..common import Driver, q, unq
from .c09 import corr_convolution
from .c19 import LogPolyPDF

PIDS = [22, -6, -5, -4, -3, -2, -1, 21, 1, 2, 3, 4, 5, 6]
EPS = 1e-10

CONFIGS = [
    # (kind, flavor, process, projectile, FNS, NfFF, extra theory)
    ("F2", "total", "EM", "electron", "ZM-VFNS", 4, {}),
    ("F2", "light", "NC", "positron", "ZM-VFNS", 4, {}),
    ("FL", "total", "NC", "electron", "ZM-VFNS", 4, {}),
    ("F3", "total", "CC", "neutrino", "ZM-VFNS", 4, {}),
    ("F2", "total", "EM", "electron", "FFNS", 3, {}),
    ("F2", "total", "NC", "electron", "FFNS", 4, {}),
    ("FL", "total", "EM", "electron", "FFNS", 3, {}),
    ("F2", "charm", "CC", "neutrino", "FFNS", 3, {}),
    ("F3", "total", "CC", "antineutrino", "FFNS", 3, {}),
    ("F2", "total", "CC", "electron", "FFNS", 4, {}),
    ("F2", "total", "EM", "electron", "FFN0", 3, {}),
    ("F2", "charm", "NC", "electron", "FONLL-FFNS", 3, {}),
    ("F2", "total", "NC", "electron", "FONLL-FFN0", 3, {}),
    ("g1", "total", "NC", "electron", "ZM-VFNS", 4, {}),
    ("g1", "total", "EM", "electron", "FFNS", 3, {}),
    ("g4", "light", "NC", "electron", "ZM-VFNS", 4, {}),
    ("F2", "bottom", "NC", "electron", "FFNS", 4, {}),
    ("F3", "charm", "CC", "positron", "FFNS", 3, {}),
]


def make_runner(cfg, pto, grid, degree, is_log, pts):
    import yadism

    kind, fl, proc, proj, fns, nfff, extra = cfg
    name = f"{kind}_{fl}"
    t = cards.theory(PTO=min(pto, 2), PTODIS=pto, FNS=fns, NfFF=nfff, **extra)
    o = cards.obs({name: pts}, prDIS=proc, ProjectileDIS=proj, interpolation_xgrid=grid, interpolation_polynomial_degree=degree, interpolation_is_log=is_log)
    return yadism.Runner(t, o), name


def kernels_of(runner, name, pt):
    from yadism import observable_name as on
    from yadism.coefficient_functions import Combiner

    oname = on.ObservableName(name)
    sf = runner.get_sf(oname)
    esf = sf.get_esf(oname, dict(pt), force_local=True)
    return esf, Combiner(esf).collect_elems()


def indep_convolution(rsl, chi, interp, grid):
    """(C (x) p_j)(chi) for all j by a quadrature in u = chi/z with breakpoints at the grid nodes"""
    out = np.zeros(len(grid))
    if chi >= 1 - EPS:
        return out
    brk = sorted({g for g in grid if chi < g < 1.0})
    edges = [chi] + brk + [1.0]
    loc = float(rsl.loc(chi, rsl.args["loc"])) if rsl.loc is not None else 0.0
    for j, pj in enumerate(interp):
        pchi = float(pj(chi))
        val = 0.0
        if rsl.reg is not None or rsl.sing is not None:
            for a, b in zip(edges[:-1], edges[1:]):
                # is the basis function identically zero on this piece?
                if pchi == 0.0 and all(pj(a + f * (b - a)) == 0.0 for f in (0.3, 0.7)):
                    continue

                def integrand(u, pj=pj, pchi=pchi):
                    z = chi / u
                    p = float(pj(u))
                    r = 0.0
                    if rsl.reg is not None:
                        r += float(rsl.reg(z, rsl.args["reg"])) * p / u
                    if rsl.sing is not None:
                        r += chi / (u * u) * float(rsl.sing(z, rsl.args["sing"])) * (p * u / chi - pchi)
                    return r

                lo = a * (1 + 1e-12) if a == chi else a
                val += scipy.integrate.quad(integrand, lo, b, epsabs=1e-12, epsrel=1e-11, limit=400)[0]
        out[j] = val + pchi * loc
    return out


def search_entries(chk, r, n, max_pto, thorough):
    """every operator entry of a real run == sum over the Combiner's kernels of
    weight x point x (independent quadrature of the RSL against the real basis function)"""
    # deterministic cases in both tiers: one a_s^2 run (coefficient functions with a regular and a
    # delta piece but no plus distribution first appear there) and grids whose last node is below 1
    # (the plus prescription still integrates down to z = x)
    forced = [dict(cfg=1, pto=2, N=6, top=1.0, where="generic", is_log=True), dict(cfg=0, pto=1, N=7, top=0.8, where="generic", is_log=True),
              dict(cfg=3, pto=1, N=7, top=0.8, where="node", is_log=True), dict(cfg=2, pto=1, N=6, top=0.6, where="last-interval", is_log=False),
              # x exactly on the lowest grid node (legal: only x below the grid is rejected; p_0(x_0) = 1 there),
              # logarithmic and linear, and a grid reaching 1e-8 with x next to its lower end (the relative
              # 1e-10 cut of the integration range must stay relative)
              dict(cfg=0, pto=1, N=7, top=1.0, where="first-node", is_log=True), dict(cfg=1, pto=1, N=6, top=1.0, where="first-node", is_log=False),
              dict(cfg=0, pto=1, N=8, top=1.0, where="tiny-x", is_log=True, xmin=1e-8)]
    for i in range(-len(forced), n):
        f_ = forced[i + len(forced)] if i < 0 else None
        i = max(i, 0)
        cfg = CONFIGS[i % len(CONFIGS)] if i < len(CONFIGS) or not thorough else r.choice(CONFIGS)
        pto = r.choice([0, 1]) if max_pto < 2 else r.choice([1, 1, 2] if cfg[1] in ("light", "total") and cfg[4] == "ZM-VFNS" else [1])
        N = r.choice([6, 7, 8])
        degree = r.choice([2, 3, 4]) if N > 4 else 2
        is_log = r.random() < 0.75
        top = float(r.choice([1.0, 1.0, 1.0, 1.0, 0.8, 0.6]))
        where = r.choice(["last-interval", "generic", "node", "first-interval", "last-two"])
        xmin = float(r.choice([1e-2, 0.03]))
        if f_ is not None:
            cfg, pto, N, top, where, is_log = CONFIGS[f_["cfg"]], f_["pto"], f_["N"], f_["top"], f_["where"], f_["is_log"]
            xmin = f_.get("xmin", xmin)
        grid = cards.default_grid(N, xmin) if is_log else cards.linspace(0.05, 1.0, N)
        grid[-1] = 1.0
        grid = [float(g * top) for g in grid]
        x = dict(
            generic=float(r.uniform(grid[1], grid[-2])),
            node=float(r.choice(grid[1:-1])),
        ).get(where)
        if where == "last-interval":
            x = float(r.uniform(grid[-2], 0.985 * top))
        elif where == "last-two":
            x = float(r.uniform(grid[-3], grid[-2]))
        elif where == "first-interval":
            x = float(r.uniform(grid[0], grid[1]))
        elif where == "first-node":
            x = float(grid[0])
        elif where == "tiny-x":
            x = float(3.0 * grid[0])
        Q2 = float(r.choice([4.0, 20.0, 90.0, 1000.0]))
        pt = dict(x=x, Q2=Q2)
        case = dict(config=cfg[:6], PTO=pto, x=x, Q2=Q2, where=where, grid=grid, grid_top=top, degree=degree, is_log=is_log)
        try:
            runner, name = make_runner(cfg, pto, grid, degree, is_log, [pt])
            real = runner.get_result()[name][0]
            esf, kernels = kernels_of(runner, name, pt)
            interp = runner.configs.interpolator
            ref = {o: np.zeros((len(PIDS), len(grid))) for o in range(pto + 1)}
            for k in kernels:
                chi = float(k.coeff.convolution_point())
                w = np.array([k.partons.get(p, 0.0) for p in PIDS])
                for o in esf.orders:
                    if not k.has_order(o):
                        continue
                    rsl = k.coeff[o]()
                    if rsl is None:
                        continue
                    ref[o] += np.outer(w, chi * indep_convolution(rsl, chi, interp, grid))
        except Exception as e:  # noqa
            chk.search_case("entries_vs_independent_convolution", False, what=f"{cfg[:6]} PTO={pto}: {type(e).__name__}: {e}"[:240], data=case)
            continue
        worst, scale, at = 0.0, 0.0, None
        for o in ref:
            scale = max(scale, float(np.abs(ref[o]).max()))
        excess = 0.0
        for o in ref:
            v = np.asarray(real.orders[(o, 0, 0, 0)][0]) if (o, 0, 0, 0) in real.orders else np.zeros_like(ref[o])
            e = np.asarray(real.orders[(o, 0, 0, 0)][1]) if (o, 0, 0, 0) in real.orders else np.zeros_like(ref[o])
            dd = np.abs(v - ref[o])
            # "up to quadrature accuracy": 2e-7 of the operator scale plus five times the error the code
            # itself reports for that entry (QUADPACK with 50 subdivisions: ~1e-6 at NNLO)
            ex = dd - (2e-7 * max(scale, 1e-300) + 5.0 * e)
            if dd.max() > worst:
                worst = float(dd.max())
            if ex.max() > excess or at is None:
                idx = np.unravel_index(int(ex.argmax()), ex.shape)
                excess = max(excess, float(ex.max()))
                at = dict(order=o, pid=PIDS[idx[0]], basis=int(idx[1]), real=float(v[idx]), reference=float(ref[o][idx]), reported_error=float(e[idx]))
            scale = max(scale, float(np.abs(v).max()))
        case.update(maxdiff=worst, scale=scale, at=at, kernels=len(kernels))
        ok = excess <= 0.0
        chk.search_case("entries_vs_independent_convolution", ok, what=f"{cfg[0]}_{cfg[1]} {cfg[2]} {cfg[4]} NfFF={cfg[5]} PTO={pto} x={x:.5g} ({where}) degree={degree} log={is_log}: entry {at} differs from sum_k w x chi x (C (x) p_j)(chi)", data=case, sample={k_: v_ for k_, v_ in case.items() if k_ != "grid"} if where == "last-interval" else None, nontrivial=scale > 0)


def search_contraction(chk, r, n, thorough):
    """contracting the operator with a PDF in the span == the factorised structure function computed
    directly from the coefficient functions and the analytic PDF (quadrature in z)"""
    for i in range(n):
        cfg = CONFIGS[(3 * i + 1) % len(CONFIGS)]
        pto = 1
        N = r.choice([7, 9])
        degree = r.choice([2, 3])
        grid = cards.default_grid(N, 0.01)
        pdf = LogPolyPDF(degree, 700 + i)
        x = float(r.choice([r.uniform(grid[1], grid[-2]), r.uniform(grid[-2], 0.97), r.choice(grid[1:-1])]))
        Q2 = float(r.choice([10.0, 100.0]))
        pt = dict(x=x, Q2=Q2)
        case = dict(config=cfg[:6], x=x, Q2=Q2, degree=degree, N=N)
        try:
            runner, name = make_runner(cfg, pto, grid, degree, True, [pt])
            out = runner.get_result()
            real = out[name][0]
            esf, kernels = kernels_of(runner, name, pt)
            fvals = np.array([[pdf.f(p, g) if pdf.hasFlavor(p) else 0.0 for g in grid] for p in PIDS])
            worst, scale = 0.0, 0.0
            for o in range(pto + 1):
                got = float(np.sum(np.asarray(real.orders[(o, 0, 0, 0)][0]) * fvals))
                ref = 0.0
                for k in kernels:
                    if not k.has_order(o):
                        continue
                    rsl = k.coeff[o]()
                    if rsl is None:
                        continue
                    chi = float(k.coeff.convolution_point())
                    if chi >= 1 - EPS:
                        continue
                    for p, w in k.partons.items():
                        if w == 0.0 or not pdf.hasFlavor(p):
                            continue
                        f = lambda u, p=p: pdf.f(p, u)
                        val = f(chi) * (float(rsl.loc(chi, rsl.args["loc"])) if rsl.loc is not None else 0.0)
                        if rsl.reg is not None:
                            val += scipy.integrate.quad(lambda z: float(rsl.reg(z, rsl.args["reg"])) * f(chi / z) / z, chi, 1.0, epsabs=1e-12, epsrel=1e-11, limit=400)[0]
                        if rsl.sing is not None:
                            val += scipy.integrate.quad(lambda z: float(rsl.sing(z, rsl.args["sing"])) * (f(chi / z) / z - f(chi)), chi, 1.0 - 1e-13, epsabs=1e-12, epsrel=1e-11, limit=400)[0]
                        ref += w * chi * val
                worst = max(worst, abs(got - ref))
                scale = max(scale, abs(ref), abs(got))
        except Exception as e:  # noqa
            chk.search_case("contraction_reproduces_structure_function", False, what=f"{cfg[:6]}: {type(e).__name__}: {e}"[:240], data=case)
            continue
        case.update(maxdiff=worst, scale=scale)
        chk.search_case("contraction_reproduces_structure_function", worst <= 5e-7 * max(scale, 1e-300), what=f"{cfg[0]}_{cfg[1]} {cfg[2]} {cfg[4]} NfFF={cfg[5]} x={x:.5g} Q2={Q2}: operator contracted with an in-span PDF differs from x (C (x) f) by {worst:.3g} (scale {scale:.3g})", data=case, sample=case, nontrivial=scale > 0)


def corr_assembly(chk, r, n):
    """compute_local with `convolve_vector` replaced by recorded integer vectors vs Model/Conv.lean"""
    from yadism.esf import conv

    drv = Driver()
    pend = []
    original = conv.convolve_vector
    try:
        for i in range(n):
            cfg = CONFIGS[(5 * i + 2) % len(CONFIGS)]
            pto = r.choice([0, 1, 2])
            N = r.choice([3, 4, 5])
            grid = cards.default_grid(N, 0.05)
            x = float(r.choice([0.3, 0.7, 0.97, 1.0]))
            pt = dict(x=x, Q2=float(r.choice([5.0, 50.0])))
            calls = []

            def stub(rsl, interp, point, _calls=calls, _N=N):
                v = np.array([float(r.randrange(-9, 10)) for _ in range(_N)])
                _calls.append((rsl, float(point), v))
                return v, np.zeros(_N)

            conv.convolve_vector = stub
            try:
                runner, name = make_runner(cfg, pto, grid, 2, True, [pt])
                real = runner.get_result()[name][0]
                esf, kernels = kernels_of(runner, name, pt)
            except Exception as e:  # noqa
                chk.corr_case("compute_local_assembly", False, None, dict(config=cfg[:6], error=f"{type(e).__name__}: {e}"[:200]), "py-error")
                continue
            finally:
                conv.convolve_vector = original
            # replay: the same kernel list in the same order; the vectors in call order
            it = iter(calls)
            per_order = {o: [] for o in range(pto + 1)}
            consistent = True
            for k in kernels:
                for o in esf.orders:
                    active = bool(k.has_order(o))
                    rsl = k.coeff[o]() if active else None
                    hasp = rsl is not None
                    if active and hasp:
                        try:
                            _, point, v = next(it)
                        except StopIteration:
                            consistent = False
                            point, v = float(k.coeff.convolution_point()), np.zeros(N)
                        if abs(point - float(k.coeff.convolution_point())) > 0:
                            consistent = False
                    else:
                        v = np.zeros(N)
                    ws = [(p, w) for p, w in k.partons.items() if p in PIDS]
                    per_order[o].append((float(k.coeff.convolution_point()), ws, active, hasp, v))
            leftover = sum(1 for _ in it)
            for o in range(pto + 1):
                for pid in r.sample(PIDS, 4):
                    toks = [f"oprow -1000000/1 {N} {o} {pid} {len(per_order[o])}"]
                    for point, ws, active, hasp, v in per_order[o]:
                        toks.append(f"{q(point)} {len(ws)} " + " ".join(f"{p} {q(float(w))}" for p, w in ws) + f" {q(active)} {q(hasp)} " + " ".join(q(float(x_)) for x_ in v))
                    idx = drv.add(" ".join(toks))
                    row = np.asarray(real.orders[(o, 0, 0, 0)][0])[PIDS.index(pid)] if (o, 0, 0, 0) in real.orders else np.zeros(N)
                    pend.append((idx, dict(config=cfg[:6], PTO=pto, x=x, order=o, pid=pid, kernels=len(kernels)), row, consistent and leftover == 0))
    finally:
        conv.convolve_vector = original
    lines = drv.run()
    for idx, case, row, consistent in pend:
        try:
            m = np.array([unq(v) for v in lines[idx].split()])
            ok = consistent and len(m) == len(row) and float(np.abs(m - row).max()) <= 1e-9 * max(1.0, float(np.abs(row).max()))
        except Exception:  # noqa
            ok, m = False, lines[idx]
        feat = f"{case['config'][4]}/{case['config'][2]}/o{case['order']}/{'nz' if np.abs(row).max() > 0 else 'zero'}"
        chk.corr_case("compute_local_assembly", ok, dict(case=case, py=row.tolist()), None if ok else dict(case, py=row.tolist(), model=str(m), calls_consistent=consistent), feat)


def corr_convolve_vector(chk, r, n):
    """convolve_vector == one convolution per basis function, in grid order"""
    import yadism
    from yadism.coefficient_functions.partonic_channel import RSL
    from yadism.esf import conv

    for i in range(n):
        N = r.choice([5, 8, 12])
        degree = r.choice([1, 2, 3, 4])
        grid = cards.default_grid(N, 0.01)
        interp = yadism.Runner(cards.theory(PTO=0), cards.obs({"F2_light": [dict(x=0.5, Q2=10.0)]}, interpolation_xgrid=grid, interpolation_polynomial_degree=min(degree, N - 1))).configs.interpolator
        point = float(r.choice([r.uniform(grid[-2], 0.99), r.uniform(grid[-3], grid[-2]), r.uniform(grid[0], grid[-1]), r.choice(grid[:-1]), 1.0]))
        rsl = RSL(reg=lambda z, a: 1.0 + z * z, loc=lambda x, a: 0.5 - x)
        v, _ = conv.convolve_vector(rsl, interp, point)
        ref = np.array([conv.convolution(rsl, point, pj)[0] for pj in interp])
        ok = len(v) == N and float(np.abs(np.asarray(v) - ref).max()) <= 1e-12
        where = "last" if point > grid[-2] else ("last-two" if point > grid[-3] else "bulk")
        chk.corr_case("convolve_vector_is_map", ok, None, None if ok else dict(N=N, degree=degree, point=point, vector=list(map(float, v)), per_basis=ref.tolist()), f"d{degree}/{where}")


def run(tier):
    chk = common.Check("C01", tier)
    thorough = tier == "thorough"
    r = common.rng("C01")
    common.lean_proof_step(chk, "YadismModel.Properties.C01", thorough=thorough)
    corr_assembly(chk, r, 60 if thorough else 18)
    corr_convolve_vector(chk, r, 120 if thorough else 30)
    corr_convolution(chk, r, 200 if thorough else 40)
    search_entries(chk, r, 72 if thorough else 18, 2 if thorough else 1, thorough)
    search_contraction(chk, r, 18 if thorough else 5, thorough)
    # which coefficient function and which flavour number a parton gets is taken from the code's own
    # Combiner above; for the simplest family (photon exchange, massless scheme, up to a_s) the
    # assignment itself is checked against the published coefficient functions and nf = 3 + #walls <= Q2
    from .c04 import search_runs_vs_closed_forms

    search_runs_vs_closed_forms(chk, r, 12 if thorough else 3, oracle="entries_vs_published_coefficient_functions")
    chk.assumptions += [
        "the assembly of compute_local (no scale variations) and convolve_vector are modelled by hand (Model/Conv.lean) and tied by the compute_local_assembly / convolve_vector_is_map / convolution_exits correspondences; scale-variation orders are C05's",
        "numerical quadrature (scipy.integrate.quad with the 1e-10 border cut) is observed against an independent quadrature in another integration variable with other breakpoints: entries agree to 2e-7 of the operator scale; it is not proved",
        "meaning over the reals: linearity needs the integrability of each basis integrand (hypothesis of contraction_is_conv_of_interpolant; the basis functions are bounded piecewise polynomials)",
        "at a convolution point >= 1 - 1e-10 the entry is 0 by construction (conv.convolution's empty-domain exit): the factorised structure function vanishes there for PDFs that vanish at x = 1",
        "the local part loc(x) = delta - int_0^x sing is taken as the code's callable here; its consistency with the singular part is C03",
    ]
    return chk
