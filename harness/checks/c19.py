"""C19 — predictions are stable under refinement of the interpolation grid."""

import math

import numpy as np

from .. import cards, common
from ..common import Driver, q, unq


def corr_basis(chk, r, n):
    """eko's InterpolatorDispatcher (as yadism builds it) vs Model/Interp.lean: block layout, areas,
    basis values at nodes / next to nodes / inside / outside, is_below_x"""
    from eko import interpolation as I

    drv = Driver()
    pend = []
    for trial in range(n):
        N = r.choice([2, 3, 4, 5, 6, 8, 11, 16])
        d = r.choice([1, 2, 3, 4, 5, 6])
        if N <= d:
            d = N - 1
        log = r.random() < 0.6
        kind = r.random()
        if kind < 0.4:
            g = cards.geomspace(float(r.choice([1e-5, 1e-3, 0.05])), 1.0, N)
        elif kind < 0.6:
            g = cards.linspace(0.1, 1.0, N)
        else:
            g = sorted({float(r.uniform(0.001, 1)) for _ in range(N)})
        if len(set(g)) < N:
            continue
        disp = I.InterpolatorDispatcher(I.XGrid(g, log=log), d, mode_N=False)
        tg = [float(v) for v in disp.xgrid.grid]
        ts = []
        for _ in range(8):
            c = r.random()
            if c < 0.3:
                t = r.choice(tg)
            elif c < 0.4:
                t = float(np.nextafter(r.choice(tg[1:]), 10))
            elif c < 0.5:
                t = float(np.nextafter(r.choice(tg[1:]), -10))
            elif c < 0.6:
                t = float(r.choice([tg[0] - 0.3, tg[-1] + 0.2]))
            else:
                t = float(r.uniform(tg[0], tg[-1]))
            # eko treats |t - xmin| < 2.2e-15 at the left end of a basis function's first area as
            # equality; the model uses exact equality: stay away from that band unless equal
            if any(0 < abs(t - v) < 1e-13 for v in tg) and t < tg[1]:
                t = tg[0]
            ts.append(t)
        i_info = drv.add(f"interpinfo {N} {d}")
        i_val = drv.add(f"interp {N} {d} " + " ".join(q(v) for v in tg) + f" {len(ts)} " + " ".join(q(t) for t in ts))
        tb = float(r.choice(tg + [r.uniform(tg[0], tg[-1])]))
        i_bel = drv.add(f"below {N} {d} " + " ".join(q(v) for v in tg) + f" {q(tb)}")
        py_vals = [[float(I.evaluate_x(t, bf.areas_representation)) for bf in disp] for t in ts]
        # is_below_x takes x (not t)
        xb = math.exp(tb) if log else tb
        py_bel = [bool(bf.areas[-1].xmax <= tb) for bf in disp]
        idx_of = {v: i for i, v in enumerate(tg)}
        py_areas = [[idx_of[float(a.xmin)] for a in bf.areas] for bf in disp]
        py_kmin = {}
        for bf in disp:
            for a in bf.areas:
                py_kmin[idx_of[float(a.xmin)]] = (int(a.kmin), int(a.kmax))
        pend.append((dict(N=N, degree=d, log=log, grid=g), tg, ts, i_info, i_val, i_bel, py_vals, py_bel, py_areas, py_kmin, list(disp)))
    lines = drv.run()
    for case, tg, ts, i_info, i_val, i_bel, py_vals, py_bel, py_areas, py_kmin, disp_list in pend:
        N, d = case["N"], case["degree"]
        feat = f"N{min(N, 8)}/d{d}/{'log' if case['log'] else 'lin'}"
        try:
            ks, ar = lines[i_info].split(" | ")
            mk = [int(v) for v in ks.split()]
            ma = [[int(v) for v in a.split(",") if v != ""] for a in ar.split(" ")]
            ok = ma == py_areas and all(py_kmin[i] == (mk[i], mk[i] + d) for i in py_kmin)
        except Exception:  # noqa
            ok, mk, ma = False, lines[i_info], None
        chk.corr_case("interp_layout", ok, dict(case=case, kmin=mk), None if ok else dict(case, model_kmin=mk, model_areas=ma, py_areas=py_areas, py_blocks=py_kmin), feat)
        rows = lines[i_val].split(" | ")
        for t, row, pr in zip(ts, rows, py_vals):
            m = [unq(v) for v in row.split()]
            sc = max(1.0, max(abs(v) for v in pr))
            # the code expands the Lagrange product in monomials: the rounding error is governed by
            # sum_i |c_i t^i| of the area used (ill-conditioned for wide linear grids of high degree)
            okv = len(m) == len(pr)
            if okv:
                for bf, a, b in zip(disp_list, m, pr):
                    cond = 1.0
                    for ar_ in bf.areas_representation:
                        if ar_[0] < t <= ar_[1] or abs(t - ar_[0]) < 1e-14:
                            cond = max(cond, float(sum(abs(c) * abs(t) ** k for k, c in enumerate(ar_[2:]))))
                    if abs(a - b) > 1e-9 * sc + 1e-13 * cond:
                        okv = False
            where = "node" if t in tg else ("outside" if t < tg[0] or t > tg[-1] else "inside")
            chk.corr_case("interp_basis", okv, dict(case=case, t=t, py=pr), None if okv else dict(case, t=t, model=m, py=pr), feat + "/" + where)
        mb = [v == "1" for v in lines[i_bel].split()]
        chk.corr_case("interp_is_below_x", mb == py_bel, None, None if mb == py_bel else dict(case, model=mb, py=py_bel), feat)


class LogPolyPDF:
    """x f(x) with f a polynomial in log x of degree <= deg: lies in the span of every logarithmic
    Lagrange basis of degree >= deg"""

    def __init__(self, deg, seed):
        rr = np.random.RandomState(seed)
        self.coef = {pid: rr.uniform(0.2, 1.0, deg + 1) * np.array([1.0, -0.3, 0.02, -0.004, 0.0005][: deg + 1]) for pid in range(-6, 7)}
        self.coef[21] = self.coef.pop(0)

    def hasFlavor(self, pid):
        return pid in self.coef

    def f(self, pid, x):
        t = math.log(x)
        return float(sum(c * t**k for k, c in enumerate(self.coef[pid])))

    def xfxQ2(self, pid, x, Q2):
        return x * self.f(pid, x)


class LinPolyPDF(LogPolyPDF):
    def f(self, pid, x):
        return float(sum(c * x**k for k, c in enumerate(self.coef[pid])))


def predict(res, out, pdf, xiF=1.0, a_s=0.2):
    return res.apply_pdf(pdf, out["pids"], out["xgrid"]["grid"], lambda mu: a_s, lambda mu: 0.0, 1.0, xiF)["result"]


def predict_scale(res, out, pdf, xiF=1.0, a_s=0.2):
    """sum of the absolute values of everything `predict` adds up (cancellation-aware scale: a
    prediction that is a small difference of large flavour contributions, e.g. xF3 at small x, is
    compared relative to the size of those contributions)"""
    grid = out["xgrid"]["grid"]
    f = np.array([[abs(pdf.xfxQ2(int(p), float(x), res.Q2 * xiF**2) / x) if pdf.hasFlavor(int(p)) else 0.0 for x in grid] for p in out["pids"]])
    tot = 0.0
    for o, (v, _e) in res.orders.items():
        lnF = 1.0 if o[3] == 0 else abs(math.log((1 / xiF) ** 2)) ** o[3]
        tot += (a_s / (4 * math.pi)) ** o[0] * lnF * float(np.sum(np.abs(np.asarray(v)) * f)) if o[2] == 0 else 0.0
    return tot


def search_two_grids(chk, r, n, thorough):
    """for PDFs in the common span two different grids / degrees give the same prediction (quadrature accuracy)"""
    import yadism

    for i in range(n):
        log = i % 4 != 3
        dA, dB = r.choice([(3, 3), (2, 3), (3, 4), (4, 2), (2, 2)])
        deg = min(dA, dB)
        NA, NB = r.choice([(9, 14), (12, 17), (8, 11)])
        xmin = float(r.choice([1e-3, 1e-2]))
        if log:
            gA = cards.geomspace(xmin, 1.0, NA)
            gB = cards.mixed_grid(NB // 2, NB - NB // 2, xmin, 0.2) if r.random() < 0.5 else cards.geomspace(xmin * 0.7, 1.0, NB)
        else:
            gA = cards.linspace(0.05, 1.0, NA)
            gB = sorted(set(cards.linspace(0.04, 1.0, NB)))
        gA[-1] = gB[-1] = 1.0
        pdf = (LogPolyPDF if log else LinPolyPDF)(deg, 100 + i)
        lo = max(gA[0], gB[0])
        xs = [
            float(r.uniform(lo * 1.2, 0.8)),
            float(r.choice(gA[2:-2])),  # a node of A only
            float(r.choice(gA[2:-2]) * (1 + r.choice([1e-9, 2e-6, 8e-6]))),  # next to a node of A
            float(r.choice(gB[2:-2]) * (1 - r.choice([1e-9, 2e-6, 8e-6]))),  # next to a node of B
            float(r.uniform(gA[-3], 0.98)),  # top intervals
            float(r.uniform(lo, lo * 1.5)),  # bottom intervals
        ]
        kind = r.choice(["F2", "FL", "F3"])
        proc = "CC" if kind == "F3" else r.choice(["NC", "EM"])
        pto = 1 if (thorough or i % 3 == 0 or kind == "FL") else 0
        name = f"{kind}_light"
        t = cards.theory(PTO=pto)
        Q2 = float(r.choice([10.0, 90.0]))
        pts = [dict(x=x, Q2=Q2) for x in xs]
        kw = dict(prDIS=proc, ProjectileDIS="neutrino" if proc == "CC" else "electron", interpolation_is_log=log)
        # a grid is a set of nodes: the card may list them in any order (downwards, refinement points
        # appended at the end); the prediction is contracted on the grid the output records
        listedB = list(gB)
        if i == 0 or r.random() < 0.4:
            listedB = list(reversed(gB)) if i % 2 == 0 else gB[::2] + gB[1::2]
        try:
            oA = yadism.run_yadism(t, cards.obs({name: pts}, interpolation_xgrid=gA, interpolation_polynomial_degree=dA, **kw))
            oB = yadism.run_yadism(t, cards.obs({name: pts}, interpolation_xgrid=listedB, interpolation_polynomial_degree=dB, **kw))
        except Exception as e:  # noqa
            chk.search_case("two_grids_agree_in_span", False, what=f"{name} PTO={pto}: {type(e).__name__}: {e}"[:200], data=dict(gridA=gA, gridB=gB))
            continue
        for j, x in enumerate(xs):
            a, b = predict(oA[name][j], oA, pdf), predict(oB[name][j], oB, pdf)
            rel = abs(a - b) / max(predict_scale(oA[name][j], oA, pdf), 1e-300)
            d = dict(obs=name, process=proc, PTO=pto, x=x, Q2=Q2, log=log, degreeA=dA, degreeB=dB, NA=NA, NB=len(gB), predictionA=a, predictionB=b, rel=rel, where=["generic", "nodeA", "near-nodeA", "near-nodeB", "top", "bottom"][j], gridB_listed_ascending=listedB == gB, gridA=gA, gridB=listedB)
            chk.search_case("two_grids_agree_in_span", rel <= 2e-7, what=f"{name} {proc} PTO={pto} x={x!r} ({d['where']}) log={log} degrees {dA}/{dB} N {NA}/{len(gB)}: predictions for a PDF in the common span differ by {rel:.2e} ({a} vs {b})", data=d, sample={k: v for k, v in d.items() if not k.startswith("grid")} if j == 2 else None, nontrivial=abs(a) > 0)

    # across interpolation modes, and with x on the *lowest* node of one grid: a constant PDF lies in the span
    # of every basis (partition of unity), so a logarithmic grid, a linear grid and a logarithmic grid that
    # starts lower must all give the same prediction, at LO and at NLO
    gLog = cards.geomspace(1e-2, 1.0, 9)
    gLow = cards.geomspace(4e-3, 1.0, 11)
    gLin = cards.linspace(5e-3, 1.0, 14)
    gLog[-1] = gLow[-1] = gLin[-1] = 1.0
    cpdf = LogPolyPDF(0, 7)
    xs = [float(gLog[0]), float(gLog[0] * (1 + 1e-9)), 0.0371, float(gLog[4]), 0.62]
    for kind, proc, pto in (("F2", "NC", 1), ("F3", "CC", 1), ("F2", "EM", 0)):
        name = f"{kind}_light"
        t = cards.theory(PTO=pto)
        pts = [dict(x=x, Q2=20.0) for x in xs]
        outs = {}
        try:
            for tag, g, lg, dg in (("log", gLog, True, 3), ("log-lower", gLow, True, 3), ("linear", gLin, False, 2)):
                outs[tag] = yadism.run_yadism(t, cards.obs({name: pts}, interpolation_xgrid=g, interpolation_polynomial_degree=dg, interpolation_is_log=lg, prDIS=proc, ProjectileDIS="neutrino" if proc == "CC" else "electron"))
        except Exception as e:  # noqa
            chk.search_case("two_grids_agree_in_span", False, what=f"{name} PTO={pto} (modes): {type(e).__name__}: {e}"[:200], data=dict(grid=gLog))
            continue
        for j, x in enumerate(xs):
            vals = {tag: predict(o[name][j], o, cpdf) for tag, o in outs.items()}
            sc = max(predict_scale(outs["log"][name][j], outs["log"], cpdf), 1e-300)
            rel = max(abs(vals["log"] - vals[k_]) for k_ in ("log-lower", "linear")) / sc
            d = dict(obs=name, process=proc, PTO=pto, x=x, Q2=20.0, predictions=vals, rel=rel, where=["lowest node of the log grid", "next to the lowest node", "generic", "interior node", "generic"][j])
            chk.search_case("two_grids_agree_in_span", rel <= 2e-7, what=f"{name} {proc} PTO={pto} x={x!r} ({d['where']}): a constant PDF gives {vals} on a logarithmic grid, a logarithmic grid starting lower and a linear grid (rel {rel:.2e})", data=d, nontrivial=abs(vals["log"]) > 0)


def search_scale_variation(chk, r, n):
    """factorisation-scale orders go through the operator of the splitting functions on the grid nodes
    (second interpolation): exact for in-span PDFs when x is a node of both grids"""
    import yadism

    for i in range(n):
        deg = [3, 4, 5, 2][i % 4]
        fine = cards.geomspace(1e-3, 1.0, 21 if deg < 5 else 25)
        fine[-1] = 1.0
        coarse = fine[::2]
        xs = [coarse[-2], coarse[-3], coarse[len(coarse) // 2], coarse[2]]
        pdf = LogPolyPDF(min(deg, 3), 300 + i)
        t = cards.theory(PTO=1, XIF=2.0)
        name = r.choice(["F2_total", "F2_light", "F3_light"])
        proc = "CC" if name.startswith("F3") else "NC"
        kw = dict(prDIS=proc, ProjectileDIS="neutrino" if proc == "CC" else "electron", interpolation_polynomial_degree=deg)
        pts = [dict(x=x, Q2=20.0) for x in xs]
        try:
            oC = yadism.run_yadism(t, cards.obs({name: pts}, interpolation_xgrid=coarse, **kw))
            oF = yadism.run_yadism(t, cards.obs({name: pts}, interpolation_xgrid=fine, **kw))
        except Exception as e:  # noqa
            chk.search_case("scale_variation_two_grids", False, what=f"{name}: {type(e).__name__}: {e}"[:200], data=dict(degree=deg))
            continue
        # a third grid with as many nodes as the fine one: every second node (the coarse ones) kept,
        # the others moved - same size, different basis
        moved = list(fine)
        for m_ in range(1, len(moved) - 1, 2):
            moved[m_] = float(fine[m_] ** 0.7 * fine[m_ + 1] ** 0.3)
        try:
            oM = yadism.run_yadism(t, cards.obs({name: pts}, interpolation_xgrid=moved, **kw))
        except Exception as e:  # noqa
            chk.search_case("scale_variation_two_grids", False, what=f"{name} degree={deg}: run on a grid of equal size fails after the previous run: {type(e).__name__}: {e}"[:240], data=dict(degree=deg))
            continue
        for j, x in enumerate(xs):
            for xiF in (2.0, 0.5):
                m_val = predict(oM[name][j], oM, pdf, xiF=xiF)
                f_val = predict(oF[name][j], oF, pdf, xiF=xiF)
                relm = abs(m_val - f_val) / max(predict_scale(oF[name][j], oF, pdf, xiF=xiF), 1e-300)
                dm = dict(obs=name, degree=deg, x=x, xiF=xiF, refined=f_val, same_size_other_nodes=m_val, rel=relm)
                chk.search_case("scale_variation_two_grids", relm <= 1e-6, what=f"{name} degree={deg} x={x:.5g} xiF={xiF}: refined grid {f_val} vs a grid of the same size with other nodes {m_val} (rel {relm:.2e})", data=dm, nontrivial=abs(f_val) > 0)
        for j, x in enumerate(xs):
            for xiF in (2.0, 0.5):
                a, b = predict(oC[name][j], oC, pdf, xiF=xiF), predict(oF[name][j], oF, pdf, xiF=xiF)
                sc_ = max(predict_scale(oF[name][j], oF, pdf, xiF=xiF), 1e-300)
                rel = abs(a - b) / sc_
                # order by order as well
                worst = 0.0
                for o in oF[name][j].orders:
                    fC = np.array([[pdf.f(int(p), xx) if pdf.hasFlavor(int(p)) else 0.0 for xx in oC["xgrid"]["grid"]] for p in oC["pids"]])
                    fF = np.array([[pdf.f(int(p), xx) if pdf.hasFlavor(int(p)) else 0.0 for xx in oF["xgrid"]["grid"]] for p in oF["pids"]])
                    vc = float(np.sum(np.asarray(oC[name][j].orders[o][0]) * fC)) if o in oC[name][j].orders else 0.0
                    vf = float(np.sum(np.asarray(oF[name][j].orders[o][0]) * fF))
                    worst = max(worst, abs(vc - vf) * (0.2 / (4 * math.pi)) ** o[0] / sc_)
                d = dict(obs=name, degree=deg, x=x, position=["second-to-last node", "third-to-last node", "central node", "low node"][j], xiF=xiF, coarse=a, fine=b, rel=rel, worst_order_difference=worst)
                chk.search_case("scale_variation_two_grids", rel <= 1e-6 and worst <= 1e-6, what=f"{name} degree={deg} x={x:.5g} ({d['position']}) xiF={xiF}: coarse grid {a} vs refined grid {b} (rel {rel:.2e}, worst single order {worst:.2e})", data=d, sample=d if j == 0 and xiF == 2.0 else None, nontrivial=abs(a) > 0)


def search_refinement(chk, r, n):
    """smooth (non-polynomial) PDF: successive refinements / higher degree converge"""
    import yadism

    pdf = cards.ToyPDF()
    for i in range(n):
        name = r.choice(["F2_light", "F3_light", "F2_total"])
        proc = "CC" if name.startswith("F3") else "NC"
        pto = i % 2
        x = float(r.choice([0.0137, 0.117, 0.371, 0.713]))
        Q2 = 20.0
        kw = dict(prDIS=proc, ProjectileDIS="neutrino" if proc == "CC" else "electron")
        vals = []
        try:
            for N, deg in ((12, 3), (24, 3), (48, 3), (48, 4)):
                g = cards.mixed_grid(N // 2, N - N // 2, 1e-3, 0.1)
                o = yadism.run_yadism(cards.theory(PTO=pto), cards.obs({name: [dict(x=x, Q2=Q2)]}, interpolation_xgrid=g, interpolation_polynomial_degree=deg, **kw))
                vals.append(predict(o[name][0], o, pdf))
        except Exception as e:  # noqa
            chk.search_case("refinement_converges", False, what=f"{name} PTO={pto} x={x}: {type(e).__name__}: {e}"[:200], data=dict(obs=name, x=x))
            continue
        ref = vals[-1]
        e = [abs(v - ref) / abs(ref) for v in vals[:-1]]
        ok = e[0] <= 0.1 and e[1] <= 0.5 * e[0] + 1e-6 and e[2] <= 0.5 * e[1] + 1e-6 and e[2] <= 1e-3
        d = dict(obs=name, PTO=pto, x=x, values=vals, relative_distance_to_finest=e)
        chk.search_case("refinement_converges", ok, what=f"{name} PTO={pto} x={x}: N=12,24,48 (deg 3) vs N=48 deg 4: relative distances {e}", data=d, sample=d, nontrivial=True)


def search_node_displacement(chk, r, n):
    """x on a node vs x displaced by a relative 1e-9: same value (no jump at a node)"""
    import yadism

    pdf = cards.ToyPDF()
    for i in range(n):
        deg = r.choice([2, 3, 4])
        log = r.random() < 0.7
        g = cards.geomspace(1e-3, 1.0, 12) if log else cards.linspace(0.05, 1.0, 12)
        g[-1] = 1.0
        k = r.choice([0, 1, 2, 5, 9, 10]) if i % 3 else r.choice([0, 1, 10])
        node = g[k]
        pts = [node] + ([node * (1 - 1e-9)] if k > 0 else []) + [node * (1 + 1e-9), node * (1 + 1e-5), node * (1 + 1e-3)]
        name = r.choice(["F2_light", "F3_light", "FL_light"])
        proc = "CC" if name.startswith("F3") else "NC"
        pto = 1 if name.startswith("FL") else i % 2
        try:
            o = yadism.run_yadism(cards.theory(PTO=pto), cards.obs({name: [dict(x=x, Q2=30.0) for x in pts]}, interpolation_xgrid=g, interpolation_polynomial_degree=deg, interpolation_is_log=log, prDIS=proc, ProjectileDIS="neutrino" if proc == "CC" else "electron"))
        except Exception as e:  # noqa
            chk.search_case("node_equals_displaced", False, what=f"{name} degree={deg} node #{k}: {type(e).__name__}: {e}"[:200], data=dict(obs=name, degree=deg, node=node))
            continue
        v = [predict(o[name][j], o, pdf) for j in range(len(pts))]
        sc = max(abs(x) for x in v)
        jump = max(abs(v[j] - v[0]) for j in range(1, len(pts) - 2)) / sc
        # the function is not flat: displacements of 1e-5 and 1e-3 must move the value proportionally
        s5, s3 = (v[-2] - v[0]) / 1e-5, (v[-1] - v[0]) / 1e-3
        moves = abs(s3) < 1e-9 * sc or abs(s5 - s3) <= 0.2 * abs(s3) + 1e-3 * sc
        d = dict(obs=name, PTO=pto, degree=deg, log=log, node_index=k, node=node, values=v, relative_jump=jump, slope_1e5=s5, slope_1e3=s3)
        chk.search_case("node_equals_displaced", jump <= 1e-6 and moves, what=f"{name} PTO={pto} degree={deg} log={log} node #{k} = {node}: jump {jump:.2e}; slopes from 1e-5 / 1e-3 displacement {s5:.4g} / {s3:.4g}", data=d, sample=d if k == 5 else None, nontrivial=True)


def search_tmc_node_crossing(chk, r, n):
    """with target-mass corrections the integrals start at the Nachtmann variable xi: when xi crosses a
    grid node the prediction must not jump"""
    import yadism

    pdf = cards.ToyPDF()
    for i in range(n):
        deg = [3, 4, 2][i % 3]
        tmc = [3, 1][i % 2]
        g = cards.geomspace(0.01, 1.0, 14)
        g[-1] = 1.0
        k = r.choice([6, 8, 10, 11])
        Q2, M = 4.0, 0.938
        mu = M * M / Q2
        name = r.choice(["F2_total", "F2_light", "F3_light"]) if tmc == 3 else r.choice(["F2_total", "FL_light"])
        proc = "CC" if name.startswith("F3") else "EM"
        pto = 1 if name.startswith("FL") else 0
        xs = []
        for delta in (-1e-7, 1e-7, -1e-3, 1e-3):
            xi = g[k] * (1 + delta)
            xs.append(xi / (1 - mu * xi * xi))  # inverse of xi(x)
        try:
            o = yadism.run_yadism(cards.theory(PTO=pto, TMC=tmc, MP=M), cards.obs({name: [dict(x=float(x), Q2=Q2) for x in xs]}, interpolation_xgrid=g, interpolation_polynomial_degree=deg, prDIS=proc, ProjectileDIS="neutrino" if proc == "CC" else "electron"))
        except Exception as e:  # noqa
            chk.search_case("tmc_no_jump_when_xi_crosses_a_node", False, what=f"{name} TMC={tmc} degree={deg}: {type(e).__name__}: {e}"[:200], data=dict(obs=name, degree=deg))
            continue
        v = [predict(o[name][j], o, pdf) for j in range(4)]
        sc = max(abs(x) for x in v)
        jump = abs(v[1] - v[0]) / sc
        slope = abs(v[3] - v[2]) / 2e-3 / sc  # relative change per unit relative displacement
        ok = jump <= 2e-7 * max(1.0, slope) + 1e-9
        d = dict(obs=name, TMC=tmc, degree=deg, node_index=k, node=g[k], values=v, relative_jump=jump, relative_slope=slope)
        chk.search_case("tmc_no_jump_when_xi_crosses_a_node", ok, what=f"{name} TMC={tmc} degree={deg} Q2={Q2}: prediction jumps by {jump:.2e} (relative) when xi crosses node #{k} = {g[k]:.5g} (a displacement of 2e-7; smooth slope {slope:.3g})", data=d, sample=d if i == 0 else None)


def search_proven_bounds(chk, r, n):
    """the two theorems of the convergence clause, evaluated on eko's real basis: the Lebesgue function is
    below `(d+1)(d hmax/hmin)^(d+1)` (lebesgue_function_bounded) and the interpolation error of
    sin(w t) (every derivative bounded by w^k) is below the bound of refinement_converges"""
    import eko.interpolation as I

    for i in range(n):
        d = 1 + i % 4
        log = i % 2 == 0
        N = [20, 40, 80][i % 3] if i < 12 else r.randint(d + 2, 60)
        if i < 12:  # uniform in the grid variable: mesh ratio 1 (up to rounding)
            g = list(np.geomspace(1e-3, 1, N)) if log else list(np.linspace(1e-3, 1, N))
        else:
            g = sorted({float(r.uniform(0.001, 1)) for _ in range(N)})
            N = len(g)
            if N < d + 2:
                continue
        disp = I.InterpolatorDispatcher(I.XGrid([float(v) for v in g], log=log), d, mode_N=False)
        tg = [float(v) for v in disp.xgrid.grid]
        hs = np.diff(tg)
        hmin, hmax = float(hs.min()), float(hs.max())
        rho = hmax / hmin
        lam_bound = (d + 1) * (d * rho) ** (d + 1)
        w = 1.0
        err_bound = (1 + lam_bound) * w ** (d + 1) * (d * hmax) ** (d + 1) / math.factorial(d)
        for _ in range(6):
            t = float(r.uniform(tg[0], tg[-1]))
            if t <= tg[0]:
                continue
            vals = [float(I.evaluate_x(t, bf.areas_representation)) for bf in disp]
            lam = sum(abs(v) for v in vals)
            interp = sum(math.sin(w * tj) * v for tj, v in zip(tg, vals))
            err = abs(interp - math.sin(w * t))
            dd = dict(N=N, degree=d, log=log, t=t, mesh_ratio=rho, hmax=hmax, lebesgue=lam, lebesgue_bound=lam_bound, error=err, error_bound=err_bound, grid=g if N <= 30 else None)
            okb = lam <= lam_bound * (1 + 1e-9) and err <= err_bound * (1 + 1e-9) + 1e-13
            chk.search_case("error_within_proven_bounds", okb, what=f"eko basis N={N} degree={d} log={log} t={t!r}: Lebesgue function {lam:.4g} (proved bound {lam_bound:.4g}), interpolation error of sin(t) {err:.3e} (proved bound {err_bound:.3e})", data=dd, sample={k: v for k, v in dd.items() if k != "grid"} if i == 1 else None, nontrivial=err_bound < 1e-2)


def run(tier):
    chk = common.Check("C19", tier)
    thorough = tier == "thorough"
    r = common.rng("C19")
    common.lean_proof_step(chk, "YadismModel.Properties.C19", thorough=thorough)
    corr_basis(chk, r, 300 if thorough else 60)
    search_two_grids(chk, r, 16 if thorough else 5, thorough)
    search_scale_variation(chk, r, 8 if thorough else 2)
    search_node_displacement(chk, r, 18 if thorough else 6)
    search_tmc_node_crossing(chk, r, 12 if thorough else 3)
    search_refinement(chk, r, 8 if thorough else 2)
    search_proven_bounds(chk, r, 60 if thorough else 18)
    chk.assumptions += [
        "the interpolation basis is eko's (external library): modelled by hand in Model/Interp.lean (block layout, areas, evaluate_x, is_below_x) and tied by the interp_layout / interp_basis / interp_is_below_x correspondences on random grids, degrees 1..6, both modes; eko's 2.2e-15 absolute tolerance at the left end of a basis function's first area is modelled as exact equality",
        "PARTIAL: proved are exactness on the span (polynomials of degree <= interpolation degree in x resp. log x: any two grids give the same prediction for every linear functional), the node values, the absence of a jump at nodes, the support, and the convergence of the *interpolant* of a smooth PDF with its rate (interpolation_error_bound, lebesgue_function_bounded, refinement_converges, log_grid_refinement_converges: error <= (1+(d+1)(d rho)^(d+1)) M (d hmax)^(d+1)/d!); the step to the *prediction* is prediction_converges, under the hypothesis that the convolution functional is bounded in the sup norm on the x-range it reads (integrability of the coefficient functions: a hypothesis, not proved per kernel); what remains observed is that boundedness and the quadrature (search refinement_converges on real runs); error_within_proven_bounds evaluates both proved bounds on eko's real basis",
        "quadrature accuracy (scipy, 1e-10 border cut) bounds the agreement observed on the real code: 2e-7 relative",
        "scale-variation orders involve a second interpolation of P (x) f from the grid nodes: exact only when the requested x is a common node; checked there",
    ]
    return chk
