"""C16 — every documented configuration yields a finite result or a clear rejection."""

import numpy as np

from .. import callsites, cards, common, lattice, translate
from ..common import Driver, q


def model_requests(cell):
    """driver requests for one lattice cell (cross sections = their three structure functions)"""
    kind, fl, pr, proj, fns, nfff, pto, tmc = cell
    kinds = [kind]
    if kind in lattice.XSKINDS:
        kinds = ["g4", "gL", "g1"] if kind == "g5" else ["F2", "FL", "F3"]
        if kind in ("F1", "XSHERANCAVG", "FW"):
            kinds = kinds[:2]  # the F3 coefficient vanishes identically: F3 is never requested
    return kinds


def env_of(cell):
    """the flags the Combiner sees, from the real compatibility layer"""
    from yadism.input import compatibility

    kind, fl, pr, proj, fns, nfff, pto, tmc = cell
    t, _ = lattice.make_cards(cell)
    nt = dict(t)
    compatibility.update_fns(nt)
    walls = [(nt[f"m{f}"] ** 2) * (nt[f"k{f}Thr"] ** 2) if nt[f"k{f}Thr"] not in (0.0, float("inf")) else (0.0 if nt[f"k{f}Thr"] == 0.0 else float("inf")) for f in "cbt"]
    Q2 = float(fns.split("@")[1]) if "@" in fns else 30.0
    fns = fns.split("%")[0]
    nf = 3 + sum(1 for w in walls if w <= Q2)
    return nf, nt["ZMc"], nt["ZMb"], nt["ZMt"], "FFN0" in fns, nt["FONLLParts"]


def corr_dispatch(chk, cells, outcomes):
    drv = Driver()
    pend = []
    for cell, py in zip(cells, outcomes):
        kind, fl, pr, proj, fns, nfff, pto, tmc = cell
        nf, zmc, zmb, zmt, ffn0, parts = env_of(cell)
        idxs = [drv.add(f"dispatch {k} {fl} {q(pr == 'CC')} {nf} {q(bool(zmc))} {q(bool(zmb))} {q(bool(zmt))} {q(ffn0)} {parts} {pto} {lattice.evol_order(cell)} {tmc}") for k in model_requests(cell)]
        pend.append((cell, py, idxs))
    lines = drv.run()
    for cell, py, idxs in pend:
        ms = [lines[i] for i in idxs]
        model = next((m for m in ms if m != "ok"), "ok")
        cls = lambda s: s.split(":", 1)[0]
        ok = cls(model) == cls(py)
        feat = f"{cell[0]}/{cell[2]}/{'tmc' if cell[7] else 'notmc'}/pto{cell[6]}/{cls(py)}"
        chk.corr_case("dispatch_outcome", ok, dict(cell=cell, py=py, model=model), None if ok else dict(cell=cell, py=py, model=ms), feat)
        # the property itself, on the real code
        chk.search_case("structural_outcome", not py.startswith("internal"), what=f"{cell[0]}_{cell[1]} {cell[2]} {cell[3]} {cell[4]} NfFF={cell[5]} PTO={cell[6]} TMC={cell[7]}: {py}", data=dict(cell=cell, outcome=py), sample=dict(cell=cell, outcome=py) if py != "ok" and cell[6] == 1 else None, nontrivial=True)


def search_full(chk, cells):
    res = lattice.run_parallel(lattice.full, cells)
    for cell, out in zip(cells, res):
        ok = out == "ok" or out.startswith("rejected")
        chk.search_case("full_run_outcome", ok, what=f"{cell[0]}_{cell[1]} {cell[2]} {cell[3]} {cell[4]} NfFF={cell[5]} PTO={cell[6]} TMC={cell[7]}: {out}", data=dict(cell=cell, outcome=out), sample=dict(cell=cell, outcome=out) if cell[6] == 1 and cell[7] == 1 else None)


def search_full_multi(chk, cells):
    """the same on lists of points with repeated entries (results are stored by position)"""
    res = lattice.run_parallel(lattice.full_multi, cells)
    for cell, out in zip(cells, res):
        ok = out == "ok" or out.startswith("rejected")
        chk.search_case("full_run_repeated_points", ok, what=f"{cell[0]}_{cell[1]} {cell[2]} {cell[3]} {cell[4]} NfFF={cell[5]} PTO={cell[6]} TMC={cell[7]} with a point listed twice: {out}", data=dict(cell=cell, outcome=out), sample=dict(cell=cell, outcome=out) if cell[6] == 1 else None)


def search_request_shapes(chk):
    """request shapes outside the lattice: observables named by their kind alone, and grids ending
    below 1 with a requested x above the last node (with and without target-mass corrections)"""
    reqs = [(k, pr, pj, tmc, True, 1.0, 0.3) for k, pr, pj in (("F2", "NC", "electron"), ("FL", "EM", "electron"), ("F3", "CC", "neutrino"), ("g1", "NC", "electron"), ("XSHERANC", "NC", "electron"), ("F1", "NC", "positron")) for tmc in (0, 1)]
    reqs += [(k, pr, pj, tmc, False, 0.8, x) for k, pr, pj in (("F2", "NC", "electron"), ("FL", "EM", "electron"), ("F3", "CC", "neutrino"), ("XSHERANC", "NC", "electron")) for tmc in (0, 1, 2, 3) for x in (0.9, 0.5)]
    res = lattice.run_parallel(lattice.full_variant, reqs)
    for rq, out in zip(reqs, res):
        kind, pr, pj, tmc, short, top, x = rq
        ok = out == "ok" or out.startswith("rejected")
        d = dict(observable=kind if short else f"{kind}_total", process=pr, projectile=pj, TMC=tmc, grid_top=top, x=x, outcome=out)
        chk.search_case("request_shapes_outcome", ok, what=f"{d['observable']} {pr} {pj} TMC={tmc} grid up to {top} x={x}: {out}", data=d, sample=d if tmc == 1 and short and kind == "F2" else None)


def search_kinematics(chk, r):
    """points outside 0 < x <= 1, Q2 > 0, or below the grid must be rejected on every path"""
    import yadism

    grid = [float(v) for v in np.geomspace(1e-2, 1.0, 8)]
    bad_points = [dict(x=0.0, Q2=10.0), dict(x=-0.1, Q2=10.0), dict(x=1.0000001, Q2=10.0), dict(x=1.05, Q2=2.0), dict(x=0.5, Q2=0.0), dict(x=0.5, Q2=-3.0), dict(x=0.005, Q2=10.0), dict(x=float(np.nextafter(1e-2, 0)), Q2=10.0),
                  # not-a-number and infinite kinematics are outside 0 < x <= 1, 0 < Q2 < oo as well
                  dict(x=float("nan"), Q2=10.0), dict(x=0.5, Q2=float("nan")), dict(x=0.5, Q2=float("inf")), dict(x=float("inf"), Q2=10.0)]
    good_points = [dict(x=1.0, Q2=10.0), dict(x=1e-2, Q2=10.0)]
    paths = [("F2_total", 0, "NC"), ("F2_total", 1, "NC"), ("FL_light", 2, "NC"), ("F3_total", 3, "CC"), ("XSHERANC_total", 0, "NC"), ("XSHERACC_total", 1, "CC"), ("F1_light", 0, "NC"), ("g1_total", 1, "NC"),
             ("XSFPFCC_total", 0, "CC"), ("XSCHORUSCC_total", 0, "CC"), ("XSNUTEVCC_light", 0, "CC"), ("XSNUTEVNU_total", 0, "CC"), ("FW_total", 0, "CC"), ("XSHERANCAVG_total", 0, "NC"), ("g5_total", 0, "NC")]
    for name, tmc, pr in paths:
        for pt in bad_points + good_points:
            kin = dict(pt)
            if name.split("_")[0] in cards.XS:
                kin["y"] = 0.5
            t = cards.theory(PTO=0, TMC=tmc)
            o = cards.obs({name: [kin]}, prDIS=pr, ProjectileDIS="neutrino" if pr == "CC" else "electron", interpolation_xgrid=grid, interpolation_polynomial_degree=2)
            try:
                yadism.run_yadism(t, o)
                out = "ok"
            except Exception as e:  # noqa
                out = lattice.classify_exception(e)
            expect_reject = pt in bad_points
            # with TMC a legal point whose xi falls below the grid is also (explicitly) rejected
            ok = out.startswith("rejected") if expect_reject else (out == "ok" or (tmc and out.startswith("rejected")))
            ptj = {k_: (v_ if np.isfinite(v_) else str(v_)) for k_, v_ in pt.items()}  # strict JSON has no NaN / Infinity
            chk.search_case("kinematic_domain", ok, what=f"{name} TMC={tmc}: point {pt} -> {out}", data=dict(obs=name, TMC=tmc, point=ptj, outcome=out), sample=dict(obs=name, TMC=tmc, point=ptj, outcome=out) if tmc == 1 and pt["x"] == 1.05 else None)


def run(tier):
    chk = common.Check("C16", tier)
    thorough = tier == "thorough"
    r = common.rng("C16")
    sites, modules = callsites.collect(nfs=(3, 4, 5))
    table = translate.generate_dispatch(sites, modules)
    chk.extra["dispatch_tables"] = dict(modules=len(table), import_errors=[k for k, v in table.items() if v == "import-error"])
    common.lean_proof_step(chk, "YadismModel.Properties.C16", thorough=thorough)
    cells = list(lattice.all_cells())
    chk.extra["lattice_size"] = len(cells)
    sample = cells if thorough else r.sample(cells, 4000)
    outcomes = lattice.run_parallel(lattice.structural, sample)
    corr_dispatch(chk, sample, outcomes)
    chk.extra["outcome_census"] = {k: sum(1 for o in outcomes if o.split(":", 1)[0] == k) for k in ("ok", "rejected", "internal")}
    # full runs on a sub-sample (quadrature, NaN sanitising)
    cheap = [c for c in sample if c[6] <= (2 if thorough else 1) and c[7] in (0, 2) and c[0] not in ("g1", "gL", "g4", "g5")]
    search_full(chk, r.sample(cheap, min(len(cheap), 600 if thorough else 60)))
    n3 = [c for c in sample if c[6] == 3 and c[7] == 0 and c[4] in ("FFNS",) and c[0] in ("F2", "FL") and c[1] in ("charm", "total") and c[2] != "CC"]
    search_full(chk, r.sample(n3, min(len(n3), 12 if thorough else 2)))
    # the same for observables assembled from several structure functions (the sanitiser must reach them too)
    n3xs = [("XSHERANC", "charm", "NC", "electron", "FFNS", 3, 3, 0), ("F1", "charm", "NC", "electron", "FFNS", 3, 3, 0), ("XSHERANCAVG", "total", "NC", "positron", "FFNS", 3, 3, 0)]
    search_full(chk, n3xs if thorough else n3xs[:1])
    # evolution order above the order of the coefficient functions (PTODIS < PTO), deterministic cells
    above = [("F2", "total", "NC", "electron", "ZM-VFNS%+", 4, 0, 0), ("F3", "total", "CC", "neutrino", "FONLL-FFN0%+", 4, 0, 0), ("XSHERANC", "total", "NC", "electron", "ZM-VFNS%+", 4, 0, 2),
             ("F2", "charm", "NC", "electron", "FFNS%+", 3, 1, 0), ("FL", "total", "EM", "electron", "FFN0%+", 3, 1, 0), ("F2", "light", "NC", "positron", "ZM-VFNS%+", 4, 1, 0)]
    search_full(chk, above if thorough else above[:4])
    # several points, one of them listed twice
    multi = [("F2", "total", "NC", "electron", "ZM-VFNS", 4, 0, 0), ("FL", "charm", "EM", "electron", "FFNS", 3, 1, 0), ("F3", "total", "CC", "neutrino", "ZM-VFNS", 4, 1, 0),
             ("F2", "total", "NC", "electron", "ZM-VFNS", 4, 0, 1), ("XSHERANC", "total", "NC", "electron", "ZM-VFNS", 4, 0, 0), ("g1", "total", "NC", "electron", "ZM-VFNS", 4, 1, 0),
             ("F2", "light", "CC", "antineutrino", "FONLL-FFN0", 4, 1, 0), ("XSCHORUSCC", "total", "CC", "neutrino", "FFNS", 3, 0, 2)]
    cheap_multi = [c for c in cheap if c[6] <= 1]
    search_full_multi(chk, multi + r.sample(cheap_multi, min(len(cheap_multi), 60 if thorough else 8)))
    search_kinematics(chk, r)
    search_request_shapes(chk)
    chk.assumptions += [
        "no_internal_error is proved for every environment of the Combiner model (any nf, mass flags, weights, Q2) against class/module tables read from the live code each run; the model<->code tie is the dispatch_outcome correspondence (outcome class of the real code, without quadrature, on a sample / the whole lattice)",
        "finiteness of the numbers is observed on real runs (incl. massive N3LO where the shipped grids give NaN, zeroed by replace_nans_with_0), not proved",
        "x, Q2 used for the lattice: 0.15, 30 (nf from the real update_fns); kinematic rejection is proved for all rationals and observed on every request path (plain, TMC, cross section)",
    ]
    return chk
