"""C05 — scale-variation terms satisfy the renormalisation-group equations."""

import numpy as np

from .. import cards, common, corr_sv, numeric, realrun


def search_products(chk, r):
    """the hypotheses `Products` of the RGE theorem, on the real kernels: Mellin moments of the
    'convolved' labels equal products of moments of the factors"""
    from yadism.coefficient_functions import splitting_functions as split

    lab = {}
    for d in split.raw_labels:
        lab.update(d)
    pairs = {"P_qq_0^2": ("P_qq_0", "P_qq_0"), "P_qg_0P_gq_0": ("P_qg_0", "P_gq_0"), "P_qq_0P_qg_0": ("P_qq_0", "P_qg_0"), "P_qg_0P_gg_0": ("P_qg_0", "P_gg_0")}
    for name, (a, b) in pairs.items():
        for nf in (3, 5):
            for N in (2.0, 3.5, float(r.uniform(1.5, 8.0))):
                lhs = numeric.moment(lab[name](nf), N)
                rhs = numeric.moment(lab[a](nf), N) * numeric.moment(lab[b](nf), N)
                ok = abs(lhs - rhs) <= 1e-7 * max(1.0, abs(rhs))
                sample = dict(label=name, nf=nf, N=N, moment=lhs, product=rhs)
                chk.search_case("convolved_labels_are_products", ok, what=f"Mellin moment of {name} != product of moments", data=sample, sample=sample)


def search_switch_off(chk, r, n, max_pto, only_pto=None):
    for i_case in range(n):
        pto = only_pto or r.choice([p for p in (1, 2, 3) if p <= max_pto])
        # the order of the evolution (card entry PTO) is independent of the order of the coefficient
        # functions (PTODIS): the scale-variation terms follow the latter
        pto_evol = r.choice([pto, pto, max(pto - 1, 0), min(pto + 1, 2)]) if pto < 3 else pto
        if only_pto is None and i_case == 0 and max_pto >= 2:
            pto, pto_evol = 2, 1
        process = r.choice(["EM", "NC", "CC"])
        kind = r.choice(cards.UNPOL)
        fl = r.choice(["light", "total"]) if pto > 1 else r.choice(["light", "total", "charm"])
        scheme, nfff = r.choice([("ZM-VFNS", 4), ("FFNS", 3)]) if pto < 3 else ("ZM-VFNS", 4)
        name = f"{kind}_{fl}"
        p = [dict(x=float(r.choice([0.05, 0.3])), Q2=float(r.choice([10.0, 200.0])))]
        outs = {}
        try:
            for ren in (True, False):
                for fact in (True, False):
                    if ren and fact or r.random() < 0.7:
                        outs[(ren, fact)] = realrun.run(cards.theory(PTO=pto_evol, PTODIS=pto, FNS=scheme, NfFF=nfff, RenScaleVar=ren, FactScaleVar=fact), cards.obs({name: p}, prDIS=process, interpolation_xgrid=cards.default_grid(8)))[name][0]
        except Exception as e:
            chk.extra.setdefault("search_exceptions", {})
            k = f"{type(e).__name__}:{str(e)[:80]}"
            chk.extra["search_exceptions"][k] = chk.extra["search_exceptions"].get(k, 0) + 1
            continue
        full = outs[(True, True)]
        for (ren, fact), res in outs.items():
            if ren and fact:
                continue
            bad = None
            for k, (v, e) in res.orders.items():
                killed = (not ren and k[2] > 0) or (not fact and k[3] > 0)
                if killed:
                    if np.any(np.asarray(v) != 0.0):
                        bad = f"key {k} not zero"
                elif not np.array_equal(np.asarray(v), np.asarray(full.orders[k][0])):
                    bad = f"key {k} changed"
            if set(res.orders) != set(full.orders):
                bad = "key sets differ"
            sample = dict(obs=name, process=process, pto=pto, pto_evol=pto_evol, FNS=scheme, RenScaleVar=ren, FactScaleVar=fact, point=p[0], keys=len(res.orders), problem=bad)
            nontriv = any(np.any(np.asarray(full.orders[k][0]) != 0) for k in full.orders if k[2] > 0 or k[3] > 0)
            chk.search_case("switch_off_exact", bad is None, what=f"switching off ren={ren} fact={fact}: {bad}", data=sample, sample=sample, nontrivial=nontriv)
        # renormalisation terms against the central ones: (2,0,1,0) = -beta0 (1,0,0,0), and at PTO 3
        # (3,0,2,0) = beta0^2 (1,0,0,0), (3,0,1,0) = -2 beta0 (2,0,0,0) - beta1 (1,0,0,0)
        if pto >= 2:
            nf = nfff if scheme != "ZM-VFNS" else 3 + sum(1 for m in (1.51, 4.92, 172.5) if m * m <= p[0]["Q2"])
            b0 = 11 - 2 * nf / 3
            b1 = 102 - 38 * nf / 3
            o = {k: np.asarray(v[0]) for k, v in full.orders.items()}
            rels = [((2, 0, 1, 0), -b0 * o[(1, 0, 0, 0)])]
            if pto >= 3:
                rels += [((3, 0, 2, 0), b0 * b0 * o[(1, 0, 0, 0)]), ((3, 0, 1, 0), -2 * b0 * o[(2, 0, 0, 0)] - b1 * o[(1, 0, 0, 0)])]
            for key, exp in rels:
                got = o.get(key, np.zeros_like(exp))
                d = float(np.abs(got - exp).max())
                s = float(np.abs(exp).max())
                sample = dict(obs=name, process=process, pto=pto, pto_evol=pto_evol, FNS=scheme, nf=nf, key=list(key), present=key in o, maxdiff=d, scale=s)
                chk.search_case("ren_terms_vs_central", d <= 1e-11 * max(s, 1e-300), what=f"{key} is not the beta-function combination of the central coefficients", data=sample, sample=sample, nontrivial=s > 0)


def search_raw_operators(chk, r, thorough):
    """the operators the labels P_qq_0, ... stand for: every entry [l, k] of what the real
    `convolve_operator` builds from a splitting kernel is (P (x) p_l)(x_k), by an independent
    quadrature (other variable, own breakpoints); all entries, in particular the ones of the clamped
    blocks at the top of the grid, where a basis function reaches far above its own node"""
    import yadism
    from yadism.esf import conv
    from yadism.coefficient_functions import splitting_functions as split

    from .c01 import indep_convolution

    for degree, is_log in ((3, True), (4, True)) + (((2, False), (5, True)) if thorough else ()):
        N = 8 if degree < 5 else 9
        grid = cards.default_grid(N, 0.01) if is_log else cards.linspace(0.05, 1.0, N)
        interp = yadism.Runner(cards.theory(PTO=1), cards.obs({"F2_light": [dict(x=0.5, Q2=10.0)]}, interpolation_xgrid=grid, interpolation_polynomial_degree=degree, interpolation_is_log=is_log)).configs.interpolator
        for order_labels in split.raw_labels[: (2 if thorough else 1)]:
            for label, fnc in order_labels.items():
                nf = r.choice([3, 4, 5])
                rsl = fnc(nf)
                try:
                    op, _err = conv.convolve_operator(rsl, interp)
                    ref = np.zeros_like(op)
                    for k, xk in enumerate(grid):
                        if xk < 1.0:
                            ref[:, k] = indep_convolution(rsl, float(xk), interp, grid)
                except Exception as e:  # noqa
                    chk.search_case("raw_operator_entries", False, what=f"{label} degree={degree}: {type(e).__name__}: {e}"[:200], data=dict(label=label, degree=degree))
                    continue
                scale = float(np.abs(ref).max())
                dd = np.abs(op - ref)
                idx = np.unravel_index(int(dd.argmax()), dd.shape)
                sample = dict(label=label, nf=nf, degree=degree, is_log=is_log, N=N, maxdiff=float(dd.max()), scale=scale, at=dict(basis=int(idx[0]), node=int(idx[1]), real=float(op[idx]), reference=float(ref[idx])))
                chk.search_case("raw_operator_entries", float(dd.max()) <= 5e-7 * max(scale, 1e-300), what=f"{label} (nf={nf}, degree {degree}): entry [basis {idx[0]}, node {idx[1]}] of the operator is {op[idx]:.6g}, the convolution with that basis function gives {ref[idx]:.6g}", data=sample, sample=sample if label == "P_qq_0" else None, nontrivial=scale > 0)


def search_multi_nf(chk, r, n):
    """one ZM-VFNS run across heavy-quark thresholds: the scale-variation entries of every point
    must be those of its own nf (= those of its single-point run)"""
    for i_case in range(n):
        # only observables with a leading-order term have a factorisation log at NLO (FL starts at
        # a_s, F3 needs a parity-violating exchange): anything else would make the comparison vacuous
        kind = r.choice(["F2", "F2", "F3"])
        process = r.choice(["EM", "NC", "CC"]) if kind == "F2" else r.choice(["NC", "CC"])
        name = f"{kind}_{r.choice(['total', 'light'])}"
        x = float(r.choice([0.05, 0.3]))
        q2s = r.sample([1.5, 3.0, 30.0, 300.0], 3)
        if i_case == 0:
            kind, process, name, x, q2s = "F2", "NC", "F2_total", 0.05, [1.5, 30.0, 300.0]
        kw = dict(prDIS=process, interpolation_xgrid=cards.default_grid(8))
        th = cards.theory(PTO=1, FNS="ZM-VFNS", Q0=1.0)
        try:
            big = realrun.run(th, cards.obs({name: [dict(x=x, Q2=float(q)) for q in q2s]}, **kw))[name]
            singles = [realrun.run(th, cards.obs({name: [dict(x=x, Q2=float(q))]}, **kw))[name][0] for q in q2s]
        except Exception as e:
            chk.extra.setdefault("search_exceptions", {})
            k = f"multi-nf:{type(e).__name__}:{str(e)[:80]}"
            chk.extra["search_exceptions"][k] = chk.extra["search_exceptions"].get(k, 0) + 1
            continue
        bad = []
        for q, a, b in zip(q2s, big, singles):
            for k in b.orders:
                if (k[2] > 0 or k[3] > 0) and not np.array_equal(np.asarray(a.orders[k][0]), np.asarray(b.orders[k][0])):
                    bad.append(f"Q2={q} key {k}")
        sample = dict(obs=name, process=process, x=x, Q2s=q2s, differing=bad[:6])
        nontriv = any(np.any(np.asarray(v[0]) != 0) for b in singles for k, v in b.orders.items() if k[2] > 0 or k[3] > 0)
        chk.search_case("sv_terms_use_point_nf", not bad, what="scale-variation entries depend on the other points of the run: " + ", ".join(bad[:3]), data=sample, sample=sample, nontrivial=nontriv)


def search_sector_mapping(chk, r):
    """which splitting function multiplies which flavour sector in the a_s lnF and a_s^2 lnF terms
    (DGLAP: q+qbar differences evolve with P_ns+, q-qbar differences and the valence with P_ns-, the
    quark singlet with P_qq, P_qg): the real `sector_mapping` evaluated on marker matrices"""
    from eko import basis_rotation as br

    from yadism.coefficient_functions import splitting_functions as split

    labels = sorted({k for d_ in split.raw_labels for k in d_})
    for nf in (3, 4, 5, 6):
        mats = {(lab, nf): np.array([[float(7 * i_ + 1), 0.0], [float(i_ + 2), float(3 * i_ + 5)]]) for i_, lab in enumerate(labels)}
        try:
            smap = split.sector_mapping(2, mats, nf)
        except Exception as e:  # noqa
            chk.search_case("sector_mapping_dglap", False, what=f"sector_mapping(2, ., {nf}): {type(e).__name__}: {e}"[:200], data=dict(nf=nf))
            continue
        ns = br.non_singlet_pids_map
        expected = {
            (1, 1, 0): {(ns["ns+"], 0): "P_qq_0", (ns["ns-"], 0): "P_qq_0", (ns["nsV"], 0): "P_qq_0", (100, 100): "P_qq_0", (100, 21): "P_qg_0"},
            (2, 1, 0): {(ns["ns+"], 0): "P_nsp_1", (ns["ns-"], 0): "P_nsm_1", (ns["nsV"], 0): "P_nsm_1", (100, 100): "P_qq_1", (100, 21): "P_qg_1"},
        }
        names = {ns["ns+"]: "ns+", ns["ns-"]: "ns-", ns["nsV"]: "nsV", 100: "S", 21: "g"}
        for key, table in expected.items():
            for sector, lab in table.items():
                got = smap.get(key, {}).get(sector)
                ok = got is not None and np.array_equal(np.asarray(got), mats[lab, nf])
                which = [l_ for l_ in labels if got is not None and np.array_equal(np.asarray(got), mats[l_, nf])]
                d = dict(term=f"a_s^{key[0]} lnF^{key[1]} lnR^{key[2]}", sector=(names.get(sector[0], sector[0]), names.get(sector[1], sector[1])), nf=nf, expected=lab, got=which or "none of the labels")
                chk.search_case("sector_mapping_dglap", ok, what=f"nf={nf}: the {d['term']} term of sector {d['sector']} uses {d['got']} instead of {lab}", data=d, sample=d if key == (2, 1, 0) and nf == 4 and lab == "P_nsm_1" else None)


def search_polarised_kernels(chk):
    """the ln(muF) terms are the DGLAP kernels *of the observable's own evolution* acting on the central
    coefficients: for a polarised structure function the polarised kernels.  Normalisation-free test on a
    real run: at a grid node x the gluon row of the key (1,0,0,1) of a light observable is
    w x (P_qg (x) p_j)(x), so it must be proportional (over j) to the convolution of the basis with
    2x-1 (polarised) resp. x^2+(1-x)^2 (unpolarised)"""
    import yadism
    from yadism.coefficient_functions.partonic_channel import RSL

    from .c01 import indep_convolution

    grid = cards.default_grid(8, 0.01)
    x = float(grid[3])
    shapes = dict(unpolarised=RSL(reg=lambda z, a: z * z + (1 - z) * (1 - z)), polarised=RSL(reg=lambda z, a: 2 * z - 1))
    for name, process, want in (("F2_light", "EM", "unpolarised"), ("g1_light", "EM", "polarised"), ("g1_light", "NC", "polarised")):
        d = dict(obs=name, process=process, x=x, Q2=20.0, expected_kernel=want)
        try:
            runner = yadism.Runner(cards.theory(PTO=1), cards.obs({name: [dict(x=x, Q2=20.0)]}, prDIS=process, interpolation_xgrid=grid))
            out = runner.get_result()
            row = np.asarray(out[name][0].orders[(1, 0, 0, 1)][0])[list(out["pids"]).index(21)]
            interp = runner.configs.interpolator
            res = {}
            for tag, rsl in shapes.items():
                a = indep_convolution(rsl, x, interp, grid)
                kappa = float(row @ a) / float(a @ a)
                res[tag] = float(np.abs(row - kappa * a).max() / max(np.abs(row).max(), 1e-300))
        except Exception as e:  # noqa
            chk.search_case("fact_log_uses_the_kernels_of_the_observable", False, what=f"{name} {process}: {type(e).__name__}: {e}"[:200], data=d)
            continue
        d.update(residual=res)
        other = "polarised" if want == "unpolarised" else "unpolarised"
        ok = res[want] <= 1e-5
        chk.search_case("fact_log_uses_the_kernels_of_the_observable", ok, what=f"{name} {process} PTO=1 x={x:.4g}: the gluon row of the ln(muF) term (1,0,0,1) is not proportional to the {want} P_qg (x) basis (residual {res[want]:.2e}) but to the {other} one (residual {res[other]:.2e}): {'polarised observable with unpolarised splitting functions' if want == 'polarised' else 'wrong kernel'}", data=d, sample=d if name.startswith("g1") and process == "EM" else None)


def run(tier):
    chk = common.Check("C05", tier)
    thorough = tier == "thorough"
    from .. import translate_proj

    try:
        pr = translate_proj.generate_projectors()
        okp, logp, _ = common.lake_build(["YadismModel.Generated.Projectors"])
        chk.obligation("eko-projectors-generated", okp, "" if okp else logp[-300:])
        chk.extra["projectors"] = pr
    except Exception as e:  # noqa
        chk.obligation("eko-projectors-generated", False, f"{type(e).__name__}: {e}"[:300])
    common.lean_proof_step(chk, "YadismModel.Properties.C05", thorough=thorough)
    r = common.rng("C05")
    corr_sv.run_sv(chk, 600 if thorough else 60, r)
    search_products(chk, r)
    search_sector_mapping(chk, r)
    search_raw_operators(chk, r, thorough)
    search_polarised_kernels(chk)
    search_multi_nf(chk, r, 12 if thorough else 2)
    search_switch_off(chk, r, 40 if thorough else 5, 3 if thorough else 2)
    if not thorough:
        search_switch_off(chk, common.rng('C05-n3lo'), 1, 3, only_pto=3)
    chk.assumptions += [
        "RGE theorem is over an arbitrary commutative Q-algebra (the convolution algebra); that 'P_qq_0^2', 'P_qg_0P_gq_0', ... are the products of their factors is a hypothesis (structure Products), checked on Mellin moments of the real kernels each run; their x-space local terms are C03's obligation",
        "how the seven sector operators recombine into quark-singlet/gluon components (actS) rests on the matrix-unit relations of eko's projectors: decided by the kernel on the exact matrices regenerated from the installed eko each run (projector_relations, nf = 3..6); the step from those relations to the sector-wise algebra is E_mul / fact_rge_flavour_space / fact_rge_eko (list-of-rows matrices bridged to Mathlib matrices in Lemmas/MatBridge.lean); that DGLAP evolution in flavour space is sum_s pi_s (x) P_s is eko's convention; additionally exercised by the compute_local correspondence with eko's real projectors",
        "known finding F28: polarised observables (g1, gL, g4) take the unpolarised splitting functions in their ln(muF) terms (the library has no polarised x-space kernels); reported as KNOWN-FINDING, the unpolarised control (F2) must pass",
        "muF terms exist up to a_s^2 only (the (3,.) factorisation entries are a TODO in the source, as the property states)",
    ]
    return chk
