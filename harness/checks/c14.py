"""C14 — results do not depend on request history or cache state."""

import copy

import numpy as np

from .. import cards, common, realrun
from ..common import Driver, q


def corr_cache(chk, r, n):
    """random histories of get_esf requests / drops on a real Runner vs the Lean cache model"""
    import yadism
    from yadism import observable_name as on

    drv = Driver()
    pend = []
    names = ["F2_total", "FL_total", "F3_total", "F2_charm"]
    for _ in range(n):
        tmc = r.choice([0, 1, 3])
        t = cards.theory(PTO=0, TMC=tmc)
        runner = yadism.Runner(t, cards.obs({nm: [] for nm in names}, prDIS="NC", interpolation_xgrid=cards.default_grid(6, 1e-2)))
        runner.drop_cache()
        vals = [0.5, 0.7, 0.25, 1.0, float(r.uniform(0.05, 0.9))]
        toks = ["cache", q(tmc != 0)]
        ops = []
        py = []
        seen = {}  # id -> obj kept alive
        for _ in range(r.choice([3, 8, 20])):
            if r.random() < 0.15:
                runner.drop_cache()
                seen = dict(seen)  # keep references alive so ids are not reused
                ops.append("drop")
                py.append("D")
                live = set()
                seen["__live__"] = live
                continue
            oi = r.randrange(len(names))
            x, Q2 = r.choice(vals), r.choice(vals)
            items = [("x", x), ("Q2", Q2)]
            if r.random() < 0.3:
                items.append(("y", r.choice(vals)))
            r.shuffle(items)
            kin = dict(items)
            use_raw = r.random() < 0.5
            name = on.ObservableName(names[oi])
            # issue the request through a *different* SF half of the time (delegation path)
            via = runner.get_sf(on.ObservableName(r.choice(names)))
            if via.obs_name == name or r.random() < 0.5:
                obj = runner.get_sf(name).get_esf(name, kin, use_raw=use_raw)
            else:
                # delegation drops use_raw (`get_esf(obs_name, kinematics, *args)`): use_raw defaults to True
                obj = via.get_esf(name, kin, use_raw=use_raw)
                use_raw = True
            live = seen.setdefault("__live__", set())
            hit = id(obj) in live
            live.add(id(obj))
            seen[id(obj)] = obj
            is_tmc = type(obj).__name__.startswith("ESFTMC")
            oname = (obj.sf.obs_name if is_tmc else obj.info.obs_name).name
            py.append(f"{'H' if hit else 'M'}:{names.index(oname)}:{q(float(obj.x))}:{q(float(obj.Q2))}:{int(is_tmc)}")
            ops.append(f"get {oi} {len(items)} " + " ".join(f"{k} {q(v)}" for k, v in items) + f" {q(use_raw)}")
        toks.append(str(len(ops)))
        toks += ops
        idx = drv.add(" ".join(toks))
        pend.append((idx, " ".join(py), dict(TMC=tmc, ops=ops[:12], n_ops=len(ops)), f"tmc{int(tmc != 0)}/n{len(ops)}/drops{ops.count('drop')}"))
    lines = drv.run()
    for idx, py, sample, feat in pend:
        ok = lines[idx] == py
        chk.corr_case("get_esf_histories", ok, sample, None if ok else dict(sample=sample, py=py, model=lines[idx]), feat)


def corr_plan(chk, r, n):
    """evaluation order + drops of Runner.get_result (instrumented in the harness process)"""
    import yadism

    drv = Driver()
    pend = []
    for _ in range(n):
        npts = r.choice([1, 3, 6])
        q2s = [float(r.choice([4.0, 9.0, 4.0, 25.0, r.uniform(3, 50)])) for _ in range(npts)]
        runner = yadism.Runner(cards.theory(PTO=0), cards.obs({"F2_light": [dict(x=0.1 + 0.05 * i, Q2=Q2) for i, Q2 in enumerate(q2s)]}, interpolation_xgrid=cards.default_grid(6, 1e-2)))
        log = []
        obs = runner.observables["F2_light"]
        orig_drop = runner.drop_cache
        pending_drop = [False]

        def drop(_o=orig_drop, _p=pending_drop):
            _p[0] = True
            _o()

        runner.drop_cache = drop
        for i, e in enumerate(obs.elements):
            orig = e.get_result

            def gr(_i=i, _orig=orig, _p=pending_drop):
                log.append(f"{'d' if _p[0] else '-'}{_i}")
                _p[0] = False
                return _orig()

            e.get_result = gr
        out = runner.get_result()
        placed = all(out["F2_light"][i].Q2 == q2s[i] and abs(out["F2_light"][i].x - (0.1 + 0.05 * i)) < 1e-15 for i in range(npts))
        idx = drv.add(f"plan {npts} " + " ".join(q(v) for v in q2s))
        pend.append((idx, " ".join(log), placed, dict(q2s=q2s, py_plan=log), f"n{npts}/distinct{len(set(q2s))}"))
    lines = drv.run()
    for idx, py, placed, sample, feat in pend:
        ok = lines[idx] == py and placed
        chk.corr_case("get_result_plan", ok, sample, None if ok else dict(sample=sample, model=lines[idx], placed=placed), feat)


def search_histories(chk, r, n):
    """real runs: every point's result must be bit-identical to its single-point run"""
    pool = [dict(x=0.1, Q2=10.0), dict(x=0.3, Q2=10.0), dict(x=0.3, Q2=40.0), dict(Q2=0.3, x=0.7), dict(x=0.7, Q2=0.3), dict(x=0.3, Q2=0.7), dict(x=0.55, Q2=40.0), dict(Q2=10.0, x=0.1)]
    forced = [dict(sv=dict(FactScaleVar=False, FNS="FFNS", NfFF=3), alias=False), dict(sv=dict(FactScaleVar=False), alias=True), dict(sv=dict(RenScaleVar=False, FactScaleVar=False), alias=False), dict(sv={}, alias=True),
              dict(sv={}, alias=False, multi_nf=True), dict(sv=dict(RenScaleVar=False), alias=False, multi_nf=True),
              # a cross section listed before structure functions at the same (x, Q2, y), one of its points twice
              dict(sv={}, alias=False, xs_dup=True), dict(sv=dict(FactScaleVar=False), alias=False, xs_dup=True),
              # one a_s^2 history (the (2,1,1) / (2,2,0) factorisation sectors only exist there)
              dict(sv={}, alias=False, nnlo=True),
              # distinct points that agree to nine significant digits are distinct requests
              dict(sv={}, alias=False, near=True), dict(sv=dict(FactScaleVar=False), alias=False, near=True, tmc=1)]
    for i_case in range(n + len(forced)):
        tmc = r.choice([0, 0, 1, 3])
        process = r.choice(["NC", "CC", "EM"])
        pto = r.choice([0, 1]) if tmc == 0 else 0
        kinds = r.sample(["F2", "FL", "F3"], 2)
        fl = r.choice(["total", "light"])
        force = forced[i_case] if i_case < len(forced) else None
        if force is not None:
            tmc, pto, fl = force.get("tmc", 0), 1 if not force.get("tmc") else 0, "total"
            if force.get("multi_nf"):
                kinds, process = ["F2", "FL"], "NC"
            if force.get("xs_dup"):
                kinds, process = ["FL", "F3"], r.choice(["NC", "CC"])
            if force.get("nnlo"):
                kinds, process, pto, fl = ["F2", "FL"], "EM", 2, "light"
        names = [f"{k}_{fl}" for k in kinds]
        grid = cards.default_grid(7, 0.05)
        # the scale-variation switches are legal card entries: every combination
        sv_kw = r.choice([{}, {}, dict(FactScaleVar=False), dict(RenScaleVar=False), dict(RenScaleVar=False, FactScaleVar=False), dict(FactScaleVar=False, FNS="FFNS", NfFF=3)])
        if force is not None:
            sv_kw = force["sv"]
        th = cards.theory(PTO=pto, TMC=tmc, Q0=0.5, **sv_kw)
        kw = dict(prDIS=process, ProjectileDIS="neutrino" if process == "CC" else "electron", interpolation_xgrid=grid, interpolation_polynomial_degree=2)
        pts = [copy.deepcopy(p) for p in r.sample(pool, r.choice([2, 3, 5]))]
        if force is not None and force.get("nnlo"):
            pts = [dict(x=0.3, Q2=10.0), dict(x=0.1, Q2=10.0)]
        if force is not None and force.get("near"):
            pts = [dict(x=0.1, Q2=10.0), dict(x=0.1000000003, Q2=10.0), dict(x=0.3, Q2=40.00000004), dict(x=0.3, Q2=40.0), dict(x=0.1 * (1 + 2 ** -50), Q2=10.0)]
        if force is not None and force.get("multi_nf"):
            # points on both sides of the charm and bottom matching scales, scale variations on
            pts = [dict(x=0.3, Q2=0.7), dict(x=0.1, Q2=10.0), dict(x=0.3, Q2=40.0), dict(x=0.55, Q2=40.0)]
        if r.random() < 0.4:
            pts.append(copy.deepcopy(pts[0]))  # duplicate
        obs = {nm: [copy.deepcopy(p) for p in pts] for nm in names}
        if fl == "total" and (r.random() < 0.35 if force is None else force["alias"]):
            # the short spelling of the same observable, with its own (different) list of points
            short = names[0].split("_")[0]
            other = [copy.deepcopy(p) for p in r.sample(pool, 2)]
            obs = {short: other, **obs} if r.random() < 0.5 else {**obs, short: other}
        with_xs = r.random() < 0.4 and process != "EM"
        xs_dup = bool(force and force.get("xs_dup"))
        xs_pts, xsn = [], None
        if with_xs or xs_dup:
            with_xs = True
            xsn = ("XSHERACC" if process == "CC" else "XSHERANC") + f"_{fl}"
            xs_pts = [dict(x=pts[0]["x"], Q2=pts[0]["Q2"], y=0.5)]
            if xs_dup or r.random() < 0.5:
                # more than one point, one of them listed twice
                xs_pts = xs_pts + [dict(x=pts[-1]["x"], Q2=pts[-1]["Q2"], y=0.3), dict(xs_pts[0])]
            if xs_dup or r.random() < 0.5:
                # the structure functions are requested at the very same kinematics (y included)
                pts[0]["y"] = 0.5
                obs = {nm: [copy.deepcopy(p) for p in pts] for nm in obs} if set(obs) == set(names) else {nm: ([copy.deepcopy(p) for p in pts] if nm in names else lst) for nm, lst in obs.items()}
            obs = {xsn: copy.deepcopy(xs_pts), **obs} if (xs_dup or r.random() < 0.5) else {**obs, xsn: copy.deepcopy(xs_pts)}
        try:
            import yadism

            runner = yadism.Runner(th, cards.obs(obs, **kw))
            big = runner.get_result()
            again = runner.get_result() if r.random() < 0.5 else None
            perm = {nm: [copy.deepcopy(p) for p in r.sample(pts, len(pts))] for nm in reversed(names)}
            big2 = realrun.run(th, cards.obs(perm, **kw))
            target_name = r.choice(names)
            i = r.randrange(len(pts))
            if force is not None and force.get("multi_nf"):
                target_name, i = names[0], 2  # F2 at Q2 = 40 (nf = 5), computed after the nf = 3 and nf = 4 points
            if force is not None and force.get("nnlo"):
                target_name, i = names[-1], len(pts) - 1  # computed after everything else
            single = realrun.run(th, cards.obs({target_name: [copy.deepcopy(pts[i])]}, **kw))[target_name][0]
        except Exception as e:
            # does every point on its own go through?  then the failure is one of the history
            try:
                for nm_, lst_ in obs.items():
                    for p_ in lst_:
                        realrun.run(th, cards.obs({nm_: [copy.deepcopy(p_)]}, **kw))
            except Exception:
                chk.extra.setdefault("search_exceptions", {})
                k = f"tmc{tmc}/{process}:{type(e).__name__}:{str(e)[:80]}"
                chk.extra["search_exceptions"][k] = chk.extra["search_exceptions"].get(k, 0) + 1
                continue
            sample = dict(TMC=tmc, process=process, pto=pto, sv=sv_kw, observables={k_: v_ for k_, v_ in obs.items()}, points=pts, with_xs=with_xs, error=f"{type(e).__name__}: {e}"[:200])
            chk.search_case("permuted_extended_vs_single", False, what=f"the run over several points raises {type(e).__name__} although every point alone is computed", data=sample, sample=sample, nontrivial=True)
            continue
        problems = []
        try:
            got = big[target_name][i]
            if not (realrun.identical(got, single) and got.x == single.x and got.Q2 == single.Q2):
                problems.append("point in the big run differs from its single-point run")
            j = next(jj for jj, p in enumerate(perm[target_name]) if p["x"] == pts[i]["x"] and p["Q2"] == pts[i]["Q2"])
            if not realrun.identical(big2[target_name][j], single):
                problems.append("point in the permuted run differs from its single-point run")
            if again is not None and not realrun.identical(again[target_name][i], single):
                problems.append("second get_result differs")
        except (IndexError, KeyError, StopIteration) as e:
            problems.append(f"the output does not have the shape of the request ({type(e).__name__}: {e})")
        for nm, lst in obs.items():
            if len(big[nm]) != len(lst) or any(float(res_.x) != p_["x"] or float(res_.Q2) != p_["Q2"] for res_, p_ in zip(big[nm], lst)):
                problems.append(f"{nm}: the output does not hold the points requested under that name")
        if xsn is not None and not problems:
            # every cross-section entry against the same point computed alone
            try:
                for j_, xp in enumerate(xs_pts):
                    alone = realrun.run(th, cards.obs({xsn: [copy.deepcopy(xp)]}, **kw))[xsn][0]
                    if not realrun.identical(big[xsn][j_], alone):
                        problems.append(f"{xsn}[{j_}] in the big run differs from its single-point run")
                    if again is not None and not realrun.identical(again[xsn][j_], alone):
                        problems.append(f"{xsn}[{j_}] of the second get_result differs from its single-point run")
            except Exception as e:  # noqa
                problems.append(f"{xsn}: single-point run raises {type(e).__name__}: {e}"[:160])
        sample = dict(TMC=tmc, process=process, pto=pto, sv=sv_kw, observables=list(obs), points=pts, probe=dict(obs=target_name, index=i), with_xs=with_xs, repeated=again is not None, problems=problems)
        chk.search_case("permuted_extended_vs_single", not problems, what="; ".join(problems) or "history", data=sample, sample=sample, nontrivial=any(np.any(v[0] != 0) for v in single.orders.values()))


def search_tmc_coincidences(chk, r, n):
    """TMC on, with requested x equal to the Nachtmann variable of another point and to a grid node:
    the places where inner TMC requests and card requests meet in the cache"""
    import math

    for _ in range(n):
        tmc = r.choice([1, 3, 2])
        grid = cards.default_grid(7, 0.05)
        Q2 = float(r.choice([4.0, 9.0]))
        M = 0.938
        x1 = float(r.choice([0.3, 0.45, 0.6]))
        mu = M * M / Q2
        xi = 2 * x1 / (1 + math.sqrt(1 + 4 * x1 * x1 * mu))
        node = grid[r.choice([3, 4, 5])]
        kind = r.choice(["F2", "FL", "F3"])
        process = "CC" if kind == "F3" else r.choice(["NC", "CC"])
        name = f"{kind}_total"
        th = cards.theory(PTO=0, TMC=tmc, MP=M)
        kw = dict(prDIS=process, ProjectileDIS="neutrino" if process == "CC" else "electron", interpolation_xgrid=grid, interpolation_polynomial_degree=2)
        pts = [dict(x=x1, Q2=Q2), dict(x=xi, Q2=Q2), dict(x=node, Q2=Q2)]
        try:
            big = realrun.run(th, cards.obs({name: [dict(p) for p in pts]}, **kw))
            singles = [realrun.run(th, cards.obs({name: [dict(p)]}, **kw))[name][0] for p in pts]
            problems = [f"point {i} (x={pts[i]['x']:.4g}) differs from its single-point run" for i in range(3) if not realrun.identical(big[name][i], singles[i])]
        except RecursionError as e:
            problems = ["RecursionError"]
        except Exception as e:
            chk.extra.setdefault("search_exceptions", {})
            k = f"tmc-coinc:{type(e).__name__}:{str(e)[:80]}"
            chk.extra["search_exceptions"][k] = chk.extra["search_exceptions"].get(k, 0) + 1
            continue
        sample = dict(TMC=tmc, obs=name, process=process, Q2=Q2, x1=x1, xi=xi, node=node, problems=problems)
        chk.search_case("tmc_coinciding_requests", not problems, what="; ".join(problems) or "-", data=sample, sample=sample)


def search_process_histories(chk, r, n):
    """histories that span several runs of one Python process: the last run of a sequence of
    *different* configurations must be bit-identical to the same run in a fresh process (module- and
    class-level memo tables, e.g. of scale-variation operators or TMC weights, must not leak)"""
    from .c18 import worker

    gA = cards.default_grid(9, 0.01)
    gB = list(gA)
    gB[3] = float(0.5 * (gA[3] + gA[4]))  # same size, one node moved
    gB[6] = float(0.5 * (gA[6] + gA[7]))
    scenarios = [
        ("equal-size grids, scale-variation orders", dict(PTO=1), dict(interpolation_xgrid=gA), dict(PTO=1), dict(interpolation_xgrid=gB), "F2_total", "NC"),
        ("degree scan on one grid with TMC", dict(PTO=0, TMC=3), dict(interpolation_xgrid=gA, interpolation_polynomial_degree=3), dict(PTO=0, TMC=3), dict(interpolation_xgrid=gA, interpolation_polynomial_degree=2), "F2_light", "NC"),
        ("scheme change", dict(PTO=1, FNS="FFNS", NfFF=3), dict(interpolation_xgrid=gA), dict(PTO=1, FNS="ZM-VFNS"), dict(interpolation_xgrid=gA), "F2_total", "EM"),
        ("log / linear interpolation", dict(PTO=1), dict(interpolation_xgrid=gA, interpolation_is_log=True), dict(PTO=1), dict(interpolation_xgrid=gA, interpolation_is_log=False), "F3_total", "CC"),
        ("charged / neutral current with cross section", dict(PTO=0), dict(interpolation_xgrid=gA, prDIS="CC", ProjectileDIS="neutrino"), dict(PTO=0), dict(interpolation_xgrid=gA), "F2_total", "NC"),
        ("target mass on / off", dict(PTO=0, TMC=1), dict(interpolation_xgrid=gA), dict(PTO=0, TMC=0), dict(interpolation_xgrid=gA), "FL_total", "NC"),
    ]
    for i in range(n):
        what, thA, obA, thB, obB, name, proc = scenarios[i % len(scenarios)]
        pts = [dict(x=float(gA[4]), Q2=20.0), dict(x=0.3, Q2=20.0)]
        kwB = dict(prDIS=proc, ProjectileDIS="neutrino" if proc == "CC" else "electron", interpolation_polynomial_degree=3)
        kwA = dict(kwB)
        kwA.update(obA)
        kwB.update(obB)
        runA = dict(theory=cards.theory(**thA), observables=cards.obs({name: pts}, **kwA))
        runB = dict(theory=cards.theory(**thB), observables=cards.obs({name: pts}, **kwB))
        env = {"NUMBA_DISABLE_JIT": "1"}
        try:
            seq = worker(env, dict(kernels=[], runs=[runA, runB]))["runs"]
            alone = worker(env, dict(kernels=[], runs=[runB]))["runs"]
        except Exception as e:  # noqa
            chk.search_case("last_run_of_a_process_vs_fresh_process", False, what=f"{what}: worker failed: {e}"[:200], data=dict(scenario=what))
            continue
        b_seq, b_alone = seq[1], alone[0]
        problems = []
        if "error" in b_alone:
            chk.search_case("last_run_of_a_process_vs_fresh_process", True, what=None, data=dict(scenario=what, note="reference run rejected: " + b_alone["error"]), nontrivial=False)
            continue
        if "error" in b_seq:
            problems.append("run fails only after another run: " + b_seq["error"][:120])
        else:
            for j, (pa, pb) in enumerate(zip(b_seq["ok"][name], b_alone["ok"][name])):
                for k in set(pa) | set(pb):
                    va, vb = np.array(pa.get(k, 0.0)), np.array(pb.get(k, 0.0))
                    if va.shape != vb.shape or not np.array_equal(va, vb):
                        d = float(np.abs(va - vb).max()) if va.shape == vb.shape else float("nan")
                        problems.append(f"point {j} order {k}: differs by {d:.3g}")
        d = dict(scenario=what, first=dict(theory=thA, obs={k_: v_ for k_, v_ in obA.items()}), second=dict(theory=thB, obs={k_: v_ for k_, v_ in obB.items()}), observable=name, problems=problems[:6])
        chk.search_case("last_run_of_a_process_vs_fresh_process", not problems, what=f"{what}: {name} computed after another run in the same process differs from a fresh process: " + "; ".join(problems[:3]), data=d, sample=d if i == 0 else None)


def search_sequence_orders(chk, r, thorough):
    """one long sequence of *different* configurations that share kinematics, run in one process:
    every run must give operators bit-identical to the same run alone in a fresh process (any
    process-wide memo keyed too coarsely makes some later run of the sequence wrong)"""
    from .c18 import worker

    gA = cards.default_grid(9, 0.01)
    gB = list(gA)
    gB[3] = float(0.5 * (gA[3] + gA[4]))
    gB[6] = float(0.5 * (gA[6] + gA[7]))
    pts = [dict(x=float(gA[4]), Q2=20.0), dict(x=0.3, Q2=20.0), dict(x=0.3, Q2=3000.0)]
    ckm2 = "0.9 0.3 0.1 0.3 0.9 0.2 0.1 0.2 0.95"
    variants = [
        # (label, theory kwargs, observable-card kwargs, observable)
        ("base NC", dict(PTO=1), dict(), "F2_total"),
        ("other nodes, same size", dict(PTO=1), dict(interpolation_xgrid=gB), "F2_total"),
        ("Z decoupled", dict(PTO=1, MZ=1e30), dict(), "F2_total"),
        ("other weak mixing angle, polarised", dict(PTO=0, SIN2TW=0.3), dict(PolarizationDIS=0.6, PropagatorCorrection=0.1), "F3_total"),
        ("base polarised", dict(PTO=0), dict(PolarizationDIS=0.6), "F3_total"),
        ("CC", dict(PTO=1), dict(prDIS="CC", ProjectileDIS="neutrino"), "F2_total"),
        ("CC other CKM", dict(PTO=1, CKM=ckm2), dict(prDIS="CC", ProjectileDIS="neutrino"), "F2_total"),
        ("CC FFNS3", dict(PTO=1, FNS="FFNS", NfFF=3), dict(prDIS="CC", ProjectileDIS="antineutrino", TargetDIS="isoscalar"), "F2_total"),
        ("FFNS3 heavier charm", dict(PTO=1, FNS="FFNS", NfFF=3, mc=2.0), dict(), "F2_total"),
        ("FFNS3", dict(PTO=1, FNS="FFNS", NfFF=3), dict(), "F2_total"),
        ("degree 2", dict(PTO=1), dict(interpolation_polynomial_degree=2), "F2_light"),
        ("linear interpolation", dict(PTO=1), dict(interpolation_is_log=False), "F2_light"),
        ("TMC exact", dict(PTO=0, TMC=3), dict(), "F2_light"),
        ("TMC exact degree 2", dict(PTO=0, TMC=3), dict(interpolation_polynomial_degree=2), "F2_light"),
        ("neutron", dict(PTO=0), dict(TargetDIS="neutron"), "F2_total"),
        ("thresholds moved", dict(PTO=1, kbThr=3.0), dict(), "F2_total"),
        ("cross section", dict(PTO=0), dict(), "XSHERANC_total"),
    ]
    if not thorough:
        variants = variants[:12] + variants[12:14]
    runs = []
    for label, th, ob, name in variants:
        kw = dict(interpolation_xgrid=gA, interpolation_polynomial_degree=3)
        kw.update(ob)
        p_ = [dict(p, y=0.5) for p in pts] if name.startswith("XS") else [dict(p) for p in pts]
        runs.append(dict(theory=cards.theory(**th), observables=cards.obs({name: p_}, **kw)))
    env = {"NUMBA_DISABLE_JIT": "1"}
    import concurrent.futures

    try:
        # the whole sequence in one process, and every run alone in a fresh process (in parallel)
        with concurrent.futures.ThreadPoolExecutor(max_workers=14) as ex:
            f_seq = ex.submit(worker, env, dict(kernels=[], runs=runs))
            f_alone = [ex.submit(worker, env, dict(kernels=[], runs=[run_])) for run_ in runs]
            fwd = f_seq.result()["runs"]
            bwd = [f_.result()["runs"][0] for f_ in f_alone]
    except Exception as e:  # noqa
        chk.search_case("sequence_vs_fresh_processes", False, what=f"worker failed: {e}"[:200], data=dict(n=len(runs)))
        return
    for (label, th, ob, name), a, b in zip(variants, fwd, bwd):
        problems = []
        if ("error" in a) != ("error" in b):
            problems.append(f"fails in one of the two settings only: {a.get('error') or b.get('error')}"[:160])
        elif "error" not in a:
            for j, (pa, pb) in enumerate(zip(a["ok"][name], b["ok"][name])):
                for k in sorted(set(pa) | set(pb)):
                    va, vb = np.array(pa.get(k, 0.0)), np.array(pb.get(k, 0.0))
                    if va.shape != vb.shape or not np.array_equal(va, vb):
                        d = float(np.abs(va - vb).max()) if va.shape == vb.shape else float("nan")
                        problems.append(f"point {j} order {k}: differs by {d:.3g}")
        d = dict(run=label, theory=th, obs=ob, observable=name, position_forward=[v[0] for v in variants].index(label), sequence=[v[0] for v in variants], problems=problems[:6])
        chk.search_case("sequence_vs_fresh_processes", not problems, what=f"run '{label}' ({name}) gives different operators as part of a sequence of {len(variants)} different runs in one process than alone in a fresh process: " + "; ".join(problems[:3]), data=d, sample=d if label == "Z decoupled" else None, nontrivial="error" not in a)


def run(tier):
    chk = common.Check("C14", tier)
    thorough = tier == "thorough"
    # census of the memo tables of the code base, regenerated from the syntax trees
    try:
        from .. import translate_memo

        sites = translate_memo.regenerate()
        chk.obligation("memo-census-translated", len(sites) > 0, "; ".join(f"{s_['where'].split('.')[-1]}: {s_['table']}[{s_['key']}]" for s_ in sites))
        chk.extra["memo_sites"] = sites
    except Exception as e:  # noqa
        chk.obligation("memo-census-translated", False, f"{type(e).__name__}: {e}"[:300])
    common.lean_proof_step(chk, "YadismModel.Properties.C14", thorough=thorough)
    r = common.rng("C14")
    corr_cache(chk, r, 400 if thorough else 60)
    corr_plan(chk, r, 60 if thorough else 10)
    search_histories(chk, r, 60 if thorough else 8)
    search_tmc_coincidences(chk, r, 20 if thorough else 3)
    search_process_histories(chk, r, 12 if thorough else 2)
    search_sequence_orders(chk, r, thorough)
    chk.assumptions += [
        "an ESF object's result is a deterministic function of (observable, x, Q2, class) and the run configuration: hidden state inside numba/LeProHQ/scipy and the memo tables of pure functions (sv operators, n3lo interpolators) are outside the model; the bit-exact comparison of real runs is what would expose them",
        "requests are well formed (dicts contain x and Q2); a request lacking one is a caller error",
        "memo tables: the census (harness/translate_memo.py, regenerated each run) finds every table a function of src/yadism fills and looks up, and every 'computed' flag; Lean decides that for each of them whatever the miss branch reads is in the key or an attribute assigned in __init__ only (memo_keys_cover_deps), pins the list of tables and keys (memo_census) and proves that a covered table is transparent for every history (covered_site_is_transparent); the same walk lists the process-wide mutable state that any function changes (module- and class-level containers, class attributes rebound in functions, `global` names): exactly the table of loaded N3LO grids, itself a covered memo (shared_state_census, shared_state_is_a_covered_memo). The analysis is syntactic: a key that mentions a name is taken to determine it (F13 was of that kind: seen by the get_esf_histories tie, not by the census); stores into an object's attributes from outside its class, and hidden state of compiled libraries, are not seen",
    ]
    return chk
