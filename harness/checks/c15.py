"""C15 — serialised output round-trips losslessly."""

import io
import os
import pathlib
import shutil
import tarfile
import tempfile

import numpy as np
import yaml

from .. import cards, common, realrun
from ..common import Driver, q


def fmt_list(f, l):
    return "[" + ",".join(f(v) for v in l) + "]"


def corr_layout(chk, r, n):
    """tar layout (metadata.yaml + npz) of random observables vs the Lean `dumpTarObs`, and the
    loaded object vs `loadTarObs`"""
    from yadism.esf.result import ESFResult, EXSResult
    from yadism.output import Output

    drv = Driver()
    pend = []
    tmp = pathlib.Path(tempfile.mkdtemp(prefix="verif_c15_", dir=os.environ.get("VERIF_TMP", None)))
    try:
        for case in range(n):
            shape = r.choice(["none", "empty", "sf", "sf", "xs"])
            out = Output()
            out["xgrid"] = dict(grid=[0.1, 1.0], log=True)
            out["pids"] = [21, 1]
            out.theory = dict(a=1)
            out.observables = dict(b=[1, 2])
            name = "XSHERANC_total" if shape == "xs" else r.choice(["F2_total", "FL_charm", "g1_light"])
            toks = ["tar"]
            if shape == "none":
                out[name] = None
                toks.append("-1")
            else:
                npts = 0 if shape == "empty" else r.choice([1, 2, 4])
                keys = r.sample([(a, 0, c, d) for a in range(4) for c in range(3) for d in range(3)], r.choice([1, 2, 5]))
                rs = []
                toks.append(str(npts))
                tid = 1
                for i in range(npts):
                    x, Q2 = float(r.uniform(0.01, 1)), cards.rand_q2(r)
                    if r.random() < 0.3:
                        # values whose shortest decimal form has an exponent and no dot, integers stored
                        # as floats, very small and very large numbers: all must come back as the same float
                        x = float(r.choice([1e-05, 5e-05, 1e-07, 3e-06, 1.0]))
                        Q2 = float(r.choice([1e-05, 1e+16, 2.0, 1e+22, 100.0]))
                    nf = r.choice([None, 3, 4, 5])
                    # y = 0 is a legitimate value (2xF1 and 2xg5 do not depend on y; it is what benchmark cards use)
                    y = (0.0 if r.random() < 0.3 else float(r.uniform(0.1, 1))) if shape == "xs" else None
                    orders = {}
                    ot = []
                    for k in keys:
                        orders[k] = (np.array([[float(tid)]]), np.array([[float(tid + 1)]]))
                        ot += [str(v) for v in k] + [str(tid), str(tid + 1)]
                        tid += 2
                    rs.append(EXSResult(x, Q2, y, nf, orders) if shape == "xs" else ESFResult(x, Q2, nf, orders))
                    toks += [q(x), q(Q2), "-" if nf is None else str(nf), "-" if y is None else q(y), str(len(keys))] + ot
                out[name] = rs
            idx = drv.add(" ".join(toks))
            tp = tmp / f"o{case}.tar"
            try:
                out.dump_tar(tp)
                Output.load_tar(tp)
            except Exception as e:  # noqa
                # an output the library itself built that cannot be written or read back is a failing case
                chk.search_case("tar_loaded_equals_dumped", False, what=f"dump_tar / load_tar of a {shape} observable: {type(e).__name__}: {e}"[:200], data=dict(shape=shape, obs=name, request=" ".join(toks)[:300]))
                pend.append((idx, f"exception {type(e).__name__}", dict(shape=shape, obs=name, request=" ".join(toks)[:300]), shape + "/exception"))
                tp.unlink(missing_ok=True)
                continue
            with tarfile.open(tp) as tf:
                tf.extractall(tmp / f"x{case}")
            inner = next((tmp / f"x{case}").glob("*"))
            meta = yaml.safe_load((inner / "metadata.yaml").read_text())[name]
            if meta is None:
                dumped = "none"
            elif meta == []:
                dumped = "empty"
            else:
                op = np.load(inner / f"{name}.npz")
                kin = meta["kinematics"]
                dumped = (
                    "orders=" + fmt_list(lambda o: fmt_list(str, o), meta["orders"])
                    + "|x=" + fmt_list(q, [float(v) for v in kin["x"]])
                    + "|Q2=" + fmt_list(q, [float(v) for v in kin["Q2"]])
                    + "|nf=" + fmt_list(lambda v: "-" if v is None else str(v), kin["nf"])
                    + "|y=" + (fmt_list(q, [float(v) for v in kin["y"]]) if "y" in kin else "-")
                    + "|values=" + fmt_list(lambda row: fmt_list(lambda t: str(int(t.reshape(-1)[0])), row), op["values"])
                    + "|errors=" + fmt_list(lambda row: fmt_list(lambda t: str(int(t.reshape(-1)[0])), row), op["errors"])
                )
            back = Output.load_tar(tp)[name]
            if back is not None and any(isinstance(v_, (str, bytes)) for res_ in back for v_ in (res_.x, res_.Q2, getattr(res_, "y", 0.0))):
                chk.search_case("tar_loaded_equals_dumped", False, what=f"load_tar(dump_tar(o)): kinematics of a {shape} observable come back as text", data=dict(shape=shape, obs=name, loaded=[(repr(res_.x), repr(res_.Q2)) for res_ in back][:4]))
            if back is None:
                loaded = "none"
            else:
                loaded = fmt_list(
                    lambda res: f"{q(float(res.x))};{q(float(res.Q2))};{'-' if res.nf is None else int(res.nf)};{q(float(res.y)) if hasattr(res, 'y') else '-'};"
                    + fmt_list(lambda kv: f"{kv[0][0]}.{kv[0][1]}.{kv[0][2]}.{kv[0][3]}:{int(kv[1][0].reshape(-1)[0])}:{int(kv[1][1].reshape(-1)[0])}", list(res.orders.items())),
                    back,
                )
            # python-side oracle: what comes back is what went in (this is the property itself)
            if shape not in ("none",):
                orig = fmt_list(
                    lambda res: f"{q(float(res.x))};{q(float(res.Q2))};{'-' if res.nf is None else int(res.nf)};{q(float(res.y)) if hasattr(res, 'y') else '-'};"
                    + fmt_list(lambda kv: f"{kv[0][0]}.{kv[0][1]}.{kv[0][2]}.{kv[0][3]}:{int(kv[1][0].reshape(-1)[0])}:{int(kv[1][1].reshape(-1)[0])}", list(res.orders.items())),
                    out[name],
                )
                same = dict(o.split(":", 1) for o in []) is not None and sorted(orig.split(",")) == sorted(loaded.split(","))
                chk.search_case("tar_loaded_equals_dumped", same, what=f"load_tar(dump_tar(o)) != o for a {shape} observable with {len(keys) if shape not in ('empty',) else 0} order keys", data=dict(shape=shape, original=orig[:400], loaded=loaded[:400]), sample=None)
            pend.append((idx, dumped + " # " + loaded, dict(shape=shape, obs=name, request=" ".join(toks)[:300]), shape + "/" + ("-" if shape in ("none", "empty") else f"n{npts}k{len(keys)}")))
            shutil.rmtree(tmp / f"x{case}")
            tp.unlink()
    finally:
        shutil.rmtree(tmp, ignore_errors=True)
    lines = drv.run()
    for idx, py, sample, feat in pend:
        ok = lines[idx] == py
        chk.corr_case("tar_layout_and_load", ok, dict(sample, py=py[:300]), None if ok else dict(sample=sample, py=py, model=lines[idx]), feat)


def same_output(a, b):
    """exact comparison of two Output objects (tuple/list and numpy-scalar/python-scalar identified)"""
    from yadism import observable_name as on

    if set(a) != set(b):
        return f"key sets differ: {set(a) ^ set(b)}"
    for k in a:
        if on.ObservableName.is_valid(k):
            if a[k] is None or b[k] is None:
                if a[k] is not b[k]:
                    return f"{k}: None mismatch"
                continue
            if len(a[k]) != len(b[k]):
                return f"{k}: length"
            for ra, rb in zip(a[k], b[k]):
                if type(ra).__name__ != type(rb).__name__:
                    return f"{k}: class {type(ra).__name__} vs {type(rb).__name__}"
                if any(isinstance(v_, (str, bytes)) for v_ in (rb.x, rb.Q2, getattr(rb, "y", 0.0))):
                    return f"{k}: kinematics came back as text ({rb.x!r}, {rb.Q2!r})"
                if float(ra.x) != float(rb.x) or float(ra.Q2) != float(rb.Q2) or (ra.nf != rb.nf):
                    return f"{k}: kinematics"
                if hasattr(ra, "y") and float(ra.y) != float(rb.y):
                    return f"{k}: y"
                if [tuple(o) for o in ra.orders] != [tuple(o) for o in rb.orders]:
                    return f"{k}: order keys {list(ra.orders)} vs {list(rb.orders)}"
                for o in ra.orders:
                    if not (np.array_equal(ra.orders[o][0], rb.orders[o][0]) and np.array_equal(ra.orders[o][1], rb.orders[o][1])):
                        return f"{k}: values of {o}"
        elif k == "xgrid":
            if any(isinstance(v_, (str, bytes)) for v_ in b[k]["grid"]):
                return f"xgrid nodes came back as text: {[v_ for v_ in b[k]['grid'] if isinstance(v_, (str, bytes))][:3]}"
            if not np.array_equal(np.asarray(a[k]["grid"]), np.asarray(b[k]["grid"])) or a[k]["log"] != b[k]["log"]:
                return "xgrid"
        else:
            if not np.array_equal(np.asarray(a[k]), np.asarray(b[k])):
                return f"meta {k}"
    if a.theory != b.theory:
        return "theory card"
    oa, ob = dict(a.observables), dict(b.observables)
    if yaml.safe_load(yaml.safe_dump(oa)) != yaml.safe_load(yaml.safe_dump(ob)):
        return "observables card"
    return None


def search_real(chk, r, n, max_pto):
    from yadism.output import Output

    tmp = pathlib.Path(tempfile.mkdtemp(prefix="verif_c15r_"))
    pdf = cards.ToyPDF()
    try:
        for i in range(n):
            process = r.choice(["EM", "NC", "CC"])
            pto = r.choice(list(range(max_pto + 1)))
            obs = {}
            kinds = cards.UNPOL
            for _ in range(r.choice([1, 2, 3])):
                obs[f"{r.choice(kinds)}_{r.choice(['total', 'light', 'charm'])}"] = [dict(x=float(r.uniform(0.02, 0.9)), Q2=cards.rand_q2(r) % 900 + 3.0) for _ in range(r.choice([0, 1, 3]))]
            xsk = r.choice(["XSHERANC", "XSHERACC", "F1", "FW"]) if process != "EM" else "XSHERANC"
            if (xsk in ("XSHERACC",) and process != "CC") or (xsk == "XSHERANC" and process == "CC"):
                xsk = "F1"
            # observables may be requested by their kind alone (flavour defaults to total); the output is
            # keyed by the name as given, and the short and the long spelling may both be present
            obs[xsk if (i == 0 or r.random() < 0.4) else f"{xsk}_total"] = [dict(x=0.1, Q2=20.0, y=0.5), dict(x=0.3, Q2=50.0, y=float(r.uniform(0.1, 1)))]
            if i % 2 == 0:
                # 2xF1 with y = 0 at every point / at a later point only / at the first point only
                obs["F1_light"] = [[dict(x=0.2, Q2=20.0, y=0.0), dict(x=0.4, Q2=20.0, y=0.0)], [dict(x=0.2, Q2=20.0, y=0.7), dict(x=0.4, Q2=20.0, y=0.0)],
                                   [dict(x=0.2, Q2=20.0, y=0.0), dict(x=0.4, Q2=20.0, y=0.3)]][(i // 2) % 3]
            if i == 0 or r.random() < 0.4:
                k_ = r.choice(kinds)
                obs[k_] = [dict(x=float(r.uniform(0.02, 0.9)), Q2=30.0)]
                if i == 0 or r.random() < 0.5:
                    obs[f"{k_}_total"] = [dict(x=0.2, Q2=30.0), dict(x=0.5, Q2=7.0)]
            sv = r.random() < 0.5
            # target-mass corrected results carry *signed* propagated errors
            tmc = r.choice([0, 0, 1]) if pto <= 1 and not any(k.split("_")[0] in ("FW",) for k in obs) else 0
            if i % 3 == 1:
                tmc = 0
            t = cards.theory(PTO=pto, RenScaleVar=sv, FactScaleVar=sv, TMC=tmc)
            try:
                grid_ = cards.default_grid(7, 1e-2)
                if i % 3 == 1 and tmc == 0:
                    # a grid reaching down to 1e-5 and a point at x = 5e-05
                    grid_ = cards.default_grid(8, 1e-05)
                    next(iter(obs.values())).append(dict(x=5e-05, Q2=30.0, **({"y": 0.5} if next(iter(obs)).split("_")[0] in cards.XS else {})))
                out = realrun.run(t, cards.obs(obs, prDIS=process, ProjectileDIS="neutrino" if process == "CC" else "electron", interpolation_xgrid=grid_))
            except Exception as e:
                chk.extra.setdefault("search_exceptions", {})
                k = f"{type(e).__name__}:{str(e)[:80]}"
                chk.extra["search_exceptions"][k] = chk.extra["search_exceptions"].get(k, 0) + 1
                continue
            fmt = r.choice(["tar", "yaml", "mixed"]) if i > 1 else ["yaml", "tar"][i]
            cycles = r.choice([1, 2, 3]) if fmt != "mixed" else 3
            cur = out
            problem = None
            try:
                for c in range(cycles):
                    if fmt == "tar" or (fmt == "mixed" and c % 2 == 0):
                        tp = tmp / f"r{i}_{c}.tar"
                        cur.dump_tar(tp)
                        cur = Output.load_tar(tp)
                        tp.unlink()
                    else:
                        cur = Output.load_yaml(io.StringIO(cur.dump_yaml()))
                problem = same_output(out, cur)
                if problem is None:
                    pa = out.apply_pdf_alphas_alphaqed_xir_xif(pdf, lambda m: 0.2, lambda m: 0.0, 1.0, 1.0)
                    pb = cur.apply_pdf_alphas_alphaqed_xir_xif(pdf, lambda m: 0.2, lambda m: 0.0, 1.0, 1.0)
                    for k in pa:
                        for ra, rb in zip(pa[k], pb[k]):
                            if ra["result"] != rb["result"] or ra["error"] != rb["error"]:
                                problem = f"prediction (result or error) of {k} differs"
            except Exception as e:
                problem = f"{type(e).__name__}: {e}"[:200]
            sample = dict(format=fmt, cycles=cycles, process=process, pto=pto, sv=sv, TMC=tmc, observables={k: len(v) for k, v in obs.items()}, problem=problem)
            chk.search_case("real_output_roundtrip", problem is None, what=f"{fmt} round trip of a runner output: {problem}", data=sample, sample=sample)
    finally:
        shutil.rmtree(tmp, ignore_errors=True)


def search_coexisting(chk, r, n):
    """several outputs with *different* runcards dumped and loaded in one process: each loaded object
    keeps its own content also after the others have been loaded"""
    from yadism.output import Output

    tmp = pathlib.Path(tempfile.mkdtemp(prefix="verif_c15c_"))
    try:
        for i in range(n):
            outs, files = [], []
            for j, (alphas, name, proc) in enumerate([(0.118, "F2_total", "NC"), (0.130, "F3_total", "CC"), (0.125, "FL_light", "EM")]):
                t = cards.theory(PTO=1, alphas=alphas, TMC=1 if j == 2 else 0, XIR=1.0 + 0.5 * j)
                o = cards.obs({name: [dict(x=0.1 + 0.1 * j, Q2=20.0 + j)]}, prDIS=proc, ProjectileDIS="neutrino" if proc == "CC" else "electron", interpolation_xgrid=cards.default_grid(6 + j, 1e-2))
                outs.append(realrun.run(t, o))
            fmts = [r.choice(["yaml", "tar"]) for _ in outs] if i else ["yaml", "yaml", "tar"]
            loaded = []
            for j, (out, fmt) in enumerate(zip(outs, fmts)):
                if fmt == "tar":
                    tp = tmp / f"c{i}_{j}.tar"
                    out.dump_tar(tp)
                    loaded.append(Output.load_tar(tp))
                else:
                    loaded.append(Output.load_yaml(io.StringIO(out.dump_yaml())))
            problems = []
            for j, (out, cur) in enumerate(zip(outs, loaded)):
                p_ = same_output(out, cur)
                if p_ is None and (cur.theory != out.theory or cur.theory.get("alphas") != out.theory.get("alphas")):
                    p_ = "theory card"
                if p_ is not None:
                    problems.append(f"output #{j} ({fmts[j]}), inspected after all three were loaded: {p_}")
            sample = dict(formats=fmts, problems=problems)
            chk.search_case("several_outputs_loaded_in_one_process", not problems, what="; ".join(problems) or "-", data=sample, sample=sample if i == 0 else None)
    finally:
        shutil.rmtree(tmp, ignore_errors=True)


def run(tier):
    chk = common.Check("C15", tier)
    thorough = tier == "thorough"
    common.lean_proof_step(chk, "YadismModel.Properties.C15", thorough=thorough)
    r = common.rng("C15")
    corr_layout(chk, r, 300 if thorough else 40)
    search_real(chk, r, 60 if thorough else 8, 2 if thorough else 1)
    search_coexisting(chk, r, 4 if thorough else 1)
    chk.assumptions += [
        "numbers and tensors are opaque in the model: that yaml repr / npz preserve doubles bit for bit is yaml/numpy behaviour, exercised by the real round trips only",
        "tar round trip is proved for observables whose results share their order list (what the Runner produces and dump_tar asserts)",
    ]
    return chk
