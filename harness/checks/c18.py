"""C18 — compiled numerical kernels: bounds safety proved, value agreement tested (partial)."""

import importlib
import json
import os
import pathlib
import subprocess
import tempfile

import numpy as np

from .. import callsites, cards, common, corr_kernels, translate
from ..common import Driver


def worker(env_over, req, timeout=1800):
    tmp = pathlib.Path(tempfile.mkdtemp(prefix="verif_c18_"))
    try:
        (tmp / "in.json").write_text(json.dumps(req))
        env = dict(os.environ)
        env.update(env_over)
        env["PYTHONPATH"] = str(common.VERIF) + os.pathsep + env.get("PYTHONPATH", "")
        p = subprocess.run(["/venv/bin/python", "-m", "harness.jit_worker", str(tmp / "in.json"), str(tmp / "out.json")], cwd=common.VERIF, env=env, capture_output=True, text=True, timeout=timeout)
        if p.returncode != 0:
            raise RuntimeError("jit worker failed: " + p.stderr[-800:])
        return json.loads((tmp / "out.json").read_text())
    finally:
        import shutil

        shutil.rmtree(tmp, ignore_errors=True)


def bounds_search(chk, rep, sites, rows):
    """the Python-side image of `args_in_bounds`: for every call site compare the kernel's largest
    index (from the Lean model) with the vector length, and *execute* an offending site"""
    drv = Driver()
    names = sorted({name for _, name, _, _ in rows})
    idx = {n: drv.add(f"kinfo {n}") for n in names}
    lines = drv.run()
    maxarg = {}
    for n in names:
        t = lines[idx[n]].split()
        maxarg[n] = -1 if len(t) != 3 or t[1] == "-" else int(t[1])
    by_label = {}
    for s in sites:
        for part, (name, module_level, alen) in s["parts"].items():
            by_label.setdefault(f"{s['fam']}.{s['module']}.{s['cls']}[{s['order']}].{part}", (s, part))
    for label, name, _, alen in rows:
        ok = maxarg[name] < alen
        data = dict(site=label, kernel=name, max_index_read=maxarg[name], vector_length=alen)
        if not ok:
            s, part = by_label[label]
            rsl = s["rsl"]
            try:
                getattr(rsl, part)(0.3, rsl.args[part])
                data["interpreter"] = "no exception (?)"
            except Exception as e:
                data["interpreter"] = f"{type(e).__name__}: {e}"
        chk.search_case("call_site_bounds", ok, what=f"{label}: kernel {name.split('.')[-1]} reads args[{maxarg[name]}] of a vector of length {alen}", data=data, sample=data if label.endswith("NonSinglet[2].reg") else None, nontrivial=maxarg[name] >= 0)
    # hand-modelled loop kernels: loc_from_distr_coeffs reads coeffs[0]
    for s in sites:
        for part, (name, module_level, alen) in s["parts"].items():
            if name.endswith("loc_from_distr_coeffs") or name.endswith("loc_from_delta"):
                label = f"{s['fam']}.{s['module']}.{s['cls']}[{s['order']}].{part}"
                chk.search_case("call_site_bounds", alen >= 1, what=f"{label}: {name.split('.')[-1]} needs at least one coefficient", data=dict(site=label, vector_length=alen), nontrivial=True)


def jit_vs_interpreter(chk, r, rep, n_points, n_runs, max_pto, n_cells=60):
    names = sorted(rep["kernels"])
    # also the kernels the translator could not copy, as long as they take (z) or (z, args)
    extra = [k for k, v in rep["untranslated"].items() if v["sig"] in ("f8(f8,f8[:])", "f8(f8)") and "from_distr" not in k]
    drv = Driver()
    idx = {n: drv.add(f"kinfo {n}") for n in names}
    lines = drv.run()
    reqs = []
    for n in names + extra:
        sig = rep["kernels"][n]["sig"] if n in rep["kernels"] else rep["untranslated"][n]["sig"]
        two = sig.startswith("f8(f8,f8[:])")
        if n in idx:
            t = lines[idx[n]].split()
            na = 0 if t[1] == "-" else int(t[1]) + 1
        else:
            na = 2
        for z in [float(r.choice([r.uniform(0.02, 0.98), r.uniform(0.001, 0.1), r.uniform(0.9, 0.999)])) for _ in range(n_points)] + ([0.5, 0.25] if two or n in idx else [2.0, 0.5, -1.0, 1.0, 0.0, -2.0, 0.25, 4.0]):
            reqs.append(dict(name=n, two=two, z=z, args=corr_kernels.sample_args(r, na) if two else []))
    for c in ("sing_from_distr_coeffs", "loc_from_distr_coeffs"):
        for _ in range(n_points):
            reqs.append(dict(name="yadism.coefficient_functions.partonic_channel." + c, two=True, z=float(r.uniform(0.01, 0.99)), args=[float(r.uniform(-5, 5)) for _ in range(r.choice([1, 2, 4]))]))
    runs = []
    for _ in range(n_runs):
        process = r.choice(["EM", "NC", "CC"])
        pto = r.choice(list(range(max_pto + 1)))
        kind = r.choice(cards.UNPOL)
        scheme, nfff = r.choice([("ZM-VFNS", 4), ("FFNS", 3), ("FFN0", 3)])
        tmc = r.choice([0, 0, 1]) if pto == 0 else 0
        name = f"{kind}_{r.choice(['total', 'light', 'charm'])}"
        g_ = cards.default_grid(8, 1e-2)
        q2_ = float(r.choice([10.0, 200.0]))
        # a generic point and points a relative 1e-6 next to grid nodes (the convolution integrands have
        # their kinks there: the quadrature works hardest, and must work the same in both modes)
        pts_ = [dict(x=float(r.choice([0.05, 0.3])), Q2=q2_)]
        if tmc == 0:
            pts_ += [dict(x=float(g_[3] * (1 - 1e-6)), Q2=q2_), dict(x=float(g_[5] * (1 + 1e-6)), Q2=q2_), dict(x=float(g_[6] * (1 - 1e-6)), Q2=q2_)]
        runs.append(dict(theory=cards.theory(PTO=pto, FNS=scheme, NfFF=nfff, TMC=tmc), observables=cards.obs({name: pts_}, prDIS=process, ProjectileDIS="neutrino" if process == "CC" else "electron", interpolation_xgrid=g_)))
    # target-mass corrections in every mode (the integrals over the h2 / g2 / h3 / k kernels are only reached
    # through a whole run: the kernels get the shifted variable through their argument vector)
    for kind_, tmc_, proc_ in (("F2", 1, "NC"), ("F3", 3, "CC"), ("FL", 3, "EM"), ("g1", 3, "NC"), ("F2", 2, "EM")):
        g_ = cards.default_grid(8, 1e-2)
        runs.append(dict(theory=cards.theory(PTO=0 if kind_ != "FL" else 1, FNS="ZM-VFNS", NfFF=4, TMC=tmc_), observables=cards.obs({f"{kind_}_light": [dict(x=0.3, Q2=4.0), dict(x=0.6, Q2=10.0)]}, prDIS=proc_, ProjectileDIS="neutrino" if proc_ == "CC" else "electron", interpolation_xgrid=g_)))
    # every kind of kernel the Combiner can hand out, evaluated at z = 0.5, 0.25, 0.8 in both modes
    # (z = 0.5 makes 1/(1-z) = 2, 1-z = z, ...: branch points of the special functions)
    cells = []
    for kind in cards.SFS:
        for pr, proj in (("NC", "electron"), ("CC", "neutrino"), ("EM", "positron")):
            if pr == "CC" and kind in ("g1", "gL", "g4"):
                continue
            for fns, nfff in (("ZM-VFNS", 4), ("FFNS", 3), ("FFN0", 3), ("FONLL-FFN0", 3)):
                for fl in ("total", "charm"):
                    cells.append((kind, fl, pr, proj, fns, nfff, max_pto + 1 if max_pto < 2 else 2, 0))
    if len(cells) > n_cells:
        cells = r.sample(cells, n_cells)
    req = dict(kernels=reqs, runs=runs, cells=[list(c) for c in cells])
    # a *fresh* cache directory: numba does not invalidate the cached machine code of a caller when
    # only a callee's source changes, so a persistent cache could hide a changed kernel
    import shutil
    import tempfile

    cache = tempfile.mkdtemp(prefix="verif_numba_")
    try:
        a = worker({"NUMBA_DISABLE_JIT": "1", "NUMBA_CACHE_DIR": cache}, req)
        b = worker({"NUMBA_DISABLE_JIT": "0", "NUMBA_CACHE_DIR": cache}, req)
    finally:
        shutil.rmtree(cache, ignore_errors=True)
    for rq, ra, rb in zip(reqs, a["kernels"], b["kernels"]):
        if "error" in ra or "error" in rb:
            ok = ("error" in ra) == ("error" in rb)
            d = dict(kernel=rq["name"], z=rq["z"], args=rq["args"], interpreter=ra, jit=rb)
            chk.search_case("kernel_jit_vs_interpreter", ok, what=f"{rq['name']}: exception in one mode only", data=d)
            continue
        va, vb = float(ra["value"]), float(rb["value"])
        ok = (np.isnan(va) and np.isnan(vb)) or va == vb or abs(va - vb) <= 1e-10 * max(1.0, abs(va))
        d = dict(kernel=rq["name"], z=rq["z"], args=rq["args"], interpreter=va, jit=vb)
        chk.search_case("kernel_jit_vs_interpreter", ok, what=f"{rq['name']}: compiled value differs from interpreted value", data=d, sample=d)
    for cell, ca, cb in zip(cells, a.get("cells", []), b.get("cells", [])):
        d = dict(cell=cell, interpreter=ca["outcome"], jit=cb["outcome"], n_values=len(ca["values"]))
        bad = None
        if ca["outcome"].split(":")[0] != cb["outcome"].split(":")[0]:
            bad = f"outcome differs: interpreted {ca['outcome']!r}, compiled {cb['outcome']!r}"
        elif len(ca["values"]) != len(cb["values"]):
            bad = "number of evaluated parts differs"
        else:
            for j, (va, vb) in enumerate(zip(ca["values"], cb["values"])):
                fa, fb = float(va), float(vb)
                if not ((np.isnan(fa) and np.isnan(fb)) or fa == fb or abs(fa - fb) <= 1e-9 * max(1.0, abs(fa))):
                    bad = f"value #{j}: interpreted {fa!r}, compiled {fb!r}"
                    break
        d["problem"] = bad
        chk.search_case("combiner_kernels_jit_vs_interpreter", bad is None, what=f"{cell[0]}_{cell[1]} {cell[2]} {cell[4]} NfFF={cell[5]} PTO={cell[6]}: {bad}", data=d, sample=d if cell[4] == "FFN0" and cell[2] == "CC" else None, nontrivial=len(ca["values"]) > 0)
    for rq, ra, rb in zip(runs, a["runs"], b["runs"]):
        name = next(iter(rq["observables"]["observables"]))
        d = dict(obs=name, FNS=rq["theory"]["FNS"], PTO=rq["theory"]["PTO"], TMC=rq["theory"]["TMC"], process=rq["observables"]["prDIS"])
        if "error" in ra or "error" in rb:
            chk.search_case("run_jit_vs_interpreter", ("error" in ra) == ("error" in rb), what="run fails in one mode only", data=dict(d, interpreter=ra.get("error"), jit=rb.get("error")))
            continue
        worst = scale = 0.0
        for pa, pb in zip(ra["ok"][name], rb["ok"][name]):
            for k in pa:
                va, vb = np.array(pa[k]), np.array(pb[k])
                worst = max(worst, float(np.abs(va - vb).max()))
                scale = max(scale, float(np.abs(va).max()))
        d.update(maxdiff=worst, scale=scale)
        chk.extra.setdefault("run_relative_differences", []).append(dict(obs=name, FNS=d["FNS"], PTO=d["PTO"], TMC=d["TMC"], rel=worst / max(scale, 1e-300)))
        # adaptive quadrature takes different subdivisions when the integrand differs in the last bits:
        # at NNLO the two modes agree to the quadrature accuracy (~1e-6 of the operator), not to 1e-7
        # up to NLO the two modes agree to ~2e-9 of the operator on the pinned tree (also next to nodes)
        tol = (3e-8 if rq["theory"]["PTO"] <= 1 else 2e-6) * max(scale, 1e-300)
        chk.search_case("run_jit_vs_interpreter", worst <= tol, what="operator differs between compiled and interpreted mode", data=d, sample=d, nontrivial=scale > 0)


def run(tier):
    chk = common.Check("C18", tier)
    thorough = tier == "thorough"
    r = common.rng("C18")
    rep = corr_kernels.regenerate(chk)
    sites, modules = callsites.collect()
    sites += callsites.splitting_sites()
    rows, skipped = translate.generate_callsites(rep, sites)
    chk.extra["call_sites"] = dict(in_table=len(rows), not_in_table=len(skipped), kernels_not_translated=sorted(set(skipped.values())))
    common.lean_proof_step(chk, "YadismModel.Properties.C18", thorough=thorough)
    corr_kernels.run_kernels(chk, r, 40 if thorough else 4, report=rep)
    bounds_search(chk, rep, sites, rows)
    jit_vs_interpreter(chk, r, rep, 12 if thorough else 2, 24 if thorough else 4, 2 if thorough else 1, n_cells=400 if thorough else 70)
    chk.assumptions += [
        "PARTIAL: bounds safety of every translated kernel at every live call site is a kernel-checked theorem over a table regenerated from the source each run; agreement of LLVM-compiled code with interpreter semantics is a compiler property and is only tested (Lean Float evaluation of the generated term / interpreter / JIT at sampled arguments, and whole runs in both modes)",
        "kernels the translator cannot copy (loops, complex arithmetic: reported in coverage.translator.untranslated) are covered by the JIT-vs-interpreter test only; sing/loc_from_distr_coeffs are loops over their own argument vector (bounds-safe by construction, loc needs length >= 1: checked per call site)",
    ]
    return chk
