"""C12 — nuclear target is an isospin rotation of up and down."""

import numpy as np

from .. import cards, common, corr_weights, realrun
from ..common import Driver, q, unq

TARGETS = ["proton", "neutron", "isoscalar", "iron", "lead", "neon", "marble"]


def corr_targets(chk):
    """named-target table: real update_target vs the Lean model (exhaustive over the names + unknown)"""
    from yadism.input import compatibility

    drv = Driver()
    names = TARGETS + ["uranium", "Proton", ""]
    idx = [drv.add(f"target {n if n else '_'}") for n in names]
    # explicit (Z, A) dicts, in both key orders: left alone, read by name
    for tgt in (dict(Z=26.0, A=56.0), dict(A=56.0, Z=26.0), dict(A=1.0, Z=0.0), dict(Z=0.0, A=2.0), dict(Z=0.5, A=1.0), dict(Z=0, A=1)):
        o = dict(TargetDIS=dict(tgt))
        compatibility.update_target(o)
        ok = isinstance(o["TargetDIS"], dict) and o["TargetDIS"]["Z"] == tgt["Z"] and o["TargetDIS"]["A"] == tgt["A"]
        chk.corr_case("update_target", ok, dict(target=tgt, after=o["TargetDIS"]), None if ok else dict(target=tgt, after=o["TargetDIS"]), "dict/" + "".join(tgt))
    lines = drv.run()
    for n, i in zip(names, idx):
        o = dict(TargetDIS=n)
        try:
            compatibility.update_target(o)
            py = f"{q(float(o['TargetDIS']['Z']))} {q(float(o['TargetDIS']['A']))} {o['TargetDISid']}"
        except ValueError:
            py = "rejected"
        model = lines[i]
        if model != "rejected" and py != "rejected":
            mz, ma, mid = model.split()
            pz, pa, pid_ = py.split()
            ok = abs(float(unq(mz)) - float(unq(pz))) <= 1e-12 and abs(float(unq(ma)) - float(unq(pa))) <= 1e-12 and mid == pid_
        else:
            ok = model == py
        chk.corr_case("update_target", ok, dict(target=n, py=py, model=model), None if ok else dict(target=n, py=py, model=model), n or "empty")


def search(chk, r, n, max_pto):
    # structured block: charged current in massive schemes, all four beams (the massive CC weights put
    # each flavour on one sign only: quark-only and antiquark-only kernels)
    structured = [(proj, scheme, nfff, fl) for proj in ("neutrino", "antineutrino", "electron", "positron") for (scheme, nfff, fl) in (("FFNS", 3, "charm"), ("FFN0", 3, "charm"), ("FFNS", 3, "bottom"))]
    for i in range(n + len(structured)):
        process = r.choice(["EM", "NC", "CC"])
        kind = r.choice(cards.UNPOL if process == "CC" else cards.UNPOL + ["g1", "g4"])
        proj = r.choice(list(cards.PROJECTILES)) if process == "CC" else r.choice(["electron", "positron"])
        scheme, nfff = r.choice([("ZM-VFNS", 4), ("FFNS", 3), ("FFNS", 4), ("FFN0", 3), ("FFN0", 4), ("FONLL-FFN0", 4), ("FONLL-FFNS", 3)])
        pto = r.choice(list(range(max_pto + 1)))
        pto_evol = r.choice([0, 1, 2])
        fl = r.choice(["total", "light", "charm"])
        if i < len(structured):
            process, kind, pto = "CC", r.choice(["F2", "F3"]), 0
            proj, scheme, nfff, fl = structured[i]
        za = (float(r.uniform(0, 3)), float(r.uniform(3, 7)))
        target = r.choice(TARGETS[1:] + [dict(Z=za[0], A=za[1]), dict(A=za[1], Z=za[0]), dict(A=1.0, Z=0.0), dict(A=1.0, Z=float(r.choice([0.3, 0.5]))), dict(A=2.0, Z=0.0)])
        # explicit compositions at the edges of the documented domain (0 <= Z <= A), deterministically
        edge = [dict(A=1.0, Z=0.0), dict(Z=0, A=2), dict(A=1.0, Z=0.5), dict(Z=2.0, A=2.0), dict(Z=26, A=55.845), dict(Z=1, A=2.5)]
        if i < len(edge):
            target = edge[i]
        name = f"{kind}_{fl}"
        p = [dict(x=float(r.choice([0.02, 0.1, 0.4])), Q2=float(r.choice([10.0, 100.0, 2000.0])))]
        th = cards.theory(PTO=pto_evol, PTODIS=pto, FNS=scheme, NfFF=nfff)
        kw = dict(prDIS=process, ProjectileDIS=proj)
        sample = dict(obs=name, process=process, projectile=proj, FNS=scheme, NfFF=nfff, pto=pto, pto_evol=pto_evol, target=target, point=p[0])
        try:
            ot = realrun.run(th, cards.obs({name: p}, TargetDIS=target, **kw))
            op = realrun.run(th, cards.obs({name: p}, TargetDIS="proton", **kw))
        except Exception as e:
            chk.extra.setdefault("search_exceptions", {})
            k = f"{type(e).__name__}:{str(e)[:80]}"
            chk.extra["search_exceptions"][k] = chk.extra["search_exceptions"].get(k, 0) + 1
            continue
        if isinstance(target, str):
            from yadism.input import compatibility

            if isinstance(target, dict):  # an explicit composition is its own oracle
                Z, A = float(target["Z"]), float(target["A"])
            else:
                tmp = dict(TargetDIS=target)
                compatibility.update_target(tmp)
                Z, A = tmp["TargetDIS"]["Z"], tmp["TargetDIS"]["A"]
        else:
            Z, A = target["Z"], target["A"]
        rt, rp = ot[name][0], op[name][0]
        worst, scale = 0.0, 0.0
        for k in rp.orders:
            vp = np.array(rp.orders[k][0])
            vt = np.array(rt.orders[k][0])
            exp = vp.copy()
            for s in (1, -1):
                i1, i2 = realrun.BASIS.index(s * 1), realrun.BASIS.index(s * 2)
                exp[i1] = (Z * vp[i1] + (A - Z) * vp[i2]) / A
                exp[i2] = ((A - Z) * vp[i1] + Z * vp[i2]) / A
            worst = max(worst, float(np.abs(vt - exp).max()))
            scale = max(scale, float(np.abs(exp).max()))
        sample.update(maxdiff=worst, scale=scale, Z=Z, A=A)
        distinct = float(np.abs(np.array(rp.orders[(0, 0, 0, 0)][0])[realrun.BASIS.index(1)] - np.array(rp.orders[(0, 0, 0, 0)][0])[realrun.BASIS.index(2)]).max()) > 0 if (0, 0, 0, 0) in rp.orders else True
        chk.search_case("target_vs_rotated_proton", worst <= 1e-11 * max(scale, 1e-300) or worst == 0.0, what=f"{scheme} {name} {process}: target operator != isospin rotation of the proton operator", data=sample, sample=sample, nontrivial=scale > 0 and distinct)


def search_target_mass_paths(chk, r, n):
    """the target enters only through the u/d rotation: also with target-mass corrections and for the
    fixed-target cross sections (which use the target mass) the target run is the rotated proton run"""
    for i in range(n):
        mode = ["tmc", "xs"][i % 2]
        target = r.choice(["neutron", "isoscalar", "lead", "iron", dict(Z=1.0, A=3.0)])
        if mode == "tmc":
            name, process, proj = r.choice([("F2_total", "NC", "electron"), ("F3_light", "CC", "neutrino"), ("FL_total", "EM", "electron")])
            th = cards.theory(PTO=1 if name.startswith("FL") else 0, TMC=r.choice([1, 2, 3]))
            p = [dict(x=0.3, Q2=4.0)]
        else:
            name, process, proj = r.choice([("XSCHORUSCC_total", "CC", "neutrino"), ("XSNUTEVCC_total", "CC", "antineutrino"), ("XSNUTEVNU_light", "CC", "neutrino"), ("FW_total", "CC", "neutrino")])
            th = cards.theory(PTO=0)
            p = [dict(x=0.3, Q2=4.0, y=0.6)]
        kw = dict(prDIS=process, ProjectileDIS=proj, interpolation_xgrid=cards.default_grid(8, 0.02))
        sample = dict(obs=name, process=process, projectile=proj, TMC=th["TMC"], target=target, point=p[0])
        try:
            ot = realrun.run(th, cards.obs({name: p}, TargetDIS=target, **kw))[name][0]
            op = realrun.run(th, cards.obs({name: p}, TargetDIS="proton", **kw))[name][0]
        except Exception as e:  # noqa
            chk.search_case("target_vs_rotated_proton_with_target_mass", False, what=f"{name} {target}: {type(e).__name__}: {e}"[:200], data=sample)
            continue
        if isinstance(target, str):
            from yadism.input import compatibility

            if isinstance(target, dict):  # an explicit composition is its own oracle
                Z, A = float(target["Z"]), float(target["A"])
            else:
                tmp = dict(TargetDIS=target)
                compatibility.update_target(tmp)
                Z, A = tmp["TargetDIS"]["Z"], tmp["TargetDIS"]["A"]
        else:
            Z, A = target["Z"], target["A"]
        worst = scale = 0.0
        for k in op.orders:
            vp, vt = np.array(op.orders[k][0]), np.array(ot.orders[k][0])
            exp = vp.copy()
            for s_ in (1, -1):
                i1, i2 = realrun.BASIS.index(s_ * 1), realrun.BASIS.index(s_ * 2)
                exp[i1] = (Z * vp[i1] + (A - Z) * vp[i2]) / A
                exp[i2] = ((A - Z) * vp[i1] + Z * vp[i2]) / A
            worst = max(worst, float(np.abs(vt - exp).max()))
            scale = max(scale, float(np.abs(exp).max()))
        sample.update(maxdiff=worst, scale=scale, Z=Z, A=A)
        chk.search_case("target_vs_rotated_proton_with_target_mass", worst <= 1e-11 * max(scale, 1e-300), what=f"{name} {process} TMC={th['TMC']} target={target}: target operator != isospin rotation of the proton operator (diff {worst:.3g}, scale {scale:.3g})", data=sample, sample=sample if i == 0 else None, nontrivial=scale > 0)


def search_kernels_target_vs_proton(chk, r, n):
    """on the real Combiner, every scheme and order (no convolution needed): the kernels a run on a
    target hands to the convolution are, one by one, the kernels of the proton run with the (u, d) and
    (ubar, dbar) weights rotated by Z/A - also the asymptotic and 'missing' ones that only exist beyond NLO"""
    import yadism
    from yadism.coefficient_functions import Combiner
    from yadism.input import compatibility

    from .. import corr_weights

    for t, o in corr_weights.combiner_configs(r, n):
        target = o["TargetDIS"]
        if target == "proton":
            target = r.choice(["neutron", "iron", dict(Z=26, A=55.845), dict(Z=0.4, A=1.0)])
        if isinstance(target, dict):
            Z, A = float(target["Z"]), float(target["A"])
        else:
            tmp = dict(TargetDIS=target)
            compatibility.update_target(tmp)
            Z, A = float(tmp["TargetDIS"]["Z"]), float(tmp["TargetDIS"]["A"])
        try:
            rp = yadism.Runner(t, dict(o, TargetDIS="proton"))
            rt = yadism.Runner(t, dict(o, TargetDIS=target))
        except Exception:
            continue
        for name in rp.observables:
            ep, et = rp.observables[name].elements[:1], rt.observables[name].elements[:1]
            if not ep or not et:
                continue
            try:
                kp, kt = Combiner(ep[0]).collect_elems(), Combiner(et[0]).collect_elems()
            except Exception:
                continue
            sample = dict(obs=name, FNS=t["FNS"], NfFF=t["NfFF"], pto=t["PTODIS"], pto_evol=t["PTO"], process=o["prDIS"], target=target, n_kernels=len(kp))
            problem = None
            if [type(k.coeff).__name__ for k in kp] != [type(k.coeff).__name__ for k in kt]:
                problem = "the two runs build different lists of channels"
            else:
                for a, b in zip(kp, kt):
                    rot = dict(a.partons)
                    for u_, d_ in ((2, 1), (-2, -1)):
                        wu, wd = a.partons.get(u_, 0.0), a.partons.get(d_, 0.0)
                        rot[u_], rot[d_] = (Z * wu + (A - Z) * wd) / A, (Z * wd + (A - Z) * wu) / A
                    worst = max(abs(rot.get(p_, 0.0) - b.partons.get(p_, 0.0)) for p_ in set(rot) | set(b.partons))
                    sc = max([abs(v_) for v_ in rot.values()] + [1e-300])
                    if worst > 1e-12 * sc:
                        problem = f"{type(a.coeff).__module__.split('.')[-2]}.{type(a.coeff).__name__}: weights on the target are not the rotated proton weights (max difference {worst:.3g}, scale {sc:.3g})"
                        break
            sample["problem"] = problem
            chk.search_case("kernels_on_target_are_rotated_proton_kernels", problem is None, what=f"{name} {o['prDIS']} {t['FNS']} NfFF={t['NfFF']} pto={t['PTODIS']} target={target}: {problem}", data=sample, sample=sample if problem else None, nontrivial=len(kp) > 0)


def run(tier):
    chk = common.Check("C12", tier)
    thorough = tier == "thorough"
    common.lean_proof_step(chk, "YadismModel.Properties.C12", thorough=thorough)
    r = common.rng("C12")
    corr_targets(chk)
    corr_weights.run_isospin(chk, 150 if thorough else 15, r)
    search(chk, r, 150 if thorough else 16, 2 if thorough else 1)
    search_target_mass_paths(chk, r, 24 if thorough else 6)
    search_kernels_target_vs_proton(chk, r, 200 if thorough else 30)
    chk.assumptions += ["operator entries are linear in the parton weights (`conv` is a parameter)", "marble's TargetDISid string formatting is compared literally"]
    return chk
