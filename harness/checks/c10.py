"""C10 — target-mass-corrected results equal the published formulas."""

import math

import numpy as np
import scipy.integrate

from .. import cards, common, corr_kernels, realrun, translate_tmc
from ..common import Driver, q

KINDS = ["F2", "FL", "F3", "g1"]
MODES = {1: "APFEL", 2: "approx", 3: "exact"}


# ------------------------------------------------------------------------------------------------
# the published formulas, written from the papers (independent of tmc.py and of the Lean model)


def nachtmann(x, mu):
    r = math.sqrt(1.0 + 4.0 * x * x * mu)
    return r, 2.0 * x / (1.0 + r)


INTEGRANDS = {
    "h2": lambda u, xi: 1.0 / u**2,  # int_xi^1 du F(u)/u^2
    "g2": lambda u, xi: (u - xi) / u**2,  # int_xi^1 du (u - xi) F(u)/u^2
    "k2": lambda u, xi: math.log(u / xi) / u**2,  # int_xi^1 du log(u/xi) F(u)/u^2
}


def published(kind, mode, x, mu):
    """{("shift", kind') : c} and {("int", kind', integrand) : c} in yadism's normalisation
    (F2, FL, xF3, 2x g1).  Schienbein et al. 0709.1775 eqs (21)-(23), (29)-(31); F_L = r^2 F_2 - 2x F_1;
    g1: Bluemlein-Tkabladze hep-ph/9812478 eq. (14) / Accardi-Melnitchouk 0808.2397 (D.26)."""
    r, xi = nachtmann(x, mu)
    out = {}
    if kind == "F2":
        out[("shift", "F2")] = x**2 / (xi**2 * r**3)
        if mode == "approx":
            out[("shift", "F2")] *= 1 + 6 * mu * x * xi / r * (1 - xi) ** 2
        else:
            out[("int", "F2", "h2")] = 6 * mu * x**3 / r**4
            if mode == "exact":
                out[("int", "F2", "g2")] = 12 * mu**2 * x**4 / r**5
    elif kind == "FL":
        out[("shift", "FL")] = x**2 / (xi**2 * r)
        h2c, g2c = 4 * mu * x**3 / r**2, 8 * mu**2 * x**4 / r**3
        if mode == "approx":
            # integrand frozen at u = xi
            out[("shift", "F2")] = h2c * (1 - xi) / xi + g2c * (-math.log(xi) - 1 + xi)
        else:
            out[("int", "F2", "h2")] = h2c
            if mode == "exact":
                out[("int", "F2", "g2")] = g2c
    elif kind == "F3":
        # x F3^TMC = x [ x/(xi r^2) F3(xi) + 2 mu x^2 / r^3 int du F3(u)/u ],  F3(u)/u = (u F3(u))/u^2
        out[("shift", "F3")] = x**2 / (xi**2 * r**2)
        if mode == "approx":
            out[("shift", "F3")] *= 1 - mu * x * xi / r * (1 - xi) * math.log(xi)
        else:
            out[("int", "F3", "h2")] = 2 * mu * x**3 / r**3
    elif kind == "g1":
        # 2x g1^TMC = 2x [ x/(xi r^3) g1(xi) + 4 mu x^2/r^4 ( (x+xi)/xi int g1/u + (r^2-3)/(2r) int log(u/xi) g1/u ) ]
        # with g1(u) = G(u)/(2u)
        sh = x**2 / (xi**2 * r**3)
        h2c = 2 * x * 4 * mu * x**2 / r**4 * (x + xi) / xi / 2
        k2c = 2 * x * 4 * mu * x**2 / r**4 * (r**2 - 3) / (2 * r) / 2
        if mode == "approx":
            out[("shift", "g1")] = sh + h2c * (1 - xi) / xi + k2c * (1 / xi - 1 + math.log(xi))
        else:
            out[("shift", "g1")] = sh
            out[("int", "g1", "h2")] = h2c
            if mode == "exact":
                out[("int", "g1", "k2")] = k2c
    return out


def published_weights(interp, xi, name):
    """int_xi^1 integrand(u) p_j(u) du for every basis function, by an independent quadrature"""
    grid = [float(v) for v in interp.xgrid.raw]
    pts = sorted({g for g in grid if xi < g < 1.0})
    f = INTEGRANDS[name]
    out = []
    for pj in interp:
        val = 0.0
        edges = [xi] + pts + [1.0]
        for a, b in zip(edges[:-1], edges[1:]):
            if b <= a:
                continue
            mid = 0.5 * (a + b)
            if pj.evaluate_x(mid) == 0.0 and pj.evaluate_x(a + 0.25 * (b - a)) == 0.0:
                continue
            val += scipy.integrate.quad(lambda u: f(u, xi) * pj.evaluate_x(u), a, b, epsabs=1e-13, epsrel=1e-12, limit=200)[0]
        out.append(val)
    return np.array(out)


SYM_OF_KERNEL = {"h2_ker": "h2", "g2_ker": "g2", "h3_ker": "h2", "k2_ker": "k2"}


# ------------------------------------------------------------------------------------------------
# the real objects with marker structure functions


def marker_setup(kind, flavor, mode, x, Q2, MP, grid, degree, is_log, process="NC", fns=("ZM-VFNS", 4)):
    """a real Runner / StructureFunction / ESFTMC object whose requests for uncorrected structure
    functions are answered by one-hot marker results"""
    import yadism
    from yadism import observable_name as on
    from yadism.esf import tmc as tmcmod
    from yadism.esf.result import ESFResult

    name = f"{kind}_{flavor}"
    t = cards.theory(PTO=0, TMC=mode, MP=MP, FNS=fns[0], NfFF=fns[1])
    o = cards.obs({name: [dict(x=x, Q2=Q2)]}, interpolation_xgrid=grid, interpolation_polynomial_degree=degree, interpolation_is_log=is_log, prDIS=process, ProjectileDIS="neutrino" if process == "CC" else "electron")
    runner = yadism.Runner(t, o)
    sf = runner.get_sf(on.ObservableName(name))
    N = len(grid)
    D = len(KINDS) * (N + 1)
    requests = []

    class Marker:
        def __init__(self, k, point):
            self.k, self.point = k, point

        def get_result(self):
            v = np.zeros((1, D))
            v[0, KINDS.index(self.k) * (N + 1) + self.point] = 1.0
            return ESFResult(0.0, Q2, None, {(0, 0, 0, 0): (v, np.zeros((1, D)))})

    def get_esf(obs_name, kin, *a, **kw):
        requests.append((obs_name.name, dict(kin)))
        if obs_name.flavor != flavor:
            raise AssertionError(f"flavour changed to {obs_name.flavor}")
        xx = kin["x"]
        if kin["Q2"] != Q2:
            raise AssertionError("Q2 changed")
        cand = [j for j, g in enumerate(grid) if g == xx]
        return Marker(obs_name.kind, 1 + cand[0] if cand else 0)

    obj = tmcmod.ESFTMCmap[kind](sf, dict(x=x, Q2=Q2))
    sf.get_esf = get_esf
    return runner, sf, obj, N, D, requests


def rand_grid(r, xmin=None):
    n = r.choice([6, 8, 11, 15])
    xmin = xmin or float(r.choice([1e-3, 1e-2, 0.05]))
    if r.random() < 0.6:
        g = cards.default_grid(n, xmin)
    else:
        xmid = max(float(r.choice([0.1, 0.3])), 2.5 * xmin)
        g = cards.mixed_grid(n // 2, n - n // 2, xmin, xmid)
    g = [float(v) for v in g]
    assert all(a < b for a, b in zip(g[:-1], g[1:])), g
    return g


def rand_point(r, grid):
    """x in the grid with xi(x) in the grid, large target-mass effects"""
    for _ in range(100):
        x = float(r.choice([r.uniform(max(grid[0] * 1.5, 0.02), 0.95), r.choice(grid[1:-1]), 1.0]))
        Q2 = float(r.choice([1.0, 2.0, 4.0, 10.0, 50.0]))
        MP = float(r.choice([0.938, 0.938, 1.8, 0.3, 2.5]))
        _, xi = nachtmann(x, MP * MP / Q2)
        if xi >= grid[0]:
            return x, Q2, MP
    return 0.5, 4.0, 0.938


def corr_formulas(chk, r, n):
    """generated coefficients (Lean Float) x real kernel weights == what the real class assembles"""
    from yadism.coefficient_functions.partonic_channel import RSL
    from yadism.esf import conv
    from yadism.esf import tmc as tmcmod

    drv = Driver()
    pend = []
    for i in range(n):
        kind = KINDS[i % 4]
        mode = [1, 2, 3][(i // 4) % 3]
        flavor = r.choice(["light", "total", "charm"])
        grid = rand_grid(r)
        degree = r.choice([1, 2, 3, 4])
        degree = min(degree, len(grid) - 1)
        is_log = r.random() < 0.7
        x, Q2, MP = rand_point(r, grid)
        if i % 7 == 3:  # xi exactly on a node
            MP = 0.0
        case = dict(kind=kind, mode=MODES[mode], flavor=flavor, x=x, Q2=Q2, MP=MP, grid=grid, degree=degree, is_log=is_log)
        try:
            runner, sf, obj, N, D, requests = marker_setup(kind, flavor, mode, x, Q2, MP, grid, degree, is_log)
            runner.configs.TMC = mode
            out = obj.get_result()
            vec = np.array(out.orders[(0, 0, 0, 0)][0][0])
            interp = runner.configs.interpolator
            xi = float(obj.xi)
            below = [bool(pj.is_below_x(xi)) for pj in interp]
            kw = {}
            for kn in SYM_OF_KERNEL:
                ker = getattr(tmcmod, kn)
                kw[kn] = [0.0 if b else float(conv.convolution(RSL(ker, args=[xi]), xi, pj)[0]) for pj, b in zip(interp, below)]
            py = dict(mu=float(obj.mu), rho=float(obj.rho), xi=xi, vec=vec, below=below, kw=kw, outx=(out.x, out.Q2))
        except Exception as e:  # noqa
            chk.corr_case("tmc_formula", False, case, dict(case, py_error=f"{type(e).__name__}: {e}"[:300]), "py-error")
            continue
        idx = drv.add(f"tmcval {kind} {MODES[mode]} {q(x)} {q(Q2)} {q(MP * MP)}")
        # the loop of _convolve_FX: which basis functions it may skip is decided by the *model's*
        # is_below_x (Model/Interp.lean, proved to imply a vanishing weight), the weights are the
        # independent integrals of the published integrand (no early exit): the real loop must give
        # the same sum entry by entry
        tg = [float(v) for v in interp.xgrid.grid]
        txi = math.log(xi) if is_log else xi
        bidx = drv.add(f"below {N} {degree} " + " ".join(q(v) for v in tg) + f" {q(txi)}")
        py["w_pub"] = {nm: published_weights(interp, xi, nm).tolist() for nm in ("h2", "g2", "k2")} if mode != 2 else {}
        pend.append((case, py, idx, bidx, N))
    lines = drv.run()
    for case, py, idx, cidx, N in pend:
        toks = lines[idx].split()
        feat = f"{case['kind']}/{case['mode']}/{'node' if case['MP'] == 0.0 else 'shifted'}"
        if len(toks) < 4 or not toks[0].isdigit():
            chk.corr_case("tmc_formula", False, case, dict(case, model=lines[idx]), feat)
            continue
        mu, rho, xi = (corr_kernels.bits_to_float(t) for t in toks[:3])
        ne = int(toks[3])
        expected = np.zeros_like(py["vec"])
        bad = None
        close = lambda a, b: abs(a - b) <= 1e-12 * max(1.0, abs(a), abs(b))
        if not (close(mu, py["mu"]) and close(rho, py["rho"]) and close(xi, py["xi"])):
            bad = dict(shifted_kinematics=dict(model=[mu, rho, xi], py=[py["mu"], py["rho"], py["xi"]]))
        for e in range(ne):
            sym, bits = toks[4 + 2 * e], toks[5 + 2 * e]
            if not bits.isdigit():
                bad = dict(symbol=sym, model=bits)
                continue
            c = corr_kernels.bits_to_float(bits)
            parts = sym.split(":")
            base = KINDS.index(parts[1]) * (N + 1)
            if parts[0] == "shift":
                # the shifted request is answered by marker 0, or by the node marker when xi is a node
                cand = [j for j, g in enumerate(case["grid"]) if g == py["xi"]]
                expected[base + (1 + cand[0] if cand else 0)] += c
            else:
                for j, wj in enumerate(py["kw"][parts[2]]):
                    expected[base + 1 + j] += c * wj
        scale = max(1.0, float(np.abs(expected).max()))
        diff = float(np.abs(expected - py["vec"]).max())
        ok = bad is None and diff <= 1e-10 * scale and py["outx"] == (case["x"], case["Q2"])
        det = None if ok else dict(case, problem=bad, maxdiff=diff, model=expected.tolist(), py=py["vec"].tolist(), result_kinematics=py["outx"])
        chk.corr_case("tmc_formula", ok, dict(case=case, maxdiff=diff), det, feat)
        # _convolve_FX loop: per node, (entry of the real result) / (coefficient of the h2-type symbol)
        # against (0 if the model says `below` else the independent weight)
        convs = [(toks[4 + 2 * e].split(":"), corr_kernels.bits_to_float(toks[5 + 2 * e])) for e in range(ne) if toks[4 + 2 * e].split(":")[0] == "conv" and toks[5 + 2 * e].isdigit()]
        if convs:
            mb = [v == "1" for v in lines[cidx].split()]
            okc, worst_case = len(mb) == N, None
            for K in sorted({p_[1] for p_, _ in convs}):
                base = KINDS.index(K) * (N + 1)
                model_e = np.zeros(N)
                for p_, c in convs:
                    if p_[1] == K:
                        wpub = py["w_pub"][SYM_OF_KERNEL[p_[2]]]
                        model_e += c * np.array([0.0 if b else wj for b, wj in zip(mb, wpub)]) if len(mb) == N else 0.0
                real_e = np.array([float(py["vec"][base + 1 + j]) for j in range(N)])
                # when xi itself is a grid node the shifted request shares that node's marker
                cand = [j for j, g in enumerate(case["grid"]) if g == py["xi"]]
                if cand:
                    for e in range(ne):
                        ps = toks[4 + 2 * e].split(":")
                        if ps[0] == "shift" and ps[1] == K and toks[5 + 2 * e].isdigit():
                            real_e[cand[0]] -= corr_kernels.bits_to_float(toks[5 + 2 * e])
                sc = max(1e-300, float(np.abs(model_e).max()), 1.0)
                dd = float(np.abs(real_e - model_e).max())
                if dd > 2e-7 * sc:
                    okc = False
                    worst_case = dict(structure_function=K, model_below=mb, code_below=py["below"], model_entries=model_e.tolist(), code_entries=real_e.tolist())
            chk.corr_case("convolve_FX_loop", okc, None, None if okc else dict(case, xi=py["xi"], **(worst_case or {})), "skipped" if any(mb) else "none-skipped")


def corr_rejection(chk, r, n):
    """xi below the grid: the model's `convolveFX`/`esfRequest` and the real code both reject"""
    import yadism

    drv = Driver()
    pend = []
    for i in range(n):
        kind = KINDS[i % 4]
        mode = [1, 2, 3][(i // 4) % 3]
        grid = rand_grid(r, xmin=float(r.choice([1e-3, 0.01, 0.05, 0.1, 0.2])))
        inside = r.random() < 0.3
        # x on / just above the lowest node: xi < x falls below the grid unless M = 0; small x and
        # large Q2 make xi miss the grid by a relative 1e-8..1e-5 only
        x = float(grid[0] * r.choice([1.0, 1.0, 1.0 + 1e-9, 1.02]))
        Q2 = float(r.choice([1.0, 4.0, 20.0, 100.0]))
        MP = 0.0 if inside else float(r.choice([0.938, 2.0]))
        _, xi = nachtmann(x, MP * MP / Q2)
        t = cards.theory(PTO=0, TMC=mode, MP=MP)
        o = cards.obs({f"{kind}_light": [dict(x=x, Q2=Q2)]}, interpolation_xgrid=grid, interpolation_polynomial_degree=2)
        try:
            yadism.run_yadism(t, o)
            py = "ok"
        except ValueError as e:
            py = "rejected" if "outside xgrid" in str(e) else f"ValueError:{e}"[:80]
        except Exception as e:  # noqa
            py = f"{type(e).__name__}:{e}"[:80]
        idx = drv.add(f"convfx {len(grid)} " + " ".join(q(g) for g in grid) + f" {q(xi)} " + " ".join("0 1/1 1/1" for _ in grid))
        pend.append((dict(kind=kind, mode=MODES[mode], x=x, Q2=Q2, MP=MP, xi=xi, gridmin=grid[0]), py, idx, xi < grid[0]))
    lines = drv.run()
    for case, py, idx, expect_reject in pend:
        model = "rejected" if lines[idx] == "rejected" else "ok"
        ok = model == py
        chk.corr_case("tmc_rejection", ok, dict(case=case, py=py, model=model), None if ok else dict(case, py=py, model=model), f"{case['mode']}/{py}")
        chk.search_case("xi_below_grid_rejected", (py == "rejected") == expect_reject, what=f"{case['kind']} TMC={case['mode']} x={case['x']} xi={case['xi']} grid from {case['gridmin']}: {py}", data=dict(case, outcome=py), sample=dict(case, outcome=py) if expect_reject else None, nontrivial=expect_reject)


def search_weights(chk, r, n):
    """the real integration of the real kernels == the published integrals of the basis functions"""
    import yadism
    from yadism.coefficient_functions.partonic_channel import RSL
    from yadism.esf import conv
    from yadism.esf import tmc as tmcmod

    for i in range(n):
        grid = rand_grid(r)
        degree = min(r.choice([1, 2, 3, 4]), len(grid) - 1)
        is_log = r.random() < 0.7
        t = cards.theory(PTO=0, TMC=1)
        o = cards.obs({"F2_light": [dict(x=0.5, Q2=10.0)]}, interpolation_xgrid=grid, interpolation_polynomial_degree=degree, interpolation_is_log=is_log)
        interp = yadism.Runner(t, o).configs.interpolator
        xi = float(r.choice([r.uniform(grid[0], 0.98), r.choice(grid[:-1]), r.choice(grid[1:-1]) * (1 + 1e-12)]))
        for kn, pub in SYM_OF_KERNEL.items():
            ker = getattr(tmcmod, kn)
            real = np.array([0.0 if pj.is_below_x(xi) else float(conv.convolution(RSL(ker, args=[xi]), xi, pj)[0]) for pj in interp])
            ref = published_weights(interp, xi, pub)
            scale = max(float(np.abs(ref).max()), 1e-300)
            diff = float(np.abs(real - ref).max())
            d = dict(kernel=kn, published_integrand=pub, xi=xi, grid=grid, degree=degree, is_log=is_log, maxdiff=diff, scale=scale)
            chk.search_case("kernel_weights_vs_published_integrals", diff <= 2e-7 * scale, what=f"{kn}: int_xi^1 du/u ker(xi/u) p_j(u) differs from the published integral ({pub}) of the basis", data=d, sample=d if kn == "k2_ker" else None, nontrivial=scale > 1e-6)


def operator_reference(kind, flavor, mode, x, Q2, MP, theory_kw, obs_kw, grid):
    """the published formula applied to the real *uncorrected* operators (TMC=0 run at xi and at the
    grid nodes), as an operator identity (no PDF)"""
    import yadism

    mu = MP * MP / Q2
    r_, xi = nachtmann(x, mu)
    pub = published(kind, MODES[mode], x, mu)
    needed = sorted({k[1] for k in pub})
    need_nodes = any(k[0] == "int" for k in pub)
    t0 = cards.theory(TMC=0, MP=MP, **theory_kw)
    pts = [dict(x=xi, Q2=Q2)]
    runner = yadism.Runner(t0, cards.obs({f"{needed[0]}_{flavor}": pts}, **obs_kw))
    interp = runner.configs.interpolator
    weights = {}
    nodes = []
    if need_nodes:
        for k in pub:
            if k[0] == "int" and k[2] not in weights:
                weights[k[2]] = published_weights(interp, xi, k[2])
        used = np.zeros(len(grid), dtype=bool)
        for w in weights.values():
            used |= np.abs(w) > 0
        nodes = [j for j in range(len(grid)) if used[j]]
        pts = pts + [dict(x=float(grid[j]), Q2=Q2) for j in nodes]
    out0 = yadism.run_yadism(t0, cards.obs({f"{k}_{flavor}": pts for k in needed}, **obs_kw))
    ref = None
    for k, c in pub.items():
        res = out0[f"{k[1]}_{flavor}"]
        if k[0] == "shift":
            term = c * res[0]
        else:
            term = None
            for n_, j in enumerate(nodes):
                tj = (c * float(weights[k[2]][j])) * res[1 + n_]
                term = tj if term is None else term + tj
        if term is not None:
            ref = term if ref is None else ref + term
    return ref, xi


SCENARIOS = [
    # (flavor, process, projectile, FNS, NfFF)
    ("light", "NC", "electron", "ZM-VFNS", 4),
    ("total", "EM", "electron", "ZM-VFNS", 4),
    ("total", "NC", "positron", "FFNS", 3),
    ("charm", "CC", "neutrino", "FFNS", 3),
    ("charm", "NC", "electron", "FFNS", 3),
    ("total", "CC", "antineutrino", "ZM-VFNS", 4),
    ("charm", "CC", "neutrino", "FFN0", 3),
    ("bottom", "NC", "electron", "FFNS", 4),
]


def search_operator(chk, r, n, max_pto):
    import yadism

    # sequences in one process: the same kinematics on bases that share nodes (degree / log scans)
    seq_grid = [float(v) for v in cards.default_grid(9, 0.02)]
    plans = []
    for kind, mode in (("F2", 3), ("FL", 1)):
        for degree, is_log in ((3, True), (2, True), (3, False)):
            plans.append(dict(kind=kind, mode=mode, sc=SCENARIOS[0], x=0.5, Q2=4.0, MP=0.938, grid=seq_grid, degree=degree, is_log=is_log, pto=1 if kind == "FL" else 0, tag="sequence"))
    # deterministic corners of the node loop: a grid node between xi and x (heavy target, low Q2, x just
    # above a node), and xi inside the first grid interval (the lowest block of basis functions)
    for kind, mode, pto in (("F2", 1, 0), ("F3", 3, 0), ("FL", 1, 1)):
        for degree in (3, 2):
            plans.append(dict(kind=kind, mode=mode, sc=SCENARIOS[0], x=float(seq_grid[6] * 1.0005), Q2=2.0, MP=2.0, grid=seq_grid, degree=degree, is_log=True, pto=pto, tag="node-between-xi-and-x"))
        plans.append(dict(kind=kind, mode=mode, sc=SCENARIOS[0], x=float(seq_grid[0] * 1.05), Q2=50.0, MP=0.938, grid=seq_grid, degree=3, is_log=True, pto=pto, tag="first-interval"))
    # nuclear targets: x, xi and the structure functions are per nucleon, so the mass in mu = M^2/Q^2 stays
    # the nucleon mass of the theory card whatever (Z, A) is
    for (kind, mode, pto), target in zip((("F2", 1, 0), ("FL", 3, 1), ("F2", 2, 0), ("F3", 1, 0)), ("isoscalar", "iron", {"Z": 82.0, "A": 208.0}, "lead")):
        plans.append(dict(kind=kind, mode=mode, sc=SCENARIOS[0], x=0.4, Q2=3.0, MP=0.938, grid=seq_grid, degree=3, is_log=True, pto=pto, tag="nuclear-target", target=target))
    for i in range(n):
        kind = KINDS[i % 4]
        mode = [3, 1, 2][(i // 4) % 3]
        sc = SCENARIOS[i % len(SCENARIOS)] if kind != "g1" else r.choice([s for s in SCENARIOS if s[1] != "CC" and s[0] != "bottom"])
        grid = rand_grid(r, xmin=float(r.choice([0.01, 0.05])))
        x, Q2, MP = rand_point(r, grid)
        pto = r.choice(list(range(max_pto + 1)))
        if kind == "FL":
            pto = max(pto, 1)
        plans.append(dict(kind=kind, mode=mode, sc=sc, x=x, Q2=Q2, MP=MP, grid=grid, degree=min(r.choice([2, 3]), len(grid) - 1), is_log=r.random() < 0.7, pto=pto, tag="random"))
    for p in plans:
        flavor, process, proj, fns, nfff = p["sc"]
        kind, mode = p["kind"], p["mode"]
        name = f"{kind}_{flavor}"
        theory_kw = dict(PTO=p["pto"], FNS=fns, NfFF=nfff)
        obs_kw = dict(prDIS=process, ProjectileDIS=proj, interpolation_xgrid=p["grid"], interpolation_polynomial_degree=p["degree"], interpolation_is_log=p["is_log"])
        if p.get("target") is not None:
            obs_kw["TargetDIS"] = p["target"]
        case = dict(obs=name, target=p.get("target", "proton"), TMC=mode, process=process, projectile=proj, FNS=fns, NfFF=nfff, PTO=p["pto"], x=p["x"], Q2=p["Q2"], MP=p["MP"], grid=p["grid"], degree=p["degree"], is_log=p["is_log"], scenario=p["tag"])
        try:
            real = yadism.run_yadism(cards.theory(TMC=mode, MP=p["MP"], **theory_kw), cards.obs({name: [dict(x=p["x"], Q2=p["Q2"])]}, **obs_kw))[name][0]
            ref, xi = operator_reference(kind, flavor, mode, p["x"], p["Q2"], p["MP"], theory_kw, obs_kw, p["grid"])
        except Exception as e:  # noqa
            msg = f"{type(e).__name__}: {e}"[:200]
            explicit = isinstance(e, (NotImplementedError,)) or (isinstance(e, ValueError) and "outside xgrid" in str(e))
            chk.search_case("tmc_run_vs_published_formula", explicit, what=f"{name} TMC={mode} {process} {fns}: {msg}", data=dict(case, error=msg), nontrivial=False)
            continue
        diff, scale = realrun.maxdiff(real, ref)
        case.update(xi=xi, maxdiff=diff, scale=scale)
        ok = diff <= 1e-6 * max(scale, 1e-300) and real.x == p["x"] and real.Q2 == p["Q2"]
        chk.search_case("tmc_run_vs_published_formula", ok, what=f"{name} TMC={mode} ({MODES[mode]}) {process} {fns} NfFF={nfff} PTO={p['pto']} x={p['x']:.4g} Q2={p['Q2']} M={p['MP']} degree={p['degree']} log={p['is_log']} [{p['tag']}]: operator differs from the published formula on the uncorrected operators", data=case, sample={k: v for k, v in case.items() if k != "grid"} if kind == "F3" else None, nontrivial=scale > 0)


def search_shared_requests(chk, r, n):
    """the corrected result of a point does not depend on how the request is written: one list object
    of kinematics handed to two observables, and one point object listed twice, give what each
    observable gives on its own from fresh dicts (the corrected object must not write x -> xi into
    the request it was built from)"""
    import copy

    import yadism

    grid = [float(v) for v in cards.default_grid(8, 0.02)]
    okw = dict(interpolation_xgrid=grid, interpolation_polynomial_degree=3)
    for i in range(n):
        mode = [2, 1, 3][i % 3]
        kinds = [("F2", "FL"), ("FL", "F2"), ("F2", "F3")][i % 3]
        process = "NC"
        pt = dict(x=float(r.choice([0.3, 0.5])), Q2=float(r.choice([3.0, 6.0])))
        kins = [pt, dict(x=0.4, Q2=pt["Q2"]), pt]  # the first point object again at the end
        names = [f"{k}_light" for k in kinds]
        th = cards.theory(PTO=1, TMC=mode)
        before = copy.deepcopy(kins)
        problems = []
        try:
            big = yadism.run_yadism(th, cards.obs({nm: kins for nm in names}, prDIS=process, **okw))
            for nm in names:
                alone = yadism.run_yadism(th, cards.obs({nm: copy.deepcopy(before)}, prDIS=process, **okw))[nm]
                for j, (a, b) in enumerate(zip(big[nm], alone)):
                    if not realrun.identical(a, b) or float(a.x) != before[j]["x"]:
                        problems.append(f"{nm}[{j}] (x={before[j]['x']}) differs from the run of {nm} alone" + (f", labelled x={float(a.x)}" if float(a.x) != before[j]["x"] else ""))
        except Exception as e:  # noqa
            problems.append(f"{type(e).__name__}: {e}"[:160])
        if kins != before:
            problems.append(f"the request was rewritten: {kins}")
        d = dict(TMC=mode, observables=names, points=before, problems=problems[:6])
        chk.search_case("shared_request_objects", not problems, what=f"TMC={mode} {names} sharing one list of points: " + "; ".join(problems[:3]), data=d, sample=d if i == 0 else None, nontrivial=True)


def search_zero_mass(chk, r, n):
    """the correction vanishes continuously as M -> 0 and is absent at M = 0"""
    import yadism

    for i in range(n):
        kind = KINDS[i % 4]
        mode = [3, 1, 2][(i // 4) % 3]
        grid = [float(v) for v in cards.default_grid(8, 0.02)]
        x = float(r.choice([0.3, 0.55, grid[4]]))
        Q2 = float(r.choice([2.0, 10.0]))
        pto = 1 if kind == "FL" else 0
        name = f"{kind}_light"
        okw = dict(interpolation_xgrid=grid, interpolation_polynomial_degree=3)
        base = yadism.run_yadism(cards.theory(PTO=pto, TMC=0), cards.obs({name: [dict(x=x, Q2=Q2)]}, **okw))[name][0]
        dists = []
        for MP in (0.5, 0.05, 0.005, 0.0):
            res = yadism.run_yadism(cards.theory(PTO=pto, TMC=mode, MP=MP), cards.obs({name: [dict(x=x, Q2=Q2)]}, **okw))[name][0]
            d, s = realrun.maxdiff(res, base)
            dists.append(d / max(s, 1e-300))
        # interpolation basis functions are Lipschitz, prefactors smooth: distance shrinks with M, exact at 0
        ok = dists[-1] <= 1e-12 and dists[2] <= 1e-2 and dists[2] <= dists[1] + 1e-12 and dists[1] <= dists[0] + 1e-12
        d = dict(obs=name, TMC=mode, x=x, Q2=Q2, relative_distance_to_uncorrected={"0.5": dists[0], "0.05": dists[1], "0.005": dists[2], "0": dists[3]})
        chk.search_case("vanishes_as_M_to_zero", ok, what=f"{name} TMC={mode} x={x} Q2={Q2}: distances to the uncorrected operator for M=0.5,0.05,0.005,0: {dists}", data=d, sample=d, nontrivial=dists[0] > 0)


def run(tier):
    chk = common.Check("C10", tier)
    thorough = tier == "thorough"
    r = common.rng("C10")
    rep = corr_kernels.regenerate(chk)
    tm = translate_tmc.generate_tmc(rep)
    ok, log, dt = common.lake_build(["YadismModel.Generated.TMC"])
    chk.obligation("tmc-formulas-translated", ok and not tm["failed"], (str(tm["failed"]) + log[-300:]) if not (ok and not tm["failed"]) else "")
    chk.extra["tmc_translator"] = dict(formulas={f"{k[0]}/{k[1]}": sorted(v) for k, v in tm["table"].items()}, failed=tm["failed"], modes={str(k): v for k, v in tm["modes"].items()})
    common.lean_proof_step(chk, "YadismModel.Properties.C10", thorough=thorough)
    corr_kernels.run_kernels(chk, r, 10 if thorough else 2, report=dict(kernels={k: v for k, v in rep["kernels"].items() if ".esf.tmc." in k}, untranslated={}), stream="tmc_kernel_translation")
    corr_formulas(chk, r, 120 if thorough else 36)
    corr_rejection(chk, r, 48 if thorough else 24)
    search_weights(chk, r, 24 if thorough else 6)
    search_operator(chk, r, 96 if thorough else 24, 1)
    search_zero_mass(chk, r, 12 if thorough else 4)
    search_shared_requests(chk, r, 6 if thorough else 3)
    chk.assumptions += [
        "the prefactors and the symbols of every formula are regenerated from tmc.py each run and validated against the real classes (marker structure functions, real interpolator, real kernel integration)",
        "the loop of _convolve_FX and the request guards are modelled by hand (Model/TMC.lean) and tied by the convolve_FX_loop / tmc_rejection correspondences",
        "the published formulas are stated in Lean for arbitrary uncorrected structure functions as integrals; that the code's weighted sum over grid nodes is that integral applied to the interpolant is proved under integrability (discrete_sum_is_integral_of_interpolant); the numerical quadrature itself (scipy) is observed, not proved: kernel_weights_vs_published_integrals",
        "continuity as M -> 0 is proved for every prefactor; continuity of the structure function itself and of the integrals in xi is observed on real runs (vanishes_as_M_to_zero)",
        "g1 'approximate' has no published form: the documented one (integrand frozen at xi) is what is proved",
    ]
    return chk
