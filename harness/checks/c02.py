"""C02 — LO parton model and EW/CKM weights."""

import numpy as np

from .. import cards, common, corr_weights, realrun


def pdg_nc(q, pv, Q2, s2w, mz2, lam, sgn, pc, process, neutral_lepton=False):
    """independent float evaluation of the PDG weight of quark q (spec of Properties/C02.lean);
    `sgn*lam` is the helicity of the beam particle counted as for e+ and nu (so sgn = -1 for e- and
    anti-nu); a neutrino beam couples through the Z only (e_l = 0, g_V = g_A = 1/2)"""
    e = 2 / 3 if q % 2 == 0 else -1 / 3
    t3 = 0.5 if q % 2 == 0 else -0.5
    gv, ga = t3 - 2 * e * s2w, t3
    el, gve, gae = (0.0, 0.5, 0.5) if neutral_lepton else (-1.0, -0.5 + 2 * s2w, -0.5)
    eta = Q2 / (mz2 + Q2) / (4 * s2w * (1 - s2w)) / (1 - pc) if process == "NC" else 0.0
    if not pv:
        return el * el * e * e + 2 * el * e * gv * (gve + sgn * lam * gae) * eta + (gve**2 + gae**2 + 2 * sgn * lam * gve * gae) * (gv**2 + ga**2) * eta**2
    return 2 * el * e * ga * (gae + sgn * lam * gve) * eta + 2 * gv * ga * (2 * gve * gae + sgn * lam * (gve**2 + gae**2)) * eta**2


def cc_expected(ckm2, nf, projectile, pv, hq=0):
    """pid -> LO CC weight for F2/FL-like (pv False) or F3 (pv True) of the light observable, or
    (hq = 4, 5) of a massless single heavy flavour: only CKM entries whose heavier quark is hq"""
    ups, downs = [2, 4, 6], [1, 3, 5]
    out = {}
    plus_is_odd = projectile in ("positron", "neutrino")
    for q in range(1, nf + 1):
        w = 0.0
        for p in downs if q % 2 == 0 else ups:
            if (max(q, p) <= nf) if hq == 0 else (max(q, p) == hq):
                u, d = (q, p) if q % 2 == 0 else (p, q)
                w += ckm2[ups.index(u)][downs.index(d)]
        s = 1 if (q % 2 == 1) == plus_is_odd else -1
        out[s * q] = 2 * w * (s if pv else 1)
    return out


def search_lo(chk, r, n):
    """real LO runs at grid nodes: operator row must be x * weight * Kronecker delta"""
    grid = cards.default_grid(10)
    # a structured block first: polarised charged-lepton NC at low and high virtuality, every kind
    # with a LO term (random sampling alone reaches this corner in ~1 of 8 cases)
    structured = [("NC", proj, kind, Q2, pol, None) for proj in ("electron", "positron") for kind in ("F2", "F3", "g1", "g4") for Q2 in (50.0, 30000.0) for pol in (0.7, -0.5)]
    # neutral beams in NC (pure Z exchange, polarised too) and the CC light observable with all six
    # flavours active (both third-generation masks at once)
    structured += [("NC", proj, kind, 3000.0, pol, None) for proj in ("neutrino", "antineutrino") for kind in ("F2", "F3") for pol in (0.0, 0.6, -1.0)]
    structured += [("CC", proj, kind, 30000.0, 0.0, 0) for proj in cards.PROJECTILES for kind in ("F2", "F3")]
    # weights that are genuinely tiny (pure-Z exchange at Q2 = 1 GeV2: ~1e-9; a CKM element of 5e-5) are
    # still weights; and the set of active quarks follows (k m)^2, not k m^2
    structured += [("NC", "neutrino", "F2", 1.0, 0.0, None), ("NC", "antineutrino", "F3", 1.0, 0.5, None), ("CC", "neutrino", "F2", 50.0, 0.0, 5, dict(CKM="0.97428 0.2253 0.00005 0.2252 0.97345 0.041 0.00862 0.0403 0.999152")),
                   ("EM", "electron", "F2", 6.0, 0.0, 0, dict(kcThr=2.0)), ("CC", "neutrino", "F2", 9.0, 0.0, 0, dict(kbThr=0.5)), ("NC", "positron", "F3", 6.0, 0.4, 0, dict(kcThr=2.0))]
    for i in range(n + len(structured)):
        process = r.choice(["EM", "NC", "NC", "CC"])
        th_kw, ob_kw = cards.rand_ew(r)
        if process in ("CC", "NC"):
            proj = r.choice(list(cards.PROJECTILES))
        else:
            proj = r.choice(["electron", "positron"])
        kinds = cards.UNPOL if process == "CC" else cards.SFS
        kind = r.choice(kinds)
        Q2 = float(r.choice([5.0, 50.0, 3000.0, 30000.0]))
        force_hq = None
        if i < len(structured):
            process, proj, kind, Q2, pol, force_hq = structured[i][:6]
            ob_kw = dict(ob_kw, PolarizationDIS=pol)
            if len(structured[i]) > 6:
                th_kw = dict(th_kw, **structured[i][6])
        k = r.randrange(2, len(grid) - 1)
        x = grid[k]
        t = cards.theory(PTO=0, FNS="ZM-VFNS", **th_kw)
        nf0 = 3 + sum(1 for m, kk in ((t["mc"], t["kcThr"]), (t["mb"], t["kbThr"]), (t["mt"], t["ktThr"])) if (m * kk) ** 2 <= Q2)
        # light, or a single heavy flavour that is already massless at this Q2 (single-flavour kernels)
        hq = r.choice([0, 0] + [h for h in (4, 5) if h <= nf0])
        if force_hq is not None:
            hq = force_hq
        flname = {0: "light", 4: "charm", 5: "bottom"}[hq]
        o = cards.obs({f"{kind}_{flname}": [dict(x=x, Q2=Q2)]}, prDIS=process, ProjectileDIS=proj, interpolation_xgrid=grid, **ob_kw)
        out = realrun.run(t, o)
        res = out[f"{kind}_{flname}"][0]
        op = res.orders[(0, 0, 0, 0)][0]
        nf = 3 + sum(1 for m, kk in ((t["mc"], t["kcThr"]), (t["mb"], t["kbThr"]), (t["mt"], t["ktThr"])) if (m * kk) ** 2 <= Q2)
        pv = kind in ("F3", "gL", "g4")
        exp = np.zeros_like(op)
        if process == "CC":
            ckm2 = (np.array([float(v) for v in t["CKM"].split()]) ** 2).reshape(3, 3)
            for pid, w in cc_expected(ckm2, nf, proj, pv, hq).items():
                exp[realrun.BASIS.index(pid), k] = x * w
        else:
            sgn = 1 if proj in ("positron", "neutrino") else -1
            for q in (range(1, nf + 1) if hq == 0 else [hq]):
                w = pdg_nc(q, pv, Q2, t["SIN2TW"], t["MZ"] ** 2, o["PolarizationDIS"], sgn, o["PropagatorCorrection"], process, neutral_lepton=proj in ("neutrino", "antineutrino"))
                exp[realrun.BASIS.index(q), k] = x * w
                exp[realrun.BASIS.index(-q), k] = x * (-w if pv else w)
        # FL has no LO term; gL likewise
        if kind in ("FL", "gL"):
            exp[:] = 0.0
        # relative to the largest expected entry (weights of 1e-9 are weights too); an operator expected
        # to vanish identically must be exactly zero
        scale = float(np.abs(exp).max())
        d = float(np.abs(op - exp).max())
        sample = dict(kind=kind, flavor=flname, process=process, projectile=proj, x=x, Q2=Q2, node=k, nf=nf, theory=th_kw, obs=ob_kw, maxdiff=d)
        chk.search_case("lo_operator_vs_pdg", d <= 1e-9 * scale, what=f"LO {kind}_{flname} {process} {proj} operator != x*w*delta", data=sample, sample=sample, nontrivial=bool(np.abs(exp).max() > 0))

    # the two end nodes of the grid.  x on the lowest node is an ordinary request (p_0(x_0) = 1); at x = 1
    # the code's "empty domain" exit (convolution point >= 1 - 1e-10) also drops the delta term: known
    # finding F29
    for k, tag in ((0, "the first grid node"), (len(grid) - 1, "the last grid node")):
        x = float(grid[k])
        t = cards.theory(PTO=0, FNS="ZM-VFNS")
        o = cards.obs({"F2_light": [dict(x=x, Q2=20.0)]}, prDIS="EM", ProjectileDIS="electron", interpolation_xgrid=grid)
        try:
            op = realrun.run(t, o)["F2_light"][0].orders[(0, 0, 0, 0)][0]
        except Exception as e:  # noqa
            chk.search_case("lo_operator_at_end_nodes", False, what=f"LO F2_light EM x = {x!r} ({tag}): {type(e).__name__}: {e}"[:200], data=dict(x=x))
            continue
        exp = np.zeros_like(op)
        for q_ in (1, 2, 3, 4):
            for s_ in (1, -1):
                exp[realrun.BASIS.index(s_ * q_), k] = x * (4.0 / 9.0 if q_ % 2 == 0 else 1.0 / 9.0)
        d = float(np.abs(op - exp).max())
        zero = bool(np.all(op == 0))
        chk.search_case("lo_operator_at_end_nodes", d <= 1e-9, what=f"LO F2_light EM x = {x!r} ({tag}): LO operator is {'zero' if zero else 'not x*w*delta'} (expected x*e_q^2 on node {k}; maxdiff {d:.3g})", data=dict(x=x, node=k, maxdiff=d, all_zero=zero), sample=dict(x=x, node=k, maxdiff=d))


def run(tier):
    chk = common.Check("C02", tier)
    thorough = tier == "thorough"
    common.lean_proof_step(chk, "YadismModel.Properties.C02", thorough=thorough)
    r = common.rng("C02")
    corr_weights.run_weights(chk, 4000 if thorough else 250, r)
    corr_weights.run_combiner(chk, 120 if thorough else 12, r, stream="combiner_lo")
    search_lo(chk, r, 200 if thorough else 24)
    chk.assumptions += [
        "spec formulas (PDG NC weights, CKM sums) are transcribed by hand in Properties/C02.lean and, independently, in harness/checks/c02.py",
        "model arithmetic is exact on Rat; IEEE rounding of the Python arithmetic is outside the model (tolerance 1e-10 relative to the largest term)",
        "the Kronecker-delta property of the interpolation basis at grid nodes is C19's theorem; here it is observed on the real operator",
        "known finding F29: at the node x = 1 the LO operator is 0 (conv.convolution's empty-domain exit drops the delta term too); reported as KNOWN-FINDING, the lowest node must pass",
    ]
    return chk
