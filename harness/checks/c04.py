"""C04 — massless coefficient functions obey sum rules and NLO closed forms."""

import importlib
import math

import numpy as np
import scipy.integrate
from scipy.special import zeta as _zeta

from .. import common, corr_kernels, translate_nlo
from ..callsites import StubESF

CF, TR = 4.0 / 3.0, 0.5
Z3, Z5 = float(_zeta(3)), float(_zeta(5))


# ------------------------------------------------------------------------------------------------
# published closed forms (textbook alpha_s/2pi form, times two), written independently of the code


def c2q_reg(z):
    return 2 * CF * (-(1 + z) * math.log(1 - z) - (1 + z * z) / (1 - z) * math.log(z) + 3 + 2 * z)


C2Q_DISTR = (2 * CF * (-(math.pi**2 / 3 + 4.5)), 2 * CF * (-1.5), 2 * CF * 2.0)  # delta, 1/(1-z)_+, (log(1-z)/(1-z))_+

PUBLISHED = {
    # label set -> (reg(z, nf), distr or None)
    "F2q": (lambda z, nf: c2q_reg(z), C2Q_DISTR),
    "F2g": (lambda z, nf: 2 * (2 * nf) * TR * ((z * z + (1 - z) ** 2) * math.log((1 - z) / z) - 1 + 8 * z * (1 - z)), None),
    "FLq": (lambda z, nf: 2 * CF * 2 * z, None),
    "FLg": (lambda z, nf: 2 * (2 * nf) * TR * 4 * z * (1 - z), None),
    "F3q": (lambda z, nf: c2q_reg(z) - 2 * CF * (1 + z), C2Q_DISTR),
    "g1q": (lambda z, nf: c2q_reg(z) - 2 * CF * (1 + z), C2Q_DISTR),
    "g1g": (lambda z, nf: 2 * (2 * nf) * TR * ((2 * z - 1) * (math.log((1 - z) / z) - 1) + 2 * (1 - z)), None),
}

CLASSES = {
    "F2q": ["f2_nc.NonSinglet", "f2_cc.NonSingletEven", "f2_cc.NonSingletOdd"],
    "F2g": ["f2_nc.Gluon", "f2_cc.Gluon"],
    "FLq": ["fl_nc.NonSinglet", "fl_cc.NonSingletEven", "fl_cc.NonSingletOdd"],
    "FLg": ["fl_nc.Gluon", "fl_cc.Gluon"],
    "F3q": ["f3_nc.NonSinglet", "f3_cc.NonSingletEven", "f3_cc.NonSingletOdd"],
    "g1q": ["g1_nc.NonSinglet"],
    "g1g": ["g1_nc.Gluon"],
}

ZS = [1e-7, 1e-4, 0.003, 0.05, 0.2, 0.5, 0.8, 0.95, 0.985, 0.9901, 0.995, 0.999, 1 - 1e-4, 1 - 1e-6, 1 - 1e-8]


def get_class(label):
    mn, cn = label.split(".")
    return getattr(importlib.import_module(f"yadism.coefficient_functions.light.{mn}"), cn)


def search_closed_forms(chk, r):
    for key, labels in CLASSES.items():
        reg_pub, distr = PUBLISHED[key]
        for label in labels:
            for nf in (3, 4, 5, 6):
                try:
                    rsl = get_class(label)(StubESF(0.1, 10.0), nf)[1]()
                except Exception as e:  # noqa
                    chk.search_case("nlo_closed_form", False, what=f"{label} nf={nf}: {type(e).__name__}: {e}"[:200], data=dict(site=label, nf=nf))
                    continue
                bad = None
                zs = ZS + [float(r.uniform(0.0, 1.0)), float(1 - 10 ** r.uniform(-6, -1.5))]
                for z in zs:
                    got = float(rsl.reg(z, rsl.args["reg"])) if rsl.reg is not None else 0.0
                    ref = reg_pub(z, nf)
                    if abs(got - ref) > 1e-9 * (1 + abs(ref)) + 5e-8 * abs(2 * CF * math.log(z) / (1 - z)) * (z > 0.999999):
                        bad = bad or f"reg({z!r}) = {got!r}, published {ref!r}"
                    if distr is None:
                        if rsl.sing is not None or rsl.loc is not None:
                            bad = bad or "unexpected singular/local part"
                        continue
                    d0, c0, c1 = distr
                    L = math.log(1 - z)
                    sref = (c0 + c1 * L) / (1 - z)
                    lref = d0 + c0 * L + c1 * L * L / 2
                    sg = float(rsl.sing(z, rsl.args["sing"])) if rsl.sing is not None else 0.0
                    lg = float(rsl.loc(z, rsl.args["loc"])) if rsl.loc is not None else 0.0
                    if abs(sg - sref) > 1e-10 * (1 + abs(sref)):
                        bad = bad or f"sing({z!r}) = {sg!r}, published {sref!r}"
                    if abs(lg - lref) > 1e-10 * (1 + abs(lref)):
                        bad = bad or f"loc({z!r}) = {lg!r}, published {lref!r}"
                d = dict(site=label + ".NLO", coefficient=key, nf=nf, problem=bad)
                chk.search_case("nlo_closed_form", bad is None, what=f"{label}.NLO nf={nf} ({key}): {bad}", data=d, sample=d if label == "f2_nc.NonSinglet" and nf == 4 else None)


def first_moment(rsl):
    tot = 0.0
    if rsl.reg is not None:
        f = lambda z: float(rsl.reg(z, rsl.args["reg"]))
        for a, b in [(0, 1e-6), (1e-6, 1e-3), (1e-3, 0.5), (0.5, 0.99), (0.99, 1 - 1e-3), (1 - 1e-3, 1 - 1e-6), (1 - 1e-6, 1)]:
            tot += scipy.integrate.quad(f, a, b, epsabs=1e-13, epsrel=1e-12, limit=400)[0]
    # the plus-distribution does not contribute to the first moment; delta coefficient = loc(0)
    return tot + (float(rsl.loc(0.0, rsl.args["loc"])) if rsl.loc is not None else 0.0)


def ns_series(nf, o):
    """Gross-Llewellyn-Smith (non-singlet part) / Bjorken series in a_s = alpha_s/4pi
    (Larin, Vermaseren 1991): 1 - a - (55/12 - nf/3) a^2 - (...) a^3, a = alpha_s/pi"""
    a = [
        1.0,
        -1.0,
        -(55.0 / 12 - nf / 3.0),
        -(13841.0 / 216 + 44.0 / 9 * Z3 - 55.0 / 2 * Z5 - nf * (10339.0 / 1296 + 61.0 / 54 * Z3 - 5.0 / 3 * Z5) + nf * nf * 115.0 / 648),
    ]
    return a[o] * 4.0**o


# (rule, class, orders, expected(nf, o), tolerance per order): tolerances are the accuracy of the
# published parametrisations (exact at NLO), several times smaller than any single wrong constant
RULES = [
    ("Adler", "f2_cc.NonSingletOdd", (1, 2, 3), lambda nf, o: 0.0, {1: 1e-9, 2: 2e-3, 3: 0.3}),
    ("GLS", "f3_nc.NonSinglet", (1, 2, 3), ns_series, {1: 1e-9, 2: 3e-2, 3: 0.3}),
    ("GLS", "f3_cc.NonSingletOdd", (1, 2, 3), ns_series, {1: 1e-9, 2: 3e-2, 3: 0.3}),
    ("Bjorken", "g1_nc.NonSinglet", (1, 2), ns_series, {1: 1e-9, 2: 3e-2}),
]


def search_sum_rules(chk, thorough):
    for rule, label, orders, expected, tol in RULES:
        for nf in (3, 4, 5, 6):
            obj = get_class(label)(StubESF(0.1, 10.0), nf)
            for o in orders:
                try:
                    rsl = obj[o]()
                    m1 = first_moment(rsl)
                except Exception as e:  # noqa
                    chk.search_case("first_moment_sum_rules", False, what=f"{rule} {label}[{o}] nf={nf}: {type(e).__name__}: {e}"[:200], data=dict(rule=rule, site=label, order=o, nf=nf))
                    continue
                exp = expected(nf, o)
                d = dict(rule=rule, site=label, order=o, nf=nf, first_moment=m1, expected=exp, tolerance=tol[o])
                chk.search_case("first_moment_sum_rules", abs(m1 - exp) <= tol[o], what=f"{rule} sum rule: first moment of {label} at order a_s^{o}, nf={nf}: {m1} instead of {exp} (tolerance {tol[o]})", data=d, sample=d if rule == "Adler" and nf == 4 else None)
    # exact relations at NLO on the real functions: GLS - Adler = -3 CF, Bjorken = GLS (pointwise)
    for nf in (3, 5):
        f2 = get_class("f2_nc.NonSinglet")(StubESF(0.1, 10.0), nf)[1]()
        f3 = get_class("f3_nc.NonSinglet")(StubESF(0.1, 10.0), nf)[1]()
        g1 = get_class("g1_nc.NonSinglet")(StubESF(0.1, 10.0), nf)[1]()
        worst = 0.0
        for z in ZS:
            a, b, c = (float(x.reg(z, x.args["reg"])) for x in (f2, f3, g1))
            worst = max(worst, abs((b - a) + 2 * CF * (1 + z)), abs(c - b))
        d = dict(nf=nf, worst=worst)
        chk.search_case("nlo_relations", worst <= 1e-9, what=f"nf={nf}: C3q - C2q != -2CF(1+z) or Delta C_q != C3q (max {worst})", data=d)


def search_sum_rules_on_kernels(chk, thorough):
    """the same rules on what a run assembles: in every kernel list the real Combiner builds for a
    charged-current F2 / F3 observable (light, total and flavour-tagged ones), the non-singlet kernel
    whose weights are odd under q <-> qbar multiplies (q - qbar): its coefficient function has the
    Adler (F2) resp. Gross-Llewellyn-Smith (F3) first moment, order by order"""
    import yadism
    from yadism.coefficient_functions import Combiner

    from .. import cards

    max_o = 3 if thorough else 2
    cache = {}
    plans = [("ZM-VFNS", 4, 10.0), ("ZM-VFNS", 4, 100.0), ("FFNS", 4, 30.0)] + ([("ZM-VFNS", 4, 1e5), ("FFNS", 5, 50.0)] if thorough else [])
    for fns, nfff, Q2 in plans:
        for process, proj in ([("CC", "neutrino"), ("NC", "electron")] + ([("CC", "positron")] if thorough else [])):
            names = [f"{k}_{f}" for k in (("F2", "F3") if process == "CC" else ("F3", "g1")) for f in ("light", "total", "charm", "bottom")]
            if process == "NC" and fns != "ZM-VFNS":
                continue
            try:
                runner = yadism.Runner(cards.theory(PTO=max_o, FNS=fns, NfFF=nfff), cards.obs({n_: [dict(x=0.1, Q2=Q2)] for n_ in names}, prDIS=process, ProjectileDIS=proj))
            except Exception as e:  # noqa
                chk.search_case("sum_rules_on_assembled_kernels", False, what=f"{process} {fns} Q2={Q2}: {type(e).__name__}: {e}"[:200], data=dict(FNS=fns, Q2=Q2))
                continue
            for name in names:
                esf = runner.observables[name].elements[0]
                try:
                    comb = Combiner(esf)
                    elems = comb.collect_elems()
                except Exception:
                    continue
                for k in elems:
                    mod = type(k.coeff).__module__
                    cname = type(k.coeff).__name__
                    if ".light." not in mod or "NonSinglet" not in cname:
                        continue
                    qs = sorted({abs(p_) for p_ in k.partons if p_ != 21})
                    odd = bool(qs) and all(abs(k.partons.get(q_, 0.0) + k.partons.get(-q_, 0.0)) <= 1e-14 * max(abs(k.partons.get(q_, 0.0)), 1e-300) for q_ in qs)
                    if name.startswith("g1"):
                        if cname != "NonSinglet":
                            continue
                        rule, expected, tol = "Bjorken", ns_series, {1: 1e-9, 2: 3e-2, 3: 1e9}
                    elif not odd:
                        continue  # not odd under q <-> qbar
                    else:
                        rule, expected, tol = ("Adler", lambda nf, o: 0.0, {1: 1e-9, 2: 2e-3, 3: 0.3}) if name.startswith("F2") else ("GLS", ns_series, {1: 1e-9, 2: 3e-2, 3: 0.3})
                    # the flavour number of the run at this Q2 (the Combiner's), not the one the kernel was built with
                    nf = int(comb.nf)
                    for o in range(1, max_o + 1):
                        if not k.has_order(o):
                            continue
                        key = (mod, cname, int(k.coeff.nf), o)
                        if key not in cache:
                            try:
                                rsl = k.coeff[o]()
                                cache[key] = None if rsl is None else first_moment(rsl)
                            except Exception as e:  # noqa
                                cache[key] = e
                        m1 = cache[key]
                        if m1 is None:
                            continue
                        d = dict(rule=rule, obs=name, process=process, FNS=fns, Q2=Q2, projectile=proj, kernel=mod.split(".")[-1] + "." + cname, nf=nf, kernel_built_with_nf=int(k.coeff.nf), order=o, first_moment=None if isinstance(m1, Exception) else m1, expected=expected(nf, o), tolerance=tol[o])
                        ok = not isinstance(m1, Exception) and abs(m1 - expected(nf, o)) <= tol[o]
                        chk.search_case("sum_rules_on_assembled_kernels", ok, what=f"{rule}: {name} {process} {fns} Q2={Q2} (nf={nf}): the non-singlet kernel is {d['kernel']} with first moment {m1} at a_s^{o} instead of {expected(nf, o)}", data=d, sample=d if name == "F2_charm" and o == 2 else None)


def published_rsl(key, nf):
    """an RSL-like object built from the published closed forms only (nothing of yadism's kernels)"""
    import types

    reg, distr = PUBLISHED[key]
    o = types.SimpleNamespace(args=dict(reg=None, sing=None, loc=None), reg=lambda z, _a, _r=reg, _n=nf: _r(z, _n), sing=None, loc=None)
    if distr is not None:
        d0, c1, c2 = distr
        o.sing = lambda z, _a: c1 / (1 - z) + c2 * math.log(1 - z) / (1 - z)
        o.loc = lambda x, _a: d0 + c1 * math.log(1 - x) + c2 * math.log(1 - x) ** 2 / 2
    return o


def search_runs_vs_closed_forms(chk, r, n, oracle="nlo_runs_vs_closed_forms"):
    """first-principles reference for the simplest family (photon exchange, massless scheme, up to
    a_s): every entry of the operator of a real run is x e_q^2 p_j(x) at LO and
    x e_q^2 (C_q (x) p_j)(x), x sum_q e_q^2 (C_g/nf (x) p_j)(x) at NLO, with the published closed
    forms, the charges, nf = 3 + #{(k m)^2 <= Q2} and an independent quadrature; the card's evolution
    order, an explicit PTODIS and the threshold ratios are varied (none of them may change a_s^1)"""
    import yadism

    from .. import cards
    from .c01 import indep_convolution

    PIDS = [22, -6, -5, -4, -3, -2, -1, 21, 1, 2, 3, 4, 5, 6]
    e2 = {q_: (4 / 9 if q_ % 2 == 0 else 1 / 9) for q_ in range(1, 7)}
    forced = [dict(kind="F2", fl="total", pto=1, ptodis=None, kc=2.0, kb=1.0, Q2=6.0), dict(kind="F2", fl="light", pto=0, ptodis=1, kc=1.0, kb=1.0, Q2=20.0),
              dict(kind="FL", fl="total", pto=0, ptodis=1, kc=1.0, kb=1.0, Q2=20.0), dict(kind="F2", fl="total", pto=2, ptodis=1, kc=0.7, kb=1.5, Q2=40.0)]
    for i in range(n + len(forced)):
        c = forced[i] if i < len(forced) else dict(kind=r.choice(["F2", "F2", "FL"]), fl=r.choice(["total", "light"]), pto=r.choice([0, 1, 2]), ptodis=r.choice([None, 1]), kc=float(r.choice([1.0, 2.0, 0.7])), kb=float(r.choice([1.0, 1.5])), Q2=float(r.choice([1.5, 3.0, 6.0, 20.0, 40.0, 300.0])))
        if c["ptodis"] is None and c["pto"] != 1:
            c["ptodis"] = 1
        mc, mb, mt = 1.51, 4.92, 172.5
        nf = 3 + sum(1 for m_, k_ in ((mc, c["kc"]), (mb, c["kb"]), (mt, 1.0)) if (k_ * m_) ** 2 <= c["Q2"])
        N = r.choice([6, 7])
        grid = cards.default_grid(N, 0.01)
        x = float(r.uniform(grid[1], 0.9))
        name = f"{c['kind']}_{c['fl']}"
        case = dict(c, obs=name, x=x, nf=nf, N=N)
        try:
            runner = yadism.Runner(cards.theory(PTO=c["pto"], PTODIS=c["ptodis"], FNS="ZM-VFNS", kcThr=c["kc"], kbThr=c["kb"], Q0=1.0), cards.obs({name: [dict(x=x, Q2=c["Q2"])]}, prDIS="EM", interpolation_xgrid=grid, interpolation_polynomial_degree=3))
            real = runner.get_result()[name][0]
            interp = runner.configs.interpolator
            ref = {0: np.zeros((14, N)), 1: np.zeros((14, N))}
            pj = np.array([float(p_(x)) for p_ in interp])
            cq = x * indep_convolution(published_rsl(c["kind"] + "q", nf), x, interp, grid)
            cg = x * indep_convolution(published_rsl(c["kind"] + "g", nf), x, interp, grid) / nf
            for q_ in range(1, nf + 1):
                for sg in (1, -1):
                    if c["kind"] == "F2":
                        ref[0][PIDS.index(sg * q_)] = e2[q_] * x * pj
                    ref[1][PIDS.index(sg * q_)] = e2[q_] * cq
                ref[1][PIDS.index(21)] += e2[q_] * cg
        except Exception as e:  # noqa
            chk.search_case(oracle, False, what=f"{name} {c}: {type(e).__name__}: {e}"[:220], data=case)
            continue
        worst, at, scale = 0.0, None, 0.0
        for o in (0, 1):
            v = np.asarray(real.orders[(o, 0, 0, 0)][0]) if (o, 0, 0, 0) in real.orders else np.zeros_like(ref[o])
            e = np.asarray(real.orders[(o, 0, 0, 0)][1]) if (o, 0, 0, 0) in real.orders else np.zeros_like(ref[o])
            scale = max(scale, float(np.abs(ref[o]).max()), float(np.abs(v).max()))
        for o in (0, 1):
            v = np.asarray(real.orders[(o, 0, 0, 0)][0]) if (o, 0, 0, 0) in real.orders else np.zeros_like(ref[o])
            e = np.asarray(real.orders[(o, 0, 0, 0)][1]) if (o, 0, 0, 0) in real.orders else np.zeros_like(ref[o])
            ex = np.abs(v - ref[o]) - (2e-7 * max(scale, 1e-300) + 5.0 * np.abs(e))
            if ex.max() > worst:
                idx = np.unravel_index(int(ex.argmax()), ex.shape)
                worst, at = float(ex.max()), dict(order=o, pid=PIDS[idx[0]], basis=int(idx[1]), real=float(v[idx]), reference=float(ref[o][idx]))
        case.update(at=at, scale=scale)
        chk.search_case(oracle, worst <= 0.0, what=f"{name} EM ZM-VFNS PTO={c['pto']} PTODIS={c['ptodis']} kcThr={c['kc']} kbThr={c['kb']} Q2={c['Q2']} (nf={nf}) x={x:.4g}: entry {at} differs from the published coefficient function convolved with the basis", data=case, sample=case if i == 0 else None, nontrivial=scale > 0)


def run(tier):
    chk = common.Check("C04", tier)
    thorough = tier == "thorough"
    r = common.rng("C04")
    rep = corr_kernels.regenerate(chk)
    nlo = translate_nlo.generate_nlo(rep)
    ok, log, dt = common.lake_build(["YadismModel.Generated.NLO"])
    chk.obligation("nlo-sites-translated", ok and not nlo["failed"], (str(nlo["failed"]) + log[-300:]) if not (ok and not nlo["failed"]) else "")
    chk.extra["nlo_translator"] = dict(sites=[(a, b.split(".")[-2] + "." + b.split(".")[-1]) for a, b, _, _, _ in nlo["rows"]], failed=nlo["failed"])
    common.lean_proof_step(chk, "YadismModel.Properties.C04", thorough=thorough)
    sub = dict(kernels={k: v for k, v in rep["kernels"].items() if ".light.nlo." in k}, untranslated={k: v for k, v in rep["untranslated"].items() if ".light.nlo." in k})
    corr_kernels.run_kernels(chk, r, 30 if thorough else 6, report=sub, stream="nlo_kernel_translation")
    search_closed_forms(chk, r)
    search_sum_rules(chk, thorough)
    search_sum_rules_on_kernels(chk, thorough)
    search_runs_vs_closed_forms(chk, r, 24 if thorough else 4)
    chk.assumptions += [
        "PARTIAL for the sum rules. Proved: all seven NLO closed forms for all 0<z<1 and all nf on the terms regenerated from the source (and the class -> kernel/coefficients table read from the live classes), GLS(NLO) - Adler(NLO) = -4 exactly, Bjorken(NLO) = GLS(NLO), the plus-distribution has no first moment. The value of the Adler moment at NLO needs int_0^1 ln z/(1-z) = -pi^2/6 (not in Mathlib) and the NNLO/N3LO coefficients are fitted parametrisations: the sum rules are evaluated numerically on the real functions, with tolerances equal to the published accuracy of the parametrisations (2e-3 / 0.3 on the Adler moment, 3e-2 / 0.3 on GLS/Bjorken against values of O(50) / O(1000))",
        "the non-singlet GLS coefficient is compared with the Larin-Vermaseren series without the light-by-light (d_abc) term, which yadism carries in a separate flavour class",
        "decimal literals are exact; CF = 4/3, TR = 1/2, pi = Real.pi are hypotheses of the theorems (StdC)",
    ]
    return chk
