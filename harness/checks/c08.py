"""C08 — FFN0 is the high-virtuality limit of FFNS (partial: weights proved, decay observed)."""

import numpy as np

from .. import cards, common, corr_weights, realrun

MH = 1.5  # mass of the single massive quark used by the scans


def contracted(out, name, pdf):
    """per-order contraction (dict order -> float) of point 0"""
    res = out[name][0]
    xs = out["xgrid"]["grid"]
    f = np.array([[pdf.xfxQ2(pid, x, res.Q2) / x if pdf.hasFlavor(pid) else 0.0 for x in xs] for pid in out["pids"]])
    return {k: float(np.sum(np.array(v[0]) * f)) for k, v in res.orders.items()}


def scan(chk, r, cases, ratios, max_pto):
    pdf = cards.ToyPDF()
    expanded = []
    for case in cases:
        opts = case[4] if len(case) > 4 else {}
        if "x" in opts:
            expanded.append(case)
        else:  # two x values: an accidental cancellation at one x must not hide a wrong limit
            for xv in (0.1, 0.3):
                expanded.append(tuple(case[:4]) + (dict(opts, x=xv),))
    for case in expanded:
        process, kind, fl, proj = case[:4]
        opts = case[4] if len(case) > 4 else {}
        grid = cards.mixed_grid(12, 10) if not opts.get("small_grid") else cards.mixed_grid(5, 5, 1e-2, 0.2)
        pto_here = opts.get("pto", max_pto)
        x = float(opts.get("x", r.choice([0.05, 0.1, 0.3])))
        if fl in ("light", "total"):
            th_kw = dict(NfFF=5, mt=MH)  # only the top is massive; it plays the heavy quark
        elif opts.get("second"):
            # the heavy quark is *not* the first massive one: bottom with three light flavours
            th_kw = dict(NfFF=3, mc=1.0, mb=MH)
        else:
            hq = dict(charm="mc", bottom="mb", top="mt")[fl]
            th_kw = dict(NfFF={"charm": 3, "bottom": 4, "top": 5}[fl])
            th_kw[hq] = MH
        ratios_here = opts.get("ratios", ratios)
        name = f"{kind}_{fl}"
        series = {}
        try:
            for ratio in ratios_here:
                Q2 = float(ratio * MH * MH)
                d = {}
                for fns in ("FFNS", "FFN0"):
                    # evolution order above the order of the coefficient functions: FFN0 then builds one more
                    # logarithmic tower, which must not contribute below its own order
                    pto_kw = dict(PTO=pto_here) if "pto_evol" not in opts else dict(PTO=opts["pto_evol"], PTODIS=pto_here)
                    out = realrun.run(cards.theory(FNS=fns, IC=opts.get("ic", 1), **pto_kw, **th_kw), cards.obs({name: [dict(x=x, Q2=Q2)]}, prDIS=process, ProjectileDIS=proj, interpolation_xgrid=grid, interpolation_is_log=not opts.get("linear", False)))
                    d[fns] = contracted(out, name, pdf)
                for k in d["FFNS"]:
                    if k[2] == 0 and k[3] == 0:
                        series.setdefault(k, []).append((ratio, d["FFNS"][k] - d["FFN0"].get(k, 0.0), abs(d["FFNS"][k])))
        except Exception as e:
            chk.extra.setdefault("search_exceptions", {})
            kk = f"{name}/{process}:{type(e).__name__}:{str(e)[:80]}"
            chk.extra["search_exceptions"][kk] = chk.extra["search_exceptions"].get(kk, 0) + 1
            continue
        for k, ser in series.items():
            # between the first and the last ratio the difference must fall at least like
            # (m2/Q2)^0.8, down to the quadrature floor
            # (relative to the size of the FFNS term: NC weights themselves grow with Q2)
            (r0, d0, s0), (r1, d1, s1) = ser[0], ser[-1]
            if s0 == 0.0 and s1 == 0.0:
                continue
            e0, e1 = abs(d0) / max(s0, 1e-300), abs(d1) / max(s1, 1e-300)
            # floor: accuracy of the quadrature / interpolation of the contraction itself (measured
            # on the pinned tree: up to 6e-5 at the lowest grid node); exponent 0.6 leaves room for
            # the logarithms that multiply m2/Q2
            # at NNLO the massive coefficient functions come from LeProHQ grids: their own accuracy at
            # Q2/m2 >= 1e4 is at the per-cent level (non-monotonic series seen on the pinned tree)
            floor = 2e-4 if k[0] <= 1 else 2e-2
            bound = max(e0 * (r0 / r1) ** 0.6, floor)
            # a term that is itself mass-suppressed (FL at LO: FFN0 is exactly 0, FFNS ~ m2/Q2) never
            # decays *relative to itself*: there the absolute difference must vanish like the power
            # (only when the FFNS term itself, s, falls like that power: otherwise the relative test stands)
            abs_ok = abs(d1) <= abs(d0) * (r0 / r1) ** 0.6 and s1 <= s0 * (r0 / r1) ** 0.6
            ok = e1 <= bound or abs_ok
            d0 = e0
            sample = dict(obs=name, process=process, projectile=proj, IC=opts.get("ic", 1), PTO_evolution=opts.get("pto_evol", pto_here), interpolation_is_log=not opts.get("linear", False), order=list(k), x=x, series=[(a, b, c) for a, b, c in ser], rel_first=e0, rel_last=e1, bound=bound)
            chk.search_case("ffns_minus_ffn0_decays", ok, what=f"{name} {process} order {k[0]}: FFNS-FFN0 does not vanish like a power of m2/Q2", data=sample, sample=sample, nontrivial=abs(d0) > floor)


def search_mirror(chk, r, n):
    """on the real Combiner: FFN0 kernels carry the weights of their FFNS counterparts"""
    import yadism
    from yadism.coefficient_functions import Combiner

    for t, o in corr_weights.combiner_configs(r, n, schemes=["FFNS", "FONLL-FFNS"]):
        t0 = dict(t, FNS=t["FNS"].replace("FFNS", "FFN0"))
        try:
            ra, rb = yadism.Runner(t, o), yadism.Runner(t0, o)
        except Exception:
            continue
        for name in ra.observables:
            for ea, eb in zip(ra.observables[name].elements[:1], rb.observables[name].elements[:1]):
                try:
                    ka = corr_weights.canon_py_kernels([k for comp in Combiner(ea).collect() for k in comp])
                    kb = corr_weights.canon_py_kernels([k for comp in Combiner(eb).collect() for k in comp])
                except Exception as e:
                    chk.extra.setdefault("search_exceptions", {})
                    kk = f"mirror:{type(e).__name__}:{str(e)[:60]}"
                    chk.extra["search_exceptions"][kk] = chk.extra["search_exceptions"].get(kk, 0) + 1
                    continue
                # weight maps present on the massive side, per (family-agnostic) heavy quark
                def wset(ks, fams):
                    return {tuple(round(v, 13) for v in w) for kid, w in ks if kid[0] in fams and any(w)}

                massive = wset(ka, ("heavy", "intrinsic"))
                asy = wset(kb, ("asy",))
                missing = [x for x in asy if x not in massive]
                sample = dict(obs=name, FNS=t["FNS"], NfFF=t["NfFF"], process=o["prDIS"], pto_evol=t["PTO"], n_massive=len(massive), n_asy=len(asy), unmatched=len(missing))
                chk.search_case("ffn0_weights_mirror_ffns", not missing, what=f"{name} {o['prDIS']}: an asymptotic kernel carries weights no massive kernel has", data=sample, sample=sample, nontrivial=len(asy) > 0)


def run(tier):
    chk = common.Check("C08", tier)
    thorough = tier == "thorough"
    common.lean_proof_step(chk, "YadismModel.Properties.C08", thorough=thorough)
    r = common.rng("C08")
    corr_weights.run_combiner(chk, 250 if thorough else 25, r, mode="ids", schemes=["FFNS", "FFN0", "FONLL-FFNS", "FONLL-FFN0"])
    search_mirror(chk, r, 150 if thorough else 20)
    quick_cases = [("CC", "F2", "charm", "neutrino"), ("EM", "F2", "charm", "electron"), ("NC", "F3", "charm", "electron"), ("CC", "F3", "charm", "antineutrino")]
    more = [("CC", "FL", "charm", "neutrino"), ("EM", "FL", "charm", "electron"), ("NC", "F2", "bottom", "positron"), ("EM", "F2", "light", "electron"), ("EM", "F2", "total", "electron"), ("CC", "F2", "bottom", "electron"), ("NC", "g1", "charm", "electron"), ("CC", "F2", "total", "neutrino")]
    special = [("EM", "F2", "bottom", "electron", dict(second=True)), ("EM", "F2", "charm", "electron", dict(x=1e-3, ratios=[1e3, 1e6]))]
    if thorough:
        scan(chk, r, quick_cases + more + [("EM", "F2", "charm", "electron", dict(ic=0)), ("CC", "F2", "charm", "antineutrino", dict(ic=0)), ("NC", "F2", "total", "electron", dict(ic=0))], [1e2, 1e3, 1e4, 1e5], 2)
        scan(chk, r, special + [("CC", "F2", "bottom", "neutrino", dict(second=True)), ("EM", "FL", "charm", "electron", dict(x=1e-3, ratios=[1e3, 1e4, 1e5, 1e6])), ("EM", "F2", "charm", "electron", dict(x=1e-2, ratios=[1e3, 1e6]))], [1e2, 1e3, 1e4, 1e5, 1e6], 1)
    else:
        # theory flag IC=0 (no intrinsic charm in the PDF fit) must not change which kernels exist on
        # either side; one NNLO photon-exchange case on a small grid (the light-quark initiated
        # heavy-quark loops first appear at a_s^2)
        extra = [("EM", "F2", "charm", "electron", dict(ic=0, x=0.1)), ("CC", "F3", "charm", "neutrino", dict(ic=0, x=0.1)), ("EM", "F2", "light", "electron", dict(pto=2, small_grid=True, x=0.1)), ("NC", "F2", "light", "electron", dict(pto=2, small_grid=True, x=0.3)),
                 # the a_s^2 massive coefficients with the axial coupling exist only with Z exchange (NC), FL has its own set
                 ("NC", "FL", "charm", "electron", dict(pto=2, small_grid=True, x=0.1)), ("NC", "F2", "bottom", "positron", dict(pto=2, small_grid=True, x=0.1)),
                 # evolution at a_s^3 with coefficient functions at a_s^2 (one more asymptotic tower is built);
                 # interpolation linear in x (the heavy-quark initiated matching term is the only coefficient
                 # with a plus distribution and no regular part)
                 ("EM", "F2", "charm", "electron", dict(pto=2, pto_evol=3, small_grid=True, x=0.1)),
                 ("EM", "F2", "charm", "electron", dict(linear=True, x=0.3)), ("CC", "F3", "charm", "neutrino", dict(linear=True, x=0.1))]
        scan(chk, r, quick_cases + special + extra, [1e2, 1e4], 1)
    chk.level = "proof"
    chk.assumptions += [
        "PARTIAL: Lean proves that FFN0 and FFNS kernels carry identical parton weights (the limit reduces to the partonic coefficient functions); the decay of C_massive - C_asymptotic for LeProHQ/adani/closed-form coefficients is observed on real runs, not proved",
        "scans use one massive quark of mass 1.5 GeV so that Q2/m2 up to 1e5 stays inside double precision comfort",
    ]
    return chk
