"""C06 — number of active flavours follows the thresholds and the scheme."""

import math

import numpy as np

from .. import cards, common, corr_sv, realrun
from ..common import Driver, q, unq


def ext(v):
    return "inf" if math.isinf(v) else q(float(v))


def corr(chk, r, n):
    import yadism
    from yadism.coefficient_functions import Combiner
    from yadism.input import compatibility

    drv = Driver()
    pend = []
    # update_fns: exhaustive over schemes x NfFF
    for s in cards.SCHEMES + ["VFNS"]:
        for nfff in (3, 4, 5, 6):
            t = cards.theory(FNS=s, NfFF=nfff, kcThr=1.25, kbThr=1.5, ktThr=1.75)
            try:
                compatibility.update_fns(t)
                py = []
                for fl, orig in zip("cbt", (1.25, 1.5, 1.75)):
                    k = t[f"k{fl}Thr"]
                    kt = "keep" if k == orig else ("zero" if k == 0.0 else ("inf" if math.isinf(k) else "other"))
                    zm = t.get(f"ZM{fl}")
                    py.append(f"{kt}:{'-' if zm is None else int(bool(zm))}")
                py = " ".join(py)
            except ValueError:
                py = "bad-op"
            pend.append(("update_fns", drv.add(f"fns {s} {nfff}"), py, dict(FNS=s, NfFF=nfff), f"{s}/{nfff}", None))
    for _ in range(n):
        scheme = r.choice(cards.SCHEMES)
        nfff = r.choice([3, 4, 5, 6])
        unsorted = r.random() < 0.2
        mc, mb, mt = sorted(float(math.exp(r.uniform(math.log(0.8), math.log(300)))) for _ in range(3))
        if unsorted:
            mc, mb = mb, mc
        ks = [float(r.choice([1.0, 1.0, 2.0, 0.5, r.uniform(0.5, 3)])) for _ in range(3)]
        t = cards.theory(FNS=scheme, NfFF=nfff, mc=mc, mb=mb, mt=mt, kcThr=ks[0], kbThr=ks[1], ktThr=ks[2], PTO=0)
        walls_guess = [(m * k) ** 2 for m, k in zip((mc, mb, mt), ks)]
        q2s = []
        for w in walls_guess:
            w = float(np.power(np.array([w**0.5]), 2)[0])
            q2s += [w, float(np.nextafter(w, 0)), float(np.nextafter(w, np.inf))]
        q2s += [cards.rand_q2(r) for _ in range(3)]
        try:
            runner = yadism.Runner(t, cards.obs({"F2_total": [dict(x=0.1, Q2=1.0)]}))
        except Exception as e:
            chk.notes.append(f"runner failed: {e}"[:100])
            continue
        walls = [float(w) for w in runner.configs.threshold.walls]
        # exact boundary values of the walls the real code built
        for w in walls[1:4]:
            if 0 < w < math.inf:
                q2s += [w, float(np.nextafter(w, 0)), float(np.nextafter(w, np.inf))]
        m2 = [float(v) for v in np.power([mc, mb, mt], 2)]
        k2 = [float(v) for v in np.power(ks, 2)]
        pend.append(("matching_scales", drv.add(f"ms {scheme} {nfff} {' '.join(q(v) for v in m2)} {' '.join(q(v) for v in k2)}"), walls[1:4], dict(FNS=scheme, NfFF=nfff, m2=m2, k2=k2), f"{scheme}/{nfff}", None))
        sf = runner.observables["F2_total"]
        from yadism.esf.esf import EvaluatedStructureFunction as ESF

        for Q2 in q2s:
            if not (Q2 > 0):
                continue
            esf = ESF(dict(x=0.1, Q2=Q2), sf.obs_name, runner.configs)
            try:
                py = str(int(Combiner(esf).nf))
            except ValueError:
                py = "rejected"
            pos = "at" if Q2 in walls else ("near" if any(0 < w < math.inf and abs(Q2 - w) <= 4e-16 * w for w in walls) else "away")
            pend.append(("nf_default", drv.add(f"nf {q(Q2)} {' '.join(ext(w) for w in walls[1:4])}"), py, dict(FNS=scheme, NfFF=nfff, Q2=Q2, walls=walls, py_nf=py), f"{scheme}/{pos}/{'unsorted' if unsorted else 'sorted'}/nf{py}", None))
    lines = drv.run()
    for stream, idx, py, sample, feat, _ in pend:
        m = lines[idx]
        if stream == "matching_scales":
            mm = [math.inf if t_ == "inf" else float(unq(t_)) for t_ in m.split()]
            ok = all((a == b) or (math.isfinite(a) and math.isfinite(b) and abs(a - b) <= 4e-16 * abs(b)) for a, b in zip(mm, py))
            chk.corr_case(stream, ok, sample, None if ok else dict(sample=sample, py=py, model=m), feat)
        else:
            ok = m == py
            chk.corr_case(stream, ok, sample, None if ok else dict(sample=sample, py=py, model=m), feat)


def search(chk, r, n):
    """real runs across a wall: (2,0,1,0) = -beta0(nf) * (1,0,0,0) with nf from an independent count"""
    plan = []
    # deterministic part: ratios != 1, on both sides of where the wall is and of where a wrongly
    # built wall (m^2 k, m k^2, m^2) would be
    for kc in (2.0, 0.7):
        w = float(np.power(np.array([1.51]), 2)[0] * np.power(np.array([kc]), 2)[0])
        for f in (0.75, 1.0, 1.3):
            plan.append((1.51, kc, "c", w * f if f != 1.0 else w, ("ZM-VFNS", 4)))
    # fixed-flavour schemes below the mass of a quark that NfFF declares active: still NfFF
    plan += [(1.51, 1.0, "c", 1.5, ("FFNS", 4)), (1.51, 1.0, "b", 10.0, ("FFNS", 5)), (1.51, 2.0, "c", 1.5, ("FONLL-FFNS", 4))]
    for _ in range(n):
        mc = float(r.choice([1.51, 1.3, 2.0]))
        kc = float(r.choice([1.0, 2.0, 0.7]))
        which = r.choice(["c", "b"])
        w = float(np.power(np.array([mc if which == "c" else 4.92]), 2)[0] * np.power(np.array([kc if which == "c" else 1.0]), 2)[0])
        Q2 = float(r.choice([w, float(np.nextafter(w, 0)), float(np.nextafter(w, np.inf)), w * 1.5, w * 0.7]))
        plan.append((mc, kc, which, Q2, r.choice([("ZM-VFNS", 4), ("ZM-VFNS", 4), ("FFNS", 3), ("FFNS", 4), ("FFN0", 5), ("FONLL-FFNS", 4)])))
    for mc, kc, which, Q2, (scheme, nfff) in plan:
        mb = 4.92
        w = float(np.power(np.array([mc if which == "c" else mb]), 2)[0] * np.power(np.array([kc if which == "c" else 1.0]), 2)[0])
        t = cards.theory(PTO=2, FNS=scheme, NfFF=nfff, mc=mc, kcThr=kc, mb=mb)
        name = "F3_light" if scheme != "ZM-VFNS" else r.choice(["F2_light", "F3_light"])
        out = realrun.run(t, cards.obs({name: [dict(x=0.2, Q2=Q2)]}, prDIS="NC", interpolation_xgrid=cards.default_grid(8)))
        res = out[name][0]
        if scheme == "ZM-VFNS":
            nf = 3 + sum(1 for ww in ((mc * kc), mb, 172.5) if float(np.power(np.array([ww]), 2)[0]) <= Q2)
            # the wall as the code computes it: m^2 * k^2
            walls = [float(np.power(np.array([mc]), 2)[0] * np.power(np.array([kc]), 2)[0]), float(np.power(np.array([mb]), 2)[0]), 172.5**2]
            nf = 3 + sum(1 for ww in walls if ww <= Q2)
        else:
            nf = nfff
        beta0 = 11.0 - 2.0 * nf / 3.0
        a = np.array(res.orders[(2, 0, 1, 0)][0])
        b = np.array(res.orders[(1, 0, 0, 0)][0])
        d = float(np.abs(a + beta0 * b).max())
        s = float(np.abs(b).max()) * beta0
        sample = dict(obs=name, FNS=scheme, NfFF=nfff, Q2=Q2, wall=w, nf_expected=nf, maxdiff=d, scale=s, mc=mc, kcThr=kc)
        chk.search_case("beta0_follows_nf", d <= 1e-11 * max(s, 1e-300), what=f"{scheme}: (2,0,1,0) != -beta0(nf={nf})*(1,0,0,0) at Q2={Q2}", data=sample, sample=sample, nontrivial=s > 0)


def search_heavy_beta(chk, r, n):
    """fixed-flavour schemes: the beta-function coefficient of *every* contribution (light, heavy,
    heavy-quark initiated) uses NfFF — read off below the pair threshold where F2_bottom/top is
    the heavy-quark initiated piece alone"""
    for _ in range(n):
        nfff, name, Q2, x = r.choice([(3, "F2_bottom", 50.0, 0.7), (3, "F2_bottom", 90.0, 0.5), (4, "F2_top", 1e5, 0.5), (4, "F2_bottom", 50.0, 0.7)])
        # Q2(1-x)/x <= 4 m^2: no pair production, but x/eta < 1: the heavy-quark initiated piece is there
        t = cards.theory(PTO=2, FNS="FFNS", NfFF=nfff)
        try:
            res = realrun.run(t, cards.obs({name: [dict(x=x, Q2=Q2)]}, prDIS="EM", interpolation_xgrid=cards.default_grid(8, 1e-2)))[name][0]
        except Exception as e:
            chk.extra.setdefault("search_exceptions", {})
            k = f"heavy-beta:{type(e).__name__}:{str(e)[:80]}"
            chk.extra["search_exceptions"][k] = chk.extra["search_exceptions"].get(k, 0) + 1
            continue
        beta0 = 11.0 - 2.0 * nfff / 3.0
        a = np.array(res.orders[(2, 0, 1, 0)][0])
        b = np.array(res.orders[(1, 0, 0, 0)][0])
        d = float(np.abs(a + beta0 * b).max())
        sc = float(np.abs(b).max()) * beta0
        sample = dict(obs=name, NfFF=nfff, x=x, Q2=Q2, maxdiff=d, scale=sc)
        chk.search_case("beta0_of_heavy_pieces", d <= 1e-10 * max(sc, 1e-300), what=f"FFNS NfFF={nfff} {name}: (2,0,1,0) != -beta0(NfFF)*(1,0,0,0)", data=sample, sample=sample, nontrivial=sc > 0)


def search_inactive_rows(chk, r, n):
    """fixed-flavour schemes: only the NfFF light quarks, the gluon and the tagged heavy quark itself
    can be incoming partons of a massive heavy structure function: the rows of every other quark
    vanish (the heavy kernels are built with the scheme's nf, not with the flavour number of the
    produced quark)"""
    plans = [
        ("FFNS", 3, "F2_bottom", "CC", "neutrino", 1, 0.1, 300.0),
        ("FFNS", 3, "F3_bottom", "CC", "antineutrino", 1, 0.05, 3e4),
        ("FFN0", 3, "F2_bottom", "CC", "electron", 1, 0.1, 300.0),
        ("FFNS", 4, "F2_top", "CC", "neutrino", 1, 0.01, 3e5),
        ("FFNS", 3, "F2_bottom", "EM", "electron", 2, 0.05, 300.0),
        ("FFNS", 3, "F2_top", "EM", "electron", 2, 0.001, 3e5),
        # variable-flavour scheme: a heavy-flavour observable below its own matching scale has no
        # active quark to couple to (nf counts the thresholds below Q2; default masses 1.51, 4.92, 172.5)
        ("ZM-VFNS", 3, "F2_charm", "EM", "electron", 1, 0.1, 1.5),
        ("ZM-VFNS", 4, "FL_bottom", "NC", "electron", 1, 0.1, 10.0),
        ("ZM-VFNS", 3, "F2_bottom", "EM", "positron", 0, 0.1, 2.0),
        ("ZM-VFNS", 5, "F2_top", "NC", "electron", 1, 0.05, 300.0),
        # FONLL: only the NfFF+1-th quark is massive, the ones above it never contribute
        ("FONLL-FFNS", 4, "F2_top", "NC", "electron", 1, 0.05, 300.0),
        ("FONLL-FFN0", 4, "F2_top", "EM", "electron", 1, 0.05, 300.0),
    ]
    B = realrun.BASIS
    for i in range(n):
        fns, nfff, name, proc, proj, pto, x, Q2 = plans[(i * 5) % len(plans)] if n < len(plans) else plans[i % len(plans)]
        tagged = {"charm": 4, "bottom": 5, "top": 6}[name.split("_")[1]]
        if fns == "ZM-VFNS" or fns.startswith("FONLL"):
            # here `nfff` is the number of active quarks at this Q2 and the tagged quark is *not* massive:
            # no quark above nf may appear at all (for FONLL the massive quark NfFF+1 is not the tagged one)
            tagged = nfff + 1 if fns.startswith("FONLL") else 0
        try:
            res = realrun.run(cards.theory(PTO=pto, FNS=fns, NfFF=nfff if fns != "ZM-VFNS" else 4, IC=0), cards.obs({name: [dict(x=x, Q2=Q2)]}, prDIS=proc, ProjectileDIS=proj, interpolation_xgrid=cards.default_grid(8, 1e-3)))[name][0]
        except Exception as e:
            chk.extra.setdefault("search_exceptions", {})
            k = f"inactive-rows:{type(e).__name__}:{str(e)[:80]}"
            chk.extra["search_exceptions"][k] = chk.extra["search_exceptions"].get(k, 0) + 1
            continue
        rows = [B.index(sg * q_) for q_ in range(nfff + 1, 7) if q_ != tagged for sg in (1, -1)]
        worst = max(float(np.abs(np.asarray(v)[rows]).max()) for v, _ in res.orders.values())
        scale = max(float(np.abs(np.asarray(v)).max()) for v, _ in res.orders.values())
        sample = dict(obs=name, FNS=fns, NfFF=nfff, process=proc, PTO=pto, x=x, Q2=Q2, inactive_quarks=[q_ for q_ in range(nfff + 1, 7) if q_ != tagged], max_abs_in_their_rows=worst, scale=scale)
        chk.search_case("inactive_flavour_rows_zero", worst == 0.0, what=f"{fns} NfFF={nfff} {name} {proc} PTO={pto}: quarks {sample['inactive_quarks']} are not active but their operator rows reach {worst:.3g} (operator scale {scale:.3g})", data=sample, sample=sample if i == 0 else None, nontrivial=scale > 0)


def search_reused_card(chk, r, n):
    """the thresholds a run uses are those of the card it is given: running a fixed-flavour scheme
    and then the variable-flavour scheme *from the same card object* gives what a fresh card gives
    (nf follows the masses and ratios the user wrote, not what an earlier run left behind)"""
    import copy

    import yadism

    plans = [("FFNS", 3), ("FONLL-FFNS", 4), ("FFN0", 4), ("FFNS", 5)]
    for i in range(n):
        first, nfff = plans[i % len(plans)]
        name = ["F2_total", "FL_total"][i % 2]
        pts = [dict(x=0.1, Q2=q_) for q_ in (1.5, 10.0, 50.0)]
        o = cards.obs({name: pts}, prDIS="EM", interpolation_xgrid=cards.default_grid(8, 1e-2))
        card = cards.theory(PTO=1, FNS=first, NfFF=nfff)
        try:
            yadism.run_yadism(card, copy.deepcopy(o))
            card["FNS"] = "ZM-VFNS"
            second = yadism.run_yadism(card, copy.deepcopy(o))[name]
            fresh = yadism.run_yadism(cards.theory(PTO=1, FNS="ZM-VFNS", NfFF=nfff), copy.deepcopy(o))[name]
        except Exception as e:
            chk.extra.setdefault("search_exceptions", {})
            k = f"reused-card:{type(e).__name__}:{str(e)[:80]}"
            chk.extra["search_exceptions"][k] = chk.extra["search_exceptions"].get(k, 0) + 1
            continue
        bad = [p["Q2"] for p, a, b in zip(pts, second, fresh) if not realrun.identical(a, b)]
        sample = dict(obs=name, first_scheme=first, NfFF=nfff, then="ZM-VFNS", Q2_with_differences=bad, thresholds_in_card_after={k: card.get(k) for k in ("kcThr", "kbThr", "ktThr")})
        chk.search_case("scheme_after_scheme_same_card", not bad, what=f"{name}: ZM-VFNS run from a card first used for {first} NfFF={nfff} differs from the fresh-card run at Q2={bad}", data=sample, sample=sample if i == 0 else None, nontrivial=True)


def search_single_flavour_share(chk, r, n):
    """a flavour-tagged massless observable is the tagged quark's share of the light structure
    function with the *same* nf: in photon exchange its gluon row is e_h^2 / sum_{q <= nf} e_q^2 of the
    gluon row of F_light (nf from the thresholds, or NfFF), at every order computed"""
    e2 = {q_: (4 / 9 if q_ % 2 == 0 else 1 / 9) for q_ in range(1, 7)}
    plans = [("ZM-VFNS", 4, "charm", 100.0), ("ZM-VFNS", 4, "charm", 1e5), ("ZM-VFNS", 4, "bottom", 1e5), ("FFNS", 5, "charm", 30.0), ("ZM-VFNS", 4, "charm", 10.0)]
    g = realrun.BASIS.index(21)
    for i in range(n):
        fns, nfff, fl, Q2 = plans[i % len(plans)]
        kind = ["F2", "FL"][(i // len(plans)) % 2]
        ih = {"charm": 4, "bottom": 5}[fl]
        nf = nfff if fns != "ZM-VFNS" else 3 + sum(1 for m_ in (1.51, 4.92, 172.5) if m_ * m_ <= Q2)
        names = [f"{kind}_light", f"{kind}_{fl}"]
        try:
            out = realrun.run(cards.theory(PTO=1, FNS=fns, NfFF=nfff), cards.obs({n_: [dict(x=0.1, Q2=Q2)] for n_ in names}, prDIS="EM", interpolation_xgrid=cards.default_grid(8, 1e-2)))
        except Exception as e:
            chk.extra.setdefault("search_exceptions", {})
            k = f"share:{type(e).__name__}:{str(e)[:80]}"
            chk.extra["search_exceptions"][k] = chk.extra["search_exceptions"].get(k, 0) + 1
            continue
        a = np.asarray(out[names[0]][0].orders[(1, 0, 0, 0)][0])[g]
        b = np.asarray(out[names[1]][0].orders[(1, 0, 0, 0)][0])[g]
        tot = sum(e2[q_] for q_ in range(1, nf + 1))
        d = float(np.abs(b * tot - a * e2[ih]).max())
        sc = float(np.abs(a * e2[ih]).max())
        sample = dict(kind=kind, FNS=fns, NfFF=nfff, flavour=fl, Q2=Q2, nf=nf, maxdiff=d, scale=sc, ratio=float(np.abs(b).max() * tot / max(np.abs(a).max() * e2[ih], 1e-300)))
        chk.search_case("single_flavour_gluon_share", d <= 1e-10 * max(sc, 1e-300), what=f"{kind}_{fl} EM {fns} Q2={Q2} (nf={nf}): gluon row is {sample['ratio']:.4g} times e_h^2/sum e_q^2 of the gluon row of {kind}_light", data=sample, sample=sample if i == 0 else None, nontrivial=sc > 0)


def search_point_nf(chk, r, n):
    """ZM-VFNS run with points on both sides of a matching scale: every order of every point
    (including the scale-variation entries, which carry P_qg ~ nf and beta0(nf)) equals the one of the
    single-point run, and the gluon (1,0,0,1) entry of F2 scales with nf between the two sides"""
    for i in range(n):
        name = ["F2_total", "F2_light", "FL_total"][i % 3]
        x = 0.1
        q2s = [10.0, 50.0] if i % 2 == 0 else [50.0, 10.0, 3.0]
        kw = dict(prDIS="EM", interpolation_xgrid=cards.default_grid(8, 1e-2))
        th = cards.theory(PTO=1, FNS="ZM-VFNS")
        try:
            big = realrun.run(th, cards.obs({name: [dict(x=x, Q2=q_) for q_ in q2s]}, **kw))[name]
            singles = [realrun.run(th, cards.obs({name: [dict(x=x, Q2=q_)]}, **kw))[name][0] for q_ in q2s]
        except Exception as e:
            chk.extra.setdefault("search_exceptions", {})
            k = f"point-nf:{type(e).__name__}:{str(e)[:80]}"
            chk.extra["search_exceptions"][k] = chk.extra["search_exceptions"].get(k, 0) + 1
            continue
        bad = []
        for q_, a, b in zip(q2s, big, singles):
            for k in b.orders:
                if not np.array_equal(np.asarray(a.orders[k][0]), np.asarray(b.orders[k][0])):
                    bad.append(f"Q2={q_} order {k}: differs by {float(np.abs(np.asarray(a.orders[k][0]) - np.asarray(b.orders[k][0])).max()):.3g}")
        sample = dict(obs=name, x=x, Q2s=q2s, differing=bad[:6])
        chk.search_case("orders_of_a_point_use_its_own_nf", not bad, what=f"{name} ZM-VFNS PTO=1, points at Q2={q2s} in one run: " + "; ".join(bad[:3]), data=sample, sample=sample if i == 0 else None)


def run(tier):
    chk = common.Check("C06", tier)
    thorough = tier == "thorough"
    common.lean_proof_step(chk, "YadismModel.Properties.C06", thorough=thorough)
    r = common.rng("C06")
    corr(chk, r, 300 if thorough else 40)
    # the same nf feeds the scale-variation algebra: compute_local vs the model (which uses the
    # Combiner's nf for every kernel), heavy flavours included
    corr_sv.run_sv(chk, 200 if thorough else 30, r, stream="compute_local_nf")
    search(chk, r, 60 if thorough else 6)
    search_heavy_beta(chk, r, 8 if thorough else 3)
    search_inactive_rows(chk, r, 24 if thorough else 6)
    search_reused_card(chk, r, 4 if thorough else 2)
    search_single_flavour_share(chk, r, 10 if thorough else 5)
    search_point_nf(chk, r, 6 if thorough else 2)
    chk.assumptions += [
        "thresholds are compared as exact rationals of the doubles the Runner built (m^2*k^2 in IEEE arithmetic); the formation of the product itself is compared to 2 ulp",
        "unsorted thresholds: numpy.digitize raises ValueError, modelled as rejection",
        "that scale variations use the Combiner's nf is observed through beta0 on real runs (search) and modelled in C05",
    ]
    return chk
