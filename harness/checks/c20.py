"""C20 — Runner leaves its inputs untouched and echoes them in the output."""

import copy
import math

import numpy as np

from .. import translate_effects, cards, common, realrun
from ..common import Driver, q, unq

T_KEYS = ["FNS", "NfFF", "PTO", "PTODIS", "FONLLParts", "kcThr", "kbThr", "ktThr", "ZMc", "ZMb", "ZMt", "RenScaleVar", "FactScaleVar", "alphaqed", "alphaem", "QED", "order", "CKM", "mc", "extra"]
O_KEYS = ["TargetDIS", "TargetDISid", "observables", "interpolation_xgrid", "prDIS"]


def enc_val(v, objs):
    if v is None:
        return "N"
    if isinstance(v, (bool, np.bool_)):
        return "B1" if v else "B0"
    if isinstance(v, (int, float, np.floating, np.integer)):
        if isinstance(v, float) and math.isinf(v):
            return "I"
        return "R" + q(float(v)) if not isinstance(v, (int, np.integer)) else "R" + str(int(v))
    if isinstance(v, str):
        return "S" + v
    if isinstance(v, tuple) and len(v) == 2:
        return "P(" + enc_val(v[0], objs) + "," + enc_val(v[1], objs) + ")"
    if isinstance(v, dict) and set(v) == {"Z", "A"} and id(v) not in objs:
        return "P(" + enc_val(v["Z"], objs) + "," + enc_val(v["A"], objs) + ")"
    # any other object: by identity
    if id(v) not in objs:
        objs[id(v)] = (len(objs) + 1, v)
    return "O" + str(objs[id(v)][0])


def enc_card(c, objs):
    return f"{len(c)} " + " ".join(f"{k} {enc_val(v, objs)}" for k, v in c.items())


def canon(card_str):
    """compare values numerically (named targets hold non-dyadic decimals)"""
    out = []
    for item in card_str.split():
        k, v = item.split("=", 1)
        out.append((k, v))
    return out


def close_val(a, b):
    if a == b:
        return True
    import re

    ra, rb = re.findall(r"R(-?\d+(?:/\d+)?)", a), re.findall(r"R(-?\d+(?:/\d+)?)", b)
    if re.sub(r"R-?\d+(?:/\d+)?", "R", a) != re.sub(r"R-?\d+(?:/\d+)?", "R", b) or len(ra) != len(rb):
        return False
    return all(abs(float(unq(x)) - float(unq(y))) <= 1e-12 * max(1.0, abs(float(unq(y)))) for x, y in zip(ra, rb))


def rand_cards(r):
    t = {}
    t["FNS"] = r.choice(cards.SCHEMES + ["VFNS"] if r.random() < 0.1 else cards.SCHEMES)
    t["NfFF"] = r.choice([3, 4, 5, 6])
    t["PTO"] = r.choice([0, 1, 2])
    if r.random() < 0.6:
        t["PTODIS"] = r.choice([None, 0, 1, 2, 3])
    if r.random() < 0.6:
        t["FONLLParts"] = r.choice([None, "full", "massless", "massive"])
    for fl in "cbt":
        if r.random() < 0.9:
            t[f"k{fl}Thr"] = float(r.choice([1.0, 2.0, 0.5]))
        if r.random() < 0.3:
            t[f"ZM{fl}"] = r.choice([True, False])
    for k in ("RenScaleVar", "FactScaleVar"):
        if r.random() < 0.5:
            t[k] = r.choice([True, False])
    if r.random() < 0.7:
        t["alphaqed"] = float(r.choice([0.0078, 0.01]))
    if r.random() < 0.2:
        t["alphaem"] = 0.5
    if r.random() < 0.7:
        t["QED"] = r.choice([0, 1, 2])
    if r.random() < 0.5:
        t["CKM"] = [0.9, 0.1, 0.0, 0.1, 0.9, 0.0, 0.0, 0.0, 1.0]
    t["mc"] = 1.51
    # shuffle key order
    items = list(t.items())
    r.shuffle(items)
    t = dict(items)
    o = {}
    tgt = r.choice(["proton", "neutron", "isoscalar", "iron", "lead", "neon", "marble", "kryptonite", dict(Z=1.0, A=3.0)])
    o["TargetDIS"] = tgt
    if r.random() < 0.2:
        o["TargetDISid"] = "old"
    o["observables"] = {"F2_total": [dict(x=0.1, Q2=10.0)]}
    o["interpolation_xgrid"] = [0.1, 0.5, 1.0]
    o["prDIS"] = "NC"
    items = list(o.items())
    r.shuffle(items)
    return t, dict(items)


def corr_update(chk, r, n):
    from yadism.input import compatibility

    drv = Driver()
    pend = []
    for _ in range(n):
        t, o = rand_cards(r)
        objs = {}
        for card in (t, o):  # nested objects of the inputs are opaque references
            for v in card.values():
                if isinstance(v, (dict, list)):
                    objs[id(v)] = (len(objs) + 1, v)
        req = "update " + enc_card(t, objs) + " " + enc_card(o, objs)
        t0, o0 = copy.deepcopy(t), copy.deepcopy(o)
        try:
            nt, no = compatibility.update(t, o)
            py = " ".join(f"{k}={enc_val(v, objs)}" for k, v in nt.items()) + " ## " + " ".join(f"{k}={enc_val(v, objs)}" for k, v in no.items())
            # idempotence on the real function
            nt2, no2 = compatibility.update(nt, no)
            idem = list(nt2.items()) == list(nt.items()) and list(no2.items()) == list(no.items())
        except ValueError as e:
            py = "error:unknownScheme" if "Scheme" in str(e) else "error:unknownTarget"
            idem = True
        untouched = t == t0 and o == o0 and list(t) == list(t0) and list(o) == list(o0)
        idx = drv.add(req)
        feat = f"{t['FNS']}/{o['TargetDIS'] if isinstance(o['TargetDIS'], str) else 'dict'}/qed{int('QED' in t)}/aq{int('alphaqed' in t)}"
        pend.append((idx, py, untouched, idem, dict(theory={k: (v if not isinstance(v, list) else 'list') for k, v in t0.items()}, target=o0["TargetDIS"], py=py[:400]), feat))
    lines = drv.run()
    for idx, py, untouched, idem, sample, feat in pend:
        m = lines[idx]
        if m.startswith("error") or py.startswith("error") or m == "bad-op":
            ok = m == py
        else:
            cm, cp = canon(m.replace(" ## ", " ##=## ")), canon(py.replace(" ## ", " ##=## "))
            ok = len(cm) == len(cp) and all(a[0] == b[0] and close_val(a[1], b[1]) for a, b in zip(cm, cp))
        chk.corr_case("compatibility_update", ok, sample, None if ok else dict(sample=sample, py=py, model=m), feat)
        chk.search_case("update_leaves_inputs", untouched, what="compatibility.update modified the caller's dict", data=sample, sample=None)
        chk.search_case("update_idempotent", idem, what="update(update(cards)) != update(cards)", data=sample, sample=None)


def deep_equal(a, b):
    if type(a) != type(b):
        return False
    if isinstance(a, dict):
        return list(a) == list(b) and all(deep_equal(a[k], b[k]) for k in a)
    if isinstance(a, (list, tuple)):
        return len(a) == len(b) and all(deep_equal(x, y) for x, y in zip(a, b))
    if isinstance(a, float):
        return a == b or (math.isnan(a) and math.isnan(b))
    if isinstance(a, np.ndarray):
        return a.dtype == b.dtype and a.shape == b.shape and a.tobytes() == b.tobytes()
    return a == b


def search_runs(chk, r, n):
    import yadism

    previous = None  # (output, theory copy, observables copy) of the run before: it keeps echoing *its* cards
    for i_run in range(n):
        scheme = r.choice(cards.SCHEMES)
        process = r.choice(["EM", "NC", "CC"])
        if scheme in ("FFN0", "FONLL-FFN0") and process != "CC":
            kinds = ["F2", "FL", "F3"]
        else:
            kinds = ["F2", "FL", "F3"]
        tmc = r.choice([0, 0, 1])
        # several points, deliberately *not* in Q2 order (the runner evaluates them Q2-sorted)
        pts = [dict(x=0.1, Q2=90.0), dict(x=float(r.choice([0.1, 0.3])), Q2=float(r.choice([20.0, 50.0]))), dict(x=0.3, Q2=50.0), dict(Q2=20.0, x=0.2)][: r.choice([2, 3, 4])]
        obs = {f"{r.choice(kinds)}_{r.choice(['total', 'light', 'charm'])}": pts}
        if r.random() < 0.4:
            obs[("XSHERACC" if process == "CC" else "XSHERANC") + "_total"] = [dict(x=0.1, Q2=20.0, y=0.3)]
        if i_run % 2 == 0:
            # a cross section and 2xF1 with their (x, Q2, y) points: the evaluated objects keep the caller's
            # point dicts, and computing must leave them as they are (y included)
            obs["F1_total"] = [dict(x=0.2, Q2=30.0, y=0.5), dict(x=0.4, Q2=30.0, y=0.0)]
            obs.setdefault(("XSHERACC" if process == "CC" else "XSHERANC") + "_total", [dict(x=0.1, Q2=20.0, y=0.3), dict(x=0.3, Q2=20.0, y=0.9)])
        tgt = r.choice(["proton", "iron", "isoscalar", dict(Z=1.0, A=2.0)])
        if i_run < 3:
            tgt = [dict(Z=1.0, A=2.0), dict(A=56.0, Z=26.0), "neutron"][i_run]  # explicit compositions are nested dicts of the card
        t = cards.theory(PTO=r.choice([0, 1]), FNS=scheme, NfFF=r.choice([3, 4]), TMC=tmc, CKM=r.choice([cards.CKM_DEFAULT, [0.97428, 0.2253, 0.00347, 0.2252, 0.97345, 0.041, 0.00862, 0.0403, 0.999152]]))
        if r.random() < 0.3:
            del t["PTODIS"]
        # optional keys (read with a default by the code): a card may omit them
        for opt in ("MZ", "SIN2TW", "FONLLParts"):
            if r.random() < 0.35 and not (opt == "MZ" and process == "CC"):
                t.pop(opt, None)
        grid = cards.default_grid(7, 1e-2)
        if r.random() < 0.5:
            grid = list(reversed(grid))  # legal: the interpolator sorts it
        grid_kind = "list"
        if i_run in (1, 4) or r.random() < 0.2:
            # the grid handed over as a float64 array (as the package's own tests do), ending one ulp
            # below 1 (an exponentiated linear grid misses the end point by rounding)
            grid = np.array(sorted(grid), dtype=float)
            grid[-1] = np.nextafter(1.0, 0.0)
            grid_kind = "ndarray ending at 1-ulp"
        o = cards.obs(obs, prDIS=process, ProjectileDIS=r.choice(list(cards.PROJECTILES)) if process == "CC" else r.choice(["electron", "positron"]), TargetDIS=tgt, interpolation_xgrid=grid)
        proj_given = o["ProjectileDIS"]
        if process != "CC" and proj_given == "electron" and r.random() < 0.3:
            del o["ProjectileDIS"]  # optional: defaults to the electron
        t0, o0 = copy.deepcopy(t), copy.deepcopy(o)
        problems = []
        try:
            runner = yadism.Runner(t, o)
            if not (deep_equal(t, t0) and deep_equal(o, o0)):
                problems.append("cards modified by Runner construction")
            out = runner.get_result()
            if not (deep_equal(t, t0) and deep_equal(o, o0)):
                problems.append("cards modified by get_result")
            if r.random() < 0.5:  # repeated construction from the same objects
                out2 = yadism.Runner(t, o).get_result()
                if not (deep_equal(t, t0) and deep_equal(o, o0)):
                    problems.append("cards modified by a second Runner")
                for name in obs:
                    if not all(realrun.identical(a, b) for a, b in zip(out[name], out2[name])):
                        problems.append("second Runner built from the same objects gives different results")
            if not (deep_equal(out.theory, t0) and deep_equal(out.observables, o0)):
                problems.append("output does not echo the cards it was given")
            used = [float(v) for v in runner.configs.managers["interpolator"].xgrid.raw]
            if [float(v) for v in out["xgrid"]["grid"]] != used or used != sorted(set(float(v_) for v_ in o0["interpolation_xgrid"])) or out["xgrid"]["log"] != o0["interpolation_is_log"] or out["polynomial_degree"] != o0["interpolation_polynomial_degree"]:
                problems.append("output does not record the grid actually used")
            for name, kins in obs.items():
                for kin, res_ in zip(kins, out[name]):
                    if float(res_.x) != kin["x"] or float(res_.Q2) != kin["Q2"]:
                        problems.append("results not in the order of the request")
            if list(out["pids"]) != realrun.BASIS or out["projectilePID"] != cards.PROJECTILES[proj_given]:
                problems.append("pids / projectilePID wrong")
            # the record belongs to the output: an earlier output still shows the cards of *its* run,
            # and what the caller does to the dicts afterwards does not reach into the output
            if previous is not None and not (deep_equal(previous[0].theory, previous[1]) and deep_equal(previous[0].observables, previous[2])):
                problems.append("the output of the previous run no longer echoes the cards of that run")
            t["mc"] = t["mc"] + 0.125
            o["observables"]["__added_after_the_run__"] = []
            if not (deep_equal(out.theory, t0) and deep_equal(out.observables, o0)):
                problems.append("the cards recorded in the output change when the caller changes the dicts after the run")
            del o["observables"]["__added_after_the_run__"]
            t["mc"] = t0["mc"]
            previous = (out, t0, o0)
        except Exception as e:
            chk.extra.setdefault("search_exceptions", {})
            k = f"{scheme}/{process}:{type(e).__name__}:{str(e)[:80]}"
            chk.extra["search_exceptions"][k] = chk.extra["search_exceptions"].get(k, 0) + 1
            continue
        sample = dict(FNS=scheme, process=process, TMC=tmc, target=tgt, grid=grid_kind, observables={k: len(v) for k, v in obs.items()}, problems=problems)
        chk.search_case("cards_untouched_and_echoed", not problems, what="; ".join(problems) or "-", data=sample, sample=sample)


def run(tier):
    chk = common.Check("C20", tier)
    thorough = tier == "thorough"
    # effects of the functions that receive the caller's cards, regenerated from the syntax trees
    try:
        tr, _ = translate_effects.regenerate()
        n_writes = sum(1 for s in tr["update"]["stmts"] if s[0] == "write")
        n_copies = sum(1 for s in tr["update"]["stmts"] if s[0] == "copy")
        chk.obligation("effects-translated", n_writes > 0 and n_copies >= 2, f"update: {n_copies} copies, {n_writes} stores; roots: " + ", ".join(f"{k}: {len(v['stmts'])} statements / {len(v['escapes'])} escapes" for k, v in tr.items()))
        chk.notes.append("effect translator: " + "; ".join(f"{k} = {v['source']} ({len(v['stmts'])} statements, {len(v['escapes'])} escapes)" for k, v in tr.items()))
    except Exception as e:  # noqa
        chk.obligation("effects-translated", False, f"{type(e).__name__}: {e}"[:300])
    common.lean_proof_step(chk, "YadismModel.Properties.C20", thorough=thorough)
    r = common.rng("C20")
    corr_update(chk, r, 3000 if thorough else 300)
    search_runs(chk, r, 80 if thorough else 10)
    chk.assumptions += [
        "'the caller's dicts are not written': proved on a heap model (Model/Heap.lean: objects at locations, .copy() allocates, nested objects shared) for the effect lists regenerated each run from the syntax trees of compatibility.update (callees inlined), CouplingConstants.from_dict, Runner.__init__, StructureFunction.load, CrossSection.load, the three ESF constructors, and the whole life (constructor + any sequence of method calls: Heap.lifecycle_preserves) of StructureFunction and CrossSection: every store goes at depth 0 into an object the function created itself, for every branch / value / alias (Heap.safe_preserves + decided `safe`); trusted: the syntactic classification of stores and mutating methods in harness/translate_effects.py (anything unknown is refused), that class instantiation and dict/list displays return new objects, that `self` is not one of the caller's objects",
        "where the cards leave the analysed code (eko's XGrid / InterpolatorDispatcher, the scale-variation manager, the ESF / EXS constructors reached through load, numpy conversions, logging) is a decided table (escapes_known); what those callees do with the caller's nested objects is observed by the deep comparison of real runs only",
        "the functional model of update (Model/Compat.lean) carries the frame property (non-owned keys keep the very same reference) and idempotence for every card (update_idempotent)",
    ]
    return chk
