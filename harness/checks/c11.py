"""C11 — cross sections are the documented combinations of structure functions."""

import math

import numpy as np

from .. import cards, common, realrun
from ..common import Driver, q, unq


GEV_CM2 = 3.893793e10


def documented_coeffs(kind, y, x, Q2, pid, M2, M2W, GF):
    """coefficients on (F2, FL, xF3) transcribed from docs/source/theory/intro.rst (independent of
    exs.py): sigma = N [ Y+ F2 - y^2 FL +- Y- xF3 ], with the kind-specific N and Y+"""
    yp, ym, yl = 1 + (1 - y) ** 2, 1 - (1 - y) ** 2, y * y
    sgn = -1.0 if pid < 0 else 1.0
    if kind == "g5":
        return [1.0, -1.0, 0.0]
    if kind == "F1":
        return [1.0, -1.0, 0.0]
    if kind == "XSHERANCAVG":
        return [1.0, -yl / yp, 0.0]
    if kind == "XSHERANC":
        return [1.0, -yl / yp, sgn * ym / yp]
    if kind == "XSHERACC":
        return [yp / 4, -yl / 4, sgn * ym / 4]
    mn = math.sqrt(M2)
    if kind == "FW":
        return [1.0, -(yl / (2 * (yl / 2 + (1 - y) - (mn * x * y) ** 2 / Q2))), 0.0]
    if kind == "XSFPFCC":
        n = (GEV_CM2 / 100.0) * GF**2 / (4 * math.pi * x * (1 + Q2 / M2W) ** 2)
        return [n * yp, -n * yl, sgn * n * ym]
    ypc = yp - 2 * (mn * x * y) ** 2 / Q2
    n = {"XSCHORUSCC": GEV_CM2 * GF**2 * mn / (2 * math.pi * (1 + Q2 / M2W) ** 2), "XSNUTEVCC": 50.0 / (1 + Q2 / M2W) ** 2, "XSNUTEVNU": GEV_CM2 * GF**2 * mn / (2 * math.pi)}[kind]
    return [n * ypc, -n * yl, sgn * n * ym]


def corr(chk, r, n):
    from yadism.esf import exs

    drv = Driver()
    pend = []
    corners = [(kind, x, y, Q2) for kind in ("XSCHORUSCC", "XSNUTEVCC", "XSNUTEVNU", "FW", "XSHERACC", "XSFPFCC") for (x, y, Q2) in ((0.9, 0.9, 1.0), (0.7, 0.95, 0.5), (1.0, 1.0, 1.5), (0.95, 1.0, 0.3))]
    for i_ in range(n + len(corners)):
        kind = r.choice(cards.XS)
        y = float(r.choice([1.0, 0.5, r.uniform(0.01, 1.0), r.uniform(0.01, 1.0)]))
        x = float(r.choice([0.1, r.uniform(1e-3, 0.9)]))
        Q2 = cards.rand_q2(r)
        if i_ < len(corners):
            # large x, y and small Q2: the documented y+ of the fixed-target kinds turns negative here
            kind, x, y, Q2 = corners[i_]
        pid = r.choice([11, -11, 12, -12])
        M2 = float(r.choice([0.938**2, r.uniform(0.5, 2.0)]))
        m2w = float(r.choice([80.398**2, r.uniform(1000, 10000)]))
        gf = float(r.choice([1.1663787e-05, r.uniform(1e-5, 2e-5)]))
        params = dict(projectilePID=pid, M2target=M2, M2W=m2w, GF=gf)
        if kind == "g5":
            py = exs.xs_coeffs_polarized(kind)
        else:
            py = exs.xs_coeffs_unpolarized(kind, y, x=x, Q2=Q2, params=params)
        mn = float(np.sqrt(M2))
        idx = drv.add(f"xs {kind} {q(y)} {q(x)} {q(Q2)} {pid} {q(mn)} {q(m2w)} {q(gf)} {q(float(np.pi))}")
        pend.append((idx, [float(v) for v in py], dict(kind=kind, y=y, x=x, Q2=Q2, projectilePID=pid, M2target=M2, M2W=m2w, GF=gf, py=[float(v) for v in py]), f"{kind}/{'anti' if pid < 0 else 'lepton'}"))
    lines = drv.run()
    for idx, py, sample, feat in pend:
        m = [float(unq(t)) for t in lines[idx].split()] if lines[idx] != "bad-op" else None
        ok = m is not None and all(abs(a - b) <= 1e-12 * max(abs(b), 1e-300) + 1e-300 for a, b in zip(py, m))
        chk.corr_case("xs_coeffs", ok, sample, None if ok else dict(sample=sample, model=m), feat)


def search(chk, r, n, max_pto):
    from yadism.esf import exs

    # structured block: heavy-flavour neutral-current cross sections in a massive scheme at high Q2
    # (the heavy-quark initiated channels give xF3_charm/bottom a LO term)
    structured = [("XSHERANC", "NC", proj, fl_) for proj in ("electron", "positron") for fl_ in ("charm", "bottom")] + [("XSHERANCAVG", "NC", "electron", "charm"), ("XSHERACC", "CC", "positron", "charm")]
    # every unpolarised kind with target-mass corrections on, at low Q2 and large x (where a spurious
    # mass factor in a coefficient would be of order one): the combination is of the corrected structure
    # functions of the same run, with the documented coefficients
    tmc_block = [(k_, ("NC" if k_ in ("XSHERANC", "XSHERANCAVG") else "CC") if k_ not in ("F1",) else pr_, pj_, "light", t_)
                 for k_ in cards.XS if k_ != "g5" for t_ in (1, 3)
                 for pr_, pj_ in ((("NC", "electron"),) if k_ in ("XSHERANC", "XSHERANCAVG", "F1") else (("CC", "antineutrino"),))]
    for i_ in range(n + len(structured) + len(tmc_block)):
        kind = r.choice(cards.XS)
        if kind == "g5":
            process, proj = r.choice(["NC"]), r.choice(["electron", "positron"])
        elif kind in ("XSHERANC", "XSHERANCAVG"):
            process, proj = r.choice(["NC", "EM"]), r.choice(["electron", "positron"])
        elif kind in ("F1", "FW"):
            process, proj = r.choice([("NC", "electron"), ("CC", "neutrino"), ("CC", "antineutrino"), ("EM", "positron")])
        else:
            process, proj = "CC", r.choice(list(cards.PROJECTILES))
        fl = r.choice(["total", "light", "charm"])
        pto = r.choice(list(range(max_pto + 1)))
        tmc = r.choice([0, 0, 0, 1, 2]) if kind != "g5" and pto <= 1 else 0
        scheme, nfff = r.choice([("ZM-VFNS", 4), ("FFNS", 3)])
        structured_case = i_ < len(structured)
        if structured_case:
            kind, process, proj, fl = structured[i_]
            scheme, nfff, pto, tmc = "FFNS", 3, 0, 0
        pts = [dict(x=float(r.choice([0.05, 0.2, 0.5])), Q2=float(r.choice([8.0, 60.0, 900.0])), y=float(r.choice([0.2, 0.7, 1.0])))]
        if kind in ("XSCHORUSCC", "XSNUTEVCC", "XSNUTEVNU", "FW") and r.random() < 0.5:
            # the corner of large x, y and small Q2 where the documented Y+ of these kinds is negative
            pts = [dict(r.choice([dict(x=0.9, y=0.9, Q2=1.0), dict(x=0.7, y=0.95, Q2=0.5), dict(x=0.8, y=1.0, Q2=0.8)]))]
            tmc = 0
        if structured_case:
            pts = [dict(x=0.05, Q2=2000.0, y=0.7)]
        tmc_case = i_ >= n + len(structured)
        if tmc_case:
            kind, process, proj, fl, tmc = tmc_block[i_ - n - len(structured)]
            scheme, nfff, pto = "ZM-VFNS", 4, 0
            pts = [dict(x=0.5, Q2=2.0, y=0.6)]
        sfs = ["g4", "gL", "g1"] if kind == "g5" else ["F2", "FL", "F3"]
        name = f"{kind}_{fl}"
        obs = {name: pts}
        for s in sfs:
            obs[f"{s}_{fl}"] = [dict(x=pts[0]["x"], Q2=pts[0]["Q2"])]
        th = cards.theory(PTO=pto, FNS=scheme, NfFF=nfff, TMC=tmc)
        # the lepton polarisation enters the structure functions of the run, never the documented
        # coefficients: the combination must hold for polarised beams too
        pol = 0.0 if structured_case else float(r.choice([0.0, 0.0, -0.6, 0.35]))
        try:
            out = realrun.run(th, cards.obs(obs, prDIS=process, ProjectileDIS=proj, PolarizationDIS=pol, interpolation_xgrid=cards.default_grid(10, 1e-2)))
        except Exception as e:
            chk.extra.setdefault("search_exceptions", {})
            k = f"{kind}/{process}/tmc{tmc}:{type(e).__name__}:{str(e)[:80]}"
            chk.extra["search_exceptions"][k] = chk.extra["search_exceptions"].get(k, 0) + 1
            continue
        xs = out[name][0]
        c = documented_coeffs(kind, pts[0]["y"], pts[0]["x"], pts[0]["Q2"], cards.PROJECTILES[proj], th["MP"] ** 2, th["MW"] ** 2, th["GF"])
        parts = [out[f"{s}_{fl}"][0] for s in sfs]
        worst = scale = 0.0
        keys = set(xs.orders)
        for k in keys | set().union(*[set(p.orders) for p in parts]):
            exp = sum(float(ci) * np.asarray(p.orders[k][0]) for ci, p in zip(c, parts) if k in p.orders)
            got = np.asarray(xs.orders[k][0]) if k in xs.orders else 0.0
            worst = max(worst, float(np.abs(got - exp).max()))
            scale = max(scale, float(np.abs(exp).max()))
        sample = dict(kind=kind, obs=name, process=process, projectile=proj, polarization=pol, pto=pto, TMC=tmc, FNS=scheme, point=pts[0], coeffs=[float(v) for v in c], maxdiff=worst, scale=scale, y_echoed=getattr(xs, "y", None))
        ok = worst <= 1e-11 * max(scale, 1e-300) and getattr(xs, "y", None) == pts[0]["y"]
        chk.search_case("xs_vs_sf_same_run", ok, what=f"{name} ({process},{proj},P={pol},TMC={tmc}) != coefficient combination of the structure functions of the same run", data=sample, sample=sample, nontrivial=scale > 0)


def check_xs(chk, oracle, th, obs_kw, kind, fl, pt, label):
    from yadism.esf import exs

    sfs = ["g4", "gL", "g1"] if kind == "g5" else ["F2", "FL", "F3"]
    name = f"{kind}_{fl}"
    obs = {name: [dict(pt)]}
    for s_ in sfs:
        obs[f"{s_}_{fl}"] = [dict(x=pt["x"], Q2=pt["Q2"])]
    out = realrun.run(th, cards.obs(obs, interpolation_xgrid=cards.default_grid(8, 1e-2), **obs_kw))
    c = exs.xs_coeffs_polarized(kind) if kind == "g5" else exs.xs_coeffs_unpolarized(kind, pt["y"], x=pt["x"], Q2=pt["Q2"], params=dict(projectilePID=cards.PROJECTILES[obs_kw["ProjectileDIS"]], M2target=th["MP"] ** 2, M2W=th["MW"] ** 2, GF=th["GF"]))
    xs = out[name][0]
    parts = [out[f"{s_}_{fl}"][0] for s_ in sfs]
    worst = scale = 0.0
    for k in set(xs.orders) | set().union(*[set(p.orders) for p in parts]):
        exp = sum(float(ci) * np.asarray(p.orders[k][0]) for ci, p in zip(c, parts) if k in p.orders)
        got = np.asarray(xs.orders[k][0]) if k in xs.orders else 0.0
        worst = max(worst, float(np.abs(got - exp).max()))
        scale = max(scale, float(np.abs(exp).max()))
    sample = dict(step=label, kind=kind, projectile=obs_kw["ProjectileDIS"], MW=th["MW"], point=pt, maxdiff=worst, scale=scale)
    chk.search_case(oracle, worst <= 1e-12 * max(scale, 1e-300), what=f"{name} ({label}) != coefficient combination of the structure functions of the same run", data=sample, sample=sample, nontrivial=scale > 0)


def search_sequences(chk, r):
    """several runs in one process with the same kind and kinematics but another lepton / W mass /
    target mass: nothing may be carried over from one run to the next"""
    pt = dict(x=0.2, Q2=60.0, y=0.6)
    steps = [
        ("XSHERANC", "NC", "electron", {}),
        ("XSHERANC", "NC", "positron", {}),
        ("XSNUTEVCC", "CC", "neutrino", {}),
        ("XSNUTEVCC", "CC", "neutrino", dict(MW=70.0)),
        ("XSNUTEVCC", "CC", "antineutrino", {}),
        ("XSCHORUSCC", "CC", "antineutrino", dict(MP=1.2)),
        ("XSCHORUSCC", "CC", "antineutrino", dict(GF=2e-5)),
    ]
    for i, (kind, process, proj, th_kw) in enumerate(steps):
        try:
            check_xs(chk, "xs_runs_in_sequence", cards.theory(PTO=0, **th_kw), dict(prDIS=process, ProjectileDIS=proj), kind, "total", pt, f"run {i + 1}: {proj} {th_kw}")
        except Exception as e:
            chk.extra.setdefault("search_exceptions", {})
            k = f"seq:{type(e).__name__}:{str(e)[:80]}"
            chk.extra["search_exceptions"][k] = chk.extra["search_exceptions"].get(k, 0) + 1


def search_lattice(chk, r, n):
    """an (x, y) lattice drawn from one set of values at fixed Q2 (points with exchanged x and y),
    all in one observable: every point must be the combination of the structure functions at *its* x"""
    from yadism.esf import exs

    vals = [0.2, 0.4, 0.6]
    for i in range(n):
        kind, process, proj = [("XSHERANC", "NC", "positron"), ("XSHERACC", "CC", "electron"), ("XSNUTEVCC", "CC", "neutrino")][i % 3]
        Q2 = 20.0
        pts = [dict(x=x, y=y, Q2=Q2) for x in vals for y in vals]
        r.shuffle(pts)
        name = f"{kind}_total"
        obs = {name: pts}
        for s_ in ("F2", "FL", "F3"):
            obs[f"{s_}_total"] = [dict(x=x, Q2=Q2) for x in vals]
        th = cards.theory(PTO=1)
        try:
            out = realrun.run(th, cards.obs(obs, prDIS=process, ProjectileDIS=proj, interpolation_xgrid=cards.default_grid(8, 1e-2)))
        except Exception as e:  # noqa
            chk.search_case("xs_lattice_of_exchanged_x_y", False, what=f"{name}: {type(e).__name__}: {e}"[:200], data=dict(kind=kind))
            continue
        for j, pt in enumerate(pts):
            c = exs.xs_coeffs_unpolarized(kind, pt["y"], x=pt["x"], Q2=Q2, params=dict(projectilePID=cards.PROJECTILES[proj], M2target=th["MP"] ** 2, M2W=th["MW"] ** 2, GF=th["GF"]))
            parts = [out[f"{s_}_total"][vals.index(pt["x"])] for s_ in ("F2", "FL", "F3")]
            xs = out[name][j]
            worst = scale = 0.0
            for k in set(xs.orders) | set().union(*[set(p_.orders) for p_ in parts]):
                exp = sum(float(ci) * np.asarray(p_.orders[k][0]) for ci, p_ in zip(c, parts) if k in p_.orders)
                got = np.asarray(xs.orders[k][0]) if k in xs.orders else 0.0
                worst = max(worst, float(np.abs(got - exp).max()))
                scale = max(scale, float(np.abs(exp).max()))
            d = dict(kind=kind, point=pt, position=j, maxdiff=worst, scale=scale)
            chk.search_case("xs_lattice_of_exchanged_x_y", worst <= 1e-12 * max(scale, 1e-300), what=f"{name} point #{j} {pt} in a 3x3 lattice of exchanged x/y values != combination of the structure functions at its own x (diff {worst:.3g})", data=d, sample=d if j == 0 else None, nontrivial=scale > 0)


def run(tier):
    chk = common.Check("C11", tier)
    thorough = tier == "thorough"
    common.lean_proof_step(chk, "YadismModel.Properties.C11", thorough=thorough)
    r = common.rng("C11")
    corr(chk, r, 5000 if thorough else 500)
    search(chk, r, 150 if thorough else 16, 2 if thorough else 1)
    search_sequences(chk, r)
    search_lattice(chk, r, 6 if thorough else 2)
    chk.assumptions += [
        "np.pi and sqrt(M2target) enter the model as parameters (rational value of the double)",
        "the documented table is transcribed by hand from docs/source/theory/intro.rst into Properties/C11.lean (XSFPFCC after the doc fix e936043f)",
    ]
    return chk
