"""C11 — cross sections are the documented combinations of structure functions."""

import math

import numpy as np

from .. import cards, common, realrun
from ..common import Driver, q, unq


def corr(chk, r, n):
    from yadism.esf import exs

    drv = Driver()
    pend = []
    for _ in range(n):
        kind = r.choice(cards.XS)
        y = float(r.choice([1.0, 0.5, r.uniform(0.01, 1.0), r.uniform(0.01, 1.0)]))
        x = float(r.choice([0.1, r.uniform(1e-3, 0.9)]))
        Q2 = cards.rand_q2(r)
        pid = r.choice([11, -11, 12, -12])
        M2 = float(r.choice([0.938**2, r.uniform(0.5, 2.0)]))
        m2w = float(r.choice([80.398**2, r.uniform(1000, 10000)]))
        gf = float(r.choice([1.1663787e-05, r.uniform(1e-5, 2e-5)]))
        params = dict(projectilePID=pid, M2target=M2, M2W=m2w, GF=gf)
        if kind == "g5":
            py = exs.xs_coeffs_polarized(kind)
        else:
            py = exs.xs_coeffs_unpolarized(kind, y, x=x, Q2=Q2, params=params)
        mn = float(np.sqrt(M2))
        idx = drv.add(f"xs {kind} {q(y)} {q(x)} {q(Q2)} {pid} {q(mn)} {q(m2w)} {q(gf)} {q(float(np.pi))}")
        pend.append((idx, [float(v) for v in py], dict(kind=kind, y=y, x=x, Q2=Q2, projectilePID=pid, M2target=M2, M2W=m2w, GF=gf, py=[float(v) for v in py]), f"{kind}/{'anti' if pid < 0 else 'lepton'}"))
    lines = drv.run()
    for idx, py, sample, feat in pend:
        m = [float(unq(t)) for t in lines[idx].split()] if lines[idx] != "bad-op" else None
        ok = m is not None and all(abs(a - b) <= 1e-12 * max(abs(b), 1e-300) + 1e-300 for a, b in zip(py, m))
        chk.corr_case("xs_coeffs", ok, sample, None if ok else dict(sample=sample, model=m), feat)


def search(chk, r, n, max_pto):
    from yadism.esf import exs

    for _ in range(n):
        kind = r.choice(cards.XS)
        if kind == "g5":
            process, proj = r.choice(["NC"]), r.choice(["electron", "positron"])
        elif kind in ("XSHERANC", "XSHERANCAVG"):
            process, proj = r.choice(["NC", "EM"]), r.choice(["electron", "positron"])
        elif kind in ("F1", "FW"):
            process, proj = r.choice([("NC", "electron"), ("CC", "neutrino"), ("CC", "antineutrino"), ("EM", "positron")])
        else:
            process, proj = "CC", r.choice(list(cards.PROJECTILES))
        fl = r.choice(["total", "light", "charm"])
        pto = r.choice(list(range(max_pto + 1)))
        tmc = r.choice([0, 0, 0, 1, 2]) if kind != "g5" and pto <= 1 else 0
        scheme, nfff = r.choice([("ZM-VFNS", 4), ("FFNS", 3)])
        pts = [dict(x=float(r.choice([0.05, 0.2, 0.5])), Q2=float(r.choice([8.0, 60.0, 900.0])), y=float(r.choice([0.2, 0.7, 1.0])))]
        sfs = ["g4", "gL", "g1"] if kind == "g5" else ["F2", "FL", "F3"]
        name = f"{kind}_{fl}"
        obs = {name: pts}
        for s in sfs:
            obs[f"{s}_{fl}"] = [dict(x=pts[0]["x"], Q2=pts[0]["Q2"])]
        th = cards.theory(PTO=pto, FNS=scheme, NfFF=nfff, TMC=tmc)
        try:
            out = realrun.run(th, cards.obs(obs, prDIS=process, ProjectileDIS=proj, interpolation_xgrid=cards.default_grid(10, 1e-2)))
        except Exception as e:
            chk.extra.setdefault("search_exceptions", {})
            k = f"{kind}/{process}/tmc{tmc}:{type(e).__name__}:{str(e)[:80]}"
            chk.extra["search_exceptions"][k] = chk.extra["search_exceptions"].get(k, 0) + 1
            continue
        xs = out[name][0]
        if kind == "g5":
            c = exs.xs_coeffs_polarized(kind)
        else:
            c = exs.xs_coeffs_unpolarized(kind, pts[0]["y"], x=pts[0]["x"], Q2=pts[0]["Q2"], params=dict(projectilePID=cards.PROJECTILES[proj], M2target=th["MP"] ** 2, M2W=th["MW"] ** 2, GF=th["GF"]))
        parts = [out[f"{s}_{fl}"][0] for s in sfs]
        worst = scale = 0.0
        keys = set(xs.orders)
        for k in keys | set().union(*[set(p.orders) for p in parts]):
            exp = sum(float(ci) * np.asarray(p.orders[k][0]) for ci, p in zip(c, parts) if k in p.orders)
            got = np.asarray(xs.orders[k][0]) if k in xs.orders else 0.0
            worst = max(worst, float(np.abs(got - exp).max()))
            scale = max(scale, float(np.abs(exp).max()))
        sample = dict(kind=kind, obs=name, process=process, projectile=proj, pto=pto, TMC=tmc, FNS=scheme, point=pts[0], coeffs=[float(v) for v in c], maxdiff=worst, scale=scale, y_echoed=getattr(xs, "y", None))
        ok = worst <= 1e-12 * max(scale, 1e-300) and getattr(xs, "y", None) == pts[0]["y"]
        chk.search_case("xs_vs_sf_same_run", ok, what=f"{name} ({process},{proj},TMC={tmc}) != coefficient combination of the structure functions of the same run", data=sample, sample=sample, nontrivial=scale > 0)


def check_xs(chk, oracle, th, obs_kw, kind, fl, pt, label):
    from yadism.esf import exs

    sfs = ["g4", "gL", "g1"] if kind == "g5" else ["F2", "FL", "F3"]
    name = f"{kind}_{fl}"
    obs = {name: [dict(pt)]}
    for s_ in sfs:
        obs[f"{s_}_{fl}"] = [dict(x=pt["x"], Q2=pt["Q2"])]
    out = realrun.run(th, cards.obs(obs, interpolation_xgrid=cards.default_grid(8, 1e-2), **obs_kw))
    c = exs.xs_coeffs_polarized(kind) if kind == "g5" else exs.xs_coeffs_unpolarized(kind, pt["y"], x=pt["x"], Q2=pt["Q2"], params=dict(projectilePID=cards.PROJECTILES[obs_kw["ProjectileDIS"]], M2target=th["MP"] ** 2, M2W=th["MW"] ** 2, GF=th["GF"]))
    xs = out[name][0]
    parts = [out[f"{s_}_{fl}"][0] for s_ in sfs]
    worst = scale = 0.0
    for k in set(xs.orders) | set().union(*[set(p.orders) for p in parts]):
        exp = sum(float(ci) * np.asarray(p.orders[k][0]) for ci, p in zip(c, parts) if k in p.orders)
        got = np.asarray(xs.orders[k][0]) if k in xs.orders else 0.0
        worst = max(worst, float(np.abs(got - exp).max()))
        scale = max(scale, float(np.abs(exp).max()))
    sample = dict(step=label, kind=kind, projectile=obs_kw["ProjectileDIS"], MW=th["MW"], point=pt, maxdiff=worst, scale=scale)
    chk.search_case(oracle, worst <= 1e-12 * max(scale, 1e-300), what=f"{name} ({label}) != coefficient combination of the structure functions of the same run", data=sample, sample=sample, nontrivial=scale > 0)


def search_sequences(chk, r):
    """several runs in one process with the same kind and kinematics but another lepton / W mass /
    target mass: nothing may be carried over from one run to the next"""
    pt = dict(x=0.2, Q2=60.0, y=0.6)
    steps = [
        ("XSHERANC", "NC", "electron", {}),
        ("XSHERANC", "NC", "positron", {}),
        ("XSNUTEVCC", "CC", "neutrino", {}),
        ("XSNUTEVCC", "CC", "neutrino", dict(MW=70.0)),
        ("XSNUTEVCC", "CC", "antineutrino", {}),
        ("XSCHORUSCC", "CC", "antineutrino", dict(MP=1.2)),
        ("XSCHORUSCC", "CC", "antineutrino", dict(GF=2e-5)),
    ]
    for i, (kind, process, proj, th_kw) in enumerate(steps):
        try:
            check_xs(chk, "xs_runs_in_sequence", cards.theory(PTO=0, **th_kw), dict(prDIS=process, ProjectileDIS=proj), kind, "total", pt, f"run {i + 1}: {proj} {th_kw}")
        except Exception as e:
            chk.extra.setdefault("search_exceptions", {})
            k = f"seq:{type(e).__name__}:{str(e)[:80]}"
            chk.extra["search_exceptions"][k] = chk.extra["search_exceptions"].get(k, 0) + 1


def run(tier):
    chk = common.Check("C11", tier)
    thorough = tier == "thorough"
    common.lean_proof_step(chk, "YadismModel.Properties.C11", thorough=thorough)
    r = common.rng("C11")
    corr(chk, r, 5000 if thorough else 500)
    search(chk, r, 150 if thorough else 16, 2 if thorough else 1)
    search_sequences(chk, r)
    chk.assumptions += [
        "np.pi and sqrt(M2target) enter the model as parameters (rational value of the double)",
        "the documented table is transcribed by hand from docs/source/theory/intro.rst into Properties/C11.lean (XSFPFCC after the doc fix e936043f)",
    ]
    return chk
