"""Writes MANIFEST.json from the table below (run after adding/removing a check)."""

import json
import pathlib

VERIF = pathlib.Path(__file__).resolve().parent.parent

# id -> (category, technique, text, note, design_ref)
CHECKS = {}
NOT_APPLICABLE = {}


def claim(pid, category, technique, text, note, ref):
    CHECKS[pid] = (category, technique, text, note, ref)


def na(pid, reason):
    NOT_APPLICABLE[pid] = reason


from .manifest_table import fill  # noqa: E402

fill(claim, na)

props = [json.loads(l)["id"] for l in (VERIF / "properties.jsonl").read_text().splitlines() if l.strip()]
assert set(CHECKS) | set(NOT_APPLICABLE) == set(props), set(props) - set(CHECKS) - set(NOT_APPLICABLE)
assert not (set(CHECKS) & set(NOT_APPLICABLE))

m = dict(
    version=1,
    setup_cmd="cd lean && lake build 2>&1 | tail -5",
    hooks=dict(
        guard="YADISM_VERIF",
        enable="no source hooks: the harness sets YADISM_VERIF=1 and observes the real code in-process (public entry points, class attributes, monkey-patching inside the harness process only)",
        baseline_off_cmd="cd /repo && env -u YADISM_VERIF /venv/bin/python -m pytest -ra -q -p no:cacheprovider --timeout=900 --continue-on-collection-errors",
        source_commits=[],
        add_only=True,
    ),
    engines=[
        dict(
            name="lean-model",
            path="lean/",
            serves_properties=sorted(CHECKS),
            kind_free_text="Lean 4.33 model (Mathlib-free, executable on Rat/Float) + property theorems (single Mathlib modules); line-protocol driver lean/Main.lean",
        ),
        dict(
            name="harness",
            path="harness/",
            serves_properties=sorted(CHECKS),
            kind_free_text="Python: translator (ast -> Lean), correspondence streams against the real yadism in-process, failing-input search on real runs, evidence/verdict",
        ),
    ],
    checks=[
        dict(
            property_id=pid,
            quick_cmd=f"./check {pid} quick",
            thorough_cmd=f"./check {pid} thorough",
            evidence_file=f"evidence/{pid}.json",
            replay_cmd_template=f"VERIF_SEED=<seed from replay file> ./check {pid} <tier>   # replay file: {{path}}",
            engine="lean-model",
            level_claimed=dict(category=cat, text=text, design_ref=ref),
            level_note=note,
            technique=tech,
        )
        for pid, (cat, tech, text, note, ref) in sorted(CHECKS.items())
    ],
    not_applicable=[dict(property_id=p, reason=r) for p, r in sorted(NOT_APPLICABLE.items())],
    notes="Every check = (T) Lean theorems rebuilt and axiom-audited, (C) model<->code tie re-run against /repo's working tree, (S) failing-input search on the real code; see DESIGN.md sections 2-3. Exit 2 = infrastructure failure (never a VIOLATION line).",
)
(VERIF / "MANIFEST.json").write_text(json.dumps(m, indent=1) + "\n")
print("claimed:", sorted(CHECKS), "n/a:", sorted(NOT_APPLICABLE))
