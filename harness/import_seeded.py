"""import a confirmed seeded change from a scratch worktree into /verif/seeded/<id>/"""
import json, pathlib, shutil, sys, re

prop, i, caught_by, found = sys.argv[1], sys.argv[2], sys.argv[3], sys.argv[4]
src = pathlib.Path(f"/tmp/mut/{prop}/MUTATION/{i}")
dst = pathlib.Path(f"/verif/seeded/{prop}-{i}")
dst.mkdir(parents=True, exist_ok=True)
for f in ("patch.diff", "demo.py", "notes.md"):
    shutil.copy(src / f, dst / f)
conf = [l for l in open("/tmp/mut/confirm_all.log") if l.startswith(f"{prop}/{i} ")]
meta = dict(
    id=f"{prop}-{i}",
    breaks_property=prop,
    source="independent sub-agent given only the property text and a scratch worktree",
    needs_to_manifest=(src / "notes.md").read_text()[:1500],
    confirmed_by_me=dict(
        how="scratch worktree /tmp/mut/%s: demo.py on clean tree, `git apply patch.diff`, demo.py, pytest tests/yadism --hypothesis-seed=0, restore" % prop,
        result=conf[-1].strip() if conf else "not confirmed",
        baseline_tests="97 passed, 32 skipped (same command on the unchanged worktree)",
    ),
    detection=dict(caught_by=caught_by.split(","), failing_input_found=(found == "yes"), tier="quick",
                   how_run="harness/mutcheck.sh seeded/%s-%s/patch.diff quick %s" % (prop, i, caught_by.replace(",", " "))),
)
(dst / "meta.json").write_text(json.dumps(meta, indent=1))
print("imported", dst)
