"""Numerical helpers on the real RSL objects (used by the failing-input searches)."""

import numpy as np
import scipy.integrate


def moment(rsl, N):
    """Mellin moment int_0^1 z^(N-1) C(z) dz of an RSL distribution (loc(0) is the delta coefficient)."""
    res = 0.0
    if rsl.reg is not None:
        res += scipy.integrate.quad(lambda z: z ** (N - 1) * rsl.reg(z, rsl.args["reg"]), 0, 1, epsabs=1e-12, epsrel=1e-11, limit=400)[0]
    if rsl.sing is not None:
        res += scipy.integrate.quad(lambda z: (z ** (N - 1) - 1) * rsl.sing(z, rsl.args["sing"]), 0, 1, epsabs=1e-12, epsrel=1e-11, limit=400)[0]
    if rsl.loc is not None:
        res += rsl.loc(0.0, rsl.args["loc"])
    return res


def loc_consistency(rsl, xs=(0.05, 0.2, 0.4, 0.6, 0.8, 0.95)):
    """max over xs of |loc(x) - loc(0) + int_0^x sing| / scale"""
    if rsl.loc is None:
        return 0.0, None
    worst = 0.0
    at = None
    l0 = rsl.loc(0.0, rsl.args["loc"])
    for x in xs:
        i = scipy.integrate.quad(lambda z: rsl.sing(z, rsl.args["sing"]), 0, x, epsabs=1e-12, epsrel=1e-12, limit=400)[0] if rsl.sing is not None else 0.0
        lx = rsl.loc(x, rsl.args["loc"])
        sc = abs(i) + abs(lx) + abs(l0) + 1e-300
        d = abs(lx - l0 + i) / sc
        if d > worst:
            worst, at = d, x
    return worst, at
