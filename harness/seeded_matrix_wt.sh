#!/bin/sh
# usage: harness/seeded_matrix_wt.sh [ids…] : like seeded_matrix.sh, but the changes are applied in a scratch
# worktree of /repo (YADISM_REPO), never in /repo itself; only the check of the change's own property is run.
# Rewrites /verif/evidence with mutated results: rerun the clean quick checks before committing evidence.
cd /verif || exit 2
wt=${VERIF_WT:-/tmp/verif_matrix_wt}
git -C /repo worktree remove --force "$wt" 2>/dev/null
git -C /repo worktree add --detach "$wt" HEAD >/dev/null 2>&1 || exit 2
ids="$@"; [ -z "$ids" ] && ids=$(ls seeded)
for id in $ids; do
  patch=/verif/seeded/$id/patch.diff
  c=${id%%-*}
  (cd "$wt" && git checkout -q -- . && git apply "$patch" 2>/dev/null) || { echo "$id: PATCH-DOES-NOT-APPLY"; continue; }
  out=$(YADISM_REPO="$wt" ./check "$c" quick 2>&1); rc=$?
  if echo "$out" | grep -q "^VIOLATION.*no-failing-input-found"; then v="violation(no-input)";
  elif echo "$out" | grep -q "^VIOLATION"; then v="violation+input";
  elif [ $rc -eq 0 ]; then v="MISSED"; else v="rc=$rc"; fi
  echo "$id: $c:$v"
done
git -C /repo worktree remove --force "$wt"
