"""Memo census for C14: every table of the code base that is filled on a miss and read on a hit.

Walks the syntax trees of all modules under /repo/src/yadism and finds, per function,
* *table memos*: a container `D` (an attribute path rooted at `self`, or a module-level name) that the
  function both stores into (`D[K] = V`) and looks up (`K in D`, `D[K]`, `D.get(K)`);
* *flag memos*: an attribute `self.X` that the function tests in an `if` and sets to a constant
  (`if self._computed: return` ... `self._computed = True`): a memo with the empty key.
For each site it records the key expression, the names the key is built from (`keyVars`), every name
the function can read that is not constant (`deps`: parameters and `self` attributes, local names
resolved to what they were computed from) and which of the `self` attributes are assigned in
`__init__` only (`immutable`).  Emits `lean/YadismModel/Generated/Memo.lean`; `Properties/C14.lean`
decides `deps ⊆ keyVars ∪ immutable` for every site and pins the list of sites (a new table, or a
changed key, breaks the obligation).

Syntactic, therefore coarse: a key that *mentions* a name is taken to determine it (the defect F13 —
`tuple(kinematics.values())` — is invisible here; the `get_esf_histories` correspondence and the history
searches see it).  Stores into a class's attributes from outside the class are not seen.
"""
import ast
import builtins
import os
import pathlib

from . import common

SRC = pathlib.Path(os.environ.get("VERIF_MEMO_SRC", str(common.REPO / "src" / "yadism")))  # the override is for trying the census on a scratch worktree
SKIP_DIRS = ()


class Untranslatable(Exception):
    pass


def dotted(node):
    parts = []
    while isinstance(node, ast.Attribute):
        parts.append(node.attr)
        node = node.value
    if isinstance(node, ast.Name):
        parts.append(node.id)
        return ".".join(reversed(parts))
    return None


def module_globals(tree):
    """names bound at module level (imports, defs, classes, assignments)"""
    out = set()
    for n in tree.body:
        if isinstance(n, (ast.Import, ast.ImportFrom)):
            for a in n.names:
                out.add((a.asname or a.name).split(".")[0])
        elif isinstance(n, (ast.FunctionDef, ast.ClassDef)):
            out.add(n.name)
        elif isinstance(n, (ast.Assign, ast.AnnAssign, ast.AugAssign)):
            for t in (n.targets if isinstance(n, ast.Assign) else [n.target]):
                for s in ast.walk(t):
                    if isinstance(s, ast.Name):
                        out.add(s.id)
    return out


def init_only_attrs(cls):
    """`self.X` attributes of a class that are bound in `__init__` and nowhere else in the class"""
    where = {}
    for fn in cls.body:
        if not isinstance(fn, ast.FunctionDef):
            continue
        for n in ast.walk(fn):
            tgts = []
            if isinstance(n, ast.Assign):
                tgts = n.targets
            elif isinstance(n, (ast.AugAssign, ast.AnnAssign)):
                tgts = [n.target]
            elif isinstance(n, ast.Delete):
                tgts = n.targets
            for t in tgts:
                for s in ast.walk(t):
                    d = dotted(s) if isinstance(s, ast.Attribute) else None
                    if d and d.startswith("self.") and d.count(".") == 1:
                        where.setdefault(d, set()).add(fn.name)
                    # a store *into* self.X (self.X[k] = v) from outside __init__ also makes it mutable
                    if isinstance(s, ast.Subscript):
                        d2 = dotted(s.value)
                        if d2 and d2.startswith("self.") and d2.count(".") == 1:
                            where.setdefault(d2, set()).add(fn.name)
    # methods and properties are code: `self.zeros` (a property) is as constant as the class
    methods = {"self." + f.name for f in cls.body if isinstance(f, ast.FunctionDef)}
    return sorted({a for a, fns in where.items() if fns <= {"__init__"}} | methods)


def reads_of(fn, globs):
    """names a function can read: parameters (except self) and self attributes (first level), with local
    names resolved transitively to what they were computed from"""
    params = [a.arg for a in fn.args.args + fn.args.kwonlyargs if a.arg not in ("self", "cls")]
    if fn.args.vararg:
        params.append(fn.args.vararg.arg)
    if fn.args.kwarg:
        params.append(fn.args.kwarg.arg)
    local_src = {}  # local name -> set of names its values were computed from

    def names_in(node):
        out = set()
        for s in ast.walk(node):
            if isinstance(s, ast.Attribute):
                d = dotted(s)
                if d and d.startswith("self."):
                    out.add(".".join(d.split(".")[:2]))
            elif isinstance(s, ast.Name) and isinstance(s.ctx, ast.Load):
                if s.id not in ("self", "cls") and s.id not in globs and not hasattr(builtins, s.id):
                    out.add(s.id)
        return out

    for n in ast.walk(fn):
        if isinstance(n, ast.Assign):
            for t in n.targets:
                for s in ast.walk(t):
                    if isinstance(s, ast.Name) and isinstance(s.ctx, ast.Store):
                        local_src.setdefault(s.id, set()).update(names_in(n.value))
        elif isinstance(n, ast.AugAssign) and isinstance(n.target, ast.Name):
            local_src.setdefault(n.target.id, set()).update(names_in(n.value))
        elif isinstance(n, (ast.For, ast.comprehension)):
            for s in ast.walk(n.target):
                if isinstance(s, ast.Name):
                    local_src.setdefault(s.id, set()).update(names_in(n.iter))
        elif isinstance(n, ast.ExceptHandler) and n.name:
            local_src.setdefault(n.name, set())
        elif isinstance(n, ast.Lambda):
            for a in n.args.args:
                local_src.setdefault(a.arg, set())
        elif isinstance(n, ast.Call) and isinstance(n.func, ast.Attribute) and isinstance(n.func.value, ast.Name) and n.func.attr in ("append", "extend", "insert", "add", "update"):
            # key.append(flag): the local list now also depends on the argument
            for a in n.args:
                local_src.setdefault(n.func.value.id, set()).update(names_in(a))
        elif isinstance(n, ast.With):
            for it in n.items:
                if it.optional_vars is not None:
                    for s in ast.walk(it.optional_vars):
                        if isinstance(s, ast.Name):
                            local_src.setdefault(s.id, set()).update(names_in(it.context_expr))

    def resolve(names):
        seen, todo, out = set(), list(names), set()
        while todo:
            x = todo.pop()
            if x in seen:
                continue
            seen.add(x)
            if x in local_src and x not in params:
                todo.extend(local_src[x])
            else:
                out.add(x)
        return out

    return params, names_in, resolve


def sub_blocks(st):
    """the statement lists nested directly in a compound statement, with the `if` test that guards them"""
    if isinstance(st, ast.If):
        return [(st.body, st.test), (st.orelse, None)]
    if isinstance(st, (ast.For, ast.While)):
        return [(st.body, None), (st.orelse, None)]
    if isinstance(st, ast.Try):
        return [(st.body, None), (st.orelse, None), (st.finalbody, None)] + [(h.body, None) for h in st.handlers]
    if isinstance(st, ast.With):
        return [(st.body, None)]
    return []


def find_block(stmts, node, guards=()):
    """the innermost statement list that contains `node` as a direct element, and the `if` tests around it"""
    for st in stmts:
        if st is node:
            return stmts, guards
        for blk, test in sub_blocks(st):
            r = find_block(blk, node, guards + ((test,) if test is not None else ()))
            if r is not None:
                return r
    return None


def sites_of_function(fn, qual, globs, immutable):
    params, names_in, resolve = reads_of(fn, globs)
    stores, store_stmts, lookups, flags_tested, flags_set = {}, {}, set(), set(), {}
    slots_tested, slots_set = set(), set()
    assigned_attrs = set()
    for n in ast.walk(fn):
        if isinstance(n, ast.Assign):
            for t in n.targets:
                if isinstance(t, ast.Subscript):
                    d = dotted(t.value)
                    if d and (d.startswith("self.") or d in globs):
                        stores.setdefault(d, []).append(t.slice)
                        store_stmts.setdefault(d, []).append(n)
                for s_ in ast.walk(t):
                    d_ = dotted(s_) if isinstance(s_, ast.Attribute) else None
                    if d_ and d_.startswith("self."):
                        assigned_attrs.add(".".join(d_.split(".")[:2]))
                d = dotted(t) if isinstance(t, ast.Attribute) else None
                if d and d.startswith("self.") and isinstance(n.value, ast.Constant):
                    flags_set[d] = n.value.value
                if d and d.startswith("self.") and not isinstance(n.value, ast.Constant):
                    slots_set.add(d)
                if isinstance(t, ast.Name) and t.id in globs and any(isinstance(g_, ast.Global) and t.id in g_.names for g_ in ast.walk(fn)):
                    slots_set.add(t.id)
        if isinstance(n, ast.Compare) and len(n.ops) == 1 and isinstance(n.ops[0], (ast.In, ast.NotIn)):
            d = dotted(n.comparators[0])
            if d:
                lookups.add(d)
        if isinstance(n, ast.Subscript) and isinstance(n.ctx, ast.Load):
            d = dotted(n.value)
            if d:
                lookups.add(d)
        if isinstance(n, ast.Call) and isinstance(n.func, ast.Attribute) and n.func.attr in ("get", "setdefault"):
            d = dotted(n.func.value)
            if d:
                lookups.add(d)
        if isinstance(n, ast.If):
            t = n.test.operand if isinstance(n.test, ast.UnaryOp) and isinstance(n.test.op, ast.Not) else n.test
            d = dotted(t) if isinstance(t, ast.Attribute) else None
            if d and d.startswith("self."):
                flags_tested.add(d)
            # single-slot memo: `if self.X is not None: return self.X` ... `self.X = value`
            if isinstance(t, ast.Compare) and len(t.ops) == 1 and isinstance(t.ops[0], (ast.Is, ast.IsNot)) and isinstance(t.comparators[0], ast.Constant) and t.comparators[0].value is None:
                d = dotted(t.left) if isinstance(t.left, ast.Attribute) else None
                if d and (d.startswith("self.") or d in globs):
                    slots_tested.add(d)
    out = []
    all_reads = resolve(names_in(fn))
    for d, keys in stores.items():
        if d not in lookups:
            continue
        if ".".join(d.split(".")[:2]) in assigned_attrs and d.count(".") > 1:
            continue  # an output object built by this very function (self.res = ...; self.res.orders[o] = ...)
        texts = sorted({ast.unparse(k) for k in keys})
        if len(texts) != 1:
            raise Untranslatable(f"{qual}: table {d} is filled under several keys {texts}")
        key_vars = resolve(names_in(keys[0]))
        # what the stored value can depend on: the names read in the innermost block that holds the store
        # (the "miss" branch); a name compared for equality with an init-only attribute in an enclosing
        # `if` is pinned by that attribute
        reads, pinned = set(), set()
        for st in store_stmts[d]:
            blk, guards = find_block(fn.body, st)
            for b in blk:
                reads |= names_in(b)
            for g in guards:
                if isinstance(g, ast.Compare) and len(g.ops) == 1 and isinstance(g.ops[0], ast.Eq):
                    a_, b_ = g.left, g.comparators[0]
                    for u, v in ((a_, b_), (b_, a_)):
                        if isinstance(u, ast.Name) and dotted(v) in immutable:
                            pinned.add(u.id)
        deps = sorted(x for x in resolve(reads) if x != d and x not in pinned)
        out.append(dict(where=qual, table=d, key=texts[0], keyVars=sorted(key_vars), deps=deps, immutable=[a for a in immutable if a in deps]))
    for d in sorted(slots_tested & slots_set):
        deps = sorted(x for x in all_reads if x != d and x not in assigned_attrs)
        out.append(dict(where=qual, table=d, key="()", keyVars=[], deps=deps, immutable=[a for a in immutable if a in deps]))
    for d in sorted(flags_tested & set(flags_set)):
        # a flag memo: the outputs are the attributes the function itself assigns
        deps = sorted(x for x in all_reads if x != d and x not in assigned_attrs)
        out.append(dict(where=qual, table=d, key="()", keyVars=[], deps=deps, immutable=[a for a in immutable if a in deps]))
    return out


def census():
    sites = []
    for path in sorted(SRC.rglob("*.py")):
        rel = path.relative_to(SRC.parent)
        tree = ast.parse(path.read_text())
        globs = module_globals(tree)
        modname = ".".join(rel.with_suffix("").parts)
        for n in tree.body:
            if isinstance(n, ast.FunctionDef):
                sites += sites_of_function(n, f"{modname}.{n.name}", globs, [])
            elif isinstance(n, ast.ClassDef):
                imm = init_only_attrs(n)
                for f in n.body:
                    if isinstance(f, ast.FunctionDef):
                        sites += sites_of_function(f, f"{modname}.{n.name}.{f.name}", globs, imm)
    return sites


MUTATORS = {"pop", "update", "setdefault", "clear", "popitem", "append", "extend", "insert", "remove", "sort", "reverse", "add", "discard"}


def is_mutable_value(node):
    if isinstance(node, (ast.Dict, ast.List, ast.Set, ast.DictComp, ast.ListComp, ast.SetComp)):
        return True
    if isinstance(node, ast.Call):
        f = dotted(node.func) or ""
        return f.split(".")[-1] in ("dict", "list", "set", "defaultdict", "OrderedDict", "Counter", "deque")
    return False


def shared_state():
    """process-wide mutable state: module-level names and class-level attributes that hold a mutable
    container (or are rebound through `global`) and that some function of the package changes"""
    out = []
    for path in sorted(SRC.rglob("*.py")):
        tree = ast.parse(path.read_text())
        modname = ".".join(path.relative_to(SRC.parent).with_suffix("").parts)
        cands = {}  # name as written in stores -> description
        for n in tree.body:
            if isinstance(n, ast.Assign) and is_mutable_value(n.value):
                for t in n.targets:
                    if isinstance(t, ast.Name):
                        cands[t.id] = t.id
            elif isinstance(n, ast.ClassDef):
                for b in n.body:
                    if isinstance(b, ast.Assign) and is_mutable_value(b.value):
                        for t in b.targets:
                            if isinstance(t, ast.Name):
                                for prefix in ("self", "cls", n.name, "type(self)", "self.__class__"):
                                    cands[f"{prefix}.{t.id}"] = f"{n.name}.{t.id}"
        changed = set()
        # rebinding a class attribute from inside a function: `cls.X = v`, `ClassName.X = v`, `type(self).X = v`
        class_names = {c.name for c in tree.body if isinstance(c, ast.ClassDef)}
        for c in [c for c in tree.body if isinstance(c, ast.ClassDef)]:
            for m in ast.walk(c):
                if isinstance(m, (ast.Assign, ast.AugAssign)):
                    for t in (m.targets if isinstance(m, ast.Assign) else [m.target]):
                        if isinstance(t, ast.Attribute):
                            base = ast.unparse(t.value)
                            if base in ("cls", "type(self)", "self.__class__") or base in class_names:
                                changed.add(f"{c.name if base not in class_names else base}.{t.attr}")
        for n in ast.walk(tree):
            if isinstance(n, ast.Global):
                for g in n.names:
                    changed.add(g)
            if isinstance(n, ast.FunctionDef):
                inst_attrs = set()  # self.X rebound in this function: an instance attribute shadows the class one
                for m in ast.walk(n):
                    if isinstance(m, ast.Assign):
                        for t in m.targets:
                            d = dotted(t) if isinstance(t, ast.Attribute) else None
                            if d:
                                inst_attrs.add(d)
                for m in ast.walk(n):
                    tgt = None
                    if isinstance(m, (ast.Assign, ast.AugAssign, ast.Delete)):
                        for t in (m.targets if not isinstance(m, ast.AugAssign) else [m.target]):
                            if isinstance(t, ast.Subscript):
                                tgt = ast.unparse(t.value)
                                if tgt in cands:
                                    changed.add(cands[tgt])
                    if isinstance(m, ast.Call) and isinstance(m.func, ast.Attribute) and m.func.attr in MUTATORS:
                        tgt = ast.unparse(m.func.value)
                        if tgt in cands:
                            changed.add(cands[tgt])
        for c in sorted(changed):
            out.append((modname, c))
    return out


def lstr(s):
    return '"' + s.replace("\\", "\\\\").replace('"', '\\"') + '"'


def llist(xs):
    return "[" + ", ".join(lstr(x) for x in xs) + "]"


def render(sites, shared):
    L = ["/- GENERATED by harness/translate_memo.py from /repo's working tree: do not edit. -/", "", "namespace Yadism.Generated.Memo", "",
         "structure Site where", "  fn : String", "  table : String", "  key : String", "  keyVars : List String", "  deps : List String", "  immutable : List String", "  deriving DecidableEq, Repr", "",
         "def sites : List Site := ["]
    L.append(",\n".join(f"  ⟨{lstr(s['where'])}, {lstr(s['table'])}, {lstr(s['key'])}, {llist(s['keyVars'])}, {llist(s['deps'])}, {llist(s['immutable'])}⟩" for s in sites))
    L += ["]", "", "/-- process-wide mutable state that some function changes: (module, name) -/", "def sharedState : List (String × String) := ["]
    L.append(",\n".join(f"  ({lstr(m)}, {lstr(n)})" for m, n in shared))
    L += ["]", "", "end Yadism.Generated.Memo"]
    return "\n".join(L) + "\n"


def regenerate():
    sites = census()
    shared = shared_state()
    out = common.LEAN / "YadismModel" / "Generated" / "Memo.lean"
    txt = render(sites, shared)
    if not out.exists() or out.read_text() != txt:
        out.write_text(txt)
    return sites


if __name__ == "__main__":
    for s in regenerate():
        print(s)
    print("shared state:", shared_state())
