"""Shared machinery of the checks: environment, Lean build/audit, line-protocol driver, evidence,
verdicts and known findings.

Every check is `python harness/run.py <Cxx> <quick|thorough>`; see DESIGN.md section 3.
"""

import fractions
import json
import os
import pathlib
import random
import re
import subprocess
import sys
import time

VERIF = pathlib.Path(__file__).resolve().parent.parent
REPO = pathlib.Path(os.environ.get("YADISM_REPO", "/repo"))
LEAN = VERIF / "lean"
EVID = VERIF / "evidence"
REPLAY = VERIF / "replays"
GUARD = "YADISM_VERIF"

ALLOWED_AXIOMS = {"propext", "Classical.choice", "Quot.sound"}


def setup_env(jit=False):
    """Environment for importing the real yadism from /repo's working tree."""
    if jit is not None:
        os.environ.setdefault("NUMBA_DISABLE_JIT", "0" if jit else "1")
    os.environ.setdefault("NUMBA_CACHE_DIR", str(VERIF / ".cache" / "numba"))
    os.environ[GUARD] = "1"
    src = str(REPO / "src")
    if src not in sys.path:
        sys.path.insert(0, src)
    import warnings

    warnings.filterwarnings("ignore")
    import yadism.log

    yadism.log.silent_mode = True
    import yadism

    assert pathlib.Path(yadism.__file__).resolve().is_relative_to(REPO.resolve()), yadism.__file__
    return yadism


def seed():
    return int(os.environ.get("VERIF_SEED", "20260926"))


def rng(tag=""):
    return random.Random(f"{seed()}:{tag}")


# ------------------------------------------------------------------------------------------------
# exact rationals on the wire


def q(x):
    """float/int/Fraction -> 'num/den' (exact value of the double)."""
    if isinstance(x, bool):
        return "1" if x else "0"
    if isinstance(x, int):
        return str(x)
    f = fractions.Fraction(x)
    return f"{f.numerator}/{f.denominator}" if f.denominator != 1 else str(f.numerator)


def unq(s):
    return fractions.Fraction(s)


# ------------------------------------------------------------------------------------------------
# Lean


class LeanError(Exception):
    pass


def run_cmd(cmd, cwd=None, timeout=3600, input_=None, env=None):
    p = subprocess.run(
        cmd,
        cwd=cwd,
        input=input_,
        capture_output=True,
        text=True,
        timeout=timeout,
        env=env,
    )
    return p.returncode, p.stdout, p.stderr


def lake_build(targets, timeout=3000):
    """Build the given module targets. Returns (ok, log)."""
    t0 = time.time()
    rc, out, err = run_cmd(["lake", "build", *targets], cwd=LEAN, timeout=timeout)
    return rc == 0, (out + err), time.time() - t0


_src_cache = {}


def forbidden_tokens(files):
    """grep the given Lean sources for constructs the trusted base excludes (outside comments)."""
    bad = []
    pat = re.compile(
        r"\b(sorry|admit|native_decide|bv_decide|implemented_by|unsafe)\b|^\s*axiom\s|maxHeartbeats\s+0\b"
    )
    for f in files:
        txt = pathlib.Path(f).read_text()
        # strip block comments and line comments
        txt2 = re.sub(r"/-.*?-/", lambda m: "\n" * m.group(0).count("\n"), txt, flags=re.S)
        for n, line in enumerate(txt2.splitlines(), 1):
            line = line.split("--")[0]
            if pat.search(line):
                bad.append(f"{f}:{n}: {line.strip()}")
    return bad


def audit_axioms(module, theorems):
    """`#print axioms` for every listed theorem of `module`. Returns dict thm -> sorted axioms
    (or None when the theorem does not exist / did not compile)."""
    src = f"import {module}\n" + "".join(f"#print axioms {t}\n" for t in theorems)
    tmp = LEAN / ".audit"
    tmp.mkdir(exist_ok=True)
    f = tmp / f"Audit_{module.replace('.', '_')}.lean"
    f.write_text(src)
    rc, out, err = run_cmd(["lake", "env", "lean", str(f)], cwd=LEAN, timeout=1800)
    res = {t: None for t in theorems}
    txt = out + err
    # messages look like: 'Thm' depends on axioms: [propext, Quot.sound]   or
    #                     'Thm' does not depend on any axioms
    for m in re.finditer(r"'([^']+)' depends on axioms: \[([^\]]*)\]", txt, flags=re.S):
        res_key = m.group(1)
        axs = sorted(a.strip() for a in m.group(2).replace("\n", " ").split(",") if a.strip())
        for t in theorems:
            if t == res_key or t.endswith("." + res_key) or res_key.endswith("." + t):
                res[t] = axs
    for m in re.finditer(r"'([^']+)' does not depend on any axioms", txt):
        res_key = m.group(1)
        for t in theorems:
            if t == res_key or t.endswith("." + res_key) or res_key.endswith("." + t):
                res[t] = []
    return res, txt


def list_theorems(lean_file):
    """names of `theorem`s declared in a property file (namespaces tracked naively)."""
    txt = pathlib.Path(lean_file).read_text()
    txt = re.sub(r"/-.*?-/", "", txt, flags=re.S)
    ns = []
    out = []
    for line in txt.splitlines():
        line = line.split("--")[0]
        m = re.match(r"\s*namespace\s+(\S+)", line)
        if m:
            ns.append(m.group(1))
            continue
        m = re.match(r"\s*end\s+(\S+)\s*$", line)
        if m and ns and ns[-1] == m.group(1):
            ns.pop()
            continue
        m = re.match(r"\s*(?:@\[[^\]]*\]\s*)?(?:protected\s+)?theorem\s+([^\s:({\[]+)", line)
        if m:
            out.append(".".join(ns + [m.group(1)]))
    return out


def theorem_spans(lean_file):
    """theorem name -> (first line, last line) in the property file"""
    lines = pathlib.Path(lean_file).read_text().splitlines()
    names = list_theorems(lean_file)
    starts = []
    for i, line in enumerate(lines, 1):
        m = re.match(r"\s*(?:@\[[^\]]*\]\s*)?(?:protected\s+)?theorem\s+([^\s:({\[]+)", line)
        if m:
            starts.append((i, m.group(1)))
    out = {}
    for j, (ln, short) in enumerate(starts):
        end = starts[j + 1][0] - 1 if j + 1 < len(starts) else len(lines)
        full = next((n for n in names if n.endswith("." + short) or n == short), short)
        out[full] = (ln, end)
    return out


class Driver:
    """Batch access to the Lean line-protocol driver."""

    def __init__(self):
        self.reqs = []

    def add(self, line):
        self.reqs.append(line)
        return len(self.reqs) - 1

    def run(self, timeout=3000):
        if not self.reqs:
            return []
        inp = "\n".join(self.reqs) + "\n"
        # the driver is interpreted (`lean --run`): everything it imports must have been built, whichever
        # check runs first on a fresh checkout
        mods = [ln.split()[1] for ln in (LEAN / "Main.lean").read_text().splitlines() if ln.startswith("import ")]
        okb, logb, _ = lake_build(mods)
        if not okb:
            raise LeanError("driver imports do not build: " + logb[-1500:])
        rc, out, err = run_cmd(
            ["lake", "env", "lean", "--run", "Main.lean"], cwd=LEAN, input_=inp, timeout=timeout
        )
        if rc != 0:
            raise LeanError(f"driver failed rc={rc}: {err[-2000:]}")
        lines = out.splitlines()
        if len(lines) != len(self.reqs):
            raise LeanError(f"driver returned {len(lines)} lines for {len(self.reqs)} requests: {err[-500:]}")
        return lines


# ------------------------------------------------------------------------------------------------
# verdicts


def _strict(o):
    """strict JSON has no NaN / Infinity: non-finite floats are written as strings"""
    if isinstance(o, float):
        return o if o == o and o not in (float("inf"), float("-inf")) else str(o)
    if isinstance(o, dict):
        return {(k if isinstance(k, (str, int, float, bool)) or k is None else str(k)): _strict(v) for k, v in o.items()}
    if isinstance(o, (list, tuple)):
        return [_strict(v) for v in o]
    try:
        import numpy as _np

        if isinstance(o, _np.floating):
            return _strict(float(o))
        if isinstance(o, _np.integer):
            return int(o)
        if isinstance(o, _np.ndarray):
            return _strict(o.tolist())
    except Exception:  # noqa
        pass
    return o


class Check:
    """Accumulates what one run of one property's check did, and turns it into evidence + exit code."""

    def __init__(self, pid, tier, level="proof"):
        self.pid = pid
        self.tier = tier
        self.level = level
        self.t0 = time.time()
        self.obligations = []  # (name, ok, detail)
        self.corr = {}  # stream -> dict(cases=, disagreements=, dist=)
        self.search = {}  # oracle -> dict(cases=, failures=)
        self.samples = []
        self.failing_inputs = []  # dict(kind=, what=, data=)
        self.broken = []  # names of theorems / correspondences that no longer check
        self.notes = []
        self.assumptions = []
        self.trusted = []
        self.extra = {}
        self.known = load_known(pid)
        self.known_hit = []

    # -- proof obligations
    def obligation(self, name, ok, detail=""):
        self.obligations.append((name, bool(ok), detail))
        if not ok:
            self.broken.append(f"theorem:{name} {detail}"[:400])

    # -- correspondence
    def corr_case(self, stream, agree, sample=None, detail=None, feature=None):
        c = self.corr.setdefault(stream, dict(cases=0, disagreements=0, dist={}, first=None))
        c["cases"] += 1
        if feature is not None:
            c["dist"][feature] = c["dist"].get(feature, 0) + 1
        if not agree:
            c["disagreements"] += 1
            if c["first"] is None:
                c["first"] = detail if detail is not None else sample
                self.broken.append(f"correspondence:{stream} {json.dumps(c['first'], default=str)[:600]}")
        if sample is not None and len(self.samples) < 6 and c["cases"] <= 2:
            self.samples.append({"stream": stream, "case": sample})

    # -- search on the real code
    def search_case(self, oracle, ok, what=None, data=None, sample=None, nontrivial=True):
        s = self.search.setdefault(oracle, dict(cases=0, failures=0, nontrivial=0))
        s["cases"] += 1
        if nontrivial:
            s["nontrivial"] += 1
        if sample is not None and s["cases"] <= 1 and len(self.samples) < 10:
            self.samples.append({"oracle": oracle, "case": sample})
        if not ok:
            s["failures"] += 1
            key = what or oracle
            for k in self.known:
                if k["status"] == "known" and re.search(k["match"], key):
                    if k["id"] not in [h["id"] for h in self.known_hit]:
                        self.known_hit.append(k)
                    return
            if len(self.failing_inputs) < 20:
                self.failing_inputs.append(dict(oracle=oracle, what=key, data=data))

    def finish(self):
        wall = time.time() - self.t0
        EVID.mkdir(exist_ok=True)
        REPLAY.mkdir(exist_ok=True)
        n_ob = len(self.obligations)
        n_ok = sum(1 for _, ok, _ in self.obligations if ok)
        evaluations = sum(c["cases"] for c in self.corr.values()) + sum(
            s["cases"] for s in self.search.values()
        )
        nontrivial = sum(len(c["dist"]) or min(c["cases"], 1) for c in self.corr.values()) + sum(
            s["nontrivial"] for s in self.search.values()
        )
        violation = bool(self.failing_inputs) or bool(self.broken)
        # vacuity guard: an oracle all of whose cases compared zero with zero has decided nothing
        vacuous = sorted(k for k, s in self.search.items() if s["cases"] > 0 and s["nontrivial"] == 0)
        if vacuous:
            self.notes.append("VACUOUS search oracles in this run (every case trivial): " + ", ".join(vacuous))
            print(f"WARNING property={self.pid} vacuous oracles: {', '.join(vacuous)}", file=sys.stderr)
        cov = dict(
            obligations=max(n_ob, 0),
            discharged=n_ok,
            checker_cmd="lake build (Lean 4.33 kernel) + `#print axioms` audit of every property theorem"
            + ("; leanchecker re-check of the property .olean" if self.tier == "thorough" else ""),
            trusted_base=self.trusted
            or [
                "Lean 4.33 kernel",
                "axioms propext, Classical.choice, Quot.sound only (audited per theorem each run)",
                "translator / correspondence harness under /verif/harness",
            ],
            obligations_list=[dict(name=n, ok=ok, detail=d) for n, ok, d in self.obligations],
            evaluations=max(evaluations, 0),
            distinct_nontrivial=nontrivial,
            rule="correspondence cases are generated from one PRNG seeded by VERIF_SEED; "
            "distinct_nontrivial counts distinct feature classes hit per correspondence stream plus "
            "search cases whose oracle relation is not vacuous (both sides non-zero)",
            samples=self.samples[:10] or [{"note": "no sampled case in this run"}],
            correspondence={
                k: dict(cases=v["cases"], disagreements=v["disagreements"], distribution=v["dist"])
                for k, v in self.corr.items()
            },
            search=self.search,
            known_findings_reported=[k["id"] for k in self.known_hit],
            **self.extra,
        )
        ev = dict(
            property_id=self.pid,
            tier=self.tier,
            seed=seed(),
            level=self.level,
            coverage=cov,
            assumptions=self.assumptions,
            wall_s=round(wall, 2),
            violations=len(self.failing_inputs) + (1 if self.broken and not self.failing_inputs else 0),
            notes=self.notes,
        )
        (EVID / f"{self.pid}.json").write_text(json.dumps(_strict(ev), indent=1, default=str, allow_nan=False))
        for k in self.known_hit:
            print(f"KNOWN-FINDING: property={self.pid} {k['what']}")
        if violation:
            rp = REPLAY / f"{self.pid}_{self.tier}_{seed()}.json"
            rp.write_text(
                json.dumps(
                    dict(
                        property=self.pid,
                        seed=seed(),
                        tier=self.tier,
                        failing_inputs=self.failing_inputs,
                        broken=self.broken,
                        replay_cmd=f"VERIF_SEED={seed()} ./check {self.pid} {self.tier}",
                    ),
                    indent=1,
                    default=str,
                )
            )
            if self.failing_inputs:
                print(f"VIOLATION property={self.pid} replay={rp}")
            else:
                print(f"VIOLATION property={self.pid} replay={rp} no-failing-input-found")
            for b in self.broken[:5]:
                print("  broken:", b[:300])
            for fi in self.failing_inputs[:5]:
                print("  failing:", json.dumps(fi, default=str)[:400])
            return 1
        print(
            f"OK property={self.pid} tier={self.tier} obligations={n_ok}/{n_ob} "
            f"corr={ {k: (v['cases'], v['disagreements']) for k, v in self.corr.items()} } "
            f"search={ {k: (v['cases'], v['failures']) for k, v in self.search.items()} } wall={wall:.1f}s"
        )
        return 0


def load_known(pid):
    f = VERIF / "known_findings.json"
    if not f.exists():
        return []
    data = json.loads(f.read_text())
    return [k for k in data.get("findings", []) if k["property"] == pid]


def lean_proof_step(chk, prop_module, extra_modules=(), thorough=False):
    """Build the property module, audit axioms and forbidden tokens; record obligations."""
    files = [LEAN / (prop_module.replace(".", "/") + ".lean")]
    ok, log, dt = lake_build([prop_module, *extra_modules])
    thms = list_theorems(files[0])
    if not ok:
        # find which theorems failed: any error message lines
        errs = re.findall(r"error: ([^\n]*)", log)
        chk.notes.append("lake build failed: " + " | ".join(errs[:8]))
        # attribute each error to the theorem whose source range contains it
        spans = theorem_spans(files[0])
        rel = prop_module.replace(".", "/") + ".lean"
        hit = {}
        for m in re.finditer(re.escape(rel) + r":(\d+):\d+: ([^\n]*)", log):
            ln = int(m.group(1))
            for name, (a, b) in spans.items():
                if a <= ln <= b:
                    hit.setdefault(name, m.group(2))
        if hit:
            for t in thms:
                if t in hit:
                    chk.obligation(t, False, "does not check: " + hit[t][:200])
                else:
                    chk.obligations.append((t, False, "not re-checked: module failed to build"))
        else:
            for t in thms:
                chk.obligations.append((t, False, "not re-checked: a dependency failed to build"))
            chk.obligation(prop_module, False, "build failed: " + (errs[0] if errs else log[-300:]))
        return False
    bad = forbidden_tokens(_dep_files(prop_module))
    if bad:
        chk.obligation("no-forbidden-constructs", False, "; ".join(bad[:5]))
    else:
        chk.obligation("no-forbidden-constructs", True, "")
    res, raw = audit_axioms(prop_module, thms)
    for t in thms:
        axs = res.get(t)
        if axs is None:
            chk.obligation(t, False, "theorem missing in compiled module")
        elif not set(axs) <= ALLOWED_AXIOMS:
            chk.obligation(t, False, f"axioms {axs}")
        else:
            chk.obligation(t, True, "axioms: " + ",".join(axs))
    chk.extra["lean_build_s"] = round(dt, 1)
    if thorough:
        rc, out, err = run_cmd(["lake", "env", "leanchecker", prop_module], cwd=LEAN, timeout=3000)
        chk.obligation("leanchecker:" + prop_module, rc == 0, (out + err)[-300:] if rc else "")
    return all(ok for _, ok, _ in chk.obligations)


def _dep_files(module):
    """Lean source files of this project transitively imported by `module`."""
    seen = set()
    todo = [module]
    out = []
    while todo:
        m = todo.pop()
        if m in seen:
            continue
        seen.add(m)
        f = LEAN / (m.replace(".", "/") + ".lean")
        if not f.exists():
            continue
        out.append(f)
        for mm in re.findall(r"^import\s+(YadismModel\.\S+)", f.read_text(), flags=re.M):
            todo.append(mm)
    return out
