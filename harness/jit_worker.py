"""Subprocess worker: evaluates kernels and runs cards under the NUMBA_* environment it is started
with (used to compare compiled and interpreted execution).  Usage: python -m harness.jit_worker in.json out.json"""

import importlib
import json
import sys

import numpy as np


def main(inp, outp):
    from harness import common

    common.setup_env(jit=None)
    req = json.load(open(inp))
    res = dict(kernels=[], runs=[], cells=[])
    for k in req.get("kernels", []):
        mod, name = k["name"].rsplit(".", 1)
        f = getattr(importlib.import_module(mod), name)
        try:
            if k["two"]:
                v = float(f(k["z"], np.array(k["args"], dtype=float)))
            else:
                v = float(f(k["z"]))
            res["kernels"].append(dict(value=repr(v)))
        except Exception as e:
            res["kernels"].append(dict(error=f"{type(e).__name__}: {e}"[:200]))
    import yadism

    for r in req.get("runs", []):
        try:
            out = yadism.run_yadism(r["theory"], r["observables"])
            o = {}
            for name in r["observables"]["observables"]:
                o[name] = [{str(k): np.asarray(v[0]).tolist() for k, v in p.orders.items()} for p in out[name]]
            res["runs"].append(dict(ok=o))
        except Exception as e:
            res["runs"].append(dict(error=f"{type(e).__name__}: {e}"[:300]))
    if req.get("cells"):
        from harness import lattice

        res["cells"] = []
        for c in req["cells"]:
            out, vals = lattice.structural_values(tuple(c))
            res["cells"].append(dict(outcome=out, values=[repr(v) for v in vals]))
    json.dump(res, open(outp, "w"))


if __name__ == "__main__":
    main(sys.argv[1], sys.argv[2])
