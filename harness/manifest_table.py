"""The claims table behind MANIFEST.json."""

TB = "Trusted: Lean 4.33 kernel; axioms propext/Classical.choice/Quot.sound only (audited each run; no native_decide, bv_decide, sorry, own axioms); the Python harness (translator, correspondence, generators). "


def fill(claim, na):
    claim(
        "C02",
        "proof",
        "Lean 4 theorems over a Rat model of the coupling/weight code + differential correspondence with the real functions",
        "For all rational EW parameters, Q2, polarisation, CKM2, nf and projectiles the model's LO weight maps equal the PDG NC expressions and the masked CKM sums (theorems in Properties/C02.lean); the model is tied to the real get_weight/get_fl11_weight/nc_weights/cc_weights*/Combiner by exact-input correspondence on every run; the real LO operator at grid nodes is compared with an independent evaluation of the same formulas.",
        TB + "Modelled, not verified: IEEE rounding of the Python arithmetic; the spec formulas are hand-transcribed from PDG/fact.rst; the Kronecker-delta property of the basis at nodes is observed here and proved under C19.",
        "DESIGN.md 6/C02",
    )
    for p in ["C01", "C03", "C04", "C05", "C06", "C07", "C08", "C09", "C10", "C11", "C12", "C13", "C14", "C15", "C16", "C17", "C18", "C19", "C20"]:
        na(p, "check not yet built in this round (design in DESIGN.md section 6); will be claimed once its Lean model, theorems and correspondence exist")
