"""The claims table behind MANIFEST.json."""

TB = "Trusted: Lean 4.33 kernel; axioms propext/Classical.choice/Quot.sound only (audited each run; no native_decide, bv_decide, sorry, own axioms); the Python harness (translator, correspondence, generators). "


def fill(claim, na):
    claim(
        "C02",
        "proof",
        "Lean 4 theorems over a Rat model of the coupling/weight code + differential correspondence with the real functions",
        "For all rational EW parameters, Q2, polarisation, CKM2, nf and projectiles the model's LO weight maps equal the PDG NC expressions and the masked CKM sums (theorems in Properties/C02.lean); the model is tied to the real get_weight/get_fl11_weight/nc_weights/cc_weights*/Combiner by exact-input correspondence on every run; the real LO operator at grid nodes is compared with an independent evaluation of the same formulas.",
        TB + "Known finding F29: at the grid node x = 1 the LO operator is 0 (conv.convolution's empty-domain exit drops the delta term too); every other node, the lowest included, is checked. "
        + "Modelled, not verified: IEEE rounding of the Python arithmetic; the spec formulas are hand-transcribed from PDG/fact.rst; the Kronecker-delta property of the basis at nodes is observed here and proved under C19.",
        "DESIGN.md 6/C02",
    )
    claim(
        "C06",
        "proof",
        "Lean 4 theorems over a Rat-with-infinity model of the threshold walls / nf_default / update_fns + exact-input correspondence",
        "nf = 3 + #(matching scales <= Q2) for every Q2 >= 0 and every monotone wall list (so equality already counts, and only the count matters); fixed-flavour schemes give nf = NfFF at every Q2 for any masses/ratios; unsorted thresholds are rejected. Tied to the real Combiner.nf at, one ulp below and above the walls the Runner actually built, and to update_fns exhaustively.",
        TB + "Modelled, not verified: numpy.digitize and the IEEE product m^2*k^2 (compared to 2 ulp); that beta0 in the scale-variation terms uses the same nf is observed on real runs.",
        "DESIGN.md 6/C06",
    )
    claim(
        "C07",
        "proof",
        "Lean 4 theorems about the Combiner model's kernel lists (list equalities lifted to every operator entry for an arbitrary convolution parameter) + Combiner correspondence",
        "FONLL full = massless ++ massive, ZM total = light, total = light ++ massive parts of c,b,t (all as kernel-list equalities for every configuration), FFNS NfFF=3 additivity for every operator entry and any coefficient function, positivity partition of get_weight/get_fl11_weight; the model's kernel list is compared with Combiner.collect_elems over the configuration lattice on every run; real runs check the same relations numerically.",
        TB + "Known finding F15: the literal 'total = light+charm+bottom+top' fails for NfFF>=4 (heavylight double counting); the theorem ffns_total_general states what holds instead. The lift of the positivity partition from the weight functions to every generator is observed, not proved.",
        "DESIGN.md 6/C07",
    )
    claim(
        "C08",
        "proof",
        "Lean 4 theorems (FFN0 kernels mirror FFNS kernels weight by weight) + Combiner correspondence; decay of coefficient-function differences observed on real FFNS/FFN0 runs",
        "PARTIAL. Proved for every configuration: the asymptotic generators (heavy, missing, intrinsic) produce kernels with exactly the parton weights of their massive counterparts, so FFNS-FFN0 reduces to differences of partonic coefficient functions. The order-by-order power-like decay of those differences (LeProHQ, adani, closed forms) is not provable from the repository's text: it is checked on real runs over Q2/m2 = 1e2..1e5 per order.",
        TB + "External compiled libraries LeProHQ/adani are parameters; the decay test is exploration-grade support.",
        "DESIGN.md 6/C08",
    )
    claim(
        "C12",
        "proof",
        "Lean 4 theorems (isospin on weights = rotation of the PDF, for any kernel list and convolution parameter; named-target table) + Combiner/update_target correspondence",
        "For every kernel list, every coefficient function/order/grid index and all rational Z, A: contracting the (Z,A) operator with a PDF equals contracting the proton operator with the (Z u+(A-Z) d)/A mixtures; neutron swaps u and d; the named-target table equals the documented values. Real runs compare target and rotated proton operators entry by entry (including FFN0 schemes where kernels share weight dicts).",
        TB + "Modelled: the Combiner's kernel list (corresponded on every run).",
        "DESIGN.md 6/C12",
    )
    claim(
        "C13",
        "proof",
        "Lean 4 theorems on the weight model (NC-EM factorisation in eta, e+/e- polarisation flip, CC charge conjugation for all three weight builders and arbitrary CKM/mask, equal-charge exchange) + weight correspondence + pairs of real runs",
        "All four relations are proved for the weight maps for every rational parameter value; linearity of the operator in the weights (opEntry) lifts them to outputs; pairs of real runs confirm them on whole operators.",
        TB + "The lift from weight maps to complete kernel lists is by linearity and is additionally observed on real runs; NC->EM is proved as NC-EM = eta*(A+eta*B).",
        "DESIGN.md 6/C13",
    )
    claim(
        "C05",
        "proof",
        "Lean 4 theorems: RGE residuals of the model's scale-variation terms vanish over an arbitrary commutative Q-algebra; renormalisation re-expansion as polynomial identities with explicit remainders; key/switch lemmas on the executable model; eko's flavour-space projectors (regenerated as exact rationals) decided to be matrix units and lifted to Mathlib matrices, giving the RGE on flavour x x-space with no hypothesis on the projectors; the executable model is compared with the real compute_local (stubbed convolutions, integer operators)",
        "For every choice of splitting kernels, coefficient functions, beta0, beta1: the (1,1), (2,1), (2,2) factorisation terms built by the model's sector_mapping make the muF-derivative vanish through a_s^2 (singlet with gluon mixing and the three non-singlet sectors); the ren_coeffs table is exactly the a_s(muF)->a_s(muR) re-expansion through a_s^3; switching a variation off removes exactly the entries carrying its log; intrinsic kernels never get a factorisation log; with eko's own projectors for nf=3..6 the same three residuals vanish as operators on flavour (x) x space (fact_rge_eko). The same generic model, instantiated on matrices, reproduces the real compute_local tensors for every key on random configurations each run.",
        TB + "Known finding F28: polarised observables take the unpolarised splitting functions in their ln(muF) terms (the RGE theorems are parametric in the kernels; which kernels the code's table holds is observed by fact_log_uses_the_kernels_of_the_observable). "
        + "Hypothesis `Products` (the convolved labels are products of their factors) is checked on Mellin moments of the real kernels; that DGLAP evolution in flavour space is sum_s pi_s (x) P_s is eko's convention; muF terms beyond a_s^2 are a TODO in the source.",
        "DESIGN.md 6/C05",
    )
    claim(
        "C11",
        "proof",
        "Lean 4 theorems: the coefficient triple equals the documented (N, y+, y-, yL) table for all rational x, y, Q2 and parameters; the result is that linear combination key by key; + correspondence of xs_coeffs and real XS-vs-SF runs",
        "All ten cross-section kinds: coefficients = documented combination (sign of the F3 term fixed by the lepton charge), result entries = c1 F2 + c2 FL + c3 xF3 of the same run for every order / scale-variation key (F3 skipped exactly when its coefficient is zero).",
        TB + "pi and sqrt(M2target) are parameters; the documented table is hand-transcribed (XSFPFCC after doc fix e936043f).",
        "DESIGN.md 6/C11",
    )
    claim(
        "C15",
        "proof",
        "Lean 4 theorems on a data model of get_raw/from_document and the tar/yaml layouts (numbers and tensors opaque) + layout correspondence against real tar archives + exact round trips of real runner outputs",
        "load(dump(o)) = o for YAML (any observable value) and for tar (any observable whose results share their order list, incl. None and empty), also under repeated cycles; the model's tar layout and reloaded object are compared literally with what the real dump_tar writes and load_tar returns.",
        TB + "That yaml repr / npz preserve doubles is yaml/numpy behaviour: exercised by real round trips (1-3 cycles, both formats), not modelled.",
        "DESIGN.md 6/C15",
    )
    claim(
        "C17",
        "proof",
        "Lean 4 theorems on the contraction model (formula, linearity, masking of missing flavours, log powers) + correspondence with the real ESFResult.apply_pdf incl. the scale arguments it passes; alpha_s construction observed only",
        "PARTIAL. Proved: prediction = sum over orders of a_s^k alpha^l lnR^i lnF^j times the contraction with f/x over the flavours the PDF provides; linear in the PDF; L^0=1 special case consistent. Observed on the real code: alpha_s/alpha are called at xiR*Q, xfxQ2 at xiF^2 Q2 on exactly the grid nodes; alpha_s from the theory card reproduces the reference value and runs with nf=NfFF in fixed-flavour schemes (LO analytic).",
        TB + "eko's Couplings (alpha_s solver) is external; logs and couplings enter the model as rational parameters.",
        "DESIGN.md 6/C17",
    )
    claim(
        "C14",
        "proof",
        "Lean 4 refinement proof: for every sequence of get_esf requests and cache drops the cache model answers each request with the object a fresh construction would give (induction over the operation list with a cache invariant; key injectivity lemma) + census of every memo table and of the process-wide mutable state of src/yadism, regenerated from the syntax trees each run and decided on in Lean + trace correspondence with the real StructureFunction cache + bit-exact real-run histories",
        "history_independence: any operation list (any permutation/superset of requests, duplicates, TMC inner requests, cross-section requests, drops anywhere) returns, for each request, an object built from its own observable, point and TMC flag; the sorted cache key determines the point whatever the dict's insertion order (the pre-fix insertion-order key is proved non-injective). The model's hit/miss trace and returned objects are compared with the real cache on random histories (incl. delegation between structure functions); the evaluation plan of Runner.get_result (stable Q2 sort, drops, placement by original index) is compared with an instrumented real Runner; real permuted/extended/repeated runs are compared bit for bit with single-point runs. Memo tables in general (Memo.run_eq_map): a table filled with compute(i) under key(i) answers every history with compute of the request iff the key determines the value, and a key that forgets a dependency has a two-request history with a wrong answer (Memo.incomplete_key_is_wrong); the memo tables of the code base are a table regenerated from the source (five sites: get_esf cache, the computed flag of an ESF, the scale-variation operator table, Runner.get_sf, the N3LO grid table): for each, whatever the miss branch reads is part of the key or an attribute assigned in __init__ only (memo_keys_cover_deps), the list of tables and keys is pinned (memo_census), a covered table is transparent for every history (covered_site_is_transparent), and the only process-wide mutable state any function changes is the N3LO grid table (shared_state_census). Observed besides: a sequence of fourteen different configurations sharing kinematics in one process against each run alone in a fresh process, bit for bit.",
        TB + "An ESF object's result is assumed to be a deterministic function of what it was constructed with; the memo census is syntactic (a key that mentions a name is taken to determine it; stores into an object's attributes from outside its class are not seen); hidden state in numba/LeProHQ/scipy is outside the model and only observed by the fresh-process comparison.",
        "DESIGN.md 6/C14",
    )
    claim(
        "C20",
        "proof",
        "Lean 4 theorems on an association-list model of compatibility.update (frame property, idempotence) and on a heap model of Python objects (soundness of a static store check for every execution) applied to the effect lists regenerated each run from the syntax trees of compatibility.update, CouplingConstants.from_dict, Runner.__init__ and the load methods + exact correspondence with the real update on random cards + deep comparison of the caller's cards around real runs",
        "Proved: every key update does not own (incl. nested kinematics lists, grids, CKM lists, held as opaque references) comes out with exactly the value it went in with, on both cards, for every scheme/target/optional-key combination (update_frame, nested_objects_shared); and update_idempotent: upgrading an already upgraded pair of cards returns exactly the same pair, for every card (every step is the identity on its own output and no later step touches what an earlier one reads or writes). No write into the caller's objects: on the heap model (objects at locations, .copy() allocates, nested objects shared) a program all of whose stores go at depth 0 into objects it created itself leaves every pre-existing object untouched for every choice of branches, values and aliases (Heap.safe_preserves); the regenerated effect lists of update (callees inlined), from_dict, Runner.__init__ (update, from_dict, log.setup inlined), StructureFunction.load and CrossSection.load pass the check (update_leaves_callers_objects, from_dict_…, runner_init_…, load_…), update hands the cards to no other code, and the callees that receive the cards elsewhere are a decided table (escapes_known). Observed on the real code: exact correspondence of the real update with the model on random cards; cards deep-equal before/after construction, get_result and a second construction; idempotence on every random card; output echoes cards, grid, pids, projectile.",
        TB + "The store classification of the effect translator is syntactic (mutating methods by name; class instantiation and displays return new objects; self is not one of the caller's objects) and refuses what it does not know; what the callees listed in escapes_known (eko's grid and basis, the ESF/EXS constructors, numpy, logging) do with the caller's nested objects is only seen by the real-run comparison.",
        "DESIGN.md 6/C20",
    )
    claim(
        "C18",
        "proof",
        "translator (Python ast -> Lean KExpr, regenerated each run and validated by Float evaluation against the Python functions) + kernel-decided theorem that every live call site stays inside its argument vector; JIT-vs-interpreter agreement tested",
        "PARTIAL. Proved (decide +kernel over a table regenerated from the source, plus a soundness lemma for the index summary): at each of the ~190 (class, order, part) and splitting-label call sites, the largest args index the kernel reads is inside the vector it is given, so no compiled kernel reads out of bounds. Tested, not proved: Lean Float evaluation of every generated term = interpreter value (all translated kernels, sampled arguments), interpreter = compiled value for all njit kernels, and whole runs agree in both modes.",
        TB + "LLVM/numba code generation is a parameter; kernels with loops/complex arithmetic are not translated (listed in evidence) and are covered by the JIT-vs-interpreter test only.",
        "DESIGN.md 6/C18",
    )
    claim(
        "C03",
        "proof",
        "translator (Python ast -> Lean KExpr, regenerated and Float-validated each run) + verified normaliser (polynomials in log(1-z) over powers of 1/(1-z), coefficients in Q[args0, zeta2, zeta3]) + kernel-decided coefficient identities on the generated terms, lifted by Mathlib calculus (HasDerivAt) to all x<1; structural theorem for from_distr_coeffs",
        "For every x<1, every nf / log(Q2/m2) and every value of the symbolic constants: d loc/dx = -sing(x) for (A) every RSL.from_distr_coeffs coefficient list (188 live call sites), (B-exact) P_qq^(0), P_gg^(0), P_ns^(1), the asymptotic g1/F3 LL non-singlet; (B-approx) the eight Vogt NNLO/N3LO non-singlet triples with every residual coefficient bounded by 1e-4 relative (exact residual formula proved); (C) the seven local-only kernels do not depend on x. A changed constant changes the generated term and the kernel re-decides. Closures and the P_qq x P_qq triple (log z, Li2) are outside the fragment: checked numerically on the real functions with an nf-power decomposition.",
        TB + "Known finding F20 (heavy NC N3LO regular parts are NaN: shipped grids contain NaN). Decimal literals are taken at their exact decimal value. Special functions li2/wgplg are uninterpreted.",
        "DESIGN.md 6/C03",
    )
    claim(
        "C16",
        "proof",
        "Lean 4 theorem for every environment of the Combiner model (structural proof that only channels of a finite set are ever requested + kernel decision of that set against module/class tables read from the live code each run) + outcome-class correspondence on the configuration lattice + real runs",
        "no_internal_error: for every nf, mass flags, weights, Q2, flavour, FONLL part, PTO<=3, PTO(evol)<=3 and TMC mode, building the structure function ends in 'ok' or an explicit rejection, never an internal lookup/attribute/import error; kinematics outside 0<x<=1, Q2>0 or below the grid are rejected for all rationals; every kind_flavor key is visited by the NaN sanitiser. The outcome class of the real code (Runner + Combiner + every kernel's RSL construction, no quadrature) is compared with the model on 4000 sampled cells per quick run / all ~205k cells in thorough; full runs check finiteness; all request paths (plain, TMC, cross section) are probed with illegal kinematics, incl. non-finite x and Q2 (defect F27), lists with repeated points, PTODIS below PTO, observables named by their kind alone and grids ending below 1.",
        TB + "Finiteness of the numbers is observed, not proved (massive N3LO grids give NaN, zeroed by the sanitiser: known finding F20 under C03).",
        "DESIGN.md 6/C16",
    )
    claim(
        "C10",
        "proof",
        "translator (symbolic, linear execution of the TMC classes of esf/tmc.py -> Lean KExpr coefficient table, regenerated and validated against the real classes each run) + Lean 4 theorems over the reals (Mathlib interval integrals, HasDerivAt, continuity) + operator-level comparison of real runs with the published formulas",
        "For arbitrary uncorrected structure functions and all x, Q2, M: each of the twelve (F2, FL, xF3, 2x g1) x (APFEL, approximate, exact) formulas generated from the source equals the published one (Schienbein et al. eqs 21-23, 29-31; Bluemlein-Tkabladze / Accardi-Melnitchouk for g1), with the integrals stated as integrals: du/u ker(xi/u) is the published integrand for h2, g2, h3, k2; F_L = r^2 F_2 - 2x F_1; the approximate FL and g1 formulas are the exact ones with the integrand frozen at xi (closed-form integrals proved); at M=0 every formula is the identity and every prefactor is continuous there; a shifted point below the grid is rejected on every path; skipping basis functions below xi is sound; the weighted node sum is the integral of the interpolant. Real code: coefficients x real kernel weights = what the real classes assemble (marker structure functions); real kernel integration = independent quadrature of the published integrands on the real eko basis; TMC runs = published formula on TMC=0 operators (operator identity, all modes/kinds, NC/CC/EM, massive/massless, sequences of runs on different bases); M->0 sequence; rejection.",
        TB + "The loop of _convolve_FX is modelled by hand (tied by correspondence); scipy quadrature and the continuity of the structure functions themselves are observed, not proved. Three defects were repaired (h3 kernel, g1 integrating F2, g1 normalisation 2 xi instead of 2x).",
        "DESIGN.md 6/C10",
    )
    claim(
        "C09",
        "proof",
        "translator (syntax tree of the threshold guard, _xi, _eta, labda, convolution point -> Lean KExpr; shape tables for every heavy NC closure, the hadronic decorator, conv.convolution's exits and the mass lookup; regenerated each run) + Lean 4 theorems over the reals and exact rationals + correspondence with the real methods at exact boundary points + real runs on both sides of and exactly on the thresholds",
        "Proved for all Q2>0, m2>=0, 0<z: the generated guard is Q2(1-z)/z <= 4m2 (boundary included), equivalent to z >= z_max = Q2/(Q2+4m2), monotone in z (hadronic threshold implies the whole partonic range), and the exact complement of the domain eta>0 of the massive coefficient functions; every regular part of all 28 heavy NC (class, order) sites starts with the guard and none has a singular part (kernel-decided on the table read from the syntax tree); the decorator wraps all four orders and empties them, hence every operator entry of the channel is 0 at or below the hadronic threshold, including the local term of the NNLO 'missing' channel; CC: the convolution point is x(1+m2/Q2), inherited by all six classes, used as argument and prefactor, and conv.convolution returns 0 beyond 1-1e-10; the mass looked up is the one of the produced quark. The exact-rational evaluator used by the correspondence is proved sound w.r.t. the real semantics. Real code: guard/eta/labda/point vs model on exactly representable boundary points, one ulp either side, and random points; conv.convolution vs the model on the real eko basis; every regular part exactly 0.0 beyond z_max and LeProHQ never called with eta<=0 (exact thresholds, and generic masses at the doubles around the threshold, which exposed defect F26; its repair adds `or eta(z) <= 0` to the guard, proved redundant over exact numbers: eta_clause_is_redundant); operator rows of gluon/lighter quarks exactly zero at and below threshold; NNLO light structure function independent of the heavy mass on threshold; CC LO rows located at chi with the produced quark's mass and zero for chi>=1.",
        TB + "LeProHQ is external (only its domain is checked). Double rounding within one ulp of a threshold is the code's, not the model's: the guard is compared with the model only where double arithmetic is exact; within one ulp the real code is required to return finite numbers and not to call the massive library at eta<=0. Rows of the produced quark itself (intrinsic channel) are outside the property.",
        "DESIGN.md 6/C09",
    )
    claim(
        "C19",
        "proof",
        "hand-written Lean 4 model of eko's interpolation basis as yadism instantiates it (block layout, areas, evaluate_x, is_below_x; generic in the number type) + theorems over every linearly ordered field via Mathlib's Lagrange interpolation + correspondence with the real eko objects + two-grid / refinement / node-displacement runs of the real code",
        "PARTIAL only for the boundedness of the convolution functional and the quadrature. Proved for every strictly increasing grid, every size N >= degree+1, every degree >= 1, linear and logarithmic mode: p_j(x_k) = delta_jk; on (x_i, x_{i+1}] evaluate_x returns the Lagrange polynomial of the block of that interval; the interpolant of a polynomial of degree <= the interpolation degree (in x resp. log x) is that polynomial everywhere in the grid; hence for such PDFs every linear prediction functional gives the same value on any two grids/degrees (prediction_grid_independent: interpolation error exactly zero, so the general error is the distance of the PDF to that span); partition of unity; the polynomial pieces below and above a node agree at the node (no jump: a requested x on a node is the limit of displaced x); is_below_x implies the basis function vanishes above. Convergence for smooth PDFs is a theorem too: for any PDF the interpolation error at t is at most (1+Lambda(t)) times its distance to the polynomials of degree <= d on the block of t (interpolation_error_bound), Lambda(t) <= (d+1)(d hmax/hmin)^(d+1) on any quasi-uniform grid whatever its size (lebesgue_function_bounded), hence over the reals (Mathlib's Taylor remainder) a PDF with (d+1)-th derivative bounded by M in the grid variable is interpolated within (1+(d+1)(d rho)^(d+1)) M (d hmax)^(d+1)/d! (refinement_converges, log_grid_refinement_converges), two adequate grids agree within the sum of their bounds (two_grids_within_accuracy), and a prediction functional bounded in the sup norm carries the bound to the prediction (prediction_converges). Real code: both proved bounds evaluated on eko's real basis (uniform and random grids, degrees 1..4); predictions for in-span PDFs from two different grids/degrees agree to 2e-7 at generic x, at nodes of one grid, 1e-9..8e-6 next to nodes, in the top and bottom intervals, LO/NLO, NC/CC/EM; factorisation-scale orders at common nodes agree order by order between a grid and its refinement (degrees 2..5); x on a node vs displaced by 1e-9; N=12,24,48 refinement and degree 3->4 converge for a smooth toy PDF.",
        TB + "eko is external: its basis is modelled, not translated (tied by ~600 correspondence cases per quick run; eko's 2.2e-15 tolerance at the left end of a first area is modelled as equality). That each convolution functional is bounded in the sup norm (integrability of the coefficient function) is a hypothesis of prediction_converges; quadrature accuracy is observed.",
        "DESIGN.md 6/C19",
    )
    claim(
        "C01",
        "proof",
        "hand-written Lean 4 model of compute_local / convolve_vector / conv.convolution's assembly + theorems over the reals (Mathlib interval integrals) using the interpolation-basis model of C19 + correspondence with the real compute_local (recorded convolve_vector vectors) + independent re-computation of every operator entry of real runs from the Combiner's kernels",
        "Proved: every entry orders[(o,0,0,0)][pid][j] of the model is sum over kernels of weight(pid) x point x convolution(rsl_o, point, p_j) with the channel's own convolution point as argument and prefactor, nothing for inactive orders / absent coefficients / empty RSLs, zero rows for partons without weight; over the reals, with conv(g) = int reg g(chi/z)/z + int sing (g(chi/z)/z - g(chi)) + g(chi) loc(chi): the contraction of the entries with node values is conv of the interpolant (linearity), and on every logarithmic grid reaching 1, every degree, every coefficient function and convolution point in the grid, for PDFs in the span it equals chi x conv(f) - the factorised structure function; the is_below_x early exit is exact (conv(p_j)=0). Real code: compute_local with recorded convolve_vector outputs = model assembly (all schemes/processes/orders); convolve_vector = map of convolution; conv.convolution's exits and assembly on the real eko basis; every entry of real runs (18 configurations: ZM/FFNS/FFN0/FONLL, EM/NC/CC, light/total/heavy, polarised, x in first/last/last-two intervals, on nodes) re-computed by an independent quadrature (other variable, other breakpoints) from the real kernels; contraction with in-span PDFs vs direct quadrature with the analytic PDF; grids ending at and below 1; for photon exchange in the massless scheme up to a_s the assignment itself (coefficient function, nf, charges) against published closed forms with no yadism ingredient (entries_vs_published_coefficient_functions).",
        TB + "scipy quadrature accuracy is observed (2e-7), not proved; integrability of the basis integrands is a hypothesis of the linearity theorem; the entry is 0 by construction for a convolution point >= 1-1e-10; scale-variation orders are C05's, the local-part consistency C03's, the basis C19's.",
        "DESIGN.md 6/C01",
    )
    claim(
        "C04",
        "proof",
        "translator (Python ast -> Lean KExpr for the NLO kernels and, per live light class, the source expressions of its distribution coefficients; regenerated and Float-validated each run) + Lean 4 theorems over the reals (closed forms for all 0<z<1 and nf; exact sum-rule relations via Mathlib integrals) + numerical evaluation of closed forms and first moments on the real functions",
        "PARTIAL for the sum rules beyond NLO. Proved on the terms regenerated from the source, for all 0<z<1 and all nf: the NLO quark and gluon coefficients of F2, FL, F3, g1 of all 15 (class, NLO) sites equal the published closed forms (regular parts and the delta / 1/(1-z)_+ / log(1-z)/(1-z)_+ coefficients, incl. -(pi^2/3+9/2)); every NLO site is classified and readable; the plus-distribution has no first moment; the regular part is integrable with integral 2CF(pi^2/3+9/2), so Adler(NLO) = 0, GLS(NLO) = Bjorken(NLO) = -3CF = -4 exactly (also stated for the regenerated kernels of every light F2/F3/g1 quark class; int_0^1 ln z/(1-z) = -pi^2/6 proved from the geometric series and the Basel sum). Evaluated numerically on the real callables (all sites, nf=3..6, z from 1e-7 to 1-1e-8): closed forms to 1e-9; Adler (F2 nu-nubar non-singlet), GLS (F3 non-singlet) and Bjorken (g1 non-singlet) first moments at every available order against 0 resp. the Larin-Vermaseren series with per-order tolerances equal to the published accuracy of the parametrisations.",
        TB + "Beyond NLO the coefficients are fitted parametrisations: those sum rules are numerical observations with tolerances (Adler 1e-9 / 2e-3 / 0.3; GLS, Bjorken 1e-9 / 3e-2 / 0.3), not theorems. CF=4/3, TR=1/2, pi are hypotheses (StdC). The light-by-light d_abc term of GLS lives in a separate flavour class and is not part of the non-singlet check.",
        "DESIGN.md 6/C04",
    )
