"""Translator for the target-mass-correction classes (`yadism/esf/tmc.py`): a symbolic execution of
`__init__` and `_get_result_{APFEL,approx,exact}` that is *linear* in the structure-function results.

Every `_get_result_*` returns a linear combination of
  shift:<kind>          the uncorrected structure function <kind> at the shifted point (xi, Q2)
  conv:<kind>:<kernel>  `_convolve_FX(<kind>, <kernel>)`
whose coefficients are arithmetic in x, Q2, mu, rho, xi.  The coefficients are copied to `KExpr`
terms (params "x", "Q2", "M2", "mu", "rho", "xi"); nothing is simplified.  Anything that is not of
this shape raises `Untranslatable` and is reported, never guessed."""

import ast
import fractions
import importlib
import inspect

from . import translate
from .translate import GEN_DIR, Untranslatable, lit_from_source, to_lean

BASE_PARAMS = {"x": ("param", "x"), "Q2": ("param", "Q2")}
MODES = ("APFEL", "approx", "exact")


class TmcTranslator:
    def __init__(self):
        self.mod = importlib.import_module("yadism.esf.tmc")
        self.src = inspect.getsource(self.mod)
        self.tree = ast.parse(self.src)
        self.classes = {n.name: n for n in self.tree.body if isinstance(n, ast.ClassDef)}
        self.base_defs = {}  # mu, rho, xi as terms over x, Q2, M2

    # ---- class helpers
    def method(self, cls, name):
        """method `name` of class `cls`, following single inheritance inside the module"""
        c = self.classes[cls]
        for n in c.body:
            if isinstance(n, ast.FunctionDef) and n.name == name:
                return cls, n
        for b in c.bases:
            if isinstance(b, ast.Name) and b.id in self.classes:
                return self.method(b.id, name)
        raise Untranslatable(f"no method {name} in {cls}")

    def init_attrs(self, cls, symbolic=True):
        """self.<attr> -> term after running the __init__ chain. With `symbolic`, mu/rho/xi are kept
        as params (their defining terms go to `base_defs`)."""
        owner, fd = self.method(cls, "__init__")
        attrs = {}
        self.run_init(owner, fd, attrs, symbolic)
        return attrs

    def run_init(self, cls, fd, attrs, symbolic):
        for st in fd.body:
            if isinstance(st, ast.Expr) and isinstance(st.value, ast.Constant):
                continue
            if isinstance(st, ast.Expr) and isinstance(st.value, ast.Call) and ast.unparse(st.value.func) == "super().__init__":
                for b in self.classes[cls].bases:
                    if isinstance(b, ast.Name) and b.id in self.classes:
                        o2, f2 = self.method(b.id, "__init__")
                        self.run_init(o2, f2, attrs, symbolic)
                continue
            if isinstance(st, ast.If):
                # the kinematic guards of the base class: `raise` only
                if all(isinstance(s, ast.Raise) for s in st.body) and not st.orelse:
                    continue
                raise Untranslatable("branch in __init__")
            if isinstance(st, ast.Assign) and len(st.targets) == 1:
                t = st.targets[0]
                if isinstance(t, ast.Attribute) and isinstance(t.value, ast.Name) and t.value.id == "self":
                    name = t.attr
                    if name == "sf":
                        continue
                    if name in ("x", "Q2"):
                        if ast.unparse(st.value) != f'kinematics["{name}"]' and ast.unparse(st.value) != f"kinematics['{name}']":
                            raise Untranslatable(f"self.{name} is not the requested kinematics")
                        attrs[name] = BASE_PARAMS[name]
                        continue
                    if name == "_shifted_kinematics":
                        d = st.value
                        if not isinstance(d, ast.Dict):
                            raise Untranslatable("_shifted_kinematics is not a dict literal")
                        kin = {k.value: self.scalar(v, attrs, {}) for k, v in zip(d.keys, d.values)}
                        attrs["_shifted_kinematics"] = ("kin", kin)
                        continue
                    val = self.scalar(st.value, attrs, {})
                    if symbolic and name in ("mu", "rho", "xi"):
                        self.base_defs[name] = val
                        attrs[name] = ("param", name)
                    else:
                        attrs[name] = val
                    continue
            raise Untranslatable("statement in __init__: " + ast.unparse(st)[:60])

    # ---- scalar expressions
    def scalar(self, node, attrs, local):
        v = self.value(node, attrs, local, None)
        if v[0] != "s":
            raise Untranslatable("expected a number: " + ast.unparse(node)[:60])
        return v[1]

    def value(self, node, attrs, local, cls):
        """('s', term) or ('l', {symbol: term})"""
        if isinstance(node, ast.Constant):
            return ("s", ("lit", lit_from_source(node, self.src)))
        if isinstance(node, ast.Name):
            if node.id in local:
                return local[node.id]
            raise Untranslatable(f"unknown name {node.id}")
        if isinstance(node, ast.Attribute):
            txt = ast.unparse(node)
            if txt == "self.sf.runner.configs.M2target":
                return ("s", ("param", "M2"))
            if isinstance(node.value, ast.Name) and node.value.id == "self":
                if node.attr in attrs and attrs[node.attr][0] != "kin":
                    return ("s", attrs[node.attr])
            raise Untranslatable("attribute " + txt)
        if isinstance(node, ast.UnaryOp) and isinstance(node.op, (ast.USub, ast.UAdd)):
            v = self.value(node.operand, attrs, local, cls)
            if isinstance(node.op, ast.UAdd):
                return v
            if v[0] == "s":
                return ("s", ("neg", v[1]))
            return ("l", {k: ("neg", t) for k, t in v[1].items()})
        if isinstance(node, ast.BinOp):
            if isinstance(node.op, ast.Pow):
                b = self.scalar(node.left, attrs, local)
                ex = node.right
                if isinstance(ex, ast.Constant) and isinstance(ex.value, int) and ex.value >= 0:
                    return ("s", ("pow", b, ex.value))
                raise Untranslatable("power " + ast.unparse(node)[:40])
            a = self.value(node.left, attrs, local, cls)
            b = self.value(node.right, attrs, local, cls)
            op = {ast.Add: "add", ast.Sub: "sub", ast.Mult: "mul", ast.Div: "div"}.get(type(node.op))
            if op is None:
                raise Untranslatable("operator " + type(node.op).__name__)
            if a[0] == "s" and b[0] == "s":
                return ("s", (op, a[1], b[1]))
            if op == "mul" and a[0] == "s" and b[0] == "l":
                return ("l", {k: ("mul", a[1], t) for k, t in b[1].items()})
            if op == "mul" and a[0] == "l" and b[0] == "s":
                return ("l", {k: ("mul", t, b[1]) for k, t in a[1].items()})
            if op == "div" and a[0] == "l" and b[0] == "s":
                return ("l", {k: ("div", t, b[1]) for k, t in a[1].items()})
            if op in ("add", "sub") and a[0] == "l" and b[0] == "l":
                out = dict(a[1])
                for k, t in b[1].items():
                    if k in out:
                        out[k] = (op, out[k], t)
                    else:
                        out[k] = t if op == "add" else ("neg", t)
                return ("l", out)
            raise Untranslatable("not linear in the structure functions: " + ast.unparse(node)[:60])
        if isinstance(node, ast.Call):
            fname = ast.unparse(node.func)
            if fname in ("np.log", "numpy.log") and len(node.args) == 1:
                return ("s", ("log", self.scalar(node.args[0], attrs, local)))
            if fname in ("np.sqrt", "numpy.sqrt") and len(node.args) == 1:
                return ("s", ("sqrt", self.scalar(node.args[0], attrs, local)))
            # self.sf.get_esf(<name>, <kin>).get_result()
            if fname.endswith(".get_result") and isinstance(node.func.value, ast.Call) and ast.unparse(node.func.value.func) == "self.sf.get_esf":
                g = node.func.value
                if len(g.args) != 2 or g.keywords:
                    raise Untranslatable("get_esf call " + ast.unparse(g)[:60])
                kind = self.obs_kind(g.args[0])
                if ast.unparse(g.args[1]) != "self._shifted_kinematics":
                    raise Untranslatable("get_esf at " + ast.unparse(g.args[1])[:40])
                return ("l", {f"shift:{kind}": ("lit", fractions.Fraction(1))})
            if fname == "self._convolve_FX":
                if len(node.args) != 2 or not isinstance(node.args[0], ast.Constant) or not isinstance(node.args[1], ast.Name):
                    raise Untranslatable("_convolve_FX call " + ast.unparse(node)[:60])
                ker = node.args[1].id
                if not hasattr(self.mod, ker):
                    raise Untranslatable("unknown kernel " + ker)
                return ("l", {f"conv:{node.args[0].value}:{ker}": ("lit", fractions.Fraction(1))})
            if fname.startswith("self._") and not node.args and not node.keywords and cls is not None:
                _, fd = self.method(cls, fname[len("self."):])
                return self.run_method(cls, fd, attrs)
            raise Untranslatable("call " + fname)
        raise Untranslatable("node " + type(node).__name__)

    def obs_kind(self, node):
        txt = ast.unparse(node)
        if txt == "self.sf.obs_name":
            return "self"
        if isinstance(node, ast.Call) and ast.unparse(node.func) == "self.sf.obs_name.apply_kind" and len(node.args) == 1 and isinstance(node.args[0], ast.Constant):
            return str(node.args[0].value)
        raise Untranslatable("observable " + txt[:40])

    def run_method(self, cls, fd, attrs):
        local = {}
        for st in fd.body:
            if isinstance(st, ast.Expr) and isinstance(st.value, ast.Constant):
                continue
            if isinstance(st, ast.Assign) and len(st.targets) == 1 and isinstance(st.targets[0], ast.Name):
                local[st.targets[0].id] = self.value(st.value, attrs, local, cls)
                continue
            if isinstance(st, ast.Return):
                return self.value(st.value, attrs, local, cls)
            raise Untranslatable(f"statement in {fd.name}: " + ast.unparse(st)[:60])
        raise Untranslatable(f"{fd.name}: no return")

    def table(self):
        """{(kind, mode): {symbol: term}} for the classes in ESFTMCmap, plus failures"""
        out, failed = {}, {}
        for kind, klass in sorted(self.mod.ESFTMCmap.items()):
            cname = klass.__name__
            try:
                attrs = self.init_attrs(cname)
                kin = attrs.get("_shifted_kinematics")
                if kin is None or kin[1].get("x") != ("param", "xi") or kin[1].get("Q2") != ("param", "Q2"):
                    raise Untranslatable("_shifted_kinematics is not {x: xi, Q2: Q2}")
            except Untranslatable as e:
                for m in MODES:
                    failed[(kind, m)] = str(e)
                continue
            for m in MODES:
                try:
                    _, fd = self.method(cname, f"_get_result_{m}")
                    v = self.run_method(cname, fd, attrs)
                    if v[0] != "l":
                        raise Untranslatable("result is not a structure function")
                    out[(kind, m)] = {k.replace("shift:self", f"shift:{kind}"): t for k, t in v[1].items()}
                except Untranslatable as e:
                    failed[(kind, m)] = str(e)
        return out, failed

    def mode_dispatch(self):
        """TMC card value -> mode, read from get_result"""
        _, fd = self.method("EvaluatedStructureFunctionTMC", "get_result")
        modes = {}

        def visit(ifnode):
            t = ifnode.test
            if isinstance(t, ast.Compare) and len(t.ops) == 1 and isinstance(t.ops[0], ast.Eq) and ast.unparse(t.left) == "self.sf.runner.configs.TMC" and isinstance(t.comparators[0], ast.Constant):
                val = t.comparators[0].value
                for s in ifnode.body:
                    if isinstance(s, ast.Assign) and isinstance(s.value, ast.Call):
                        f = ast.unparse(s.value.func)
                        if f.startswith("self._get_result_"):
                            modes[val] = f[len("self._get_result_"):]
                    if isinstance(s, ast.Raise):
                        modes[val] = "raise"
            for s in ifnode.orelse:
                if isinstance(s, ast.If):
                    visit(s)

        for st in fd.body:
            if isinstance(st, ast.If):
                visit(st)
        return modes


def sym_lean(sym, rep_kernels):
    parts = sym.split(":")
    if parts[0] == "shift":
        return f'(TSym.shift "{parts[1]}")'
    full = f"yadism.esf.tmc.{parts[2]}"
    if full not in rep_kernels:
        raise Untranslatable(f"kernel {full} not translated")
    return f'(TSym.conv "{parts[1]}" "{parts[2]}" {rep_kernels[full]["ident"]})'


def generate_tmc(rep, write=True):
    """Generated/TMC.lean from /repo's current tmc.py; returns the report"""
    tr = TmcTranslator()
    table, failed = tr.table()
    modes = tr.mode_dispatch()
    if write:
        lines = [
            "/- GENERATED by harness/translate_tmc.py from /repo's working tree: do not edit. -/",
            "import YadismModel.Model.TMC",
            "import YadismModel.Generated.Kernels",
            "set_option maxRecDepth 100000",
            "namespace Yadism.Gen",
            "open Yadism Yadism.KExpr",
            "",
        ]
        for nm in ("mu", "rho", "xi"):
            term = tr.base_defs.get(nm)
            lines.append(f"/-- `self.{nm}` of `EvaluatedStructureFunctionTMC.__init__` -/")
            lines.append(f"def tmc_{nm} : KExpr :=")
            lines.append("  " + (to_lean(term) if term is not None else '(param "untranslated")'))
            lines.append("")
        lines.append("/-- `(kind, mode, [(symbol, coefficient)])` of `_get_result_<mode>` of `ESFTMCmap[kind]` -/")
        lines.append("def tmcTable : List (String × String × List (TSym × KExpr)) := [")
        rows = []
        for (kind, mode), lin in sorted(table.items()):
            try:
                ents = ",\n".join(f"    ({sym_lean(s, rep['kernels'])}, {to_lean(t)})" for s, t in sorted(lin.items()))
            except Untranslatable as e:
                failed[(kind, mode)] = str(e)
                continue
            rows.append(f'  ("{kind}", "{mode}", [\n{ents}])')
        lines.append(",\n".join(rows))
        lines.append("]")
        lines.append("")
        lines.append("/-- card value of `TMC` -> formula, from `get_result` -/")
        lines.append("def tmcModes : List (Nat × String) := [" + ", ".join(f'({k}, "{v}")' for k, v in sorted(modes.items()) if isinstance(k, int) and v != "raise") + "]")
        lines.append("")
        lines.append("end Yadism.Gen")
        (GEN_DIR / "TMC.lean").write_text("\n".join(lines) + "\n")
    return dict(table=table, failed={f"{k[0]}/{k[1]}": v for k, v in failed.items()}, base={k: v for k, v in tr.base_defs.items()}, modes=modes)
