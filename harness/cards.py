"""Runcard templates and random generators (YAML-native python values only)."""

import math

CKM_DEFAULT = "0.97428 0.22530 0.003470 0.22520 0.97345 0.041000 0.00862 0.04030 0.999152"

SFS = ["F2", "FL", "F3", "g1", "gL", "g4"]
UNPOL = ["F2", "FL", "F3"]
FLAVORS = ["light", "total", "charm", "bottom", "top"]
HEAVYLIGHTS = ["charmlight", "bottomlight", "toplight"]
XS = ["XSHERANC", "XSHERANCAVG", "XSHERACC", "XSCHORUSCC", "XSNUTEVCC", "XSNUTEVNU", "FW", "F1", "g5", "XSFPFCC"]
PROJECTILES = {"electron": 11, "positron": -11, "neutrino": 12, "antineutrino": -12}
SCHEMES = ["ZM-VFNS", "FFNS", "FFN0", "FONLL-FFNS", "FONLL-FFN0"]
QUARKS = "duscbt"


def theory(**kw):
    t = dict(
        PTO=1, PTODIS=None, FNS="ZM-VFNS", NfFF=4, nf0=4, nfref=5,
        mc=1.51, mb=4.92, mt=172.5, kcThr=1.0, kbThr=1.0, ktThr=1.0,
        MaxNfPdf=6, MP=0.938, Q0=1.65, Qref=91.2, alphas=0.118, alphaqed=0.007496252,
        HQ="POLE", TMC=0, XIR=1.0, XIF=1.0, ModEv="EXA", IC=1, IB=0, QED=0,
        CKM=CKM_DEFAULT,
        MW=80.398, MZ=91.1876, GF=1.1663787e-05, SIN2TW=0.23126,
        FONLLParts=None, n3lo_cf_variation=0, Qmc=1.51, Qmb=4.92, Qmt=172.5, ModSV=None,
        DAMP=0, SxRes=0, SxOrd="LL", MaxNfAs=6, fact_to_ren_scale_ratio=1.0,
    )  # fmt: skip
    t.update(kw)
    return t


def geomspace(a, b, n):
    return [float(a * (b / a) ** (i / (n - 1))) for i in range(n)]


def linspace(a, b, n):
    return [float(a + (b - a) * i / (n - 1)) for i in range(n)]


def default_grid(n=12, xmin=1e-3):
    g = geomspace(xmin, 1.0, n)
    g[-1] = 1.0
    return g


def mixed_grid(nlog=10, nlin=10, xmin=1e-3, xmid=0.1):
    g = geomspace(xmin, xmid, nlog + 1)[:-1] + linspace(xmid, 1.0, nlin)
    g[-1] = 1.0
    return g


def obs(observables, **kw):
    o = dict(
        interpolation_xgrid=default_grid(),
        interpolation_polynomial_degree=3,
        interpolation_is_log=True,
        prDIS="NC",
        TargetDIS="proton",
        ProjectileDIS="electron",
        PolarizationDIS=0.0,
        PropagatorCorrection=0.0,
        NCPositivityCharge=None,
        observables=observables,
    )
    o.update(kw)
    return o


def rand_ew(r, structured=True):
    """random electroweak / CKM parameters (floats). `structured`: mix special values in."""
    def pick(special, lo, hi, log=False):
        if structured and r.random() < 0.3:
            return float(r.choice(special))
        if log:
            return float(math.exp(r.uniform(math.log(lo), math.log(hi))))
        return float(r.uniform(lo, hi))

    mz = pick([91.1876, 50.0], 5.0, 300.0, log=True)
    mw = pick([80.398, 40.0], 5.0, 300.0, log=True)
    s2w = pick([0.23126, 0.25, 0.5], 0.02, 0.98)
    pol = pick([0.0, 1.0, -1.0, 0.5], -1.0, 1.0)
    pc = pick([0.0, 0.0, 0.1], -0.5, 0.5)
    if structured and r.random() < 0.3:
        ckm = CKM_DEFAULT
    else:
        ckm = " ".join(repr(float(r.choice([0.0, r.uniform(0, 1.2), r.uniform(0, 1.2)]))) for _ in range(9))
    return dict(MZ=mz, MW=mw, SIN2TW=s2w, CKM=ckm), dict(PolarizationDIS=pol, PropagatorCorrection=pc)


def rand_q2(r):
    if r.random() < 0.15:
        return float(r.choice([1.0, 2.0, 10.0, 100.0, 8315.178, 1e4]))
    return float(math.exp(r.uniform(math.log(0.3), math.log(2e5))))


class ToyPDF:
    """A smooth lhapdf-like toy PDF (all flavours distinct)."""

    def __init__(self, pids=None, scale_dep=False, tweak=0.0):
        self.pids = pids if pids is not None else [-6, -5, -4, -3, -2, -1, 1, 2, 3, 4, 5, 6, 21]
        self.scale_dep = scale_dep
        self.tweak = tweak

    def hasFlavor(self, pid):
        return pid in self.pids

    def xfxQ2(self, pid, x, Q2):
        if x >= 1.0:
            return 0.0
        s = 1.0 + (0.05 * math.log(Q2) if self.scale_dep else 0.0)
        t = self.tweak
        if pid == 21:
            return s * 1.7 * x ** (-0.1 + t) * (1 - x) ** 5
        if pid == 22:
            return 0.01 * x**0.2 * (1 - x) ** 3
        a = abs(pid)
        if pid > 0:
            return s * (0.3 + 0.45 * a) * x ** (0.4 + 0.07 * a + t) * (1 - x) ** (2.5 + 0.5 * a)
        return s * (0.15 + 0.04 * a) * x ** (-0.05 * a + 0.1) * (1 - x) ** (5 + 0.7 * a)
