"""Correspondence: coupling constants, parton weights and the Combiner kernel list
(real yadism objects in-process  vs  the Lean `Rat` model through the line protocol)."""

import itertools
import math

import numpy as np

from . import cards
from .common import Driver, q, unq

BASIS = [22, -6, -5, -4, -3, -2, -1, 21, 1, 2, 3, 4, 5, 6]
QCTS = ["VV", "AA", "VA", "AV"]


def enc_cc(cc):
    """token string of a real CouplingConstants instance (exact values of the doubles it holds)."""
    th, ob = cc.theory_config, cc.obs_config
    pos = ob["nc_pos_charge"]
    if pos is None or pos == "all":
        pos_t = "-"
    else:
        pos_t = str(1 + cards.QUARKS.index(pos[0]))
    ckm = [float(v) for v in np.asarray(th["CKM"].m).reshape(9)]
    toks = [
        ob["process"],
        str(ob["projectilePID"]),
        q(float(ob["polarization"])),
        q(float(ob["propagatorCorrection"])),
        pos_t,
        q(float(th["MZ2"])),
        q(float(th["MW2"])),
        q(float(th["sin2theta_weak"])),
    ] + [q(v) for v in ckm]
    return " ".join(toks)


def scale_of(cc, Q2):
    """magnitude of the largest term entering a weight: used for a cancellation-aware tolerance"""
    th, ob = cc.theory_config, cc.obs_config
    eta = abs((Q2 / (th["MZ2"] + Q2)) / (4 * th["sin2theta_weak"] * (1 - th["sin2theta_weak"])) / (1 - ob["propagatorCorrection"]))
    ckm = float(np.abs(np.asarray(th["CKM"].m)).sum())
    return 1.0 + eta + eta * eta + 2 * ckm


def close(py, model, scale, rtol=1e-10):
    return abs(float(py) - float(model)) <= rtol * scale + rtol * abs(float(model))


def make_cc(r, process=None, projectile=None, pos=None):
    from yadism.coefficient_functions.coupling_constants import CouplingConstants

    th_kw, ob_kw = cards.rand_ew(r)
    if r.random() < 0.3:
        th_kw["MW"] = None
    process = process or r.choice(["EM", "NC", "CC"])
    projectile = projectile or r.choice(list(cards.PROJECTILES))
    if pos is None:
        pos = r.choice([None, None, "all"] + [c for c in cards.QUARKS] + ["up", "down"]) if process != "CC" else None
        if pos in ("up", "down"):
            pos = pos  # first letter is used
    t = cards.theory(**th_kw)
    o = cards.obs({}, prDIS=process, ProjectileDIS=projectile, NCPositivityCharge=pos, **ob_kw)
    return CouplingConstants.from_dict(t, o)


def parse_maps(line, n):
    parts = [p.strip() for p in line.split("|")]
    assert len(parts) == n, line
    return [[unq(t) for t in p.split()] for p in parts]


def run_weights(chk, n_points, r):
    """direct function-level correspondence of get_weight / get_fl11_weight / *_weights."""
    from yadism.coefficient_functions import kernels as K
    from yadism.coefficient_functions.light import kernels as LK

    drv = Driver()
    pending = []

    def add(stream, req, py, scale, sample, feature):
        pending.append((stream, drv.add(req), py, scale, sample, feature))

    for _ in range(n_points):
        cc = make_cc(r)
        Q2 = cards.rand_q2(r)
        e = enc_cc(cc)
        sc = scale_of(cc, Q2)
        proc = cc.obs_config["process"]
        if proc != "CC":
            pid = r.choice([1, 2, 3, 4, 5, 6, -1, -2, -5])
            for t in QCTS:
                py = cc.get_weight(pid, Q2, t)
                add("get_weight", f"gw {e} {pid} {q(Q2)} {t}", [py], sc, dict(op="get_weight", pid=pid, Q2=Q2, qct=t, process=proc, py=py), f"{proc}/{t}/pos={cc.obs_config['nc_pos_charge'] is not None}")
            nf = r.choice([3, 4, 5, 6])
            for t in ("VV", "AA"):
                py = cc.get_fl11_weight(pid, Q2, nf, t)
                add("get_fl11_weight", f"fl11 {e} {pid} {q(Q2)} {nf} {t}", [py], sc * sc, dict(op="fl11", pid=pid, nf=nf, qct=t), f"{proc}/{t}/nf{nf}")
            for pv, skip in itertools.product([False, True], [False, True]):
                w = LK.nc_weights(cc, Q2, nf, pv, skip_heavylight=skip)
                flat = []
                for key in ("ns", "g", "s", "v"):
                    d = w.get(key, {})
                    flat.append([float(d.get(p, 0.0)) for p in BASIS])
                add("nc_weights", f"ncw {e} {q(Q2)} {nf} {q(pv)} {q(skip)}", flat, sc, dict(op="nc_weights", nf=nf, pv=pv, skip=skip), f"{proc}/pv{int(pv)}/skip{int(skip)}/nf{nf}")
            for skip in (False, True):
                w = LK.nc_fl11_weights(cc, Q2, nf, skip_heavylight=skip)
                flat = [[float(w[k].get(p, 0.0)) for p in BASIS] for k in ("q", "g")]
                add("nc_fl11_weights", f"ncfl11 {e} {q(Q2)} {nf} {q(skip)}", flat, sc * sc, dict(op="nc_fl11", nf=nf, skip=skip), f"{proc}/skip{int(skip)}/nf{nf}")
        else:
            nf = r.choice([3, 4, 5, 6])
            masks = [("L%d" % nf, cards.QUARKS[:nf])] + [("S%d" % h, cards.QUARKS[h - 1]) for h in (4, 5, 6)]
            mt, ms = r.choice(masks)
            pid = r.choice([1, 2, 3, 4, 5, 6, -2, -3])
            py = cc.get_weight(pid, Q2, None, cc_mask=ms)
            add("get_weight_cc", f"gwcc {e} {pid} {mt}", [py], sc, dict(op="get_weight_cc", pid=pid, mask=ms, py=py), f"mask{mt[0]}/pid{abs(pid)}")
            for which, fn in (("plain", K.cc_weights), ("even", K.cc_weights_even), ("odd", K.cc_weights_odd)):
                for pv in (False, True):
                    nfarg = nf if mt[0] == "L" or r.random() < 0.7 else int(mt[1])  # intrinsic abuses nf := ihq
                    w = fn(cc, Q2, ms, nfarg, pv)
                    flat = []
                    for key in ("ns", "g", "s", "v"):
                        d = w.get(key, {})
                        flat.append([float(d.get(p, 0.0)) for p in BASIS])
                    add("cc_weights_" + which, f"ccw {which} {e} {mt} {nfarg} {q(pv)}", flat, sc, dict(op="cc_weights_" + which, mask=ms, nf=nfarg, pv=pv, projectile=cc.obs_config["projectilePID"]), f"{cc.obs_config['projectilePID']}/pv{int(pv)}/mask{mt}/nf{nfarg}")
    lines = drv.run()
    for stream, idx, py, scale, sample, feature in pending:
        line = lines[idx]
        if line == "bad-op":
            chk.corr_case(stream, False, sample, dict(sample=sample, model="bad-op"), feature)
            continue
        if isinstance(py[0], list):
            model = parse_maps(line, len(py))
            ok = all(close(a, b, scale) for pa, pb in zip(py, model) for a, b in zip(pa, pb))
            det = None if ok else dict(sample=sample, py=py, model=[[float(x) for x in m] for m in model])
        else:
            model = [unq(line)]
            ok = close(py[0], model[0], scale)
            det = None if ok else dict(sample=sample, py=py, model=float(model[0]))
        chk.corr_case(stream, ok, sample, det, feature)


# ------------------------------------------------------------------------------------------------
# Combiner


def enc_esf(esf, comb):
    """token string describing what the Combiner reads from a real ESF"""
    info = esf.info
    cc = info.coupling_constants
    zm = info.ZMq
    toks = [
        info.obs_name.kind,
        info.obs_name.flavor,
        enc_cc(cc),
        q(float(esf.Q2)),
        str(int(comb.nf)),
        q(bool(zm[0])),
        q(bool(zm[1])),
        q(bool(zm[2])),
        q("FFN0" in info.scheme),
        info.fonllparts,
        str(int(info.theory["pto"])),
        str(int(info.theory["pto_evol"])),
        q(float(info.target["Z"])),
        q(float(info.target["A"])),
    ]
    return " ".join(toks)


def heavy_quark_of(co):
    """which heavy quark's mass a partonic-channel object was built with (0: none)"""
    m2s = [float(v) for v in co.ESF.info.m2hq]
    Q2 = float(co.ESF.Q2)
    cand = None
    for attr in ("m2hq", "m1sq"):
        if getattr(co, attr, None) is not None:
            cand = float(getattr(co, attr))
    if cand is None and hasattr(co, "L"):
        cand = Q2 / math.exp(float(co.L))
    if cand is None and hasattr(co, "labda"):
        cand = Q2 * (1.0 / float(co.labda) - 1.0)
    if cand is None:
        return 0
    for i, m2 in enumerate(m2s):
        if abs(cand - m2) <= 1e-9 * m2:
            return 4 + i
    return -1


def canon_py_kernels(elems):
    out = []
    for k in elems:
        mod = type(k.coeff).__module__.split(".")
        fam = mod[mod.index("coefficient_functions") + 1]
        cls = type(k.coeff).__name__
        co = k.coeff
        ihq = heavy_quark_of(co)
        out.append(((fam, cls, int(co.nf), ihq), [float(k.partons.get(p, 0.0)) for p in BASIS]))
    return out


def parse_kernels(line):
    out = []
    if not line.strip():
        return out
    for part in line.split(" ; "):
        toks = part.split()
        fam, cls, nfa, ihq = toks[0].split(".")
        out.append(((fam, cls, int(nfa), int(ihq)), [unq(t) for t in toks[1:]]))
    return out


def compare_kernel_ids(py, model, scale):
    """multiset comparison of which partonic-channel objects are built (weights ignored, except that
    kernels dropped for having only zero weights are ignored on both sides)"""
    def nz(ws):
        return any(abs(float(w)) > 1e-13 * scale for w in ws)

    a = sorted(k for k, w in py if nz(w))
    b = sorted(k for k, w in model if nz(w))
    if a != b:
        return False, dict(py=a, model=b)
    return True, None


def compare_kernel_lists(py, model, scale):
    """multiset comparison; kernels whose weights are all (numerically) zero are ignored on both sides
    (that is what `drop_empty` does, up to rounding)."""
    def nz(ws):
        return any(abs(float(w)) > 1e-13 * scale for w in ws)

    py = sorted([(k, w) for k, w in py if nz(w)], key=lambda kw: (kw[0], [float(x) for x in kw[1]]))
    model = sorted([(k, w) for k, w in model if nz(w)], key=lambda kw: (kw[0], [float(x) for x in kw[1]]))
    if [k for k, _ in py] != [k for k, _ in model]:
        return False, dict(py=[k for k, _ in py], model=[k for k, _ in model])
    for (k, wp), (_, wm) in zip(py, model):
        for a, b in zip(wp, wm):
            if not close(a, b, scale, 1e-9):
                return False, dict(kernel=k, py=wp, model=[float(x) for x in wm])
    return True, None


def rand_masses(r):
    mc = float(r.choice([1.51, 1.3, r.uniform(1.0, 2.0)]))
    mb = float(r.choice([4.92, r.uniform(3.5, 6.0)]))
    mt = float(r.choice([172.5, r.uniform(100, 200)]))
    return dict(mc=mc, mb=mb, mt=mt, kcThr=float(r.choice([1.0, 1.0, 2.0, 0.7])), kbThr=float(r.choice([1.0, 1.0, 1.5])), ktThr=1.0)


def combiner_configs(r, n, kinds=None, processes=None, schemes=None, with_empty_import_errors=True):
    """yield (theory, observables-card) pairs with a few kinematic points per observable name"""
    for _ in range(n):
        process = r.choice(processes or ["EM", "NC", "CC"])
        projectile = r.choice(list(cards.PROJECTILES))
        scheme = r.choice(schemes or cards.SCHEMES)
        nfff = r.choice([3, 4, 5])
        pto = r.choice([0, 1, 2, 3])
        pto_evol = r.choice([0, 1, 2])
        th_kw, ob_kw = cards.rand_ew(r)
        th_kw.update(rand_masses(r))
        parts = r.choice([None, "full", "massless", "massive"]) if scheme.startswith("FONLL") or r.random() < 0.2 else None
        t = cards.theory(FNS=scheme, NfFF=nfff, PTODIS=pto, PTO=pto_evol, FONLLParts=parts, **th_kw)
        pos = r.choice([None, None, None, "all", "c", "u", "d", "b"]) if process != "CC" else None
        target = r.choice(["proton", "neutron", "isoscalar", "iron", "lead", dict(Z=float(r.uniform(0, 3)), A=float(r.uniform(3, 6))), dict(Z=float(r.choice([0.0, 0.25, 0.5, 1.0])), A=1.0), dict(Z=float(r.choice([0.0, 0.7, 2.0])), A=2.0)])
        ks = kinds or (cards.UNPOL if process == "CC" else cards.SFS)
        names = [f"{k}_{f}" for k in r.sample(ks, min(3, len(ks))) for f in r.sample(cards.FLAVORS + cards.HEAVYLIGHTS, 4)]
        kins = [dict(x=float(r.uniform(0.01, 0.9)), Q2=cards.rand_q2(r)) for _ in range(3)]
        o = cards.obs({nm: kins for nm in names}, prDIS=process, ProjectileDIS=projectile, NCPositivityCharge=pos, TargetDIS=target, **ob_kw)
        yield t, o


_empty_cache = {}


def empty_classes(esf):
    """{(family, class)} of the partonic-channel classes of this kind/process that derive from
    EmptyPartonicChannel (read from the real modules)."""
    import importlib
    import inspect

    from yadism.coefficient_functions.partonic_channel import EmptyPartonicChannel

    kind = esf.info.obs_name.kind.lower()
    proc = "cc" if esf.process == "CC" else "nc"
    key = (kind, proc)
    if key not in _empty_cache:
        out = set()
        for fam in ("light", "heavy", "intrinsic", "asy"):
            try:
                mod = importlib.import_module(f"yadism.coefficient_functions.{fam}.{kind}_{proc}")
            except Exception:
                continue
            for name, cls in inspect.getmembers(mod, inspect.isclass):
                if issubclass(cls, EmptyPartonicChannel):
                    out.add((fam, name))
        _empty_cache[key] = out
    return _empty_cache[key]


def run_combiner(chk, n_cfg, r, stream="combiner", mode="full", **kw):
    import yadism
    from yadism.coefficient_functions import Combiner

    drv = Driver()
    pending = []
    for t, o in combiner_configs(r, n_cfg, **kw):
        try:
            runner = yadism.Runner(t, o)
        except Exception as e:  # construction failure is C16's business
            chk.notes.append(f"runner construction failed: {type(e).__name__}: {e}"[:200])
            continue
        for name, obj in runner.observables.items():
            for esf in obj.elements:
                comb = Combiner(esf)
                feat = f"{esf.process}/{esf.info.obs_name.kind}/{esf.info.obs_name.flavor_family}/{t['FNS']}/nf{comb.nf}/pto{t['PTODIS']}/{esf.info.fonllparts}"
                sample = dict(obs=name, x=esf.x, Q2=esf.Q2, FNS=t["FNS"], NfFF=t["NfFF"], process=esf.process, projectile=o["ProjectileDIS"], pto=t["PTODIS"], pto_evol=t["PTO"], parts=t["FONLLParts"], target=o["TargetDIS"], nf=int(comb.nf))
                try:
                    elems = comb.collect_elems()
                except Exception as e:
                    # the real code crashed: not a model question (C16 classifies these); skip here
                    chk.extra.setdefault("combiner_py_errors", {})
                    key = f"{type(e).__name__}:{str(e)[:60]}"
                    chk.extra["combiner_py_errors"][key] = chk.extra["combiner_py_errors"].get(key, 0) + 1
                    continue
                sc = scale_of(esf.info.coupling_constants, esf.Q2) ** 2
                pending.append((drv.add("combiner " + enc_esf(esf, comb)), canon_py_kernels(elems), sc, sample, feat, empty_classes(esf)))
    lines = drv.run()
    for idx, py, sc, sample, feat, empties in pending:
        if lines[idx] == "bad-op":
            chk.corr_case(stream, False, sample, dict(sample=sample, model="bad-op"), feat)
            continue
        # `drop_empty` removes kernels whose class derives from EmptyPartonicChannel: the class
        # table is read from the real modules, the model only says which class is asked for
        model = [(k, w) for k, w in parse_kernels(lines[idx]) if (k[0], k[1]) not in empties]
        ok, det = (compare_kernel_lists if mode == "full" else compare_kernel_ids)(py, model, sc)
        sample2 = dict(sample, kernels=[list(k) for k, _ in py][:12])
        chk.corr_case(stream, ok, sample2, None if ok else dict(sample=sample, diff=det), feat)


def run_isospin(chk, n_cfg, r, stream="apply_isospin"):
    """`Combiner.apply_isospin` on the real pre-isospin kernels vs the model's `isospin` on the same weights"""
    import copy

    import yadism
    from yadism.coefficient_functions import Combiner

    drv = Driver()
    pending = []
    for t, o in combiner_configs(r, n_cfg):
        try:
            runner = yadism.Runner(t, o)
        except Exception:
            continue
        for name, obj in runner.observables.items():
            for esf in obj.elements[:1]:
                comb = Combiner(esf)
                try:
                    full = [k for comp in comb.collect() for k in comp]
                except Exception:
                    continue
                before = [[float(k.partons.get(p, 0.0)) for p in BASIS] for k in full]
                try:
                    Z, A = float(comb.target["Z"]), float(comb.target["A"])
                    Combiner.apply_isospin(full, Z, A)
                except Exception as e:  # the function the model describes is gone / changed its interface
                    chk.corr_case(stream, False, None, dict(obs=name, error=f"Combiner.apply_isospin: {type(e).__name__}: {e}"[:200]), "py-error")
                    continue
                after = [[float(k.partons.get(p, 0.0)) for p in BASIS] for k in full]
                shared = len({id(k.partons) for k in full}) < len(full)
                for b, a in list(zip(before, after))[:6]:
                    idx = drv.add(f"isospin {q(Z)} {q(A)} " + " ".join(q(v) for v in b))
                    pending.append((idx, a, dict(obs=name, Z=Z, A=A, before=b, after=a, FNS=t["FNS"], pto_evol=t["PTO"]), f"{'ud' if b[BASIS.index(1)] != b[BASIS.index(2)] else 'sym'}/{'Z=A' if Z == A else 'nucl'}"))
    lines = drv.run()
    for idx, after, sample, feat in pending:
        if lines[idx] == "bad-op":
            chk.corr_case(stream, False, sample, dict(sample=sample, model="bad-op"), feat)
            continue
        m = [float(unq(t)) for t in lines[idx].split()]
        ok = all(abs(a - b) <= 1e-12 * max(1.0, abs(b)) for a, b in zip(after, m))
        chk.corr_case(stream, ok, sample, None if ok else dict(sample=sample, model=m), feat)
