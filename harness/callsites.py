"""Runtime table of what every partonic-channel class builds: for each
(family, kind_process module, class, order) the RSL's reg/sing/loc callables (by qualified name)
and the lengths of the argument vectors handed to them.  Obtained by instantiating the real classes
from /repo's working tree (so inheritance and dynamic construction are accounted for)."""

import importlib
import inspect
import pkgutil

import numpy as np

FAMILIES = ["light", "heavy", "asy", "intrinsic"]


class StubESF:
    def __init__(self, x, Q2):
        self.x = x
        self.Q2 = Q2


def qualname(f):
    if f is None:
        return None
    pf = getattr(f, "py_func", f)
    mod = getattr(pf, "__module__", "?")
    qn = getattr(pf, "__qualname__", getattr(pf, "__name__", "?"))
    return f"{mod}.{qn}"


def is_module_level(f):
    pf = getattr(f, "py_func", f)
    return "<locals>" not in getattr(pf, "__qualname__", "<locals>")


def instantiate(fam, modname, cls, nf, x=0.1, Q2=30.0, m2=2.0):
    esf = StubESF(x, Q2)
    if fam == "light":
        return cls(esf, nf)
    if fam in ("heavy", "asy"):
        return cls(esf, nf, m2hq=m2)
    if modname.endswith("_nc"):
        return cls(esf, nf, m1sq=m2, m2sq=m2)
    return cls(esf, nf, m1sq=m2)


def collect(nfs=(3, 4, 5, 6)):
    """list of dicts: fam, module, cls, nf, order, status, parts{reg,sing,loc -> (name, module_level, arglen)}"""
    from yadism.coefficient_functions.partonic_channel import EmptyPartonicChannel, PartonicChannel

    out = []
    modules = {}
    for fam in FAMILIES:
        pkg = importlib.import_module(f"yadism.coefficient_functions.{fam}")
        for m in pkgutil.iter_modules(pkg.__path__):
            if not (m.name.endswith("_nc") or m.name.endswith("_cc")):
                continue
            full = f"yadism.coefficient_functions.{fam}.{m.name}"
            try:
                mod = importlib.import_module(full)
            except Exception as e:
                modules[(fam, m.name)] = f"import-error:{type(e).__name__}"
                continue
            modules[(fam, m.name)] = "ok"
            for cname, cls in inspect.getmembers(mod, inspect.isclass):
                if not issubclass(cls, PartonicChannel) or cls is PartonicChannel:
                    continue
                if cname.startswith("PartonicChannel") or cname in ("NeutralCurrentBase", "ChargedCurrentBase", "LightBase", "EmptyPartonicChannel", "NeutralCurrentBaseAsy", "ChargedCurrentNonSinglet", "ChargedCurrentGluon"):
                    continue
                empty = issubclass(cls, EmptyPartonicChannel)
                for nf in nfs:
                    try:
                        obj = instantiate(fam, m.name, cls, nf)
                    except Exception as e:
                        out.append(dict(fam=fam, module=m.name, cls=cname, nf=nf, order=None, status=f"init-error:{type(e).__name__}", empty=empty, parts={}))
                        continue
                    for order in range(4):
                        rec = dict(fam=fam, module=m.name, cls=cname, nf=nf, order=order, empty=empty, parts={})
                        try:
                            rsl = obj[order]()
                        except Exception as e:
                            rec["status"] = f"order-error:{type(e).__name__}"
                            out.append(rec)
                            continue
                        if rsl is None:
                            rec["status"] = "none"
                            out.append(rec)
                            continue
                        rec["status"] = "rsl"
                        for part in ("reg", "sing", "loc"):
                            f = getattr(rsl, part)
                            if f is not None:
                                rec["parts"][part] = (qualname(f), is_module_level(f), int(len(rsl.args[part])))
                        rec["rsl"] = rsl
                        out.append(rec)
    return out, modules


def splitting_sites(nfs=(3, 4, 5, 6)):
    from yadism.coefficient_functions import splitting_functions as split

    out = []
    for lab_set in split.raw_labels:
        for label, fn in lab_set.items():
            for nf in nfs:
                rsl = fn(nf)
                rec = dict(fam="split", module="raw_labels", cls=label, nf=nf, order=0, status="rsl", empty=False, parts={}, rsl=rsl)
                for part in ("reg", "sing", "loc"):
                    f = getattr(rsl, part)
                    if f is not None:
                        rec["parts"][part] = (qualname(f), is_module_level(f), int(len(rsl.args[part])))
                out.append(rec)
    return out
