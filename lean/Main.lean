/-
Line-protocol driver: one request per line on stdin, one canonical answer per line on stdout.
Run with `lake env lean --run Main.lean`.  Imports only Mathlib-free model files.
-/
import YadismModel.Model.Proto
import YadismModel.Model.Couplings
import YadismModel.Model.Weights
import YadismModel.Model.Combiner
import YadismModel.Model.Compat
import YadismModel.Model.Orders
import YadismModel.Model.XS
import YadismModel.Model.ApplyPdf
import YadismModel.Model.Serialize
import YadismModel.Model.Cache
import YadismModel.Model.KExpr
import YadismModel.Generated.Kernels
import YadismModel.Model.Norm
import YadismModel.Model.Dispatch
import YadismModel.Generated.Dispatch
import YadismModel.Model.TMC
import YadismModel.Generated.TMC
import YadismModel.Model.Threshold
import YadismModel.Generated.Threshold
import YadismModel.Model.Interp
import YadismModel.Model.Conv

open Yadism Yadism.Proto

def rdProcess : RdM Process := do
  match (← tok) with
  | "EM" => pure .EM | "NC" => pure .NC | "CC" => pure .CC | _ => failure

def rdQCT : RdM QCT := do
  match (← tok) with
  | "VV" => pure .VV | "AA" => pure .AA | "VA" => pure .VA | "AV" => pure .AV | _ => failure

def rdKind : RdM Kind := do
  match (← tok) with
  | "F2" => pure .F2 | "FL" => pure .FL | "F3" => pure .F3
  | "g1" => pure .g1 | "gL" => pure .gL | "g4" => pure .g4 | _ => failure

def rdFlavor : RdM Flavor := do
  match (← tok) with
  | "light" => pure .light | "total" => pure .total | "charm" => pure .charm
  | "bottom" => pure .bottom | "top" => pure .top | "charmlight" => pure .charmlight
  | "bottomlight" => pure .bottomlight | "toplight" => pure .toplight | _ => failure

def rdParts : RdM Parts := do
  match (← tok) with
  | "massless" => pure .massless | "massive" => pure .massive | "full" => pure .full | _ => failure

/-- `process projectile pol propCorr posCharge mz2 mw2 s2w ckm×9` -/
def rdCC : RdM CC := do
  let process ← rdProcess
  let projectile ← int
  let pol ← rat
  let propCorr ← rat
  let posCharge ← optNat
  let mz2 ← rat
  let mw2 ← rat
  let s2w ← rat
  let k ← rats 9
  match k with
  | [ud, us, ub, cd, cs, cb, td, ts, tb] =>
    pure { th := { mz2, mw2, s2w, ckm := { ud, us, ub, cd, cs, cb, td, ts, tb } },
           ob := { process, projectile, pol, propCorr, posCharge } }
  | _ => failure

/-- mask spec: `L<nf>` = `quark_names[:nf]`, `S<ihq>` = single character -/
def rdMask : RdM Mask := do
  let t ← tok
  let n ← ((t.drop 1).toString.toNat? : Option Nat)
  if t.startsWith "L" then pure (Mask.light n)
  else if t.startsWith "S" then pure (Mask.single n)
  else failure

def rdExt : RdM ExtRat := do
  let t ← tok
  if t == "inf" then pure .inf else do
    let r ← (parseRat? t : Option Rat)
    pure (.fin r)

def showExt : ExtRat → String
  | .inf => "inf"
  | .fin r => showRat r

def rdScheme : RdM Scheme := do
  let t ← tok
  (Scheme.ofString? t : Option Scheme)

def showKThr : KThr → String
  | .keep => "keep" | .zero => "zero" | .inf => "inf"

def showOptBool : Option Bool → String
  | none => "-" | some b => showBool b

def rdLabel : RdM Label := do
  match (← tok) with
  | "P_qq_0" => pure .Pqq0 | "P_qg_0" => pure .Pqg0 | "P_gq_0" => pure .Pgq0 | "P_gg_0" => pure .Pgg0
  | "P_nsp_1" => pure .Pnsp1 | "P_nsm_1" => pure .Pnsm1 | "P_qq_1" => pure .Pqq1 | "P_qg_1" => pure .Pqg1
  | "P_qq_0^2" => pure .Pqq0sq | "P_qg_0P_gq_0" => pure .PqgPgq | "P_qq_0P_qg_0" => pure .PqqPqg
  | "P_qg_0P_gg_0" => pure .PqgPgg | _ => failure

def rdMat (r c : Nat) : RdM Mat := do
  let mut out := []
  for _ in [0:r] do
    let row ← rats c
    out := out ++ [row]
  pure out

def rdSv : RdM String := do
  let n ← nat; let nf ← nat; let pto ← nat; let actRen ← bool; let actFact ← bool
  let mut projs : List Mat := []
  for _ in [0:7] do
    let m ← rdMat 14 14
    projs := projs ++ [m]
  let proj : Sector → Mat := fun s => projs.getD (Sector.all.idxOf s) []
  let nlab ← nat
  let mut labs : List (Label × Mat) := []
  for _ in [0:nlab] do
    let l ← rdLabel
    let m ← rdMat n n
    labs := labs ++ [(l, m)]
  let ops : Label → Mat := fun l => ((labs.find? fun e => e.1 == l).map (·.2)).getD []
  let one : Mat := (List.range n).map fun i => (List.range n).map fun j => if i = j then 1 else 0
  let nker ← nat
  let mut kers : List KerIn := []
  for _ in [0:nker] do
    let intr ← bool
    let partons ← rats 14
    let cp ← rat
    let nv ← nat
    let mut vals : List (Option Vec) := []
    for _ in [0:nv] do
      let present ← bool
      if present then
        let v ← rats n
        vals := vals ++ [some v]
      else
        vals := vals ++ [none]
    kers := kers ++ [{ intrinsic := intr, partons := partons, convPoint := cp, vals := vals }]
  let fact := sectorMapping pto ops one (beta0 nf)
  let ren := renCoeffs pto nf
  let all := (kers.map (kernelOrders actRen actFact fact proj ren)).flatten
  let keys := buildOrders pto
  let extra := (all.map (·.key)).filter fun k => !keys.contains k
  let showKey (k : OKey) : String :=
    s!"{k.as},{k.aem},{k.lnR},{k.lnF}: " ++ " ".intercalate
      (((List.range 14).map fun a => (List.range n).map fun j => showRat (tensorEntry all k a j)).flatten)
  pure (" | ".intercalate ((keys ++ extra.eraseDups).map showKey))

def tab (rows cols : Nat) (l : List Rat) : Nat → Nat → Rat := fun a j =>
  if a < rows ∧ j < cols then l.getD (a * cols + j) 0 else 0

def rdApplyPdf : RdM String := do
  let as ← rat; let aem ← rat; let LR ← rat; let LF ← rat
  let npid ← nat; let ngrid ← nat
  let mut hs : List Bool := []
  for _ in [0:npid] do
    let b ← bool
    hs := hs ++ [b]
  let fl ← rats (npid * ngrid)
  let no ← nat
  let mut orders : List (OKey × (Nat → Nat → Rat)) := []
  for _ in [0:no] do
    let a ← nat; let b ← nat; let c ← nat; let d ← nat
    let v ← rats (npid * ngrid)
    orders := orders ++ [(⟨a, b, c, d⟩, tab npid ngrid v)]
  let e : PdfEnv := { as, aem, LR, LF, npid, ngrid, has := fun a => hs.getD a false, f := tab npid ngrid fl }
  pure (showRat (applyPdf orders e))

/-- `tar n {x q2 nf|- y|- norders {a b c d vid eid}}`: layout written by `dump_tar` for one
observable with `n` results (`n = -1`: None) and what `load_tar` makes of it -/
def rdTar : RdM String := do
  let n ← int
  if n < 0 then
    let t : Ser.TObs Rat Nat := Ser.dumpTarObs (.none)
    match t with
    | .none => pure "none # none"
    | _ => pure "?"
  else
  let mut rs : List (Ser.Res Rat Nat) := []
  for _ in [0:n.toNat] do
    let x ← rat; let q2 ← rat; let nf ← optNat
    let yt ← tok
    let y ← if yt == "-" then pure none else do
      let r ← (parseRat? yt : Option Rat)
      pure (some r)
    let no ← nat
    let mut os : List (OKey × Nat × Nat) := []
    for _ in [0:no] do
      let a ← nat; let b ← nat; let c ← nat; let d ← nat; let v ← nat; let e ← nat
      os := os ++ [(⟨a, b, c, d⟩, v, e)]
    rs := rs ++ [{ x, q2, nf, y, orders := os }]
  let showON : Option Nat → String := fun o => match o with | none => "-" | some k => toString k
  let showL {α} (f : α → String) (l : List α) : String := "[" ++ ",".intercalate (l.map f) ++ "]"
  let t := Ser.dumpTarObs (.list rs)
  let dumped := match t with
    | .none => "none"
    | .empty => "empty"
    | .data orders xs q2s nfs ys values errors =>
      "orders=" ++ showL (showL toString) orders ++ "|x=" ++ showL showRat xs ++ "|Q2=" ++ showL showRat q2s
        ++ "|nf=" ++ showL showON nfs ++ "|y=" ++ (match ys with | none => "-" | some l => showL showRat l)
        ++ "|values=" ++ showL (showL toString) values ++ "|errors=" ++ showL (showL toString) errors
  let back := Ser.loadTarObs t
  let showRes (r : Ser.Res Rat Nat) : String :=
    s!"{showRat r.x};{showRat r.q2};{showON r.nf};" ++ (match r.y with | none => "-" | some v => showRat v) ++ ";" ++
      showL (fun (o : OKey × Nat × Nat) => s!"{o.1.as}.{o.1.aem}.{o.1.lnR}.{o.1.lnF}:{o.2.1}:{o.2.2}") r.orders
  let loaded := match back with
    | .none => "none"
    | .list l => showL showRes l
  pure (dumped ++ " # " ++ loaded)

def rdCache : RdM String := do
  let tmcOn ← bool
  let nops ← nat
  let mut st : Cache.State := Cache.State.empty
  let mut outs : List String := []
  for _ in [0:nops] do
    let t ← tok
    if t == "drop" then
      st := (Cache.step tmcOn st .drop).1
      outs := outs ++ ["D"]
    else
      let obs ← nat
      let nk ← nat
      let mut kin : Cache.Kin := []
      for _ in [0:nk] do
        let nm ← tok
        let v ← rat
        let name ← match nm with
          | "x" => pure Cache.KName.x | "Q2" => pure Cache.KName.Q2 | "y" => pure Cache.KName.y | _ => failure
        kin := kin ++ [(name, v)]
      let useRaw ← bool
      let r : Cache.Req := ⟨obs, kin, useRaw⟩
      let hit := (Cache.lookup (st.cacheOf obs) (r.key tmcOn)).isSome
      let (st', o) := Cache.step tmcOn st (.get r)
      st := st'
      match o with
      | some ob => outs := outs ++ [s!"{if hit then "H" else "M"}:{ob.obs}:{showRat ob.pt.x}:{showRat ob.pt.q2}:{showBool ob.tmc}"]
      | none => outs := outs ++ ["?"]
  pure (" ".intercalate outs)

/-- `plan n q2…`: evaluation order and drops of `Runner.get_result` for one observable -/
def rdPlan : RdM String := do
  let n ← nat
  let qs ← rats n
  pure (" ".intercalate ((Cache.evalPlan qs).map fun (d, i) => s!"{if d then "d" else "-"}{i}"))

partial def parseVal (t : String) : Option Val :=
  if t == "N" then some .none
  else if t == "I" then some .inf
  else if t == "B0" then some (.bool false)
  else if t == "B1" then some (.bool true)
  else if t.startsWith "R" then (parseRat? (t.drop 1).toString).map .num
  else if t.startsWith "S" then some (.str (t.drop 1).toString)
  else if t.startsWith "O" then ((t.drop 1).toString.toNat?).map .obj
  else none

partial def showVal : Val → String
  | .none => "N"
  | .inf => "I"
  | .bool b => if b then "B1" else "B0"
  | .num r => "R" ++ showRat r
  | .str s => "S" ++ s
  | .obj i => "O" ++ toString i
  | .pair a b => "P(" ++ showVal a ++ "," ++ showVal b ++ ")"

def rdCard : RdM Card := do
  let n ← nat
  let mut c : Card := []
  for _ in [0:n] do
    let k ← tok
    let vt ← tok
    let v ← (parseVal vt : Option Val)
    c := c ++ [(k, v)]
  pure c

def showCard (c : Card) : String :=
  " ".intercalate (c.map fun (k, v) => k ++ "=" ++ showVal v)

def flt : RdM Float := do let r ← rat; pure (KExpr.ratToFloat r)

/-- `keval name z nargs args… nconst {name val}… nparams {name val}… nexts {name nx xs… val}…` -/
def rdKeval : RdM String := do
  let name ← tok
  let zv ← flt
  let na ← nat
  let mut args : Array Float := #[]
  for _ in [0:na] do
    let a ← flt
    args := args.push a
  let nc ← nat
  let mut cs : List (String × Float) := []
  for _ in [0:nc] do
    let n ← tok; let v ← flt
    cs := (n, v) :: cs
  let np ← nat
  let mut ps : List (String × Float) := []
  for _ in [0:np] do
    let n ← tok; let v ← flt
    ps := (n, v) :: ps
  let ne ← nat
  let mut es : List (String × List Float × Float) := []
  for _ in [0:ne] do
    let n ← tok
    let nx ← nat
    let mut xs : List Float := []
    for _ in [0:nx] do
      let x ← flt
      xs := xs ++ [x]
    let v ← flt
    es := (n, xs, v) :: es
  match Yadism.Gen.kernelTable.find? (fun e => e.1 == name) with
  | none => pure "unknown-kernel"
  | some (_, e) =>
    let nan : Float := 0.0 / 0.0
    let env : KExpr.FEnv := KExpr.FEnv.mk zv args
      (fun n => ((cs.find? fun c => c.1 == n).map (·.2)).getD nan)
      (fun n => ((ps.find? fun c => c.1 == n).map (·.2)).getD nan) es
    match e.evalF env with
    | some v => pure (toString v.toBits)
    | none => pure "undefined"

/-- `tmcval kind mode x Q2 M2`: the shifted kinematics and every coefficient of the generated
formula, evaluated in `Float`: `mu rho xi n {symbol bits}…` -/
def rdTmcval : RdM String := do
  let kind ← tok
  let mode ← tok
  let x ← flt
  let q2 ← flt
  let m2 ← flt
  let nan : Float := 0.0 / 0.0
  let mk (ps : List (String × Float)) : KExpr.FEnv := KExpr.FEnv.mk nan #[]
      (fun _ => nan) (fun n => ((ps.find? fun c => c.1 == n).map (·.2)).getD nan) []
  let base := [("x", x), ("Q2", q2), ("M2", m2)]
  match Yadism.Gen.tmc_mu.evalF (mk base) with
  | none => pure "undefined"
  | some mu =>
  match Yadism.Gen.tmc_rho.evalF (mk (("mu", mu) :: base)) with
  | none => pure "undefined"
  | some rho =>
  match Yadism.Gen.tmc_xi.evalF (mk (("rho", rho) :: ("mu", mu) :: base)) with
  | none => pure "undefined"
  | some xi =>
  let env := mk (("xi", xi) :: ("rho", rho) :: ("mu", mu) :: base)
  match Yadism.Gen.tmcTable.find? (fun e => e.1 == kind && e.2.1 == mode) with
  | none => pure "unknown-formula"
  | some (_, _, ents) =>
    let parts := ents.map fun (s, e) =>
      s.name ++ " " ++ (match e.evalF env with | some v => toString v.toBits | none => "undefined")
    pure (s!"{mu.toBits} {rho.toBits} {xi.toBits} {ents.length} " ++ " ".intercalate parts)

/-- `convfx n grid… xi {below w F}…` : the loop of `_convolve_FX` on exact rationals -/
def rdConvfx : RdM String := do
  let n ← nat
  let mut grid : List Rat := []
  for _ in [0:n] do
    let g ← rat
    grid := grid ++ [g]
  let xi ← rat
  let mut bs : Array Bool := #[]
  let mut ws : Array Rat := #[]
  let mut fs : Array Rat := #[]
  for _ in [0:n] do
    let b ← bool; let w ← rat; let f ← rat
    bs := bs.push b; ws := ws.push w; fs := fs.push f
  match convolveFX grid (fun j => bs.getD j false) (fun j => ws.getD j 0) (fun j => fs.getD j 0) xi with
  | none => pure "rejected"
  | some v => pure (showRat v)

/-- `thr Q2 m2 x z`: the generated threshold terms on exact rationals:
`below(z) below(x) sign(eta(z)) labda point` (`-` = undefined) -/
def rdThr : RdM String := do
  let q2 ← rat; let m2 ← rat; let x ← rat; let z ← rat
  let env := thrEnv q2 m2 x z
  let envx := thrEnv q2 m2 x x
  let sb (o : Option Bool) : String := match o with | some b => showBool b | none => "-"
  let sq (o : Option Rat) : String := match o with | some r => showRat r | none => "-"
  let sgn : String := match Yadism.Gen.ncEta.evalQ env with
    | some e => if e > 0 then "+" else if e < 0 then "neg" else "0"
    | none => "-"
  pure s!"{sb (Yadism.Gen.pairGuard.holdsQ env)} {sb (Yadism.Gen.pairGuard.holdsQ envx)} {sgn} {sq (Yadism.Gen.ccLabda.evalQ env)} {sq (Yadism.Gen.ccPoint.evalQ env)}"

/-- `convm eps point belowSupport hasReg hasSing hasLoc quad pdfAtX loc weight decorated`
(`eps` such that `1 - eps` is the double the code compares with) -/
def rdConvm : RdM String := do
  let eps ← rat
  let point ← rat
  let bs ← bool
  let hr ← bool; let hs ← bool; let hl ← bool
  let quad ← rat; let pdf ← rat; let loc ← rat; let w ← rat
  let dec ← bool
  let p : RslParts Rat := ⟨if hr then some 1 else none, if hs then some 1 else none, if hl then some loc else none⟩
  pure (showRat (operatorEntry eps point bs (decorate dec p) quad pdf w))

/-- `interp n d grid… m t…` : for every `t`, `basis_0(t) … basis_{n-1}(t)`;
`interpinfo n d` : `kmin` per interval and the areas of every basis function;
`below n d grid… t` : `is_below_x` of every basis function -/
def rdGrid : RdM (Nat × Nat × Array Rat) := do
  let n ← nat
  let d ← nat
  let mut g : Array Rat := #[]
  for _ in [0:n] do
    let v ← rat
    g := g.push v
  pure (n, d, g)

def rdInterp : RdM String := do
  let (n, d, g) ← rdGrid
  let xs : Nat → Rat := fun i => g.getD i 0
  let m ← nat
  let mut out : List String := []
  for _ in [0:m] do
    let t ← rat
    out := out ++ [" ".intercalate ((List.range n).map fun j => showRat (Yadism.Interp.basis xs n d j t))]
  pure (" | ".intercalate out)

def rdInterpInfo : RdM String := do
  let n ← nat
  let d ← nat
  let ks := (List.range (n - 1)).map fun i => toString (Yadism.Interp.kminOf n d i)
  let ar := (List.range n).map fun j => ",".intercalate ((Yadism.Interp.areas n d j).map toString)
  pure (" ".intercalate ks ++ " | " ++ " ".intercalate ar)

def rdBelow : RdM String := do
  let (n, d, g) ← rdGrid
  let xs : Nat → Rat := fun i => g.getD i 0
  let t ← rat
  pure (" ".intercalate ((List.range n).map fun j => showBool (Yadism.Interp.isBelowX xs n d j t)))

/-- `oprow eps n o pid nk { point nw {pid w}… active hasparts v_0 … v_{n-1} }…`:
the row `orders[(o,0,0,0)][pid]` assembled from the vectors `convolve_vector` returned -/
def rdOprow : RdM String := do
  let eps ← rat
  let n ← nat
  let o ← nat
  let pid ← Proto.int
  let nk ← nat
  let mut ks : List Yadism.Conv.KernelInput := []
  for _ in [0:nk] do
    let point ← rat
    let nw ← nat
    let mut ws : List (Int × Rat) := []
    for _ in [0:nw] do
      let p ← Proto.int; let w ← rat
      ws := (p, w) :: ws
    let active ← bool
    let hasp ← bool
    let mut v : Array Rat := #[]
    for _ in [0:n] do
      let x ← rat
      v := v.push x
    let oi : Yadism.Conv.OrderInput :=
      { active := active, parts := if hasp then some ⟨some 1, none, none⟩ else none,
        below := fun _ => false, quad := fun j => v.getD j 0, pdfAt := fun _ => 0 }
    ks := ks ++ [{ weight := fun q => ((ws.find? fun e => e.1 == q).map (·.2)).getD 0, point := point, orders := fun _ => oi }]
  pure (" ".intercalate ((Yadism.Conv.operatorRow eps ks o pid n).map showRat))

/-- `kinfo name` : size, maxArg, usesZ -/
def rdKinfo : RdM String := do
  let name ← tok
  match Yadism.Gen.kernelTable.find? (fun e => e.1 == name) with
  | none => pure "unknown-kernel"
  | some (_, e) =>
    pure s!"{e.size} {match e.maxArg with | none => "-" | some i => toString i} {showBool e.usesZ}"

def showPMap (w : PMap) : String :=
  " ".intercalate (flavorBasisPids.map fun p => showRat (w p))

def showKernel (k : Kernel) : String :=
  s!"{k.chan.family}.{k.chan.cls}.{k.chan.nfArg}.{k.chan.ihq} {showPMap k.partons}"

def rdEsf : RdM (Env × Flavor × Parts) := do
  let kind ← rdKind
  let flavor ← rdFlavor
  let cc ← rdCC
  let q2 ← rat
  let nf ← nat
  let zmc ← bool
  let zmb ← bool
  let zmt ← bool
  let ffn0 ← bool
  let parts ← rdParts
  let pto ← nat
  let ptoEvol ← nat
  let z ← rat
  let a ← rat
  pure ({ kind, cc, q2, nf, zmc, zmb, zmt, ffn0, pto, ptoEvol, z, a }, flavor, parts)

def handle (op : String) : RdM String := do
  match op with
  | "ping" => pure "pong"
  | "gw" => do       -- get_weight NC/EM:  gw <cc> pid q2 qct
      let c ← rdCC; let pid ← int; let q2 ← rat; let t ← rdQCT
      pure (showRat (c.getWeightNC pid q2 t))
  | "gwcc" => do     -- get_weight CC:  gwcc <cc> pid mask
      let c ← rdCC; let pid ← int; let m ← rdMask
      pure (showRat (c.getWeightCC pid.natAbs m))
  | "fl11" => do     -- get_fl11_weight: fl11 <cc> pid q2 nf qct
      let c ← rdCC; let pid ← int; let q2 ← rat; let nf ← nat; let t ← rdQCT
      pure (showRat (c.getFl11Weight pid q2 nf t))
  | "ncw" => do      -- nc_weights: ncw <cc> q2 nf pv skip  -> ns|g|s|v
      let c ← rdCC; let q2 ← rat; let nf ← nat; let pv ← bool; let sk ← bool
      let w := ncWeights c q2 nf pv sk
      pure (" | ".intercalate [showPMap w.ns, showPMap w.g, showPMap w.s, showPMap w.v])
  | "ncfl11" => do
      let c ← rdCC; let q2 ← rat; let nf ← nat; let sk ← bool
      let w := ncFl11Weights c q2 nf sk
      pure (" | ".intercalate [showPMap w.q, showPMap w.g])
  | "ccw" => do      -- cc_weights*: ccw <which> <cc> mask nf pv
      let which ← tok
      let c ← rdCC; let m ← rdMask; let nf ← nat; let pv ← bool
      let w ← match which with
        | "plain" => pure (ccWeights c m nf pv)
        | "even" => pure (ccWeightsEven c m nf pv)
        | "odd" => pure (ccWeightsOdd c m nf pv)
        | _ => failure
      pure (" | ".intercalate [showPMap w.ns, showPMap w.g, showPMap w.s, showPMap w.v])
  | "isospin" => do   -- apply_isospin on one weight map: isospin z a w×14
      let z ← rat; let a ← rat; let ws ← rats 14
      let w : PMap := fun p => ws.getD (flavorBasisPids.idxOf p) 0
      pure (showPMap (isospin z a w))
  | "combiner" => do
      let (e, fl, pa) ← rdEsf
      pure (" ; ".intercalate ((collectElems e fl pa).map showKernel))
  | "nf" => do       -- nf_default: nf q2 w1 w2 w3
      let q2 ← rat; let a ← rdExt; let b ← rdExt; let c ← rdExt
      match nfDefault q2 [a, b, c] with
      | some n => pure (toString n)
      | none => pure "rejected"
  | "fns" => do      -- update_fns: fns scheme nfff
      let s ← rdScheme; let n ← nat
      pure (" ".intercalate ((List.range 3).map fun k =>
        let (kt, zm) := updateFns s n k
        s!"{showKThr kt}:{showOptBool zm}"))
  | "ms" => do       -- matching scales: ms scheme nfff m2×3 k2×3
      let s ← rdScheme; let n ← nat; let m2 ← rats 3; let k2 ← rats 3
      pure (" ".intercalate ((matchingScales s n m2 k2).map showExt))
  | "xs" => do       -- xs_coeffs: xs kind y x q2 pid mn m2w gf pi
      let k ← tok
      let kind ← (XSKind.ofString? k : Option XSKind)
      let y ← rat; let x ← rat; let q2 ← rat; let pid ← int
      let mn ← rat; let m2w ← rat; let gf ← rat; let pi ← rat
      let (a, b, c) := xsCoeffs kind y x q2 { projectilePID := pid, mn, m2w, gf, pi }
      pure s!"{showRat a} {showRat b} {showRat c}"
  | "dispatch" => do  -- dispatch kind flavor isCC nf zmc zmb zmt ffn0 parts pto ptoEvol tmc
      let kind ← rdKind; let fl ← rdFlavor; let cc ← bool; let nf ← nat
      let zmc ← bool; let zmb ← bool; let zmt ← bool; let ffn0 ← bool; let pa ← rdParts
      let pto ← nat; let pe ← nat; let tmc ← nat
      let c : CC := { th := { mz2 := 1, mw2 := 1, s2w := 1/4, ckm := default },
                      ob := { process := if cc then .CC else .NC, projectile := 11, pol := 0, propCorr := 0, posCharge := none } }
      let e : Env := { kind, cc := c, q2 := 10, nf, zmc, zmb, zmt, ffn0, pto, ptoEvol := pe, z := 1, a := 1 }
      match tmcOutcome Yadism.Gen.moduleTable Yadism.Gen.tmcKinds tmc e fl pa with
      | .ok => pure "ok"
      | .rejected w => pure ("rejected:" ++ w.replace " " "_")
      | .internal w => pure ("internal:" ++ w.replace " " "_")
  | "distok" => do   -- distok tau sing loc
      let tau ← rat; let sn ← tok; let ln ← tok
      let find (n : String) := (Yadism.Gen.kernelTable.find? (fun e => e.1 == n)).map (·.2)
      match find sn, find ln with
      | some s, some l =>
        let ns := normLD s; let nl := normLD l
        pure s!"{showBool (distributionOK tau s l)} sing:{match ns with | some x => s!"k={x.k},deg={x.p.length}" | none => "none"} loc:{match nl with | some x => s!"k={x.k},deg={x.p.length}" | none => "none"}"
      | _, _ => pure "unknown-kernel"
  | "keval" => rdKeval
  | "kinfo" => rdKinfo
  | "tmcval" => rdTmcval
  | "thr" => rdThr
  | "oprow" => rdOprow
  | "interp" => rdInterp
  | "interpinfo" => rdInterpInfo
  | "below" => rdBelow
  | "convm" => rdConvm
  | "convfx" => rdConvfx
  | "update" => do   -- compatibility.update: update <theory card> <obs card>
      let t ← rdCard
      let o ← rdCard
      match update t o with
      | .ok (t', o') => pure (showCard t' ++ " ## " ++ showCard o')
      | .error .unknownScheme => pure "error:unknownScheme"
      | .error .unknownTarget => pure "error:unknownTarget"
      | .error .missingKey => pure "error:missingKey"
  | "cache" => rdCache
  | "plan" => rdPlan
  | "tar" => rdTar
  | "applypdf" => rdApplyPdf
  | "sv" => rdSv
  | "target" => do   -- update_target table
      let t ← tok
      let name := if t == "_" then "" else t
      match namedTarget name, namedTargetId name with
      | some (z, a), some id => pure s!"{showRat z} {showRat a} {id}"
      | _, _ => pure "rejected"
  | _ => failure

def step (line : String) : String :=
  let toks := (line.trimAscii.toString.splitOn " ").filter (· ≠ "")
  match toks with
  | [] => "bad-op"
  | op :: rest =>
    match run (handle op) rest with
    | some s => s
    | none => "bad-op"

partial def loop (h : IO.FS.Stream) (out : IO.FS.Stream) : IO Unit := do
  let line ← h.getLine
  if line.isEmpty then return ()
  out.putStrLn (step line)
  loop h out

def main : IO Unit := do
  let out ← IO.getStdout
  loop (← IO.getStdin) out
  out.flush
