/-
C19: predictions are stable under refinement / change of the interpolation grid, and a requested
`x` on a grid node is not special.

The interpolation basis is modelled in `Model/Interp.lean` (block layout, areas and `evaluate_x` of
`eko.interpolation` as yadism instantiates it) and tied to eko by the `interp_basis`
correspondence.  All statements hold over every linearly ordered field, so both for linear grids
(`t = x`) and logarithmic ones (`t = log x`, `log_grid_reproduces`).

* `reproduces_polynomials`: inside the grid the interpolant of a polynomial of degree ≤ the
  interpolation degree *is* that polynomial — for every grid, size, spacing and degree;
* `prediction_grid_independent`: hence every prediction, being a linear functional of the
  interpolant supported inside both grids, is *the same* on two different grids/degrees for such
  PDFs (exactly; on the real code up to quadrature accuracy) — this is the agreement of two
  adequate grids with interpolation error zero, and the interpolation error of a smooth PDF is the
  distance to that span;
* `node_values`, `continuous_at_nodes`: `p_j(x_k) = δ_jk`, and the polynomial pieces below and
  above a node agree there, so a requested `x` on a node gives the limit of displaced `x`;
* `partition_of_unity`, `support`;
* **convergence** (the clause that was only observed before): `interpolation_error_bound` — for
  *any* PDF the interpolation error at `t` is at most `(1 + Λ(t))` times the distance of the PDF to
  the polynomials of degree ≤ d on the block of `t` (Lebesgue bound, any ordered field);
  `lebesgue_function_bounded` — `Λ(t) ≤ (d+1)(d·hmax/hmin)^(d+1)` for every quasi-uniform grid,
  *independently of the number of nodes*; `two_grids_within_accuracy`; and over `ℝ`
  `refinement_converges` / `log_grid_refinement_converges`: for a PDF whose (d+1)-th derivative in
  the grid variable is bounded by `M`, the error is at most
  `(1 + (d+1)(dρ)^(d+1)) · M (d·hmax)^(d+1) / d!` (`ρ ≥ hmax/hmin`), i.e. `O(hmax^(d+1))` as the
  grid is refined at bounded mesh ratio, and it vanishes when the degree exceeds that of a
  polynomial PDF.
-/
import YadismModel.Lemmas.Interp
import YadismModel.Lemmas.InterpError
import YadismModel.Lemmas.InterpTaylor
import Mathlib.Analysis.SpecialFunctions.Log.Basic
import Mathlib.Algebra.Module.LinearMap.Defs

namespace Yadism.C19

open Yadism.Interp Polynomial

variable {K : Type} [Field K] [LinearOrder K] [IsStrictOrderedRing K]

/-- `p_j(x_k) = δ_jk` for every grid, degree and node -/
theorem node_values (xs : Nat → K) (hxs : StrictMono xs) (n d : Nat) (hd : 1 ≤ d) (hn : d + 1 ≤ n)
    (j k : Nat) (hj : j < n) (hk : k < n) :
    basis xs n d j (xs k) = if j = k then 1 else 0 :=
  basis_at_node xs hxs n d hd hn j k hj hk

/-- the interpolant of a polynomial of degree ≤ `d` is the polynomial, everywhere in the grid -/
theorem reproduces_polynomials (xs : Nat → K) (hxs : StrictMono xs) (n d : Nat) (hd : 1 ≤ d) (hn : d + 1 ≤ n)
    (q : K[X]) (hq : q.natDegree ≤ d) (t : K) (ht0 : xs 0 ≤ t) (ht1 : t ≤ xs (n - 1)) :
    interpolant xs (fun j => q.eval (xs j)) n d t = q.eval t :=
  interpolant_reproduces xs hxs n d hd hn q hq t ht0 ht1

theorem partition_of_unity (xs : Nat → K) (hxs : StrictMono xs) (n d : Nat) (hd : 1 ≤ d) (hn : d + 1 ≤ n)
    (t : K) (ht0 : xs 0 ≤ t) (ht1 : t ≤ xs (n - 1)) :
    sumUpTo (fun j => basis xs n d j t) n = 1 :=
  Yadism.Interp.partition_of_unity xs hxs n d hd hn t ht0 ht1

/-- two grids (any sizes, spacings, degrees): for a PDF that is a polynomial of degree at most
both interpolation degrees the two interpolants coincide wherever both grids reach -/
theorem interpolants_agree (xs ys : Nat → K) (hxs : StrictMono xs) (hys : StrictMono ys)
    (n d m e : Nat) (hd : 1 ≤ d) (hn : d + 1 ≤ n) (he : 1 ≤ e) (hm : e + 1 ≤ m)
    (q : K[X]) (hqd : q.natDegree ≤ d) (hqe : q.natDegree ≤ e) (t : K)
    (hx0 : xs 0 ≤ t) (hx1 : t ≤ xs (n - 1)) (hy0 : ys 0 ≤ t) (hy1 : t ≤ ys (m - 1)) :
    interpolant xs (fun j => q.eval (xs j)) n d t = interpolant ys (fun j => q.eval (ys j)) m e t := by
  rw [reproduces_polynomials xs hxs n d hd hn q hqd t hx0 hx1,
    reproduces_polynomials ys hys m e he hm q hqe t hy0 hy1]

/-- A prediction is `Σ_j f(x_j) · Φ(p_j)` with `Φ` linear (convolution with the coefficient
functions, target-mass integrals, …; the operator entries are `Φ(p_j)`).  If `Φ` only looks at
its argument inside `[a, b]` and the grid covers `[a, b]`, the prediction for a polynomial PDF is
`Φ(q)`: it does not depend on the grid at all. -/
theorem prediction_is_functional_of_pdf (xs : Nat → K) (hxs : StrictMono xs) (n d : Nat) (hd : 1 ≤ d)
    (hn : d + 1 ≤ n) (q : K[X]) (hq : q.natDegree ≤ d) (a b : K) (ha : xs 0 ≤ a) (hb : b ≤ xs (n - 1))
    (Φ : (K → K) →ₗ[K] K) (hΦ : ∀ g h : K → K, (∀ t, a ≤ t → t ≤ b → g t = h t) → Φ g = Φ h) :
    (∑ j ∈ Finset.range n, q.eval (xs j) * Φ (fun t => basis xs n d j t)) = Φ (fun t => q.eval t) := by
  have h1 : (∑ j ∈ Finset.range n, q.eval (xs j) * Φ (fun t => basis xs n d j t))
      = Φ (fun t => interpolant xs (fun j => q.eval (xs j)) n d t) := by
    have : (fun t => interpolant xs (fun j => q.eval (xs j)) n d t)
        = ∑ j ∈ Finset.range n, q.eval (xs j) • (fun t => basis xs n d j t) := by
      funext t
      simp [interpolant, sumUpTo_eq, Finset.sum_apply]
    rw [this, map_sum]
    simp [map_smul]
  rw [h1]
  apply hΦ
  intro t hta htb
  exact reproduces_polynomials xs hxs n d hd hn q hq t (le_trans ha hta) (le_trans htb hb)

/-- **agreement of two grids** -/
theorem prediction_grid_independent (xs ys : Nat → K) (hxs : StrictMono xs) (hys : StrictMono ys)
    (n d m e : Nat) (hd : 1 ≤ d) (hn : d + 1 ≤ n) (he : 1 ≤ e) (hm : e + 1 ≤ m)
    (q : K[X]) (hqd : q.natDegree ≤ d) (hqe : q.natDegree ≤ e) (a b : K)
    (hxa : xs 0 ≤ a) (hxb : b ≤ xs (n - 1)) (hya : ys 0 ≤ a) (hyb : b ≤ ys (m - 1))
    (Φ : (K → K) →ₗ[K] K) (hΦ : ∀ g h : K → K, (∀ t, a ≤ t → t ≤ b → g t = h t) → Φ g = Φ h) :
    (∑ j ∈ Finset.range n, q.eval (xs j) * Φ (fun t => basis xs n d j t))
      = ∑ j ∈ Finset.range m, q.eval (ys j) * Φ (fun t => basis ys m e j t) := by
  rw [prediction_is_functional_of_pdf xs hxs n d hd hn q hqd a b hxa hxb Φ hΦ,
    prediction_is_functional_of_pdf ys hys m e he hm q hqe a b hya hyb Φ hΦ]

/-- the interpolant takes the node values … -/
theorem interpolant_at_node (xs : Nat → K) (hxs : StrictMono xs) (n d : Nat) (hd : 1 ≤ d) (hn : d + 1 ≤ n)
    (f : Nat → K) (k : Nat) (hk : k < n) : interpolant xs f n d (xs k) = f k :=
  Yadism.Interp.interpolant_at_node xs hxs n d hd hn f k hk

/-- … and the polynomial piece used immediately *above* an interior node takes the same value
there: no jump at a node (each piece is a polynomial, hence continuous) -/
theorem continuous_at_nodes (xs : Nat → K) (hxs : StrictMono xs) (n d : Nat) (hd : 1 ≤ d) (hn : d + 1 ≤ n)
    (f : Nat → K) (k : Nat) (hk : k + 1 < n) :
    (∑ j ∈ Finset.range n,
        f j * (if inBlock n d k j = true then lagrange xs (kminOf n d k) d j (xs k) else 0))
      = interpolant xs f n d (xs k) := by
  rw [interpolant_at_node xs hxs n d hd hn f k (by omega)]
  exact piece_above_node xs hxs n d hd hn f k hk

/-- just above the node the code does use that piece -/
theorem piece_used_above_node (xs : Nat → K) (hxs : StrictMono xs) (n d : Nat) (hd : 1 ≤ d) (hn : d + 1 ≤ n)
    (k j : Nat) (hk : k + 1 < n) (t : K) (h1 : xs k < t) (h2 : t ≤ xs (k + 1)) :
    basis xs n d j t = if inBlock n d k j = true then lagrange xs (kminOf n d k) d j t else 0 :=
  basis_on_interval xs hxs n d hd hn k j hk t h1 h2

/-- `is_below_x(t)` ⇒ the basis function vanishes at every `u > t` -/
theorem support (xs : Nat → K) (hxs : StrictMono xs) (n d : Nat) (hd : 1 ≤ d) (hn : d + 1 ≤ n)
    (j : Nat) (t u : K) (hb : isBelowX xs n d j t = true) (hu : t < u) : basis xs n d j u = 0 :=
  basis_zero_above xs hxs n d hd hn j t u hb hu

/-- logarithmic grids: nodes `log x_i`, evaluation at `log x` -/
theorem log_grid_reproduces (x : Nat → ℝ) (hpos : ∀ i, 0 < x i) (hx : StrictMono x) (n d : Nat)
    (hd : 1 ≤ d) (hn : d + 1 ≤ n) (q : ℝ[X]) (hq : q.natDegree ≤ d) (z : ℝ)
    (h0 : x 0 ≤ z) (h1 : z ≤ x (n - 1)) :
    interpolant (fun i => Real.log (x i)) (fun j => q.eval (Real.log (x j))) n d (Real.log z)
      = q.eval (Real.log z) := by
  have hmono : StrictMono fun i => Real.log (x i) := by
    intro a b hab
    exact Real.log_lt_log (hpos a) (hx hab)
  have hz : 0 < z := lt_of_lt_of_le (hpos 0) h0
  exact reproduces_polynomials (fun i => Real.log (x i)) hmono n d hd hn q hq (Real.log z)
    (Real.log_le_log (hpos 0) h0) (Real.log_le_log hz h1)


/-! ## Convergence under refinement -/

/-- **Lebesgue bound** (any grid, any degree, any PDF `f`, any ordered field) -/
theorem interpolation_error_bound (xs : Nat → K) (hxs : StrictMono xs) (n d : Nat) (hd : 1 ≤ d) (hn : d + 1 ≤ n)
    (f : K → K) (q : K[X]) (hq : q.natDegree ≤ d) (t ε : K) (ht0 : xs 0 ≤ t) (ht1 : t ≤ xs (n - 1))
    (hnodes : ∀ j, j < n → basis xs n d j t ≠ 0 → |f (xs j) - q.eval (xs j)| ≤ ε)
    (hpt : |f t - q.eval t| ≤ ε) :
    |interpolant xs (fun j => f (xs j)) n d t - f t| ≤ (1 + lebesgue xs n d t) * ε :=
  interp_error_le xs hxs n d hd hn f q hq t ε ht0 ht1 hnodes hpt

/-- the Lebesgue function of a quasi-uniform grid is bounded independently of its size -/
theorem lebesgue_function_bounded (xs : Nat → K) (hxs : StrictMono xs) (n d : Nat) (hd : 1 ≤ d) (hn : d + 1 ≤ n)
    (hmin hmax : K) (hmin0 : 0 < hmin)
    (hlo : ∀ s, s + 1 < n → hmin ≤ xs (s + 1) - xs s) (hhi : ∀ s, s + 1 < n → xs (s + 1) - xs s ≤ hmax)
    (t : K) (h0 : xs 0 < t) (h1 : t ≤ xs (n - 1)) :
    lebesgue xs n d t ≤ ((d : K) + 1) * ((d : K) * hmax / hmin) ^ (d + 1) := by
  obtain ⟨i, hi, hi1, hi2⟩ := exists_interval xs n t h0 h1
  exact lebesgue_le xs hxs n d hd hn hmin hmax hmin0 hlo hhi i hi t hi1 hi2

/-- **two adequate grids agree within the interpolation accuracy**: if the PDF is within `εx`
(resp. `εy`) of a polynomial of admissible degree on the relevant nodes of each grid, the two
interpolants differ by at most the sum of the two Lebesgue bounds -/
theorem two_grids_within_accuracy (xs ys : Nat → K) (hxs : StrictMono xs) (hys : StrictMono ys)
    (n d m e : Nat) (hd : 1 ≤ d) (hn : d + 1 ≤ n) (he : 1 ≤ e) (hm : e + 1 ≤ m)
    (f : K → K) (q r : K[X]) (hq : q.natDegree ≤ d) (hr : r.natDegree ≤ e) (t εx εy : K)
    (hx0 : xs 0 ≤ t) (hx1 : t ≤ xs (n - 1)) (hy0 : ys 0 ≤ t) (hy1 : t ≤ ys (m - 1))
    (hxn : ∀ j, j < n → basis xs n d j t ≠ 0 → |f (xs j) - q.eval (xs j)| ≤ εx) (hxt : |f t - q.eval t| ≤ εx)
    (hyn : ∀ j, j < m → basis ys m e j t ≠ 0 → |f (ys j) - r.eval (ys j)| ≤ εy) (hyt : |f t - r.eval t| ≤ εy) :
    |interpolant xs (fun j => f (xs j)) n d t - interpolant ys (fun j => f (ys j)) m e t|
      ≤ (1 + lebesgue xs n d t) * εx + (1 + lebesgue ys m e t) * εy := by
  have h1 := interpolation_error_bound xs hxs n d hd hn f q hq t εx hx0 hx1 hxn hxt
  have h2 := interpolation_error_bound ys hys m e he hm f r hr t εy hy0 hy1 hyn hyt
  have : interpolant xs (fun j => f (xs j)) n d t - interpolant ys (fun j => f (ys j)) m e t
      = (interpolant xs (fun j => f (xs j)) n d t - f t) - (interpolant ys (fun j => f (ys j)) m e t - f t) := by
    ring
  rw [this]
  exact le_trans (abs_sub _ _) (add_le_add h1 h2)

/-- **convergence under refinement, with its rate**: a PDF `f` (as a function of the grid
variable) with `(d+1)`-th derivative bounded by `M`, a grid whose spacings lie in `[hmin, hmax]`
with `hmax ≤ ρ·hmin`: at every `t` inside the grid the interpolant is within
`(1 + (d+1)(dρ)^(d+1)) · M (d·hmax)^(d+1) / d!` of `f(t)` -/
theorem refinement_converges (xs : Nat → ℝ) (hxs : StrictMono xs) (n d : Nat) (hd : 1 ≤ d) (hn : d + 1 ≤ n)
    (f : ℝ → ℝ) (hf : ContDiff ℝ (d + 1 : ℕ) f) (M : ℝ) (hM : ∀ y, |iteratedDeriv (d + 1) f y| ≤ M)
    (hmin hmax ρ : ℝ) (hmin0 : 0 < hmin) (hρ : hmax ≤ ρ * hmin)
    (hlo : ∀ s, s + 1 < n → hmin ≤ xs (s + 1) - xs s) (hhi : ∀ s, s + 1 < n → xs (s + 1) - xs s ≤ hmax)
    (t : ℝ) (h0 : xs 0 < t) (h1 : t ≤ xs (n - 1)) :
    |interpolant xs (fun j => f (xs j)) n d t - f t|
      ≤ (1 + ((d : ℝ) + 1) * ((d : ℝ) * ρ) ^ (d + 1)) * (M * ((d : ℝ) * hmax) ^ (d + 1) / (Nat.factorial d)) := by
  obtain ⟨i, hi, hi1, hi2⟩ := exists_interval xs n t h0 h1
  have hk := kminOf_spec n d i hd hn hi
  set k := kminOf n d i with hkdef
  have hab : xs k < xs (k + d) := hxs (by omega)
  obtain ⟨q, hq, hclose⟩ := exists_poly_close f d hf M hM (xs k) (xs (k + d)) hab
  have hM0 : 0 ≤ M := le_trans (abs_nonneg _) (hM 0)
  have hfac : (0 : ℝ) < Nat.factorial d := by exact_mod_cast Nat.factorial_pos d
  have hspan : xs (k + d) - xs k ≤ d * hmax := span_le xs hxs hmax k d (fun s hs1 hs2 => hhi s (by omega))
  have hspan0 : 0 ≤ xs (k + d) - xs k := by linarith
  set ε := M * ((d : ℝ) * hmax) ^ (d + 1) / (Nat.factorial d) with hε
  have hle : ∀ x ∈ Set.Icc (xs k) (xs (k + d)), |f x - q.eval x| ≤ ε := by
    intro x hx
    refine le_trans (hclose x hx) ?_
    apply div_le_div_of_nonneg_right _ (le_of_lt hfac)
    exact mul_le_mul_of_nonneg_left (pow_le_pow_left₀ hspan0 hspan _) hM0
  have htk : t ∈ Set.Icc (xs k) (xs (k + d)) :=
    ⟨le_trans (hxs.monotone (by omega)) (le_of_lt hi1), le_trans hi2 (hxs.monotone (by omega))⟩
  have hnodes : ∀ j, j < n → basis xs n d j t ≠ 0 → |f (xs j) - q.eval (xs j)| ≤ ε := by
    intro j _ hb
    have hj := basis_ne_zero_in_block xs hxs n d hd hn i j hi t hi1 hi2 hb
    exact hle _ ⟨hxs.monotone hj.1, hxs.monotone hj.2⟩
  have hmain := interpolation_error_bound xs hxs n d hd hn f q hq t ε (le_of_lt h0) h1 hnodes (hle t htk)
  have hΛ := lebesgue_le xs hxs n d hd hn hmin hmax hmin0 hlo hhi i hi t hi1 hi2
  have hε0 : 0 ≤ ε := le_trans (abs_nonneg _) (hle t htk)
  have hminmax : hmin ≤ hmax := le_trans (hlo i hi) (hhi i hi)
  have hratio : (d : ℝ) * hmax / hmin ≤ (d : ℝ) * ρ := by
    rw [div_le_iff₀ hmin0]
    have : (0 : ℝ) ≤ d := Nat.cast_nonneg d
    nlinarith
  have hratio0 : 0 ≤ (d : ℝ) * hmax / hmin := by
    have : (0 : ℝ) ≤ d := Nat.cast_nonneg d
    have : 0 < hmax := lt_of_lt_of_le hmin0 hminmax
    positivity
  have hΛ' : lebesgue xs n d t ≤ ((d : ℝ) + 1) * ((d : ℝ) * ρ) ^ (d + 1) := by
    refine le_trans hΛ ?_
    apply mul_le_mul_of_nonneg_left (pow_le_pow_left₀ hratio0 hratio _)
    have : (0 : ℝ) ≤ d := Nat.cast_nonneg d
    linarith
  refine le_trans hmain ?_
  apply mul_le_mul_of_nonneg_right _ hε0
  linarith

/-- the same for a logarithmic grid: nodes `log x_i`, PDF `F(x)`, smooth as a function of `log x` -/
theorem log_grid_refinement_converges (x : Nat → ℝ) (hpos : ∀ i, 0 < x i) (hx : StrictMono x) (n d : Nat)
    (hd : 1 ≤ d) (hn : d + 1 ≤ n) (F : ℝ → ℝ) (hF : ContDiff ℝ (d + 1 : ℕ) (fun u => F (Real.exp u)))
    (M : ℝ) (hM : ∀ y, |iteratedDeriv (d + 1) (fun u => F (Real.exp u)) y| ≤ M)
    (hmin hmax ρ : ℝ) (hmin0 : 0 < hmin) (hρ : hmax ≤ ρ * hmin)
    (hlo : ∀ s, s + 1 < n → hmin ≤ Real.log (x (s + 1)) - Real.log (x s))
    (hhi : ∀ s, s + 1 < n → Real.log (x (s + 1)) - Real.log (x s) ≤ hmax)
    (z : ℝ) (h0 : x 0 < z) (h1 : z ≤ x (n - 1)) :
    |interpolant (fun i => Real.log (x i)) (fun j => F (x j)) n d (Real.log z) - F z|
      ≤ (1 + ((d : ℝ) + 1) * ((d : ℝ) * ρ) ^ (d + 1)) * (M * ((d : ℝ) * hmax) ^ (d + 1) / (Nat.factorial d)) := by
  have hmono : StrictMono fun i => Real.log (x i) := by
    intro a b hab
    exact Real.log_lt_log (hpos a) (hx hab)
  have hz : 0 < z := lt_trans (hpos 0) h0
  have h := refinement_converges (fun i => Real.log (x i)) hmono n d hd hn (fun u => F (Real.exp u)) hF M hM
    hmin hmax ρ hmin0 hρ hlo hhi (Real.log z) (Real.log_lt_log (hpos 0) h0) (Real.log_le_log hz h1)
  simpa [Real.exp_log hz, Real.exp_log (hpos _)] using h


/-- **from the interpolant to the prediction**: a prediction is `Σ_j f(x_j)·Φ(p_j)` with `Φ` linear.
If `Φ` only looks at `[a, b]` (inside the grid, above its first node) and is bounded there in the sup
norm by `B` (for yadism's functionals: `B = ∫|reg| + ∫|sing|·… + |loc|`, the integrability of the
coefficient function), the prediction for a smooth PDF is within `B` times the interpolation bound
of `Φ(f)`, the exact factorised structure function — on every grid, so two adequate grids agree
within the sum of their bounds and both converge to `Φ(f)` at the rate `hmax^(d+1)` -/
theorem prediction_converges (xs : Nat → ℝ) (hxs : StrictMono xs) (n d : Nat) (hd : 1 ≤ d) (hn : d + 1 ≤ n)
    (f : ℝ → ℝ) (hf : ContDiff ℝ (d + 1 : ℕ) f) (M : ℝ) (hM : ∀ y, |iteratedDeriv (d + 1) f y| ≤ M)
    (hmin hmax ρ : ℝ) (hmin0 : 0 < hmin) (hρ : hmax ≤ ρ * hmin)
    (hlo : ∀ s, s + 1 < n → hmin ≤ xs (s + 1) - xs s) (hhi : ∀ s, s + 1 < n → xs (s + 1) - xs s ≤ hmax)
    (a b : ℝ) (ha : xs 0 < a) (hb : b ≤ xs (n - 1))
    (Φ : (ℝ → ℝ) →ₗ[ℝ] ℝ) (B : ℝ)
    (hΦ : ∀ (g : ℝ → ℝ) (ε : ℝ), (∀ t, a ≤ t → t ≤ b → |g t| ≤ ε) → |Φ g| ≤ B * ε) :
    |(∑ j ∈ Finset.range n, f (xs j) * Φ (fun t => basis xs n d j t)) - Φ f|
      ≤ B * ((1 + ((d : ℝ) + 1) * ((d : ℝ) * ρ) ^ (d + 1)) * (M * ((d : ℝ) * hmax) ^ (d + 1) / (Nat.factorial d))) := by
  have h1 : (∑ j ∈ Finset.range n, f (xs j) * Φ (fun t => basis xs n d j t))
      = Φ (fun t => interpolant xs (fun j => f (xs j)) n d t) := by
    have : (fun t => interpolant xs (fun j => f (xs j)) n d t)
        = ∑ j ∈ Finset.range n, f (xs j) • (fun t => basis xs n d j t) := by
      funext t
      simp [interpolant, sumUpTo_eq, Finset.sum_apply]
    rw [this, map_sum]
    simp [map_smul]
  rw [h1, ← map_sub]
  apply hΦ
  intro t hta htb
  exact refinement_converges xs hxs n d hd hn f hf M hM hmin hmax ρ hmin0 hρ hlo hhi t
    (lt_of_lt_of_le ha hta) (le_trans htb hb)

/-- non-vacuity of the convergence statements: a PDF outside the span (`t³`, degree-2
interpolation on the grid 0,1,2,3,4; mesh ratio 1, third derivative 6): the Lebesgue function is
`5/4 ≤ 3·2³` and the actual error `3/8 ≤ (1 + 24)·6·2³/2` -/
example : lebesgue (fun i => (i : Rat)) 5 2 (1/2) = 5/4
    ∧ |interpolant (fun i => (i : Rat)) (fun j => (j : Rat) ^ 3) 5 2 (1/2) - (1/2) ^ 3| = 3/8 := by
  decide +kernel

/-! ## Non-vacuity: a concrete grid -/

example : basis (fun i => (i : Rat)) 5 2 1 (1/2) = 3/4
    ∧ basis (fun i => (i : Rat)) 5 2 1 1 = 1 ∧ basis (fun i => (i : Rat)) 5 2 1 2 = 0
    ∧ basis (fun i => (i : Rat)) 5 3 4 (7/2) = 5/16
    ∧ interpolant (fun i => (i : Rat)) (fun j => (j : Rat) ^ 2) 5 2 (5/2) = (5/2) ^ 2 := by
  decide +kernel

end Yadism.C19
