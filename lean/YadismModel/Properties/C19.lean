/-
C19: predictions are stable under refinement / change of the interpolation grid, and a requested
`x` on a grid node is not special.

The interpolation basis is modelled in `Model/Interp.lean` (block layout, areas and `evaluate_x` of
`eko.interpolation` as yadism instantiates it) and tied to eko by the `interp_basis`
correspondence.  All statements hold over every linearly ordered field, so both for linear grids
(`t = x`) and logarithmic ones (`t = log x`, `log_grid_reproduces`).

* `reproduces_polynomials`: inside the grid the interpolant of a polynomial of degree ≤ the
  interpolation degree *is* that polynomial — for every grid, size, spacing and degree;
* `prediction_grid_independent`: hence every prediction, being a linear functional of the
  interpolant supported inside both grids, is *the same* on two different grids/degrees for such
  PDFs (exactly; on the real code up to quadrature accuracy) — this is the agreement of two
  adequate grids with interpolation error zero, and the interpolation error of a smooth PDF is the
  distance to that span;
* `node_values`, `continuous_at_nodes`: `p_j(x_k) = δ_jk`, and the polynomial pieces below and
  above a node agree there, so a requested `x` on a node gives the limit of displaced `x`;
* `partition_of_unity`, `support`.
-/
import YadismModel.Lemmas.Interp
import Mathlib.Analysis.SpecialFunctions.Log.Basic
import Mathlib.Algebra.Module.LinearMap.Defs

namespace Yadism.C19

open Yadism.Interp Polynomial

variable {K : Type} [Field K] [LinearOrder K] [IsStrictOrderedRing K]

/-- `p_j(x_k) = δ_jk` for every grid, degree and node -/
theorem node_values (xs : Nat → K) (hxs : StrictMono xs) (n d : Nat) (hd : 1 ≤ d) (hn : d + 1 ≤ n)
    (j k : Nat) (hj : j < n) (hk : k < n) :
    basis xs n d j (xs k) = if j = k then 1 else 0 :=
  basis_at_node xs hxs n d hd hn j k hj hk

/-- the interpolant of a polynomial of degree ≤ `d` is the polynomial, everywhere in the grid -/
theorem reproduces_polynomials (xs : Nat → K) (hxs : StrictMono xs) (n d : Nat) (hd : 1 ≤ d) (hn : d + 1 ≤ n)
    (q : K[X]) (hq : q.natDegree ≤ d) (t : K) (ht0 : xs 0 ≤ t) (ht1 : t ≤ xs (n - 1)) :
    interpolant xs (fun j => q.eval (xs j)) n d t = q.eval t :=
  interpolant_reproduces xs hxs n d hd hn q hq t ht0 ht1

theorem partition_of_unity (xs : Nat → K) (hxs : StrictMono xs) (n d : Nat) (hd : 1 ≤ d) (hn : d + 1 ≤ n)
    (t : K) (ht0 : xs 0 ≤ t) (ht1 : t ≤ xs (n - 1)) :
    sumUpTo (fun j => basis xs n d j t) n = 1 :=
  Yadism.Interp.partition_of_unity xs hxs n d hd hn t ht0 ht1

/-- two grids (any sizes, spacings, degrees): for a PDF that is a polynomial of degree at most
both interpolation degrees the two interpolants coincide wherever both grids reach -/
theorem interpolants_agree (xs ys : Nat → K) (hxs : StrictMono xs) (hys : StrictMono ys)
    (n d m e : Nat) (hd : 1 ≤ d) (hn : d + 1 ≤ n) (he : 1 ≤ e) (hm : e + 1 ≤ m)
    (q : K[X]) (hqd : q.natDegree ≤ d) (hqe : q.natDegree ≤ e) (t : K)
    (hx0 : xs 0 ≤ t) (hx1 : t ≤ xs (n - 1)) (hy0 : ys 0 ≤ t) (hy1 : t ≤ ys (m - 1)) :
    interpolant xs (fun j => q.eval (xs j)) n d t = interpolant ys (fun j => q.eval (ys j)) m e t := by
  rw [reproduces_polynomials xs hxs n d hd hn q hqd t hx0 hx1,
    reproduces_polynomials ys hys m e he hm q hqe t hy0 hy1]

/-- A prediction is `Σ_j f(x_j) · Φ(p_j)` with `Φ` linear (convolution with the coefficient
functions, target-mass integrals, …; the operator entries are `Φ(p_j)`).  If `Φ` only looks at
its argument inside `[a, b]` and the grid covers `[a, b]`, the prediction for a polynomial PDF is
`Φ(q)`: it does not depend on the grid at all. -/
theorem prediction_is_functional_of_pdf (xs : Nat → K) (hxs : StrictMono xs) (n d : Nat) (hd : 1 ≤ d)
    (hn : d + 1 ≤ n) (q : K[X]) (hq : q.natDegree ≤ d) (a b : K) (ha : xs 0 ≤ a) (hb : b ≤ xs (n - 1))
    (Φ : (K → K) →ₗ[K] K) (hΦ : ∀ g h : K → K, (∀ t, a ≤ t → t ≤ b → g t = h t) → Φ g = Φ h) :
    (∑ j ∈ Finset.range n, q.eval (xs j) * Φ (fun t => basis xs n d j t)) = Φ (fun t => q.eval t) := by
  have h1 : (∑ j ∈ Finset.range n, q.eval (xs j) * Φ (fun t => basis xs n d j t))
      = Φ (fun t => interpolant xs (fun j => q.eval (xs j)) n d t) := by
    have : (fun t => interpolant xs (fun j => q.eval (xs j)) n d t)
        = ∑ j ∈ Finset.range n, q.eval (xs j) • (fun t => basis xs n d j t) := by
      funext t
      simp [interpolant, sumUpTo_eq, Finset.sum_apply]
    rw [this, map_sum]
    simp [map_smul]
  rw [h1]
  apply hΦ
  intro t hta htb
  exact reproduces_polynomials xs hxs n d hd hn q hq t (le_trans ha hta) (le_trans htb hb)

/-- **agreement of two grids** -/
theorem prediction_grid_independent (xs ys : Nat → K) (hxs : StrictMono xs) (hys : StrictMono ys)
    (n d m e : Nat) (hd : 1 ≤ d) (hn : d + 1 ≤ n) (he : 1 ≤ e) (hm : e + 1 ≤ m)
    (q : K[X]) (hqd : q.natDegree ≤ d) (hqe : q.natDegree ≤ e) (a b : K)
    (hxa : xs 0 ≤ a) (hxb : b ≤ xs (n - 1)) (hya : ys 0 ≤ a) (hyb : b ≤ ys (m - 1))
    (Φ : (K → K) →ₗ[K] K) (hΦ : ∀ g h : K → K, (∀ t, a ≤ t → t ≤ b → g t = h t) → Φ g = Φ h) :
    (∑ j ∈ Finset.range n, q.eval (xs j) * Φ (fun t => basis xs n d j t))
      = ∑ j ∈ Finset.range m, q.eval (ys j) * Φ (fun t => basis ys m e j t) := by
  rw [prediction_is_functional_of_pdf xs hxs n d hd hn q hqd a b hxa hxb Φ hΦ,
    prediction_is_functional_of_pdf ys hys m e he hm q hqe a b hya hyb Φ hΦ]

/-- the interpolant takes the node values … -/
theorem interpolant_at_node (xs : Nat → K) (hxs : StrictMono xs) (n d : Nat) (hd : 1 ≤ d) (hn : d + 1 ≤ n)
    (f : Nat → K) (k : Nat) (hk : k < n) : interpolant xs f n d (xs k) = f k :=
  Yadism.Interp.interpolant_at_node xs hxs n d hd hn f k hk

/-- … and the polynomial piece used immediately *above* an interior node takes the same value
there: no jump at a node (each piece is a polynomial, hence continuous) -/
theorem continuous_at_nodes (xs : Nat → K) (hxs : StrictMono xs) (n d : Nat) (hd : 1 ≤ d) (hn : d + 1 ≤ n)
    (f : Nat → K) (k : Nat) (hk : k + 1 < n) :
    (∑ j ∈ Finset.range n,
        f j * (if inBlock n d k j = true then lagrange xs (kminOf n d k) d j (xs k) else 0))
      = interpolant xs f n d (xs k) := by
  rw [interpolant_at_node xs hxs n d hd hn f k (by omega)]
  exact piece_above_node xs hxs n d hd hn f k hk

/-- just above the node the code does use that piece -/
theorem piece_used_above_node (xs : Nat → K) (hxs : StrictMono xs) (n d : Nat) (hd : 1 ≤ d) (hn : d + 1 ≤ n)
    (k j : Nat) (hk : k + 1 < n) (t : K) (h1 : xs k < t) (h2 : t ≤ xs (k + 1)) :
    basis xs n d j t = if inBlock n d k j = true then lagrange xs (kminOf n d k) d j t else 0 :=
  basis_on_interval xs hxs n d hd hn k j hk t h1 h2

/-- `is_below_x(t)` ⇒ the basis function vanishes at every `u > t` -/
theorem support (xs : Nat → K) (hxs : StrictMono xs) (n d : Nat) (hd : 1 ≤ d) (hn : d + 1 ≤ n)
    (j : Nat) (t u : K) (hb : isBelowX xs n d j t = true) (hu : t < u) : basis xs n d j u = 0 :=
  basis_zero_above xs hxs n d hd hn j t u hb hu

/-- logarithmic grids: nodes `log x_i`, evaluation at `log x` -/
theorem log_grid_reproduces (x : Nat → ℝ) (hpos : ∀ i, 0 < x i) (hx : StrictMono x) (n d : Nat)
    (hd : 1 ≤ d) (hn : d + 1 ≤ n) (q : ℝ[X]) (hq : q.natDegree ≤ d) (z : ℝ)
    (h0 : x 0 ≤ z) (h1 : z ≤ x (n - 1)) :
    interpolant (fun i => Real.log (x i)) (fun j => q.eval (Real.log (x j))) n d (Real.log z)
      = q.eval (Real.log z) := by
  have hmono : StrictMono fun i => Real.log (x i) := by
    intro a b hab
    exact Real.log_lt_log (hpos a) (hx hab)
  have hz : 0 < z := lt_of_lt_of_le (hpos 0) h0
  exact reproduces_polynomials (fun i => Real.log (x i)) hmono n d hd hn q hq (Real.log z)
    (Real.log_le_log (hpos 0) h0) (Real.log_le_log hz h1)

/-! ## Non-vacuity: a concrete grid -/

example : basis (fun i => (i : Rat)) 5 2 1 (1/2) = 3/4
    ∧ basis (fun i => (i : Rat)) 5 2 1 1 = 1 ∧ basis (fun i => (i : Rat)) 5 2 1 2 = 0
    ∧ basis (fun i => (i : Rat)) 5 3 4 (7/2) = 5/16
    ∧ interpolant (fun i => (i : Rat)) (fun j => (j : Rat) ^ 2) 5 2 (5/2) = (5/2) ^ 2 := by
  decide +kernel

end Yadism.C19
