/-
C10: target-mass-corrected results equal the published formulas.

The prefactors and the symbols every formula is linear in are *generated* from
`yadism/esf/tmc.py` (`Generated/TMC.lean`); the four integration kernels are the generated
`KExpr` terms of `h2_ker, g2_ker, h3_ker, k2_ker`.  For an arbitrary family `F kind : ℝ → ℝ` of
uncorrected structure functions (in yadism's normalisation `F2, FL, xF3, 2x g1`) the value of a
formula is `Σ coef · value(symbol)` with
  value(shift k)      = F k ξ
  value(conv k ker)   = ∫_ξ¹ du/u · ker(ξ/u; ξ) · F k u        (what `_convolve_FX` discretises).

Theorems: each of the twelve (kind, mode) formulas equals the published one (Schienbein et al.
0709.1775 eqs 21-23 and 29-31 / Goharipour 2004.01071; Blümlein–Tkabladze, Accardi–Melnitchouk
D.26 for g1); `F_L = r²F_2 − 2xF_1`; the approximate FL and g1 formulas are the exact ones with the
integrand frozen at `ξ`; at `M = 0` every formula is the identity and all coefficients are
continuous there; a shifted point below the grid is rejected on every path; skipping basis
functions below `ξ` is sound; the discrete sum is the integral of the interpolant.
-/
import YadismModel.Lemmas.KExprCont
import YadismModel.Generated.TMC
import Mathlib.MeasureTheory.Integral.IntervalIntegral.Basic
import Mathlib.MeasureTheory.Integral.IntervalIntegral.FundThmCalculus
import Mathlib.Analysis.SpecialFunctions.Integrals.Basic
import Mathlib.Analysis.SpecialFunctions.Log.Deriv

namespace Yadism.C10

open Yadism

/-- the environment of a prefactor -/
def tenv (x Q2 M2 mu rho xi : ℝ) : REnv where
  z := 0
  args := fun _ => 0
  consts := fun _ => 0
  params := fun n => if n = "x" then x else if n = "Q2" then Q2 else if n = "M2" then M2
    else if n = "mu" then mu else if n = "rho" then rho else if n = "xi" then xi else 0
  ext1 := fun _ _ => 0
  ext3 := fun _ _ _ _ => 0

/-- the environment of an integration kernel: `RSL(ker, args=[xi])` evaluated at `z` -/
def kenv (z xi : ℝ) : REnv where
  z := z
  args := fun _ => xi
  consts := fun _ => 0
  params := fun _ => 0
  ext1 := fun _ _ => 0
  ext3 := fun _ _ _ _ => 0

def lookup (kind mode : String) : List (TSym × KExpr) :=
  match Yadism.Gen.tmcTable.find? (fun e => e.1 == kind && e.2.1 == mode) with
  | some e => e.2.2
  | none => []

/-- continuum meaning of a symbol -/
noncomputable def symValue (F : String → ℝ → ℝ) (ξ : ℝ) : TSym → ℝ
  | .shift k => F k ξ
  | .conv k _ ker => ∫ u in ξ..1, (1 / u) * ker.evalR (kenv (ξ / u) ξ) * F k u

noncomputable def tmcValue (entries : List (TSym × KExpr)) (env : REnv) (F : String → ℝ → ℝ) (ξ : ℝ) : ℝ :=
  (entries.map fun e => e.2.evalR env * symValue F ξ e.1).sum

/-! ## The shifted kinematics -/

/-- `mu = M²/Q²`, `rho = √(1 + 4x²μ)`, `xi = 2x/(1+ρ)` (Nachtmann variable) -/
theorem nachtmann (x Q2 M2 mu rho xi : ℝ) :
    Yadism.Gen.tmc_mu.evalR (tenv x Q2 M2 mu rho xi) = M2 / Q2
    ∧ Yadism.Gen.tmc_rho.evalR (tenv x Q2 M2 mu rho xi) = Real.sqrt (1 + 4 * x ^ 2 * mu)
    ∧ Yadism.Gen.tmc_xi.evalR (tenv x Q2 M2 mu rho xi) = 2 * x / (1 + rho) := by
  simp [Yadism.Gen.tmc_mu, Yadism.Gen.tmc_rho, Yadism.Gen.tmc_xi, KExpr.evalR, tenv]

/-- the card values 1, 2, 3 select APFEL, approximate, exact -/
theorem modes : Yadism.Gen.tmcModes = [(1, "APFEL"), (2, "approx"), (3, "exact")] := by decide

/-! ## The integration kernels: `du/u · ker(ξ/u)` is the published integrand -/

theorem h2_kernel (u ξ : ℝ) (hu : u ≠ 0) (hξ : ξ ≠ 0) :
    (1 / u) * Yadism.Gen.k_esf_tmc__h2_ker.evalR (kenv (ξ / u) ξ) = 1 / u ^ 2 := by
  simp [Yadism.Gen.k_esf_tmc__h2_ker, KExpr.evalR, kenv]
  field_simp

theorem g2_kernel (u ξ : ℝ) (hu : u ≠ 0) :
    (1 / u) * Yadism.Gen.k_esf_tmc__g2_ker.evalR (kenv (ξ / u) ξ) = (u - ξ) / u ^ 2 := by
  simp [Yadism.Gen.k_esf_tmc__g2_ker, KExpr.evalR, kenv]
  field_simp

/-- for `xF3`: `∫ du/u² (uF3(u)) = ∫ du F3(u)/u`, the published `h3` -/
theorem h3_kernel (u ξ : ℝ) (hu : u ≠ 0) (hξ : ξ ≠ 0) :
    (1 / u) * Yadism.Gen.k_esf_tmc__h3_ker.evalR (kenv (ξ / u) ξ) = 1 / u ^ 2 := by
  simp [Yadism.Gen.k_esf_tmc__h3_ker, KExpr.evalR, kenv]
  field_simp

theorem k2_kernel (u ξ : ℝ) (hu : u ≠ 0) (hξ : ξ ≠ 0) :
    (1 / u) * Yadism.Gen.k_esf_tmc__k2_ker.evalR (kenv (ξ / u) ξ) = Real.log (u / ξ) / u ^ 2 := by
  simp only [Yadism.Gen.k_esf_tmc__k2_ker, KExpr.evalR, kenv]
  have : (1 : ℝ) / (ξ / u) = u / ξ := by field_simp
  simp only [Rat.cast_one, this]
  field_simp

theorem symValue_shift (F : String → ℝ → ℝ) (ξ : ℝ) (k : String) : symValue F ξ (.shift k) = F k ξ := rfl

section integrals
variable (F : String → ℝ → ℝ) (ξ : ℝ) (hξ : 0 < ξ) (hξ1 : ξ ≤ 1)
include hξ hξ1

theorem symValue_h2 (k n : String) :
    symValue F ξ (.conv k n Yadism.Gen.k_esf_tmc__h2_ker) = ∫ u in ξ..1, F k u / u ^ 2 := by
  unfold symValue
  apply intervalIntegral.integral_congr
  intro u hu
  rw [Set.uIcc_of_le hξ1] at hu
  have hu0 : u ≠ 0 := by have := hu.1; linarith
  simp only [h2_kernel u ξ hu0 hξ.ne']
  ring

theorem symValue_g2 (k n : String) :
    symValue F ξ (.conv k n Yadism.Gen.k_esf_tmc__g2_ker) = ∫ u in ξ..1, (u - ξ) * F k u / u ^ 2 := by
  unfold symValue
  apply intervalIntegral.integral_congr
  intro u hu
  rw [Set.uIcc_of_le hξ1] at hu
  have hu0 : u ≠ 0 := by have := hu.1; linarith
  simp only [g2_kernel u ξ hu0]
  ring

theorem symValue_h3 (k n : String) :
    symValue F ξ (.conv k n Yadism.Gen.k_esf_tmc__h3_ker) = ∫ u in ξ..1, F k u / u ^ 2 := by
  unfold symValue
  apply intervalIntegral.integral_congr
  intro u hu
  rw [Set.uIcc_of_le hξ1] at hu
  have hu0 : u ≠ 0 := by have := hu.1; linarith
  simp only [h3_kernel u ξ hu0 hξ.ne']
  ring

theorem symValue_k2 (k n : String) :
    symValue F ξ (.conv k n Yadism.Gen.k_esf_tmc__k2_ker) = ∫ u in ξ..1, Real.log (u / ξ) * F k u / u ^ 2 := by
  unfold symValue
  apply intervalIntegral.integral_congr
  intro u hu
  rw [Set.uIcc_of_le hξ1] at hu
  have hu0 : u ≠ 0 := by have := hu.1; linarith
  simp only [k2_kernel u ξ hu0 hξ.ne']
  ring

/-! ## The twelve formulas (yadism normalisation) -/

variable (x Q2 M2 μ r : ℝ)

/-- Schienbein et al. eq. (22) -/
theorem F2_exact :
    tmcValue (lookup "F2" "exact") (tenv x Q2 M2 μ r ξ) F ξ
      = x ^ 2 / (ξ ^ 2 * r ^ 3) * F "F2" ξ
        + 6 * μ * x ^ 3 / r ^ 4 * (∫ u in ξ..1, F "F2" u / u ^ 2)
        + 12 * μ ^ 2 * x ^ 4 / r ^ 5 * (∫ u in ξ..1, (u - ξ) * F "F2" u / u ^ 2) := by
  simp [tmcValue, lookup, Yadism.Gen.tmcTable, symValue_shift, symValue_h2 F ξ hξ hξ1,
    symValue_g2 F ξ hξ hξ1, KExpr.evalR, tenv]
  ring

/-- APFEL: the exact formula without the nested integral `g2` -/
theorem F2_APFEL :
    tmcValue (lookup "F2" "APFEL") (tenv x Q2 M2 μ r ξ) F ξ
      = x ^ 2 / (ξ ^ 2 * r ^ 3) * F "F2" ξ
        + 6 * μ * x ^ 3 / r ^ 4 * (∫ u in ξ..1, F "F2" u / u ^ 2) := by
  simp [tmcValue, lookup, Yadism.Gen.tmcTable, symValue_shift, symValue_h2 F ξ hξ hξ1, KExpr.evalR, tenv]
  ring

omit hξ hξ1 in
/-- Schienbein et al. eq. (30) / Goharipour eq. (4) -/
theorem F2_approx :
    tmcValue (lookup "F2" "approx") (tenv x Q2 M2 μ r ξ) F ξ
      = x ^ 2 / (ξ ^ 2 * r ^ 3) * F "F2" ξ * (1 + 6 * μ * x * ξ / r * (1 - ξ) ^ 2) := by
  simp [tmcValue, lookup, Yadism.Gen.tmcTable, symValue_shift, KExpr.evalR, tenv]
  ring

/-- `F_L^TMC = r² F_2^TMC − 2x F_1^TMC` with Schienbein et al. eqs (21), (22) -/
theorem FL_exact :
    tmcValue (lookup "FL" "exact") (tenv x Q2 M2 μ r ξ) F ξ
      = x ^ 2 / (ξ ^ 2 * r) * F "FL" ξ
        + 4 * μ * x ^ 3 / r ^ 2 * (∫ u in ξ..1, F "F2" u / u ^ 2)
        + 8 * μ ^ 2 * x ^ 4 / r ^ 3 * (∫ u in ξ..1, (u - ξ) * F "F2" u / u ^ 2) := by
  simp [tmcValue, lookup, Yadism.Gen.tmcTable, symValue_shift, symValue_h2 F ξ hξ hξ1,
    symValue_g2 F ξ hξ hξ1, KExpr.evalR, tenv]
  ring

theorem FL_APFEL :
    tmcValue (lookup "FL" "APFEL") (tenv x Q2 M2 μ r ξ) F ξ
      = x ^ 2 / (ξ ^ 2 * r) * F "FL" ξ
        + 4 * μ * x ^ 3 / r ^ 2 * (∫ u in ξ..1, F "F2" u / u ^ 2) := by
  simp [tmcValue, lookup, Yadism.Gen.tmcTable, symValue_shift, symValue_h2 F ξ hξ hξ1, KExpr.evalR, tenv]
  ring

omit hξ1 in
/-- the exact formula with `F_2(u)` frozen at `u = ξ`:
`∫_ξ¹ du/u² = (1−ξ)/ξ`, `∫_ξ¹ (u−ξ)/u² du = −log ξ − 1 + ξ` (`int_inv_sq`, `int_g2_const`) -/
theorem FL_approx :
    tmcValue (lookup "FL" "approx") (tenv x Q2 M2 μ r ξ) F ξ
      = x ^ 2 / (ξ ^ 2 * r) * F "FL" ξ
        + 4 * μ * x ^ 3 / r ^ 2 * (F "F2" ξ * ((1 - ξ) / ξ))
        + 8 * μ ^ 2 * x ^ 4 / r ^ 3 * (F "F2" ξ * (-Real.log ξ - 1 + ξ)) := by
  simp [tmcValue, lookup, Yadism.Gen.tmcTable, symValue_shift, KExpr.evalR, tenv]
  have := hξ.ne'
  field_simp
  ring

/-- Schienbein et al. eq. (23), for `xF_3`: `x·[x/(ξr²)F_3(ξ) + 2μx²/r³ ∫F_3(u)/u du]` with
`F "F3" u = u F_3(u)` -/
theorem F3_exact :
    tmcValue (lookup "F3" "exact") (tenv x Q2 M2 μ r ξ) F ξ
      = x ^ 2 / (ξ ^ 2 * r ^ 2) * F "F3" ξ
        + 2 * μ * x ^ 3 / r ^ 3 * (∫ u in ξ..1, F "F3" u / u ^ 2) := by
  simp [tmcValue, lookup, Yadism.Gen.tmcTable, symValue_shift, symValue_h3 F ξ hξ hξ1, KExpr.evalR, tenv]
  ring

omit hξ hξ1 in
/-- there is no `g3`: APFEL = exact -/
theorem F3_APFEL :
    tmcValue (lookup "F3" "APFEL") (tenv x Q2 M2 μ r ξ) F ξ
      = tmcValue (lookup "F3" "exact") (tenv x Q2 M2 μ r ξ) F ξ := by
  simp [tmcValue, lookup, Yadism.Gen.tmcTable, KExpr.evalR, tenv]

omit hξ hξ1 in
/-- Schienbein et al. eq. (31) -/
theorem F3_approx :
    tmcValue (lookup "F3" "approx") (tenv x Q2 M2 μ r ξ) F ξ
      = x ^ 2 / (ξ ^ 2 * r ^ 2) * F "F3" ξ * (1 - μ * x * ξ / r * (1 - ξ) * Real.log ξ) := by
  simp [tmcValue, lookup, Yadism.Gen.tmcTable, symValue_shift, KExpr.evalR, tenv]
  ring

/-- Blümlein–Tkabladze / Accardi–Melnitchouk (D.26), for `2x g_1` (see `g1_exact_physical`) -/
theorem g1_exact :
    tmcValue (lookup "g1" "exact") (tenv x Q2 M2 μ r ξ) F ξ
      = 2 * x * (x / (ξ * r ^ 3) * (F "g1" ξ / (2 * ξ))
        + 4 * μ * x ^ 2 / r ^ 4 * ((x + ξ) / ξ * (∫ u in ξ..1, F "g1" u / u ^ 2) / 2
            + (r ^ 2 - 3) / (2 * r) * (∫ u in ξ..1, Real.log (u / ξ) * F "g1" u / u ^ 2) / 2)) := by
  simp [tmcValue, lookup, Yadism.Gen.tmcTable, symValue_shift, symValue_h2 F ξ hξ hξ1,
    symValue_k2 F ξ hξ hξ1, KExpr.evalR, tenv]
  ring

/-- APFEL: the exact formula without the nested (logarithmic) integral -/
theorem g1_APFEL :
    tmcValue (lookup "g1" "APFEL") (tenv x Q2 M2 μ r ξ) F ξ
      = 2 * x * (x / (ξ * r ^ 3) * (F "g1" ξ / (2 * ξ))
        + 4 * μ * x ^ 2 / r ^ 4 * ((x + ξ) / ξ * (∫ u in ξ..1, F "g1" u / u ^ 2) / 2)) := by
  simp [tmcValue, lookup, Yadism.Gen.tmcTable, symValue_shift, symValue_h2 F ξ hξ hξ1, KExpr.evalR, tenv]
  ring

omit hξ hξ1 in
/-- the exact formula with `2u g_1(u)` frozen at `u = ξ`:
`∫_ξ¹ du/u² = (1−ξ)/ξ`, `∫_ξ¹ log(u/ξ)/u² du = 1/ξ − 1 + log ξ` (`int_inv_sq`, `int_k2_const`) -/
theorem g1_approx :
    tmcValue (lookup "g1" "approx") (tenv x Q2 M2 μ r ξ) F ξ
      = 2 * x * (x / (ξ * r ^ 3) * (F "g1" ξ / (2 * ξ))
        + 4 * μ * x ^ 2 / r ^ 4 * ((x + ξ) / ξ * (F "g1" ξ * ((1 - ξ) / ξ)) / 2
            + (r ^ 2 - 3) / (2 * r) * (F "g1" ξ * (1 / ξ - 1 + Real.log ξ)) / 2)) := by
  simp [tmcValue, lookup, Yadism.Gen.tmcTable, symValue_shift, KExpr.evalR, tenv]
  ring

end integrals

/-! ## Physical normalisation -/

/-- with `F "F3" u = u·F₃(u)` the result is `x` times Schienbein et al. eq. (23) verbatim -/
theorem F3_exact_physical (F : String → ℝ → ℝ) (F3 : ℝ → ℝ) (hF : ∀ u, F "F3" u = u * F3 u)
    (x Q2 M2 μ r ξ : ℝ) (hξ : 0 < ξ) (hξ1 : ξ ≤ 1) :
    tmcValue (lookup "F3" "exact") (tenv x Q2 M2 μ r ξ) F ξ
      = x * (x / (ξ * r ^ 2) * F3 ξ + 2 * μ * x ^ 2 / r ^ 3 * (∫ u in ξ..1, F3 u / u)) := by
  rw [F3_exact F ξ hξ hξ1]
  have : (∫ u in ξ..1, F "F3" u / u ^ 2) = ∫ u in ξ..1, F3 u / u := by
    apply intervalIntegral.integral_congr
    intro u hu
    rw [Set.uIcc_of_le hξ1] at hu
    have hu0 : u ≠ 0 := by have := hu.1; linarith
    simp only [hF]
    field_simp
  rw [this, hF]
  have := hξ.ne'
  field_simp

/-- with `F "g1" u = 2u·g₁(u)` the result is `2x` times the published `g₁^{TMC}(x)` -/
theorem g1_exact_physical (F : String → ℝ → ℝ) (g1 : ℝ → ℝ) (hF : ∀ u, F "g1" u = 2 * u * g1 u)
    (x Q2 M2 μ r ξ : ℝ) (hξ : 0 < ξ) (hξ1 : ξ ≤ 1) :
    tmcValue (lookup "g1" "exact") (tenv x Q2 M2 μ r ξ) F ξ
      = 2 * x * (x / (ξ * r ^ 3) * g1 ξ
        + 4 * μ * x ^ 2 / r ^ 4 * ((x + ξ) / ξ * (∫ u in ξ..1, g1 u / u)
            + (r ^ 2 - 3) / (2 * r) * (∫ u in ξ..1, Real.log (u / ξ) * g1 u / u))) := by
  rw [g1_exact F ξ hξ hξ1]
  have h1 : (∫ u in ξ..1, F "g1" u / u ^ 2) = 2 * ∫ u in ξ..1, g1 u / u := by
    rw [← intervalIntegral.integral_const_mul]
    apply intervalIntegral.integral_congr
    intro u hu
    rw [Set.uIcc_of_le hξ1] at hu
    have hu0 : u ≠ 0 := by have := hu.1; linarith
    simp only [hF]
    field_simp
  have h2 : (∫ u in ξ..1, Real.log (u / ξ) * F "g1" u / u ^ 2) = 2 * ∫ u in ξ..1, Real.log (u / ξ) * g1 u / u := by
    rw [← intervalIntegral.integral_const_mul]
    apply intervalIntegral.integral_congr
    intro u hu
    rw [Set.uIcc_of_le hξ1] at hu
    have hu0 : u ≠ 0 := by have := hu.1; linarith
    simp only [hF]
    field_simp
  rw [h1, h2, hF]
  have := hξ.ne'
  field_simp

/-- the documented definition `F_L^{TMC} = r² F_2^{TMC} − 2x F_1^{TMC}` (docs/theory/misc.rst,
Schienbein et al. eq. 26) with their `F_1^{TMC}` (eq. 21) and massless `F_L = F_2 − 2xF_1` -/
theorem FL_is_r2F2_minus_2xF1 (F : String → ℝ → ℝ) (F1 : ℝ → ℝ)
    (hFL : F "FL" = fun u => F "F2" u - 2 * u * F1 u)
    (x Q2 M2 μ r ξ : ℝ) (hξ : 0 < ξ) (hξ1 : ξ ≤ 1) (hr : 0 < r) :
    tmcValue (lookup "FL" "exact") (tenv x Q2 M2 μ r ξ) F ξ
      = r ^ 2 * tmcValue (lookup "F2" "exact") (tenv x Q2 M2 μ r ξ) F ξ
        - 2 * x * (x / (ξ * r) * F1 ξ
            + μ * x ^ 2 / r ^ 2 * (∫ u in ξ..1, F "F2" u / u ^ 2)
            + 2 * μ ^ 2 * x ^ 3 / r ^ 3 * (∫ u in ξ..1, (u - ξ) * F "F2" u / u ^ 2)) := by
  rw [FL_exact F ξ hξ hξ1, F2_exact F ξ hξ hξ1, hFL]
  have := hξ.ne'
  have := hr.ne'
  field_simp
  ring

/-! ## Closed forms behind the approximate formulas -/

theorem pos_of_mem {ξ u : ℝ} (hξ : 0 < ξ) (hξ1 : ξ ≤ 1) (hu : u ∈ Set.uIcc ξ 1) : 0 < u := by
  rw [Set.uIcc_of_le hξ1] at hu
  have := hu.1; linarith

theorem int_inv_sq (ξ : ℝ) (hξ : 0 < ξ) (hξ1 : ξ ≤ 1) : (∫ u in ξ..1, 1 / u ^ 2) = (1 - ξ) / ξ := by
  have hd : ∀ u ∈ Set.uIcc ξ 1, HasDerivAt (fun u : ℝ => -(u⁻¹)) (1 / u ^ 2) u := by
    intro u hu
    have hu0 : u ≠ 0 := (pos_of_mem hξ hξ1 hu).ne'
    have h : HasDerivAt (fun v : ℝ => -(v⁻¹)) (-(-(u ^ 2)⁻¹)) u := (hasDerivAt_inv hu0).neg
    convert h using 1
    simp
  have hc : ContinuousOn (fun u : ℝ => 1 / u ^ 2) (Set.uIcc ξ 1) := by
    apply ContinuousOn.div continuousOn_const (continuousOn_id.pow 2)
    intro u hu
    exact pow_ne_zero 2 (pos_of_mem hξ hξ1 hu).ne'
  rw [intervalIntegral.integral_eq_sub_of_hasDerivAt hd (hc.intervalIntegrable)]
  have := hξ.ne'
  field_simp
  ring

theorem int_g2_const (ξ : ℝ) (hξ : 0 < ξ) (hξ1 : ξ ≤ 1) :
    (∫ u in ξ..1, (u - ξ) / u ^ 2) = -Real.log ξ - 1 + ξ := by
  have hd : ∀ u ∈ Set.uIcc ξ 1, HasDerivAt (fun u : ℝ => Real.log u + ξ * u⁻¹) ((u - ξ) / u ^ 2) u := by
    intro u hu
    have hu0 : u ≠ 0 := (pos_of_mem hξ hξ1 hu).ne'
    have h : HasDerivAt (fun v : ℝ => Real.log v + ξ * v⁻¹) (u⁻¹ + ξ * (-(u ^ 2)⁻¹)) u :=
      (Real.hasDerivAt_log hu0).add ((hasDerivAt_inv hu0).const_mul ξ)
    convert h using 1
    field_simp
    ring
  have hc : ContinuousOn (fun u : ℝ => (u - ξ) / u ^ 2) (Set.uIcc ξ 1) := by
    apply ContinuousOn.div (continuousOn_id.sub continuousOn_const) (continuousOn_id.pow 2)
    intro u hu
    exact pow_ne_zero 2 (pos_of_mem hξ hξ1 hu).ne'
  rw [intervalIntegral.integral_eq_sub_of_hasDerivAt hd (hc.intervalIntegrable)]
  have := hξ.ne'
  simp
  field_simp
  ring

theorem int_k2_const (ξ : ℝ) (hξ : 0 < ξ) (hξ1 : ξ ≤ 1) :
    (∫ u in ξ..1, Real.log (u / ξ) / u ^ 2) = 1 / ξ - 1 + Real.log ξ := by
  have hd : ∀ u ∈ Set.uIcc ξ 1,
      HasDerivAt (fun u : ℝ => -(Real.log (u / ξ) * u⁻¹) - u⁻¹) (Real.log (u / ξ) / u ^ 2) u := by
    intro u hu
    have hu0 : u ≠ 0 := (pos_of_mem hξ hξ1 hu).ne'
    have hq : u / ξ ≠ 0 := div_ne_zero hu0 hξ.ne'
    have hl : HasDerivAt (fun u : ℝ => Real.log (u / ξ)) (u⁻¹) u := by
      have h : HasDerivAt (fun v : ℝ => Real.log (v / ξ)) (1 / ξ / (u / ξ)) u :=
        ((hasDerivAt_id u).div_const ξ).log hq
      convert h using 1
      have := hξ.ne'
      field_simp
    have hi : HasDerivAt (fun u : ℝ => u⁻¹) (-(u ^ 2)⁻¹) u := hasDerivAt_inv hu0
    have h : HasDerivAt (fun v : ℝ => -(Real.log (v / ξ) * v⁻¹) - v⁻¹)
        (-(u⁻¹ * u⁻¹ + Real.log (u / ξ) * (-(u ^ 2)⁻¹)) - (-(u ^ 2)⁻¹)) u := ((hl.mul hi).neg).sub hi
    convert h using 1
    field_simp
    ring
  have hc : ContinuousOn (fun u : ℝ => Real.log (u / ξ) / u ^ 2) (Set.uIcc ξ 1) := by
    apply ContinuousOn.div _ (continuousOn_id.pow 2)
    · intro u hu
      exact pow_ne_zero 2 (pos_of_mem hξ hξ1 hu).ne'
    · apply ContinuousOn.log (continuousOn_id.div_const ξ)
      intro u hu
      exact div_ne_zero (pos_of_mem hξ hξ1 hu).ne' hξ.ne'
  rw [intervalIntegral.integral_eq_sub_of_hasDerivAt hd (hc.intervalIntegrable)]
  have := hξ.ne'
  simp [div_self this]
  ring

/-! ## Vanishing and continuity at zero target mass -/

/-- the environment as a function of the squared target mass, everything else fixed -/
noncomputable def envM (x Q2 M2 : ℝ) : REnv :=
  tenv x Q2 M2 (M2 / Q2) (Real.sqrt (1 + 4 * x ^ 2 * (M2 / Q2)))
    (2 * x / (1 + Real.sqrt (1 + 4 * x ^ 2 * (M2 / Q2))))

theorem envM_zero (x Q2 : ℝ) : envM x Q2 0 = tenv x Q2 0 0 1 x := by
  unfold envM
  have : (2 : ℝ) * x / (1 + 1) = x := by ring
  simp [this]

/-- at `M = 0` every formula is the identity: the coefficient of the requested structure
function at the (un)shifted point is 1, every other coefficient is 0 -/
theorem zero_mass (x Q2 : ℝ) (hx : x ≠ 0) :
    ∀ e ∈ Yadism.Gen.tmcTable, ∀ s ∈ e.2.2,
      s.2.evalR (envM x Q2 0) = if s.1.name = "shift:" ++ e.1 then 1 else 0 := by
  rw [envM_zero]
  intro e he s hs
  simp only [Yadism.Gen.tmcTable, List.mem_cons, List.not_mem_nil, or_false] at he
  rcases he with rfl | rfl | rfl | rfl | rfl | rfl | rfl | rfl | rfl | rfl | rfl | rfl <;>
    simp only [List.mem_cons, List.not_mem_nil, or_false] at hs <;>
    rcases hs with rfl | rfl | rfl <;>
    simp [KExpr.evalR, tenv, TSym.name, hx] <;> try field_simp

/-- hence the corrected value at `M = 0` is the uncorrected structure function at `x` -/
theorem zero_mass_value (F : String → ℝ → ℝ) (x Q2 : ℝ) (hx : x ≠ 0) :
    ∀ e ∈ Yadism.Gen.tmcTable, tmcValue e.2.2 (envM x Q2 0) F x = F e.1 x := by
  rw [envM_zero]
  intro e he
  simp only [Yadism.Gen.tmcTable, List.mem_cons, List.not_mem_nil, or_false] at he
  rcases he with rfl | rfl | rfl | rfl | rfl | rfl | rfl | rfl | rfl | rfl | rfl | rfl <;>
    simp [tmcValue, symValue_shift, KExpr.evalR, tenv, hx] <;> try field_simp

theorem envM_params_continuous (x Q2 : ℝ) (n : String) :
    ContinuousAt (fun M2 => (envM x Q2 M2).params n) 0 := by
  have hmu : Continuous fun M2 : ℝ => M2 / Q2 := continuous_id.div_const Q2
  have hrho : Continuous fun M2 : ℝ => Real.sqrt (1 + 4 * x ^ 2 * (M2 / Q2)) :=
    Real.continuous_sqrt.comp (continuous_const.add (continuous_const.mul hmu))
  have hxi : ContinuousAt (fun M2 : ℝ => 2 * x / (1 + Real.sqrt (1 + 4 * x ^ 2 * (M2 / Q2)))) 0 := by
    apply ContinuousAt.div continuousAt_const (continuousAt_const.add hrho.continuousAt)
    simp
  unfold envM tenv
  simp only
  split_ifs
  · exact continuousAt_const
  · exact continuousAt_const
  · exact continuousAt_id
  · exact hmu.continuousAt
  · exact hrho.continuousAt
  · exact hxi
  · exact continuousAt_const

/-- every prefactor is a continuous function of the target mass at `M = 0` (so the correction
vanishes continuously; the continuity of `F` itself is a property of the structure function) -/
theorem coefficients_continuous_at_zero_mass (x Q2 : ℝ) (hx : 0 < x) :
    ∀ e ∈ Yadism.Gen.tmcTable, ∀ s ∈ e.2.2,
      ContinuousAt (fun M2 => s.2.evalR (envM x Q2 M2)) 0 := by
  intro e he s hs
  apply KExpr.evalR_continuousAt (fun M2 => envM x Q2 M2) 0
  · exact continuousAt_const
  · intro i; exact continuousAt_const
  · intro n; exact continuousAt_const
  · intro n; exact envM_params_continuous x Q2 n
  · rw [envM_zero]
    have hx0 := hx.ne'
    simp only [Yadism.Gen.tmcTable, List.mem_cons, List.not_mem_nil, or_false] at he
    rcases he with rfl | rfl | rfl | rfl | rfl | rfl | rfl | rfl | rfl | rfl | rfl | rfl <;>
      simp only [List.mem_cons, List.not_mem_nil, or_false] at hs <;>
      rcases hs with rfl | rfl | rfl <;>
      simp [KExpr.regularAt, KExpr.evalR, tenv, hx0]

/-! ## Rejection of shifted points outside the grid; the loop of `_convolve_FX` -/

/-- every formula requests the structure function at the shifted point … -/
theorem every_formula_has_a_shift :
    (Yadism.Gen.tmcTable.all fun e => e.2.2.any fun s => match s.1 with | .shift _ => true | _ => false) = true := by
  decide

/-- … which the guards of the uncorrected calculation reject below the grid … -/
theorem shift_below_grid_rejected (grid : List Rat) (ξ q2 v : Rat) (h : ∀ g ∈ grid, ξ < g) :
    esfRequest grid ξ q2 v = none := by
  unfold esfRequest
  have : grid.all (fun g => decide (ξ < g)) = true := by
    rw [List.all_eq_true]; intro g hg; simpa using h g hg
  simp only [this, if_true]
  split_ifs <;> rfl

/-- … as does the integration helper … -/
theorem conv_below_grid_rejected (grid : List Rat) (below : Nat → Bool) (w F : Nat → Rat) (ξ : Rat)
    (h : ∀ g ∈ grid, ξ < g) : convolveFX grid below w F ξ = none := by
  unfold convolveFX
  have : grid.all (fun g => decide (ξ < g)) = true := by
    rw [List.all_eq_true]; intro g hg; simpa using h g hg
  simp [this]

/-- … and one rejected request rejects the whole formula -/
theorem assemble_rejects (l : List (Rat × Option Rat)) (h : ∃ p ∈ l, p.2 = none) : assemble l = none := by
  induction l with
  | nil => obtain ⟨p, hp, _⟩ := h; simp at hp
  | cons a l ih =>
    obtain ⟨c, v⟩ := a
    obtain ⟨p, hp, hn⟩ := h
    rcases List.mem_cons.mp hp with rfl | hp'
    · simp only at hn; subst hn; simp [assemble]
    · have := ih ⟨p, hp', hn⟩
      simp only [assemble, this]

/-- inside the grid nothing is rejected -/
theorem conv_inside_grid (grid : List Rat) (below : Nat → Bool) (w F : Nat → Rat) (ξ : Rat)
    (h : ∃ g ∈ grid, g ≤ ξ) : (convolveFX grid below w F ξ).isSome = true := by
  unfold convolveFX
  obtain ⟨g, hg, hle⟩ := h
  have : grid.all (fun g => decide (ξ < g)) = false := by
    rw [List.all_eq_false]
    exact ⟨g, hg, by simpa using hle⟩
  simp [this]

theorem listSumQ_congr (l : List Nat) (f g : Nat → Rat) (h : ∀ j ∈ l, f j = g j) :
    listSumQ (l.map f) = listSumQ (l.map g) := by
  induction l with
  | nil => rfl
  | cons a l ih =>
    simp only [List.map, listSumQ]
    rw [h a (by simp), ih (fun j hj => h j (by simp [hj]))]

/-- skipping the basis functions that lie entirely below `ξ` changes nothing, provided their
weight is zero (which holds because their support is below the integration range) -/
theorem skip_is_sound (grid : List Rat) (below : Nat → Bool) (w F : Nat → Rat) (ξ : Rat)
    (hw : ∀ j, below j = true → w j = 0) :
    convolveFX grid below w F ξ = convolveFX grid (fun _ => false) w F ξ := by
  unfold convolveFX
  split
  · rfl
  · congr 1
    apply listSumQ_congr
    intro j _
    cases hb : below j
    · simp
    · simp [hw j hb]

/-- the weighted sum over grid nodes is the published integral applied to the interpolant
`Σ_j F(x_j) p_j(u)` of the structure function -/
theorem discrete_sum_is_integral_of_interpolant (n : Nat) (K : ℝ → ℝ) (p : Fin n → ℝ → ℝ) (Fx : Fin n → ℝ)
    (ξ : ℝ) (hint : ∀ j, IntervalIntegrable (fun u => K u * p j u) MeasureTheory.volume ξ 1) :
    (∑ j, Fx j * ∫ u in ξ..1, K u * p j u) = ∫ u in ξ..1, K u * ∑ j, Fx j * p j u := by
  have h : ∀ j ∈ (Finset.univ : Finset (Fin n)),
      IntervalIntegrable (fun u => Fx j * (K u * p j u)) MeasureTheory.volume ξ 1 :=
    fun j _ => (hint j).const_mul (Fx j)
  rw [show (fun u => K u * ∑ j, Fx j * p j u) = fun u => ∑ j, Fx j * (K u * p j u) from by
    funext u; rw [Finset.mul_sum]; apply Finset.sum_congr rfl; intro j _; ring]
  rw [intervalIntegral.integral_finsetSum h]
  apply Finset.sum_congr rfl
  intro j _
  rw [intervalIntegral.integral_const_mul]

/-! ## Non-vacuity -/

example : (lookup "F2" "exact").length = 3 ∧ (lookup "g1" "exact").length = 3 ∧ (lookup "FL" "approx").length = 2 := by
  decide

example : convolveFX [1/10, 1/2, 1] (fun j => j == 0) (fun _ => 1) (fun j => j) (3/10) = some 3 := by
  decide +kernel

example : esfRequest [1/10, 1/2, 1] (1/20) 10 7 = none ∧ esfRequest [1/10, 1/2, 1] (1/5) 10 7 = some 7 := by
  decide +kernel

end Yadism.C10
