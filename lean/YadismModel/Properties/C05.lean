/-
C05 — scale-variation terms satisfy the renormalisation-group equations.

`Model/Orders.lean` is generic in the operator type.  Here it is instantiated with an arbitrary
commutative ℚ-algebra `A` — the convolution algebra of x-space distributions, in which the raw
splitting kernels `P_qq^(0)`, … and the coefficient functions live — and the RGE residuals of the
model's terms are shown to vanish identically.  The executable instance (N×N matrices) is tied to
the real `compute_local` by the `compute_local_sv` correspondence.

Conventions (from `ESFResult.apply_pdf`): `t = ln(Q²/μ_F²)` multiplies key component `lnF`,
`r = ln(Q²/μ_R²)` multiplies `lnR`, `a = a_s(μ_R)`; `ℓ = t − r = ln(μ_R²/μ_F²)`.
-/
import YadismModel.Model.Orders
import YadismModel.Generated.Projectors
import YadismModel.Lemmas.MatBridge
import Mathlib.Tactic.Abel
import Mathlib.Tactic.Ring
import Mathlib.Tactic.Linarith
import Mathlib.Tactic.LinearCombination
import Mathlib.Tactic.NormNum
import Mathlib.Algebra.Algebra.Basic
import Mathlib.Algebra.Order.Field.Rat

set_option linter.unusedSectionVars false

namespace Yadism.C05

open Yadism Yadism.MatBridge

section Fact
variable {A : Type} [CommRing A] [Algebra ℚ A]

/-- the operator algebra of the theorems: a commutative ℚ-algebra -/
@[reducible] def algOpAlg : OpAlg A := ⟨(· + ·), (· - ·), fun k a => k • a, 0⟩
attribute [local instance] algOpAlg

/-- hypotheses tying the "convolved" labels to products in the convolution algebra
(what `splitting_functions/nlo/convolutions.py` claims to implement) -/
structure Products (ops : Label → A) : Prop where
  qqsq : ops .Pqq0sq = ops .Pqq0 * ops .Pqq0
  qggq : ops .PqgPgq = ops .Pqg0 * ops .Pgq0
  qqqg : ops .PqqPqg = ops .Pqq0 * ops .Pqg0
  qggg : ops .PqgPgg = ops .Pqg0 * ops .Pgg0

/-- the model's factorisation entries at NNLO, by key -/
def F110 (ops : Label → A) : Sector → A := jointLo ops false
def F210 (ops : Label → A) : Sector → A := fun s => match s with
  | .nsp => ops .Pnsp1 | .nsm => ops .Pnsm1 | .nsv => ops .Pnsm1
  | .qq => ops .Pqq1 | .qg => ops .Pqg1 | .gq | .gg => OpAlg.zero
def F211 (ops : Label → A) (b0 : ℚ) : Sector → A := jointLo (c211 ops 1 b0) true
def F220 (ops : Label → A) (b0 : ℚ) : Sector → A := fun s => match s with
  | .nsp | .nsm | .nsv => c220 ops b0 .Pqq0sq none .Pqq0
  | .qq => c220 ops b0 .Pqq0sq (some .PqgPgq) .Pqq0
  | .qg => c220 ops b0 .PqqPqg (some .PqgPgg) .Pqg0
  | .gq | .gg => OpAlg.zero

/-- the model's `sector_mapping` at order 2 is exactly these four entries, in this order -/
theorem sectorMapping_two (ops : Label → A) (b0 : ℚ) :
    sectorMapping 2 ops 1 b0
      = [((1, 1, 0), F110 ops), ((2, 1, 0), F210 ops), ((2, 1, 1), F211 ops b0), ((2, 2, 0), F220 ops b0)] := by
  rfl

theorem sectorMapping_one (ops : Label → A) (b0 : ℚ) :
    sectorMapping 1 ops 1 b0 = [((1, 1, 0), F110 ops)] := by
  rfl

/-- action of a sector map on a (quark-singlet, gluon) row vector of coefficient functions: what
the projectors `w ↦ w·π_s` implement (`π_(100,21)` moves quark weight onto the gluon PDF, …) -/
def actS (F : Sector → A) (C : A × A) : A × A :=
  (F .qq * C.1 + F .gq * C.2, F .qg * C.1 + F .gg * C.2)

/-- row vector times the 2×2 singlet splitting matrix -/
def mulP (C : A × A) (Pqq Pqg Pgq Pgg : A) : A × A :=
  (C.1 * Pqq + C.2 * Pgq, C.1 * Pqg + C.2 * Pgg)

/-- **Factorisation-scale RGE, singlet.**  With `F = Σ_k a^k Σ_j K_{k,j} t^j`,
`t = ln(Q²/μ²)`, `da/dlnμ² = −β0 a² − …`, `df/dlnμ² = (a 𝒫0 + a² 𝒫1) f`, the μ-derivative of
`F·f` has the coefficients `a¹t⁰: −K11 + C0𝒫0`, `a²t⁰: −K21 + C1𝒫0 + C0𝒫1 − β0 C1`,
`a²t¹: −2K22 + K11𝒫0 − β0 K11`.  For the model's terms all three vanish, for every choice of
splitting kernels, coefficient functions `C1`, LO coefficient `C0` without gluon component and
any `β0` — so the prediction is μ_F-independent up to `O(a³)`. -/
theorem fact_rge_singlet (ops : Label → A) (hp : Products ops) (b0 : ℚ) (C0 C1 : A × A)
    (hC0 : C0.2 = 0) (Pgq1 Pgg1 : A) :
    let K11 := actS (F110 ops) C0
    let K21 := actS (F210 ops) C0 + actS (F211 ops b0) C1
    let K22 := actS (F220 ops b0) C0
    let P0 := fun C => mulP C (ops .Pqq0) (ops .Pqg0) (ops .Pgq0) (ops .Pgg0)
    let P1 := fun C => mulP C (ops .Pqq1) (ops .Pqg1) Pgq1 Pgg1
    K11 = P0 C0 ∧
    K21 = P0 C1 + P1 C0 - (b0 • C1.1, b0 • C1.2) ∧
    ((2 : ℚ) • K22.1, (2 : ℚ) • K22.2) = P0 K11 - (b0 • K11.1, b0 • K11.2) := by
  obtain ⟨q0, g0⟩ := C0
  obtain ⟨q1, g1⟩ := C1
  simp only at hC0
  subst hC0
  simp only [actS, mulP, F110, F210, F211, F220, jointLo, c211, c220, OpAlg.add, OpAlg.sub,
    OpAlg.smul, OpAlg.zero, hp.qqsq, hp.qggq, hp.qqqg, hp.qggg]
  have h2 : (algebraMap ℚ A) 2 * (algebraMap ℚ A) 2⁻¹ = 1 := by
    rw [← map_mul]; norm_num
  refine ⟨?_, ?_, ?_⟩
  · ext <;> simp <;> ring
  · ext <;> simp [Algebra.smul_def] <;> ring
  · ext <;> simp [Algebra.smul_def]
    · linear_combination (ops .Pqq0 * ops .Pqq0 * q0 + ops .Pqg0 * ops .Pgq0 * q0
        - (algebraMap ℚ A) b0 * ops .Pqq0 * q0) * h2
    · linear_combination (ops .Pqq0 * ops .Pqg0 * q0 + ops .Pqg0 * ops .Pgg0 * q0
        - (algebraMap ℚ A) b0 * ops .Pqg0 * q0) * h2

/-- **Factorisation-scale RGE, non-singlet** (`ns+`, `ns−`, valence): same three residuals with
the scalar kernels `P_qq^(0)` and `P_ns^(1),±`. -/
theorem fact_rge_nonsinglet (ops : Label → A) (hp : Products ops) (b0 : ℚ) (c0 c1 : A) (s : Sector)
    (hs : s = .nsp ∨ s = .nsm ∨ s = .nsv) :
    let P1 : A := if s = .nsp then ops .Pnsp1 else ops .Pnsm1
    let K11 := F110 ops s * c0
    let K21 := F210 ops s * c0 + F211 ops b0 s * c1
    let K22 := F220 ops b0 s * c0
    K11 = c0 * ops .Pqq0 ∧
    K21 = c1 * ops .Pqq0 + c0 * P1 - b0 • c1 ∧
    (2 : ℚ) • K22 = K11 * ops .Pqq0 - b0 • K11 := by
  have h2 : (algebraMap ℚ A) 2 * (algebraMap ℚ A) 2⁻¹ = 1 := by
    rw [← map_mul]; norm_num
  rcases hs with rfl | rfl | rfl <;>
    simp only [F110, F210, F211, F220, jointLo, c211, c220, OpAlg.add, OpAlg.sub, OpAlg.smul,
      hp.qqsq] <;>
    refine ⟨by ring, ?_, ?_⟩ <;> simp [Algebra.smul_def] <;>
    first
      | ring1
      | linear_combination (ops .Pqq0 * ops .Pqq0 * c0 - (algebraMap ℚ A) b0 * ops .Pqq0 * c0) * h2

end Fact

/-! ## Flavour ⊗ x space: from the matrix-unit relations to the sector algebra -/

section FlavourSpace
variable {A : Type} [CommRing A] [Algebra ℚ A]
variable {R : Type} [Ring R] [Algebra A R]
attribute [local instance] algOpAlg

/-- the matrix-unit relations `unitRelations` decides for eko's projectors, for abstract elements
of a ring (`e s` = the projector of sector `s`; row-vector convention: `e qg` sends the
quark-singlet component onto the gluon) -/
structure UnitRel (e : Sector → R) : Prop where
  qq_qq : e .qq * e .qq = e .qq
  qq_qg : e .qq * e .qg = e .qg
  qq_gq : e .qq * e .gq = 0
  qq_gg : e .qq * e .gg = 0
  qg_qq : e .qg * e .qq = 0
  qg_qg : e .qg * e .qg = 0
  qg_gq : e .qg * e .gq = e .qq
  qg_gg : e .qg * e .gg = e .qg
  gq_qq : e .gq * e .qq = e .gq
  gq_qg : e .gq * e .qg = e .gg
  gq_gq : e .gq * e .gq = 0
  gq_gg : e .gq * e .gg = 0
  gg_qq : e .gg * e .qq = 0
  gg_qg : e .gg * e .qg = 0
  gg_gq : e .gg * e .gq = e .gq
  gg_gg : e .gg * e .gg = e .gg
  ns_idem : ∀ s, s = .nsp ∨ s = .nsm ∨ s = .nsv → e s * e s = e s
  ns_orth : ∀ s t, (s = .nsp ∨ s = .nsm ∨ s = .nsv) → s ≠ t → e s * e t = 0 ∧ e t * e s = 0

/-- a sector map as one operator on flavour ⊗ x space: `Σ_s F_s ⊗ π_s` -/
def E (e : Sector → R) (F : Sector → A) : R :=
  F .qq • e .qq + F .qg • e .qg + F .gq • e .gq + F .gg • e .gg
    + F .nsp • e .nsp + F .nsm • e .nsm + F .nsv • e .nsv

/-- sector-wise product: 2×2 matrix product in the (quark-singlet, gluon) block, scalar product in
each non-singlet sector -/
def star (F G : Sector → A) : Sector → A
  | .qq => F .qq * G .qq + F .qg * G .gq
  | .qg => F .qq * G .qg + F .qg * G .gg
  | .gq => F .gq * G .qq + F .gg * G .gq
  | .gg => F .gq * G .qg + F .gg * G .gg
  | .nsp => F .nsp * G .nsp
  | .nsm => F .nsm * G .nsm
  | .nsv => F .nsv * G .nsv

theorem E_mul (e : Sector → R) (h : UnitRel e) (F G : Sector → A) :
    E e F * E e G = E e (star F G) := by
  have o := h.ns_orth
  have hp := h.ns_idem .nsp (by simp)
  have hm := h.ns_idem .nsm (by simp)
  have hv := h.ns_idem .nsv (by simp)
  have p_qq := o .nsp .qq (by simp) (by simp)
  have p_qg := o .nsp .qg (by simp) (by simp)
  have p_gq := o .nsp .gq (by simp) (by simp)
  have p_gg := o .nsp .gg (by simp) (by simp)
  have p_m := o .nsp .nsm (by simp) (by simp)
  have p_v := o .nsp .nsv (by simp) (by simp)
  have m_qq := o .nsm .qq (by simp) (by simp)
  have m_qg := o .nsm .qg (by simp) (by simp)
  have m_gq := o .nsm .gq (by simp) (by simp)
  have m_gg := o .nsm .gg (by simp) (by simp)
  have m_v := o .nsm .nsv (by simp) (by simp)
  have v_qq := o .nsv .qq (by simp) (by simp)
  have v_qg := o .nsv .qg (by simp) (by simp)
  have v_gq := o .nsv .gq (by simp) (by simp)
  have v_gg := o .nsv .gg (by simp) (by simp)
  simp only [E, star, mul_add, add_mul, smul_mul_smul_comm,
    h.qq_qq, h.qq_qg, h.qq_gq, h.qq_gg, h.qg_qq, h.qg_qg, h.qg_gq, h.qg_gg,
    h.gq_qq, h.gq_qg, h.gq_gq, h.gq_gg, h.gg_qq, h.gg_qg, h.gg_gq, h.gg_gg, hp, hm, hv,
    p_qq.1, p_qq.2, p_qg.1, p_qg.2, p_gq.1, p_gq.2, p_gg.1, p_gg.2, p_m.1, p_m.2, p_v.1, p_v.2,
    m_qq.1, m_qq.2, m_qg.1, m_qg.2, m_gq.1, m_gq.2, m_gg.1, m_gg.2, m_v.1, m_v.2,
    v_qq.1, v_qq.2, v_qg.1, v_qg.2, v_gq.1, v_gq.2, v_gg.1, v_gg.2, smul_zero, add_zero, zero_add,
    add_smul]
  abel


/-- the unit of the sector algebra; `E e oneS` is the sum of the five diagonal projectors, which
`unitRelations` shows to be the identity on the active flavours -/
def oneS : Sector → A
  | .qq | .gg | .nsp | .nsm | .nsv => 1
  | .qg | .gq => 0

theorem E_add (e : Sector → R) (F G : Sector → A) : E e (fun s => F s + G s) = E e F + E e G := by
  simp only [E, add_smul]; abel

theorem E_sub (e : Sector → R) (F G : Sector → A) : E e (fun s => F s - G s) = E e F - E e G := by
  simp only [E, sub_smul]; abel

theorem E_smul (e : Sector → R) (k : A) (F : Sector → A) : E e (fun s => k * F s) = k • E e F := by
  simp only [E, mul_smul, smul_add]

/-- a flavour ⊗ x element without gluon component sees only the quark rows of a sector map -/
theorem E_congr_no_gluon (e : Sector → R) (X : R) (hq : X * e .gq = 0) (hg : X * e .gg = 0)
    (F G : Sector → A) (hqq : F .qq = G .qq) (hqg : F .qg = G .qg) (hp : F .nsp = G .nsp)
    (hm : F .nsm = G .nsm) (hv : F .nsv = G .nsv) : X * E e F = X * E e G := by
  simp only [E, mul_add, mul_smul_comm, hq, hg, smul_zero, hqq, hqg, hp, hm, hv]

/-- **Factorisation-scale RGE in flavour ⊗ x space.**  `X0`, `X1` are the LO and NLO coefficient
functions as elements of flavour ⊗ x space (`weights ⊗ c`); the code forms
`K = X · Σ_s π_s ⊗ F_s` (`partons @ projectors`, `fmat @ values`).  With the matrix-unit relations
for the projectors, `X0` without gluon component and `X1` supported on the active flavours, the
three RGE residuals of `fact_rge_singlet`/`fact_rge_nonsinglet` vanish *as flavour-space
operators*, with the full DGLAP kernels `𝒫0 = Σ_s π_s ⊗ P_s^(0)`, `𝒫1 = Σ_s π_s ⊗ P_s^(1)`. -/
theorem fact_rge_flavour_space (ops : Label → A) (hp : Products ops) (b0 : ℚ)
    (e : Sector → R) (h : UnitRel e) (X0 X1 : R)
    (hq : X0 * e .gq = 0) (hg : X0 * e .gg = 0) (h1 : X1 * E e (oneS : Sector → A) = X1)
    (Pgq1 Pgg1 : A) :
    let K11 := X0 * E e (F110 ops)
    let K21 := X0 * E e (F210 ops) + X1 * E e (F211 ops b0)
    let K22 := X0 * E e (F220 ops b0)
    let P0 := E e (jointLo ops true)
    let P1 := E e (fun s => match s with | .gq => Pgq1 | .gg => Pgg1 | s => F210 ops s)
    let β : A := algebraMap ℚ A b0
    K11 = X0 * P0 ∧
    K21 = X1 * P0 + X0 * P1 - β • X1 ∧
    (2 : A) • K22 = K11 * P0 - β • K11 := by
  intro K11 K21 K22 P0 P1 β
  have h2 : (algebraMap ℚ A) 2 * (algebraMap ℚ A) 2⁻¹ = 1 := by
    rw [← map_mul]; norm_num
  have h2' : (2 : A) * (algebraMap ℚ A) 2⁻¹ = 1 := by
    rw [show (2 : A) = algebraMap ℚ A 2 from (map_ofNat (algebraMap ℚ A) 2).symm]; exact h2
  refine ⟨?_, ?_, ?_⟩
  · exact E_congr_no_gluon e X0 hq hg _ _ rfl rfl rfl rfl rfl
  · have e1 : X0 * E e (F210 ops) = X0 * P1 :=
      E_congr_no_gluon e X0 hq hg _ _ rfl rfl rfl rfl rfl
    have e2 : F211 ops b0 = fun s => jointLo ops true s - β * oneS s := by
      funext s
      cases s <;> simp [F211, jointLo, c211, oneS, OpAlg.sub, OpAlg.smul, Algebra.smul_def, β]
    have e3 : X1 * E e (F211 ops b0) = X1 * P0 - β • X1 := by
      rw [e2, E_sub, E_smul, mul_sub, mul_smul_comm, h1]
    show X0 * E e (F210 ops) + X1 * E e (F211 ops b0) = _
    rw [e1, e3]; abel
  · have e1 : (fun s => (2 : A) * F220 ops b0 s)
        = fun s => star (F110 ops) (jointLo ops true) s - β * F110 ops s := by
      funext s
      cases s <;>
        simp [F220, F110, star, jointLo, c220, OpAlg.add, OpAlg.sub, OpAlg.smul, OpAlg.zero,
          Algebra.smul_def, β, hp.qqsq, hp.qggq, hp.qqqg, hp.qggg]
      all_goals rw [← mul_assoc, h2', one_mul]
    show (2 : A) • (X0 * E e (F220 ops b0)) = X0 * E e (F110 ops) * E e (jointLo ops true) - β • (X0 * E e (F110 ops))
    rw [mul_assoc, E_mul e h, ← mul_smul_comm, ← E_smul, e1, E_sub, E_smul, mul_sub, mul_smul_comm]

end FlavourSpace

/-! ## Renormalisation scale -/

section Ren
variable {K : Type} [CommRing K]

/-- `a_s(μ_F)` in terms of `a = a_s(μ_R)` and `ℓ = ln(μ_R²/μ_F²)`, truncated -/
def aF (b0 b1 a l : K) : K := a + b0 * l * a ^ 2 + (b0 ^ 2 * l ^ 2 + b1 * l) * a ^ 3

/-- the truncated series solves `da_F/dℓ = β0 a_F² + β1 a_F³` up to `O(a⁴)` (explicit remainder) -/
theorem aF_solves_rge (b0 b1 a l : K) :
    ∃ rem : K, (b0 * a ^ 2 + (2 * b0 ^ 2 * l + b1) * a ^ 3)   -- d aF / dℓ
      = b0 * aF b0 b1 a l ^ 2 + b1 * aF b0 b1 a l ^ 3 + a ^ 4 * rem := by
  refine ⟨-(b0 * (2 * (b0 ^ 2 * l ^ 2 + b1 * l) + b0 ^ 2 * l ^ 2 * 1
      + 2 * b0 * l * (b0 ^ 2 * l ^ 2 + b1 * l) * a + (b0 ^ 2 * l ^ 2 + b1 * l) ^ 2 * a ^ 2)
      + b1 * (3 * b0 * l + 3 * (b0 * l) ^ 2 * a + 3 * (b0 ^ 2 * l ^ 2 + b1 * l) * a
        + (b0 * l) ^ 3 * a ^ 2 + 6 * b0 * l * (b0 ^ 2 * l ^ 2 + b1 * l) * a ^ 2
        + 3 * (b0 * l) ^ 2 * (b0 ^ 2 * l ^ 2 + b1 * l) * a ^ 3
        + 3 * (b0 ^ 2 * l ^ 2 + b1 * l) ^ 2 * a ^ 3
        + 3 * b0 * l * (b0 ^ 2 * l ^ 2 + b1 * l) ^ 2 * a ^ 4
        + (b0 ^ 2 * l ^ 2 + b1 * l) ^ 3 * a ^ 5)), ?_⟩
  unfold aF
  ring

/-- **Renormalisation-scale terms.**  Re-expanding `Σ_k a_F^k X_k` (the common-scale result, `X_k`
arbitrary — they may contain any power of `t`) in `a = a_s(μ_R)` gives, up to `O(a⁴)`, exactly
the terms the model generates with `ren_coeffs = {(2,1,1): β0, (3,1,2): 2β0, (3,1,1): β1,
(3,2,1): β0²}`: `a²·β0 ℓ X1`, `a³·(2β0 ℓ X2 + β1 ℓ X1 + β0² ℓ² X1)`. -/
theorem ren_terms (b0 b1 a l X1 X2 X3 : K) :
    ∃ rem : K,
      aF b0 b1 a l * X1 + aF b0 b1 a l ^ 2 * X2 + aF b0 b1 a l ^ 3 * X3
        = a * X1 + a ^ 2 * (X2 + b0 * l * X1)
          + a ^ 3 * (X3 + 2 * b0 * l * X2 + b1 * l * X1 + b0 ^ 2 * l ^ 2 * X1) + a ^ 4 * rem := by
  refine ⟨X2 * ((b0 * l) ^ 2 + 2 * (b0 ^ 2 * l ^ 2 + b1 * l)
        + 2 * b0 * l * (b0 ^ 2 * l ^ 2 + b1 * l) * a + (b0 ^ 2 * l ^ 2 + b1 * l) ^ 2 * a ^ 2)
      + X3 * (3 * b0 * l + 3 * (b0 * l) ^ 2 * a + 3 * (b0 ^ 2 * l ^ 2 + b1 * l) * a
        + (b0 * l) ^ 3 * a ^ 2 + 6 * b0 * l * (b0 ^ 2 * l ^ 2 + b1 * l) * a ^ 2
        + 3 * (b0 * l) ^ 2 * (b0 ^ 2 * l ^ 2 + b1 * l) * a ^ 3
        + 3 * (b0 ^ 2 * l ^ 2 + b1 * l) ^ 2 * a ^ 3
        + 3 * b0 * l * (b0 ^ 2 * l ^ 2 + b1 * l) ^ 2 * a ^ 4
        + (b0 ^ 2 * l ^ 2 + b1 * l) ^ 3 * a ^ 5), ?_⟩
  unfold aF
  ring

/-- the binomial coefficients and signs the model attaches to `lnR^j lnF^(n-j)` reproduce
`ℓ^n = (t − r)^n` for the two powers that occur -/
theorem binomial_split (t r : K) :
    (binom 1 0 : K) * 1 * t + (binom 1 1 : K) * (-1) * r = (t - r) ^ 1 ∧
    (binom 2 0 : K) * 1 * t ^ 2 + (binom 2 1 : K) * (-1) * (r * t) + (binom 2 2 : K) * 1 * r ^ 2
      = (t - r) ^ 2 := by
  constructor <;> simp [binom] <;> ring

end Ren

/-- the model's `ren_coeffs` are those of `ren_terms` (with eko's β0, β1) -/
theorem renCoeffs_table (nf : Nat) :
    renCoeffs 3 nf = [((2, 1, 1), beta0 nf), ((3, 1, 2), 2 * beta0 nf), ((3, 1, 1), beta1 nf),
      ((3, 2, 1), beta0 nf * beta0 nf)] ∧
    renCoeffs 2 nf = [((2, 1, 1), beta0 nf)] ∧ renCoeffs 1 nf = [] ∧ renCoeffs 0 nf = [] := by
  simp [renCoeffs]

/-- β0, β1 are the QCD values for `C_A = 3, C_F = 4/3, T_R = 1/2` -/
theorem beta_values (nf : Nat) :
    beta0 nf = 11 / 3 * 3 - 4 / 3 * (1 / 2) * nf ∧
    beta1 nf = 34 / 3 * 3 ^ 2 - 4 * (4 / 3) * (1 / 2) * nf - 20 / 3 * 3 * (1 / 2) * nf := by
  unfold beta0 beta1
  constructor <;> ring

/-! ## Keys and switches (concrete model) -/

/-- the binomial split of one entry: keys and coefficients -/
theorem binomialSplit_one (k : KerOrder) (h : k.key.lnR = 1) :
    (binomialSplit [k]).map (·.key)
      = [⟨k.key.as, k.key.aem, 0, 1 + k.key.lnF⟩, ⟨k.key.as, k.key.aem, 1, k.key.lnF⟩] := by
  simp [binomialSplit, h, List.range, List.range.loop]

theorem binomialSplit_two (k : KerOrder) (h : k.key.lnR = 2) :
    (binomialSplit [k]).map (·.key)
      = [⟨k.key.as, k.key.aem, 0, 2 + k.key.lnF⟩, ⟨k.key.as, k.key.aem, 1, 1 + k.key.lnF⟩,
         ⟨k.key.as, k.key.aem, 2, k.key.lnF⟩] := by
  simp [binomialSplit, h, List.range, List.range.loop]

/-- **Switching a variation off** removes exactly the entries carrying its logarithm and leaves
every other entry as it is. -/
theorem switch_off_ren (ren : List ((Nat × Nat × Nat) × Rat)) (kers : List KerOrder) :
    applyDiff false true ren kers = (applyDiff true true ren kers).filter fun e => e.key.lnR = 0 := by
  simp [applyDiff]

theorem switch_off_fact (ren : List ((Nat × Nat × Nat) × Rat)) (kers : List KerOrder) :
    applyDiff true false ren kers = (applyDiff true true ren kers).filter fun e => e.key.lnF = 0 := by
  simp [applyDiff]

theorem switch_off_fact_common (fact : List ((Nat × Nat × Nat) × (Sector → Mat))) (proj : Sector → Mat)
    (kers : List KerOrder) : applyCommon false fact proj kers = [] := by
  simp [applyCommon]

theorem switch_off_both (ren : List ((Nat × Nat × Nat) × Rat)) (kers : List KerOrder) :
    applyDiff false false ren kers = [] := by
  simp [applyDiff]

/-- intrinsic channels never receive a factorisation log: every generated entry has `lnF = 0` -/
theorem intrinsic_no_fact (actRen actFact : Bool) (fact : List ((Nat × Nat × Nat) × (Sector → Mat)))
    (proj : Sector → Mat) (ren : List ((Nat × Nat × Nat) × Rat)) (k : KerIn) (hk : k.intrinsic = true) :
    ∀ e ∈ kernelOrders actRen actFact fact proj ren k, e.key.lnF = 0 := by
  intro e he
  simp only [kernelOrders, hk, Bool.not_true, Bool.false_eq_true, if_false, List.mem_append,
    List.mem_filter, List.mem_filterMap] at he
  rcases he with ⟨a, _, ha⟩ | ⟨_, h⟩
  · rcases a with ⟨v, o⟩
    cases v with
    | none => simp at ha
    | some vec => simp at ha; subst ha; rfl
  · simpa using h

/-- `build_orders`: the keys of the result at PTO 0..3 -/
theorem buildOrders_table :
    (buildOrders 0).length = 1 ∧ (buildOrders 1).length = 3 ∧ (buildOrders 2).length = 9 ∧
    (buildOrders 3).length = 21 ∧
    buildOrders 1 = [⟨0,0,0,0⟩, ⟨1,0,0,0⟩, ⟨1,0,0,1⟩] := by
  decide +kernel

/-! ## eko's flavour-space projectors

`scale_variations.py` multiplies the parton weights with `eko.basis_rotation.ad_projectors(nf)`
(`partons @ projectors`).  `Generated/Projectors.lean` holds these seven 14×14 matrices for
nf = 3…6 as exact rationals, regenerated from the installed eko on every run.  They satisfy the
matrix-unit relations — `π(a,b)·π(c,d) = δ_bc π(a,d)` in the (quark-singlet, gluon) block, the three
non-singlet projectors idempotent, mutually orthogonal and orthogonal to the block, and the diagonal
ones adding up to the identity on the active flavours — which is exactly what lets a sum
`Σ_s A_s ⊗ π_s` multiply sector by sector, i.e. what `actS` / `mulP` above assume. -/

/-- the identity on the active flavours (gluon and the `nf` quarks and antiquarks) -/
def activeIdent (nf : Nat) : QMat :=
  Yadism.Gen.flavorPids.map fun p => Yadism.Gen.flavorPids.map fun q =>
    if p = q ∧ (p = 21 ∨ (1 ≤ p.natAbs ∧ p.natAbs ≤ nf)) then (1 : Rat) else 0

theorem projector_relations :
    unitRelations Yadism.Gen.projectors3 14 (activeIdent 3) = true
    ∧ unitRelations Yadism.Gen.projectors4 14 (activeIdent 4) = true
    ∧ unitRelations Yadism.Gen.projectors5 14 (activeIdent 5) = true
    ∧ unitRelations Yadism.Gen.projectors6 14 (activeIdent 6) = true := by
  decide +kernel

section Eko
variable {A : Type} [CommRing A] [Algebra ℚ A]

/-- a list-of-rows rational matrix as an operator on flavour ⊗ x space (entries in `A`) -/
def M (n : Nat) (m : QMat) : Matrix (Fin n) (Fin n) A := (toMat n m).map (algebraMap ℚ A)

theorem M_mul (n : Nat) (a b c : QMat) (ha : wellShaped n a = true) (h : (QMat.mul a b n == c) = true) :
    (M n a : Matrix (Fin n) (Fin n) A) * M n b = M n c := by
  have := eq_of_beq h
  unfold M
  rw [← this, toMat_mul n a b ha, Matrix.map_mul]

theorem M_zero (n : Nat) : (M n (QMat.zero n) : Matrix (Fin n) (Fin n) A) = 0 := by
  unfold M; rw [toMat_zero]; simp

theorem M_add (n : Nat) (a b : QMat) (ha : wellShaped n a = true) (hb : wellShaped n b = true) :
    (M n (QMat.add a b) : Matrix (Fin n) (Fin n) A) = M n a + M n b := by
  unfold M
  rw [toMat_add n a b ha hb, Matrix.map_add _ (map_add _)]

/-- eko's sector keys -/
def key : Sector → Nat × Nat
  | .qq => (100, 100) | .qg => (100, 21) | .gq => (21, 100) | .gg => (21, 21)
  | .nsm => (10201, 0) | .nsp => (10101, 0) | .nsv => (10200, 0)

variable (t : ProjTable) (n : Nat) (ident : QMat)
  (hs : ∀ k ∈ sgKeys ++ nsKeys, wellShaped n (t.get k n) = true)
  (h : unitRelations t n ident = true)
include hs h

theorem sg_rel (k1 k2 : Nat × Nat) (h1 : k1 ∈ sgKeys) (h2 : k2 ∈ sgKeys) :
    (M n (t.get k1 n) : Matrix (Fin n) (Fin n) A) * M n (t.get k2 n)
      = if k1.2 = k2.1 then M n (t.get (k1.1, k2.2) n) else 0 := by
  simp only [unitRelations, Bool.and_eq_true, List.all_eq_true] at h
  have := h.1.1.1 k1 h1 k2 h2
  rw [M_mul n _ _ _ (hs k1 (List.mem_append_left _ h1)) this]
  split
  · rfl
  · exact M_zero n

theorem ns_rel (k1 k2 : Nat × Nat) (h1 : k1 ∈ nsKeys) (h2 : k2 ∈ nsKeys) :
    (M n (t.get k1 n) : Matrix (Fin n) (Fin n) A) * M n (t.get k2 n)
      = if k1 = k2 then M n (t.get k1 n) else 0 := by
  simp only [unitRelations, Bool.and_eq_true, List.all_eq_true] at h
  have := h.1.1.2 k1 h1 k2 h2
  rw [M_mul n _ _ _ (hs k1 (List.mem_append_right _ h1)) this]
  split
  · rfl
  · exact M_zero n

theorem ns_sg (k1 k2 : Nat × Nat) (h1 : k1 ∈ nsKeys) (h2 : k2 ∈ sgKeys) :
    (M n (t.get k1 n) : Matrix (Fin n) (Fin n) A) * M n (t.get k2 n) = 0
    ∧ (M n (t.get k2 n) : Matrix (Fin n) (Fin n) A) * M n (t.get k1 n) = 0 := by
  simp only [unitRelations, Bool.and_eq_true, List.all_eq_true] at h
  have := h.1.2 k1 h1 k2 h2
  exact ⟨by rw [M_mul n _ _ _ (hs k1 (List.mem_append_right _ h1)) this.1, M_zero],
    by rw [M_mul n _ _ _ (hs k2 (List.mem_append_left _ h2)) this.2, M_zero]⟩

/-- **the projectors of a table that passes `unitRelations` are matrix units** -/
theorem unitRel_of_relations :
    UnitRel (fun s => (M n (t.get (key s) n) : Matrix (Fin n) (Fin n) A)) := by
  have sg := fun k1 k2 h1 h2 => sg_rel (A := A) t n ident hs h k1 k2 h1 h2
  have ns := fun k1 k2 h1 h2 => ns_rel (A := A) t n ident hs h k1 k2 h1 h2
  have nsg := fun k1 k2 h1 h2 => ns_sg (A := A) t n ident hs h k1 k2 h1 h2
  refine ⟨?_, ?_, ?_, ?_, ?_, ?_, ?_, ?_, ?_, ?_, ?_, ?_, ?_, ?_, ?_, ?_, ?_, ?_⟩
  · simpa [key] using sg (100, 100) (100, 100) (by decide) (by decide)
  · simpa [key] using sg (100, 100) (100, 21) (by decide) (by decide)
  · simpa [key] using sg (100, 100) (21, 100) (by decide) (by decide)
  · simpa [key] using sg (100, 100) (21, 21) (by decide) (by decide)
  · simpa [key] using sg (100, 21) (100, 100) (by decide) (by decide)
  · simpa [key] using sg (100, 21) (100, 21) (by decide) (by decide)
  · simpa [key] using sg (100, 21) (21, 100) (by decide) (by decide)
  · simpa [key] using sg (100, 21) (21, 21) (by decide) (by decide)
  · simpa [key] using sg (21, 100) (100, 100) (by decide) (by decide)
  · simpa [key] using sg (21, 100) (100, 21) (by decide) (by decide)
  · simpa [key] using sg (21, 100) (21, 100) (by decide) (by decide)
  · simpa [key] using sg (21, 100) (21, 21) (by decide) (by decide)
  · simpa [key] using sg (21, 21) (100, 100) (by decide) (by decide)
  · simpa [key] using sg (21, 21) (100, 21) (by decide) (by decide)
  · simpa [key] using sg (21, 21) (21, 100) (by decide) (by decide)
  · simpa [key] using sg (21, 21) (21, 21) (by decide) (by decide)
  · intro s hs'
    rcases hs' with rfl | rfl | rfl
    · simpa [key] using ns (10101, 0) (10101, 0) (by decide) (by decide)
    · simpa [key] using ns (10201, 0) (10201, 0) (by decide) (by decide)
    · simpa [key] using ns (10200, 0) (10200, 0) (by decide) (by decide)
  · intro s u hs' hne
    have hk : key s ∈ nsKeys := by rcases hs' with rfl | rfl | rfl <;> decide
    have hne' : key s ≠ key u := by
      intro e; apply hne; revert e; cases s <;> cases u <;> decide
    by_cases hu : key u ∈ nsKeys
    · have a := ns (key s) (key u) hk hu
      have b := ns (key u) (key s) hu hk
      rw [if_neg hne'] at a
      rw [if_neg (Ne.symm hne')] at b
      exact ⟨a, b⟩
    · have hu' : key u ∈ sgKeys := by
        revert hu; cases u <;> decide
      exact nsg (key s) (key u) hk hu'

end Eko

section Ident
variable {A : Type} [CommRing A] [Algebra ℚ A]

/-- the five diagonal projectors add up to `ident` (the unit of the sector algebra is the identity
on the active flavours) -/
theorem ident_rel (t : ProjTable) (n : Nat) (ident : QMat)
    (hs : ∀ k ∈ sgKeys ++ nsKeys, wellShaped n (t.get k n) = true)
    (h : unitRelations t n ident = true) :
    E (fun s => (M n (t.get (key s) n) : Matrix (Fin n) (Fin n) A)) (oneS : Sector → A) = M n ident := by
  simp only [unitRelations, Bool.and_eq_true] at h
  have hd := eq_of_beq h.2
  simp only [List.foldl] at hd
  have s1 := hs (100, 100) (by decide)
  have s2 := hs (21, 21) (by decide)
  have s3 := hs (10201, 0) (by decide)
  have s4 := hs (10101, 0) (by decide)
  have s5 := hs (10200, 0) (by decide)
  have w1 := wellShaped_add n _ _ (wellShaped_zero n) s1
  have w2 := wellShaped_add n _ _ w1 s2
  have w3 := wellShaped_add n _ _ w2 s3
  have w4 := wellShaped_add n _ _ w3 s4
  rw [← hd, M_add n _ _ w4 s5, M_add n _ _ w3 s4, M_add n _ _ w2 s3, M_add n _ _ w1 s2,
    M_add n _ _ (wellShaped_zero n) s1, M_zero]
  simp only [E, oneS, key, one_smul, zero_smul, add_zero, zero_add]
  abel

end Ident

/-! ### eko's actual projectors -/

section EkoTables
variable {A : Type} [CommRing A] [Algebra ℚ A]
attribute [local instance] algOpAlg

/-- all 28 regenerated matrices are 14×14 -/
theorem projectors_shaped :
    (∀ k ∈ sgKeys ++ nsKeys, wellShaped 14 (Yadism.Gen.projectors3.get k 14) = true)
    ∧ (∀ k ∈ sgKeys ++ nsKeys, wellShaped 14 (Yadism.Gen.projectors4.get k 14) = true)
    ∧ (∀ k ∈ sgKeys ++ nsKeys, wellShaped 14 (Yadism.Gen.projectors5.get k 14) = true)
    ∧ (∀ k ∈ sgKeys ++ nsKeys, wellShaped 14 (Yadism.Gen.projectors6.get k 14) = true) := by
  decide +kernel

/-- eko's table for `nf` flavours -/
def ekoTable : Nat → ProjTable
  | 3 => Yadism.Gen.projectors3
  | 4 => Yadism.Gen.projectors4
  | 5 => Yadism.Gen.projectors5
  | _ => Yadism.Gen.projectors6

/-- **eko's projectors are matrix units**, as operators on flavour ⊗ x space, for nf = 3…6 -/
theorem eko_unitRel (nf : Nat) (hnf : nf = 3 ∨ nf = 4 ∨ nf = 5 ∨ nf = 6) :
    UnitRel (fun s => (M 14 ((ekoTable nf).get (key s) 14) : Matrix (Fin 14) (Fin 14) A)) := by
  rcases hnf with rfl | rfl | rfl | rfl
  · exact unitRel_of_relations _ 14 (activeIdent 3) projectors_shaped.1 projector_relations.1
  · exact unitRel_of_relations _ 14 (activeIdent 4) projectors_shaped.2.1 projector_relations.2.1
  · exact unitRel_of_relations _ 14 (activeIdent 5) projectors_shaped.2.2.1 projector_relations.2.2.1
  · exact unitRel_of_relations _ 14 (activeIdent 6) projectors_shaped.2.2.2 projector_relations.2.2.2

/-- … and their diagonal ones add up to the identity on the active flavours -/
theorem eko_ident (nf : Nat) (hnf : nf = 3 ∨ nf = 4 ∨ nf = 5 ∨ nf = 6) :
    E (fun s => (M 14 ((ekoTable nf).get (key s) 14) : Matrix (Fin 14) (Fin 14) A)) (oneS : Sector → A)
      = M 14 (activeIdent nf) := by
  rcases hnf with rfl | rfl | rfl | rfl
  · exact ident_rel _ 14 (activeIdent 3) projectors_shaped.1 projector_relations.1
  · exact ident_rel _ 14 (activeIdent 4) projectors_shaped.2.1 projector_relations.2.1
  · exact ident_rel _ 14 (activeIdent 5) projectors_shaped.2.2.1 projector_relations.2.2.1
  · exact ident_rel _ 14 (activeIdent 6) projectors_shaped.2.2.2 projector_relations.2.2.2

/-- **Factorisation-scale RGE for what the code builds** (`partons @ ad_projectors(nf)`,
`fmat @ values`): `fact_rge_flavour_space` with eko's regenerated projectors — no hypothesis on
the projectors is left; `X0` has no gluon component, `X1` lives on the active flavours. -/
theorem fact_rge_eko (nf : Nat) (hnf : nf = 3 ∨ nf = 4 ∨ nf = 5 ∨ nf = 6)
    (ops : Label → A) (hp : Products ops) (b0 : ℚ)
    (X0 X1 : Matrix (Fin 14) (Fin 14) A) (Pgq1 Pgg1 : A) :
    let e := fun s => (M 14 ((ekoTable nf).get (key s) 14) : Matrix (Fin 14) (Fin 14) A)
    X0 * e .gq = 0 → X0 * e .gg = 0 → X1 * M 14 (activeIdent nf) = X1 →
    let P0 := E e (jointLo ops true)
    let P1 := E e (fun s => match s with | .gq => Pgq1 | .gg => Pgg1 | s => F210 ops s)
    let β : A := algebraMap ℚ A b0
    X0 * E e (F110 ops) = X0 * P0 ∧
    X0 * E e (F210 ops) + X1 * E e (F211 ops b0) = X1 * P0 + X0 * P1 - β • X1 ∧
    (2 : A) • (X0 * E e (F220 ops b0)) = X0 * E e (F110 ops) * P0 - β • (X0 * E e (F110 ops)) := by
  intro e hq hg h1
  rw [← eko_ident nf hnf] at h1
  exact fact_rge_flavour_space ops hp b0 e (eko_unitRel nf hnf) X0 X1 hq hg h1 Pgq1 Pgg1

end EkoTables

end Yadism.C05
