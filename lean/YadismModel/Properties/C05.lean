/-
C05 — scale-variation terms satisfy the renormalisation-group equations.

`Model/Orders.lean` is generic in the operator type.  Here it is instantiated with an arbitrary
commutative ℚ-algebra `A` — the convolution algebra of x-space distributions, in which the raw
splitting kernels `P_qq^(0)`, … and the coefficient functions live — and the RGE residuals of the
model's terms are shown to vanish identically.  The executable instance (N×N matrices) is tied to
the real `compute_local` by the `compute_local_sv` correspondence.

Conventions (from `ESFResult.apply_pdf`): `t = ln(Q²/μ_F²)` multiplies key component `lnF`,
`r = ln(Q²/μ_R²)` multiplies `lnR`, `a = a_s(μ_R)`; `ℓ = t − r = ln(μ_R²/μ_F²)`.
-/
import YadismModel.Model.Orders
import YadismModel.Generated.Projectors
import Mathlib.Tactic.Ring
import Mathlib.Tactic.Linarith
import Mathlib.Tactic.LinearCombination
import Mathlib.Tactic.NormNum
import Mathlib.Algebra.Algebra.Basic
import Mathlib.Algebra.Order.Field.Rat

namespace Yadism.C05

open Yadism

section Fact
variable {A : Type} [CommRing A] [Algebra ℚ A]

/-- the operator algebra of the theorems: a commutative ℚ-algebra -/
local instance : OpAlg A := ⟨(· + ·), (· - ·), fun k a => k • a, 0⟩

/-- hypotheses tying the "convolved" labels to products in the convolution algebra
(what `splitting_functions/nlo/convolutions.py` claims to implement) -/
structure Products (ops : Label → A) : Prop where
  qqsq : ops .Pqq0sq = ops .Pqq0 * ops .Pqq0
  qggq : ops .PqgPgq = ops .Pqg0 * ops .Pgq0
  qqqg : ops .PqqPqg = ops .Pqq0 * ops .Pqg0
  qggg : ops .PqgPgg = ops .Pqg0 * ops .Pgg0

/-- the model's factorisation entries at NNLO, by key -/
def F110 (ops : Label → A) : Sector → A := jointLo ops false
def F210 (ops : Label → A) : Sector → A := fun s => match s with
  | .nsp => ops .Pnsp1 | .nsm => ops .Pnsm1 | .nsv => ops .Pnsm1
  | .qq => ops .Pqq1 | .qg => ops .Pqg1 | .gq | .gg => OpAlg.zero
def F211 (ops : Label → A) (b0 : ℚ) : Sector → A := jointLo (c211 ops 1 b0) true
def F220 (ops : Label → A) (b0 : ℚ) : Sector → A := fun s => match s with
  | .nsp | .nsm | .nsv => c220 ops b0 .Pqq0sq none .Pqq0
  | .qq => c220 ops b0 .Pqq0sq (some .PqgPgq) .Pqq0
  | .qg => c220 ops b0 .PqqPqg (some .PqgPgg) .Pqg0
  | .gq | .gg => OpAlg.zero

/-- the model's `sector_mapping` at order 2 is exactly these four entries, in this order -/
theorem sectorMapping_two (ops : Label → A) (b0 : ℚ) :
    sectorMapping 2 ops 1 b0
      = [((1, 1, 0), F110 ops), ((2, 1, 0), F210 ops), ((2, 1, 1), F211 ops b0), ((2, 2, 0), F220 ops b0)] := by
  rfl

theorem sectorMapping_one (ops : Label → A) (b0 : ℚ) :
    sectorMapping 1 ops 1 b0 = [((1, 1, 0), F110 ops)] := by
  rfl

/-- action of a sector map on a (quark-singlet, gluon) row vector of coefficient functions: what
the projectors `w ↦ w·π_s` implement (`π_(100,21)` moves quark weight onto the gluon PDF, …) -/
def actS (F : Sector → A) (C : A × A) : A × A :=
  (F .qq * C.1 + F .gq * C.2, F .qg * C.1 + F .gg * C.2)

/-- row vector times the 2×2 singlet splitting matrix -/
def mulP (C : A × A) (Pqq Pqg Pgq Pgg : A) : A × A :=
  (C.1 * Pqq + C.2 * Pgq, C.1 * Pqg + C.2 * Pgg)

/-- **Factorisation-scale RGE, singlet.**  With `F = Σ_k a^k Σ_j K_{k,j} t^j`,
`t = ln(Q²/μ²)`, `da/dlnμ² = −β0 a² − …`, `df/dlnμ² = (a 𝒫0 + a² 𝒫1) f`, the μ-derivative of
`F·f` has the coefficients `a¹t⁰: −K11 + C0𝒫0`, `a²t⁰: −K21 + C1𝒫0 + C0𝒫1 − β0 C1`,
`a²t¹: −2K22 + K11𝒫0 − β0 K11`.  For the model's terms all three vanish, for every choice of
splitting kernels, coefficient functions `C1`, LO coefficient `C0` without gluon component and
any `β0` — so the prediction is μ_F-independent up to `O(a³)`. -/
theorem fact_rge_singlet (ops : Label → A) (hp : Products ops) (b0 : ℚ) (C0 C1 : A × A)
    (hC0 : C0.2 = 0) (Pgq1 Pgg1 : A) :
    let K11 := actS (F110 ops) C0
    let K21 := actS (F210 ops) C0 + actS (F211 ops b0) C1
    let K22 := actS (F220 ops b0) C0
    let P0 := fun C => mulP C (ops .Pqq0) (ops .Pqg0) (ops .Pgq0) (ops .Pgg0)
    let P1 := fun C => mulP C (ops .Pqq1) (ops .Pqg1) Pgq1 Pgg1
    K11 = P0 C0 ∧
    K21 = P0 C1 + P1 C0 - (b0 • C1.1, b0 • C1.2) ∧
    ((2 : ℚ) • K22.1, (2 : ℚ) • K22.2) = P0 K11 - (b0 • K11.1, b0 • K11.2) := by
  obtain ⟨q0, g0⟩ := C0
  obtain ⟨q1, g1⟩ := C1
  simp only at hC0
  subst hC0
  simp only [actS, mulP, F110, F210, F211, F220, jointLo, c211, c220, OpAlg.add, OpAlg.sub,
    OpAlg.smul, OpAlg.zero, hp.qqsq, hp.qggq, hp.qqqg, hp.qggg]
  have h2 : (algebraMap ℚ A) 2 * (algebraMap ℚ A) 2⁻¹ = 1 := by
    rw [← map_mul]; norm_num
  refine ⟨?_, ?_, ?_⟩
  · ext <;> simp <;> ring
  · ext <;> simp [Algebra.smul_def] <;> ring
  · ext <;> simp [Algebra.smul_def]
    · linear_combination (ops .Pqq0 * ops .Pqq0 * q0 + ops .Pqg0 * ops .Pgq0 * q0
        - (algebraMap ℚ A) b0 * ops .Pqq0 * q0) * h2
    · linear_combination (ops .Pqq0 * ops .Pqg0 * q0 + ops .Pqg0 * ops .Pgg0 * q0
        - (algebraMap ℚ A) b0 * ops .Pqg0 * q0) * h2

/-- **Factorisation-scale RGE, non-singlet** (`ns+`, `ns−`, valence): same three residuals with
the scalar kernels `P_qq^(0)` and `P_ns^(1),±`. -/
theorem fact_rge_nonsinglet (ops : Label → A) (hp : Products ops) (b0 : ℚ) (c0 c1 : A) (s : Sector)
    (hs : s = .nsp ∨ s = .nsm ∨ s = .nsv) :
    let P1 : A := if s = .nsp then ops .Pnsp1 else ops .Pnsm1
    let K11 := F110 ops s * c0
    let K21 := F210 ops s * c0 + F211 ops b0 s * c1
    let K22 := F220 ops b0 s * c0
    K11 = c0 * ops .Pqq0 ∧
    K21 = c1 * ops .Pqq0 + c0 * P1 - b0 • c1 ∧
    (2 : ℚ) • K22 = K11 * ops .Pqq0 - b0 • K11 := by
  have h2 : (algebraMap ℚ A) 2 * (algebraMap ℚ A) 2⁻¹ = 1 := by
    rw [← map_mul]; norm_num
  rcases hs with rfl | rfl | rfl <;>
    simp only [F110, F210, F211, F220, jointLo, c211, c220, OpAlg.add, OpAlg.sub, OpAlg.smul,
      hp.qqsq] <;>
    refine ⟨by ring, ?_, ?_⟩ <;> simp [Algebra.smul_def] <;>
    first
      | ring1
      | linear_combination (ops .Pqq0 * ops .Pqq0 * c0 - (algebraMap ℚ A) b0 * ops .Pqq0 * c0) * h2

end Fact

/-! ## Renormalisation scale -/

section Ren
variable {K : Type} [CommRing K]

/-- `a_s(μ_F)` in terms of `a = a_s(μ_R)` and `ℓ = ln(μ_R²/μ_F²)`, truncated -/
def aF (b0 b1 a l : K) : K := a + b0 * l * a ^ 2 + (b0 ^ 2 * l ^ 2 + b1 * l) * a ^ 3

/-- the truncated series solves `da_F/dℓ = β0 a_F² + β1 a_F³` up to `O(a⁴)` (explicit remainder) -/
theorem aF_solves_rge (b0 b1 a l : K) :
    ∃ rem : K, (b0 * a ^ 2 + (2 * b0 ^ 2 * l + b1) * a ^ 3)   -- d aF / dℓ
      = b0 * aF b0 b1 a l ^ 2 + b1 * aF b0 b1 a l ^ 3 + a ^ 4 * rem := by
  refine ⟨-(b0 * (2 * (b0 ^ 2 * l ^ 2 + b1 * l) + b0 ^ 2 * l ^ 2 * 1
      + 2 * b0 * l * (b0 ^ 2 * l ^ 2 + b1 * l) * a + (b0 ^ 2 * l ^ 2 + b1 * l) ^ 2 * a ^ 2)
      + b1 * (3 * b0 * l + 3 * (b0 * l) ^ 2 * a + 3 * (b0 ^ 2 * l ^ 2 + b1 * l) * a
        + (b0 * l) ^ 3 * a ^ 2 + 6 * b0 * l * (b0 ^ 2 * l ^ 2 + b1 * l) * a ^ 2
        + 3 * (b0 * l) ^ 2 * (b0 ^ 2 * l ^ 2 + b1 * l) * a ^ 3
        + 3 * (b0 ^ 2 * l ^ 2 + b1 * l) ^ 2 * a ^ 3
        + 3 * b0 * l * (b0 ^ 2 * l ^ 2 + b1 * l) ^ 2 * a ^ 4
        + (b0 ^ 2 * l ^ 2 + b1 * l) ^ 3 * a ^ 5)), ?_⟩
  unfold aF
  ring

/-- **Renormalisation-scale terms.**  Re-expanding `Σ_k a_F^k X_k` (the common-scale result, `X_k`
arbitrary — they may contain any power of `t`) in `a = a_s(μ_R)` gives, up to `O(a⁴)`, exactly
the terms the model generates with `ren_coeffs = {(2,1,1): β0, (3,1,2): 2β0, (3,1,1): β1,
(3,2,1): β0²}`: `a²·β0 ℓ X1`, `a³·(2β0 ℓ X2 + β1 ℓ X1 + β0² ℓ² X1)`. -/
theorem ren_terms (b0 b1 a l X1 X2 X3 : K) :
    ∃ rem : K,
      aF b0 b1 a l * X1 + aF b0 b1 a l ^ 2 * X2 + aF b0 b1 a l ^ 3 * X3
        = a * X1 + a ^ 2 * (X2 + b0 * l * X1)
          + a ^ 3 * (X3 + 2 * b0 * l * X2 + b1 * l * X1 + b0 ^ 2 * l ^ 2 * X1) + a ^ 4 * rem := by
  refine ⟨X2 * ((b0 * l) ^ 2 + 2 * (b0 ^ 2 * l ^ 2 + b1 * l)
        + 2 * b0 * l * (b0 ^ 2 * l ^ 2 + b1 * l) * a + (b0 ^ 2 * l ^ 2 + b1 * l) ^ 2 * a ^ 2)
      + X3 * (3 * b0 * l + 3 * (b0 * l) ^ 2 * a + 3 * (b0 ^ 2 * l ^ 2 + b1 * l) * a
        + (b0 * l) ^ 3 * a ^ 2 + 6 * b0 * l * (b0 ^ 2 * l ^ 2 + b1 * l) * a ^ 2
        + 3 * (b0 * l) ^ 2 * (b0 ^ 2 * l ^ 2 + b1 * l) * a ^ 3
        + 3 * (b0 ^ 2 * l ^ 2 + b1 * l) ^ 2 * a ^ 3
        + 3 * b0 * l * (b0 ^ 2 * l ^ 2 + b1 * l) ^ 2 * a ^ 4
        + (b0 ^ 2 * l ^ 2 + b1 * l) ^ 3 * a ^ 5), ?_⟩
  unfold aF
  ring

/-- the binomial coefficients and signs the model attaches to `lnR^j lnF^(n-j)` reproduce
`ℓ^n = (t − r)^n` for the two powers that occur -/
theorem binomial_split (t r : K) :
    (binom 1 0 : K) * 1 * t + (binom 1 1 : K) * (-1) * r = (t - r) ^ 1 ∧
    (binom 2 0 : K) * 1 * t ^ 2 + (binom 2 1 : K) * (-1) * (r * t) + (binom 2 2 : K) * 1 * r ^ 2
      = (t - r) ^ 2 := by
  constructor <;> simp [binom] <;> ring

end Ren

/-- the model's `ren_coeffs` are those of `ren_terms` (with eko's β0, β1) -/
theorem renCoeffs_table (nf : Nat) :
    renCoeffs 3 nf = [((2, 1, 1), beta0 nf), ((3, 1, 2), 2 * beta0 nf), ((3, 1, 1), beta1 nf),
      ((3, 2, 1), beta0 nf * beta0 nf)] ∧
    renCoeffs 2 nf = [((2, 1, 1), beta0 nf)] ∧ renCoeffs 1 nf = [] ∧ renCoeffs 0 nf = [] := by
  simp [renCoeffs]

/-- β0, β1 are the QCD values for `C_A = 3, C_F = 4/3, T_R = 1/2` -/
theorem beta_values (nf : Nat) :
    beta0 nf = 11 / 3 * 3 - 4 / 3 * (1 / 2) * nf ∧
    beta1 nf = 34 / 3 * 3 ^ 2 - 4 * (4 / 3) * (1 / 2) * nf - 20 / 3 * 3 * (1 / 2) * nf := by
  unfold beta0 beta1
  constructor <;> ring

/-! ## Keys and switches (concrete model) -/

/-- the binomial split of one entry: keys and coefficients -/
theorem binomialSplit_one (k : KerOrder) (h : k.key.lnR = 1) :
    (binomialSplit [k]).map (·.key)
      = [⟨k.key.as, k.key.aem, 0, 1 + k.key.lnF⟩, ⟨k.key.as, k.key.aem, 1, k.key.lnF⟩] := by
  simp [binomialSplit, h, List.range, List.range.loop]

theorem binomialSplit_two (k : KerOrder) (h : k.key.lnR = 2) :
    (binomialSplit [k]).map (·.key)
      = [⟨k.key.as, k.key.aem, 0, 2 + k.key.lnF⟩, ⟨k.key.as, k.key.aem, 1, 1 + k.key.lnF⟩,
         ⟨k.key.as, k.key.aem, 2, k.key.lnF⟩] := by
  simp [binomialSplit, h, List.range, List.range.loop]

/-- **Switching a variation off** removes exactly the entries carrying its logarithm and leaves
every other entry as it is. -/
theorem switch_off_ren (ren : List ((Nat × Nat × Nat) × Rat)) (kers : List KerOrder) :
    applyDiff false true ren kers = (applyDiff true true ren kers).filter fun e => e.key.lnR = 0 := by
  simp [applyDiff]

theorem switch_off_fact (ren : List ((Nat × Nat × Nat) × Rat)) (kers : List KerOrder) :
    applyDiff true false ren kers = (applyDiff true true ren kers).filter fun e => e.key.lnF = 0 := by
  simp [applyDiff]

theorem switch_off_fact_common (fact : List ((Nat × Nat × Nat) × (Sector → Mat))) (proj : Sector → Mat)
    (kers : List KerOrder) : applyCommon false fact proj kers = [] := by
  simp [applyCommon]

theorem switch_off_both (ren : List ((Nat × Nat × Nat) × Rat)) (kers : List KerOrder) :
    applyDiff false false ren kers = [] := by
  simp [applyDiff]

/-- intrinsic channels never receive a factorisation log: every generated entry has `lnF = 0` -/
theorem intrinsic_no_fact (actRen actFact : Bool) (fact : List ((Nat × Nat × Nat) × (Sector → Mat)))
    (proj : Sector → Mat) (ren : List ((Nat × Nat × Nat) × Rat)) (k : KerIn) (hk : k.intrinsic = true) :
    ∀ e ∈ kernelOrders actRen actFact fact proj ren k, e.key.lnF = 0 := by
  intro e he
  simp only [kernelOrders, hk, Bool.not_true, Bool.false_eq_true, if_false, List.mem_append,
    List.mem_filter, List.mem_filterMap] at he
  rcases he with ⟨a, _, ha⟩ | ⟨_, h⟩
  · rcases a with ⟨v, o⟩
    cases v with
    | none => simp at ha
    | some vec => simp at ha; subst ha; rfl
  · simpa using h

/-- `build_orders`: the keys of the result at PTO 0..3 -/
theorem buildOrders_table :
    (buildOrders 0).length = 1 ∧ (buildOrders 1).length = 3 ∧ (buildOrders 2).length = 9 ∧
    (buildOrders 3).length = 21 ∧
    buildOrders 1 = [⟨0,0,0,0⟩, ⟨1,0,0,0⟩, ⟨1,0,0,1⟩] := by
  decide +kernel

/-! ## eko's flavour-space projectors

`scale_variations.py` multiplies the parton weights with `eko.basis_rotation.ad_projectors(nf)`
(`partons @ projectors`).  `Generated/Projectors.lean` holds these seven 14×14 matrices for
nf = 3…6 as exact rationals, regenerated from the installed eko on every run.  They satisfy the
matrix-unit relations — `π(a,b)·π(c,d) = δ_bc π(a,d)` in the (quark-singlet, gluon) block, the three
non-singlet projectors idempotent, mutually orthogonal and orthogonal to the block, and the diagonal
ones adding up to the identity on the active flavours — which is exactly what lets a sum
`Σ_s A_s ⊗ π_s` multiply sector by sector, i.e. what `actS` / `mulP` above assume. -/

/-- the identity on the active flavours (gluon and the `nf` quarks and antiquarks) -/
def activeIdent (nf : Nat) : QMat :=
  Yadism.Gen.flavorPids.map fun p => Yadism.Gen.flavorPids.map fun q =>
    if p = q ∧ (p = 21 ∨ (1 ≤ p.natAbs ∧ p.natAbs ≤ nf)) then (1 : Rat) else 0

theorem projector_relations :
    unitRelations Yadism.Gen.projectors3 14 (activeIdent 3) = true
    ∧ unitRelations Yadism.Gen.projectors4 14 (activeIdent 4) = true
    ∧ unitRelations Yadism.Gen.projectors5 14 (activeIdent 5) = true
    ∧ unitRelations Yadism.Gen.projectors6 14 (activeIdent 6) = true := by
  decide +kernel

end Yadism.C05
