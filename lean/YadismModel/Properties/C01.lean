/-
C01: operator entries are the convolution of the coefficient functions with the basis.

(A) Assembly (`Model/Conv.lean`, tied to `compute_local`/`convolve_vector` by correspondence):
every entry `orders[(o,0,0,0)][pid][j]` is the sum over the Combiner's kernels of
`weight(pid) · point · convolution(rsl_o, point, p_j)`, where `point` is the channel's convolution
point (so the prefactor "x" is the same point), with nothing added for inactive orders or empty
coefficients; a parton no kernel gives weight to has a zero row.

(B) Meaning over the reals: with
`conv(g) = ∫_χ¹ reg(z) g(χ/z)/z dz + ∫_χ¹ sing(z) (g(χ/z)/z − g(χ)) dz + g(χ)·loc(χ)`
(regular, plus-distribution and delta pieces) the contraction `Σ_j f(x_j) · conv(p_j)` *is*
`conv` of the interpolant (linearity), and for a PDF in the span of the basis it is `conv(f)`:
the factorised structure function, for every grid and degree.

(C) The early exits are sound: a basis function with `is_below_x(χ)` has `conv(p_j) = 0`, and an
empty `RSL` gives `0`.
-/
import YadismModel.Model.Conv
import YadismModel.Lemmas.Interp
import Mathlib.MeasureTheory.Integral.IntervalIntegral.Basic
import Mathlib.Analysis.SpecialFunctions.Log.Basic

namespace Yadism.C01

open Yadism Yadism.Conv Yadism.Interp

/-! ## (A) assembly -/

/-- the contribution of one kernel to one entry -/
def kernelEntry (eps : Rat) (k : KernelInput) (o : Nat) (pid : Int) (j : Nat) : Rat :=
  match (k.orders o).active, (k.orders o).parts with
  | true, some p => k.weight pid * (k.point * convolutionModel eps k.point ((k.orders o).below j) p ((k.orders o).quad j) ((k.orders o).pdfAt j))
  | _, _ => 0

theorem addRows_length (a b : List Rat) (h : a.length = b.length) : (addRows a b).length = a.length := by
  induction a generalizing b with
  | nil => cases b <;> simp [addRows]
  | cons x xs ih =>
    cases b with
    | nil => simp at h
    | cons y ys => simp [addRows, ih ys (by simpa using h)]

theorem addRows_getD (a b : List Rat) (h : a.length = b.length) (j : Nat) :
    (addRows a b).getD j 0 = a.getD j 0 + b.getD j 0 := by
  induction a generalizing b j with
  | nil =>
    cases b with
    | nil => simp [addRows]
    | cons y ys => simp at h
  | cons x xs ih =>
    cases b with
    | nil => simp at h
    | cons y ys =>
      cases j with
      | zero => simp [addRows]
      | succ j => simpa [addRows] using ih ys (by simpa using h) j

theorem kernelRow_length (eps : Rat) (k : KernelInput) (o : Nat) (pid : Int) (n : Nat) :
    (kernelRow eps k o pid n).length = n := by
  unfold kernelRow
  split <;> simp [convolveVector]

theorem kernelRow_getD (eps : Rat) (k : KernelInput) (o : Nat) (pid : Int) (n j : Nat) (hj : j < n) :
    (kernelRow eps k o pid n).getD j 0 = kernelEntry eps k o pid j := by
  unfold kernelRow kernelEntry
  cases ha : (k.orders o).active <;> cases hp : (k.orders o).parts <;>
    simp [convolveVector, List.getD_eq_getElem?_getD, hj]

def sumEntries (eps : Rat) (ks : List KernelInput) (o : Nat) (pid : Int) (j : Nat) : Rat :=
  ks.foldl (fun acc k => acc + kernelEntry eps k o pid j) 0

theorem foldl_rows (eps : Rat) (o : Nat) (pid : Int) (n j : Nat) (hj : j < n) :
    ∀ (ks : List KernelInput) (acc : List Rat) (a0 : Rat), acc.length = n → acc.getD j 0 = a0 →
      ((ks.foldl (fun acc k => addRows acc (kernelRow eps k o pid n)) acc).length = n
      ∧ (ks.foldl (fun acc k => addRows acc (kernelRow eps k o pid n)) acc).getD j 0
          = ks.foldl (fun acc k => acc + kernelEntry eps k o pid j) a0) := by
  intro ks
  induction ks with
  | nil => intro acc a0 hl ha; exact ⟨hl, ha⟩
  | cons k rest ih =>
    intro acc a0 hl ha
    simp only [List.foldl_cons]
    have hlen : acc.length = (kernelRow eps k o pid n).length := by rw [hl, kernelRow_length]
    apply ih
    · rw [addRows_length _ _ hlen, hl]
    · rw [addRows_getD _ _ hlen, ha, kernelRow_getD eps k o pid n j hj]

/-- **every operator entry** is the sum over the kernels of
`weight(pid) · point · convolution(rsl, point, p_j)` -/
theorem operator_entry (eps : Rat) (ks : List KernelInput) (o : Nat) (pid : Int) (n j : Nat) (hj : j < n) :
    (operatorRow eps ks o pid n).getD j 0 = sumEntries eps ks o pid j := by
  unfold operatorRow sumEntries
  exact (foldl_rows eps o pid n j hj ks (List.replicate n 0) 0 (by simp)
    (by simp [List.getD_eq_getElem?_getD, hj])).2

theorem operator_row_length (eps : Rat) (ks : List KernelInput) (o : Nat) (pid : Int) (n : Nat) :
    (operatorRow eps ks o pid n).length = n := by
  unfold operatorRow
  rcases Nat.eq_zero_or_pos n with rfl | hpos
  · induction ks with
    | nil => simp
    | cons k rest ih =>
      simp only [List.foldl_cons, List.replicate_zero] at *
      have : addRows [] (kernelRow eps k o pid 0) = [] := by simp [addRows]
      rw [this]; exact ih
  · exact (foldl_rows eps o pid n 0 hpos ks (List.replicate n 0) 0 (by simp)
      (by simp [List.getD_eq_getElem?_getD, hpos])).1

/-- a parton that no kernel gives weight to has a zero row ("blow-up" to flavour space) -/
theorem zero_weight_zero_entry (eps : Rat) (ks : List KernelInput) (o : Nat) (pid : Int) (n j : Nat) (hj : j < n)
    (h : ∀ k ∈ ks, k.weight pid = 0) : (operatorRow eps ks o pid n).getD j 0 = 0 := by
  rw [operator_entry eps ks o pid n j hj]
  unfold sumEntries
  have : ∀ (l : List KernelInput) (a : Rat), (∀ k ∈ l, k.weight pid = 0) →
      l.foldl (fun acc k => acc + kernelEntry eps k o pid j) a = a := by
    intro l
    induction l with
    | nil => intro a _; rfl
    | cons k rest ih =>
      intro a hk
      simp only [List.foldl_cons]
      have hz : kernelEntry eps k o pid j = 0 := by
        unfold kernelEntry
        split
        · simp [hk k (by simp)]
        · rfl
      rw [hz, add_zero]
      exact ih a (fun k' hk' => hk k' (List.mem_cons_of_mem _ hk'))
  exact this ks 0 h

/-- an inactive order or an empty coefficient (`None`) contributes nothing; an empty `RSL()`
(all three parts absent) convolves to zero -/
theorem inactive_contributes_nothing (eps : Rat) (k : KernelInput) (o : Nat) (pid : Int) (j : Nat)
    (h : (k.orders o).active = false ∨ (k.orders o).parts = none) : kernelEntry eps k o pid j = 0 := by
  unfold kernelEntry
  rcases h with h | h <;> simp [h]

theorem empty_rsl_convolves_to_zero (eps point : Rat) (bs : Bool) (quad pdfAt : Rat) :
    convolutionModel eps point bs RslParts.empty quad pdfAt = 0 := by
  simp [convolutionModel, RslParts.empty]

/-! ## (B) meaning over the reals -/

/-- the convolution of an `RSL` with a function `g`, at the point `χ`:
regular part, plus-distribution and local (delta and `−∫₀^χ sing`) part -/
noncomputable def convR (reg sing loc : ℝ → ℝ) (χ : ℝ) (g : ℝ → ℝ) : ℝ :=
  (∫ z in χ..1, reg z * (g (χ / z) / z)) + (∫ z in χ..1, sing z * (g (χ / z) / z - g χ)) + g χ * loc χ

/-- **linearity**: the contraction of the entries `conv(p_j)` with node values is `conv` of the
interpolant -/
theorem contraction_is_conv_of_interpolant (reg sing loc : ℝ → ℝ) (χ : ℝ) (n : Nat) (p : Nat → ℝ → ℝ) (f : Nat → ℝ)
    (hreg : ∀ j, IntervalIntegrable (fun z => reg z * (p j (χ / z) / z)) MeasureTheory.volume χ 1)
    (hsing : ∀ j, IntervalIntegrable (fun z => sing z * (p j (χ / z) / z - p j χ)) MeasureTheory.volume χ 1) :
    (∑ j ∈ Finset.range n, f j * convR reg sing loc χ (p j))
      = convR reg sing loc χ (fun u => ∑ j ∈ Finset.range n, f j * p j u) := by
  unfold convR
  have h1 : (∫ z in χ..1, reg z * ((∑ j ∈ Finset.range n, f j * p j (χ / z)) / z))
      = ∑ j ∈ Finset.range n, f j * ∫ z in χ..1, reg z * (p j (χ / z) / z) := by
    rw [show (fun z => reg z * ((∑ j ∈ Finset.range n, f j * p j (χ / z)) / z))
        = fun z => ∑ j ∈ Finset.range n, f j * (reg z * (p j (χ / z) / z)) from by
      funext z; rw [Finset.sum_div, Finset.mul_sum]; apply Finset.sum_congr rfl; intro j _; ring]
    rw [intervalIntegral.integral_finsetSum (fun j _ => (hreg j).const_mul (f j))]
    apply Finset.sum_congr rfl
    intro j _
    rw [intervalIntegral.integral_const_mul]
  have h2 : (∫ z in χ..1, sing z * ((∑ j ∈ Finset.range n, f j * p j (χ / z)) / z - ∑ j ∈ Finset.range n, f j * p j χ))
      = ∑ j ∈ Finset.range n, f j * ∫ z in χ..1, sing z * (p j (χ / z) / z - p j χ) := by
    rw [show (fun z => sing z * ((∑ j ∈ Finset.range n, f j * p j (χ / z)) / z - ∑ j ∈ Finset.range n, f j * p j χ))
        = fun z => ∑ j ∈ Finset.range n, f j * (sing z * (p j (χ / z) / z - p j χ)) from by
      funext z
      rw [Finset.sum_div, ← Finset.sum_sub_distrib, Finset.mul_sum]
      apply Finset.sum_congr rfl; intro j _; ring]
    rw [intervalIntegral.integral_finsetSum (fun j _ => (hsing j).const_mul (f j))]
    apply Finset.sum_congr rfl
    intro j _
    rw [intervalIntegral.integral_const_mul]
  rw [h1, h2, Finset.sum_mul, ← Finset.sum_add_distrib, ← Finset.sum_add_distrib]
  apply Finset.sum_congr rfl
  intro j _
  ring

/-- `conv` only looks at `g` on `[χ, 1]` -/
theorem convR_congr (reg sing loc : ℝ → ℝ) (χ : ℝ) (hχ0 : 0 < χ) (hχ1 : χ ≤ 1) (g h : ℝ → ℝ)
    (hgh : ∀ u, χ ≤ u → u ≤ 1 → g u = h u) : convR reg sing loc χ g = convR reg sing loc χ h := by
  unfold convR
  have hχ : g χ = h χ := hgh χ le_rfl hχ1
  have hmem : ∀ z ∈ Set.uIcc χ 1, g (χ / z) = h (χ / z) := by
    intro z hz
    rw [Set.uIcc_of_le hχ1] at hz
    have hz0 : 0 < z := lt_of_lt_of_le hχ0 hz.1
    apply hgh
    · rw [le_div_iff₀ hz0]; nlinarith [hz.2]
    · rw [div_le_one hz0]; exact hz.1
  have e1 : (∫ z in χ..1, reg z * (g (χ / z) / z)) = ∫ z in χ..1, reg z * (h (χ / z) / z) := by
    apply intervalIntegral.integral_congr
    intro z hz
    simp only [hmem z hz]
  have e2 : (∫ z in χ..1, sing z * (g (χ / z) / z - g χ)) = ∫ z in χ..1, sing z * (h (χ / z) / z - h χ) := by
    apply intervalIntegral.integral_congr
    intro z hz
    simp only [hmem z hz, hχ]
  rw [e1, e2, hχ]

/-- **the factorised structure function**: on a logarithmic grid reaching `x = 1`, for a PDF that
is a polynomial of degree ≤ the interpolation degree in `log x`, contracting the operator entries
`χ · conv(p_j)` with the node values of the PDF gives `χ · conv(f)` — for every grid, degree,
coefficient function and convolution point inside the grid -/
theorem contraction_reproduces (x : Nat → ℝ) (hpos : ∀ i, 0 < x i) (hx : StrictMono x) (n d : Nat)
    (hd : 1 ≤ d) (hn : d + 1 ≤ n) (hlast : x (n - 1) = 1)
    (q : Polynomial ℝ) (hq : q.natDegree ≤ d) (reg sing loc : ℝ → ℝ) (χ : ℝ) (h0 : x 0 ≤ χ) (h1 : χ ≤ 1)
    (hreg : ∀ j, IntervalIntegrable (fun z => reg z * (basis (fun i => Real.log (x i)) n d j (Real.log (χ / z)) / z)) MeasureTheory.volume χ 1)
    (hsing : ∀ j, IntervalIntegrable (fun z => sing z * (basis (fun i => Real.log (x i)) n d j (Real.log (χ / z)) / z
        - basis (fun i => Real.log (x i)) n d j (Real.log χ))) MeasureTheory.volume χ 1) :
    (∑ j ∈ Finset.range n, q.eval (Real.log (x j))
        * (χ * convR reg sing loc χ (fun u => basis (fun i => Real.log (x i)) n d j (Real.log u))))
      = χ * convR reg sing loc χ (fun u => q.eval (Real.log u)) := by
  have hχ0 : 0 < χ := lt_of_lt_of_le (hpos 0) h0
  have hmono : StrictMono fun i => Real.log (x i) := fun a b hab => Real.log_lt_log (hpos a) (hx hab)
  have hlin := contraction_is_conv_of_interpolant reg sing loc χ n
    (fun j u => basis (fun i => Real.log (x i)) n d j (Real.log u)) (fun j => q.eval (Real.log (x j))) hreg hsing
  have : (∑ j ∈ Finset.range n, q.eval (Real.log (x j))
        * (χ * convR reg sing loc χ (fun u => basis (fun i => Real.log (x i)) n d j (Real.log u))))
      = χ * ∑ j ∈ Finset.range n, q.eval (Real.log (x j))
          * convR reg sing loc χ (fun u => basis (fun i => Real.log (x i)) n d j (Real.log u)) := by
    rw [Finset.mul_sum]; apply Finset.sum_congr rfl; intro j _; ring
  rw [this, hlin]
  congr 1
  apply convR_congr reg sing loc χ hχ0 h1
  intro u hu0 hu1
  have hupos : 0 < u := lt_of_lt_of_le hχ0 hu0
  have hrep := interpolant_reproduces (fun i => Real.log (x i)) hmono n d hd hn q hq (Real.log u)
    (Real.log_le_log (hpos 0) (le_trans h0 hu0)) (by rw [hlast]; exact Real.log_le_log hupos hu1)
  unfold interpolant at hrep
  rw [sumUpTo_eq] at hrep
  exact hrep

/-! ## (C) soundness of the early exit -/

/-- a basis function whose support ends at or below `χ` (`is_below_x`) has `conv(p_j) = 0`, so
returning `0` without integrating is exact -/
theorem below_support_exit_sound (x : Nat → ℝ) (hpos : ∀ i, 0 < x i) (hx : StrictMono x) (n d : Nat)
    (hd : 1 ≤ d) (hn : d + 1 ≤ n) (hlast : x (n - 1) = 1) (j : Nat) (hj : j < n)
    (reg sing loc : ℝ → ℝ) (χ : ℝ) (hχ0 : 0 < χ) (hχ1 : χ < 1)
    (hb : isBelowX (fun i => Real.log (x i)) n d j (Real.log χ) = true) :
    convR reg sing loc χ (fun u => basis (fun i => Real.log (x i)) n d j (Real.log u)) = 0 := by
  have hmono : StrictMono fun i => Real.log (x i) := fun a b hab => Real.log_lt_log (hpos a) (hx hab)
  have hzero : ∀ u, χ ≤ u → u ≤ 1 → basis (fun i => Real.log (x i)) n d j (Real.log u) = (fun _ : ℝ => (0 : ℝ)) u := by
    intro u hu0 _
    rcases lt_or_eq_of_le hu0 with hlt | heq
    · exact basis_zero_above _ hmono n d hd hn j (Real.log χ) (Real.log u) hb (Real.log_lt_log hχ0 hlt)
    · rw [← heq]
      apply basis_zero_of_below _ hmono n d hd hn j (Real.log χ) hb _ hj
      simp only [hlast]
      exact Real.log_lt_log hχ0 hχ1
  rw [convR_congr reg sing loc χ hχ0 hχ1.le _ (fun _ => 0) hzero]
  simp [convR]

/-! ## Non-vacuity -/

def sampleKernel (w : Rat) (pt : Rat) : KernelInput :=
  { weight := fun pid => if pid = 2 then w else 0
    point := pt
    orders := fun o => { active := o ≤ 1, parts := if o = 0 then some ⟨none, none, some 1⟩ else if o = 1 then some ⟨some 1, none, none⟩ else none,
                         below := fun j => j == 0, quad := fun j => (j : Rat) + 1, pdfAt := fun j => if j = 1 then 1 else 0 } }

example : operatorRow (1/10000000000) [sampleKernel 3 (1/2), sampleKernel 5 (1/4)] 0 2 3 = [0, 3 * (1/2) + 5 * (1/4), 0]
    ∧ operatorRow (1/10000000000) [sampleKernel 3 (1/2), sampleKernel 5 (1/4)] 1 2 3 = [0, 3 * (1/2 * 2) + 5 * (1/4 * 2), 3 * (1/2 * 3) + 5 * (1/4 * 3)]
    ∧ operatorRow (1/10000000000) [sampleKernel 3 (1/2)] 1 1 3 = [0, 0, 0]
    ∧ operatorRow (1/10000000000) [sampleKernel 3 (1/2)] 2 2 3 = [0, 0, 0] := by
  decide +kernel

end Yadism.C01
