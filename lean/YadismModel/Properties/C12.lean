/-
C12 — nuclear target = isospin rotation of up and down.

`Combiner.apply_isospin` rewrites the weights of pids ±1 (d) and ±2 (u) of every kernel.  The
theorems say that contracting the rotated operator with any PDF is the same as contracting the
`Z = A = 1` operator with the documented mixtures, for every kernel list, every `conv`
(coefficient function, order, grid index, scale-variation key) and all rational `Z, A`.
The named-target table is in `Model/Compat.lean` and is proved equal to the documented values in
`named_targets`.
-/
import YadismModel.Lemmas.Basic
import YadismModel.Model.Compat

namespace Yadism.C12

open Yadism

/-- the PDF seen by a nucleus with `Z` protons out of `A` nucleons, per nucleon:
`u' = (Z u + (A-Z) d)/A`, `d' = (Z d + (A-Z) u)/A`, same for the antiquarks (pid 1 = d, 2 = u) -/
def rotPdf (z a : Rat) (f : Int → Rat) : Int → Rat := fun p =>
  if p = 2 ∨ p = -2 then (z * f p + (a - z) * f (p / 2)) / a
  else if p = 1 ∨ p = -1 then (z * f p + (a - z) * f (2 * p)) / a
  else f p

/-- contraction over the 14-pid basis, written out -/
def dot (w f : Int → Rat) : Rat := listSum (flavorBasisPids.map fun p => w p * f p)

theorem isospin_dot (z a : Rat) (w f : Int → Rat) :
    dot (isospin z a w) f = dot w (rotPdf z a f) := by
  simp [dot, flavorBasisPids, isospin, rotPdf]
  ring

/-- proton: `Z = A = 1` leaves every weight untouched -/
theorem isospin_proton (w : PMap) : isospin 1 1 w = w := by
  funext p
  unfold isospin
  split
  · simp
  · split <;> simp

/-- neutron: `Z = 0, A = 1` exchanges the u and d weights (and ū, d̄) -/
theorem isospin_neutron (w : PMap) :
    isospin 0 1 w 1 = w 2 ∧ isospin 0 1 w 2 = w 1 ∧ isospin 0 1 w (-1) = w (-2) ∧
    isospin 0 1 w (-2) = w (-1) ∧ ∀ p, p ≠ 1 → p ≠ -1 → p ≠ 2 → p ≠ -2 → isospin 0 1 w p = w p := by
  refine ⟨by simp [isospin], by simp [isospin], by simp [isospin], by simp [isospin], ?_⟩
  intro p h1 h2 h3 h4
  simp [isospin, h1, h2, h3, h4]

theorem opEntry_isospin (ks : List Kernel) (z a : Rat) (conv : ChanId → Rat) (p : Int) :
    opEntry (ks.map (Kernel.isospin z a)) conv p
      = isospin z a (fun p' => opEntry ks conv p') p := by
  induction ks with
  | nil => simp [opEntry, isospin]
  | cons k ks ih =>
    simp only [List.map_cons, opEntry_cons, ih]
    simp only [Kernel.isospin, isospin]
    split
    · ring
    · split <;> ring

/-- **Isospin = PDF rotation.**  For every configuration the contraction of the operator of a
`(Z, A)` target with a PDF `f` equals the contraction of the *same kernel list without isospin*
(the proton operator, by `isospin_proton`) with the rotated PDF. -/
theorem isospin_is_pdf_rotation (ks : List Kernel) (z a : Rat) (conv : ChanId → Rat) (f : Int → Rat) :
    contract (ks.map (Kernel.isospin z a)) conv f = contract ks conv (rotPdf z a f) := by
  have h := isospin_dot z a (fun p => opEntry ks conv p) f
  simp only [dot] at h
  simp only [contract, opEntry_isospin]
  exact h

/-- …in particular for the Combiner's output: target `(Z,A)` vs proton. -/
theorem target_vs_proton (e : Env) (fl : Flavor) (pa : Parts) (conv : ChanId → Rat) (f : Int → Rat) :
    contract (collectElems e fl pa) conv f
      = contract (collectElems { e with z := 1, a := 1 } fl pa) conv (rotPdf e.z e.a f) := by
  have hc : collect { e with z := 1, a := 1 } fl pa = collect e fl pa := rfl
  simp only [collectElems, hc]
  rw [isospin_is_pdf_rotation]
  congr 1
  have : (fun k => Kernel.isospin 1 1 k) = id := by
    funext k; simp [Kernel.isospin, isospin_proton]
  simp [this]

/-- the rotation commutes with sums of kernel lists and with scalar multiples of `conv`, hence
with the scale-variation projectors (which act linearly on `conv` and on the weights) -/
theorem isospin_linear (z a : Rat) (w₁ w₂ : PMap) (k : Rat) (p : Int) :
    isospin z a (fun q => w₁ q + k * w₂ q) p = isospin z a w₁ p + k * isospin z a w₂ p := by
  unfold isospin
  split
  · ring
  · split <;> ring

/-! ## Named targets -/

/-- documented `(Z, A)`: proton, neutron, isoscalar (deuteron), iron (NuTeV steel survey), lead,
neon, marble (CaCO3 averaged) -/
theorem named_targets :
    namedTarget "proton" = some (1, 1) ∧ namedTarget "neutron" = some (0, 1) ∧
    namedTarget "isoscalar" = some (1, 2) ∧ namedTarget "iron" = some (23.403, 49.618) ∧
    namedTarget "lead" = some (82, 208) ∧ namedTarget "neon" = some (10, 20) ∧
    namedTarget "marble" = some ((20 + 3 * 8 + 6) / 5, (40 + 3 * 16 + 12) / 5) := by
  decide +kernel

/-! ## Non-vacuity -/
example : isospin (23403/1000) (49618/1000) (fun p => if p = 2 then 1 else 0) 1 ≠ 0 := by
  decide +kernel

end Yadism.C12
