/-
C06 — number of active flavours follows the thresholds and the scheme.

Model: `Model/Compat.lean` (`walls`, `digitize`, `nfDefault`, `updateFns`, `matchingScales`).
All statements are exact on rationals (every double is one) extended by `+∞`.
-/
import YadismModel.Model.Compat
import Mathlib.Tactic.Ring
import Mathlib.Tactic.Linarith
import Mathlib.Tactic.IntervalCases
import Mathlib.Algebra.Order.Field.Rat

namespace Yadism.C06

open Yadism

/-- number of matching scales `≤ q2` -/
def passed (q2 : Rat) (ms : List ExtRat) : Nat := (ms.filter fun w => w.le (.fin q2)).length

/-- **Counting rule.** For `Q² ≥ 0`, whatever the (monotone) thresholds are, the number of active
flavours is `3 +` the number of matching scales that are `≤ Q²`: a scale equal to `Q²` already
counts, anything above does not — and the thresholds enter only through that number. -/
theorem nf_counts_thresholds (q2 : Rat) (hq : 0 ≤ q2) (ms : List ExtRat)
    (hm : monotone (walls ms) = true) : nfDefault q2 ms = some (3 + passed q2 ms) := by
  have h0 : ExtRat.le (.fin 0) (.fin q2) = true := by simp [ExtRat.le, hq]
  have hi : ExtRat.le .inf (.fin q2) = false := by simp [ExtRat.le]
  unfold nfDefault
  rw [if_pos hm]
  simp only [digitize, walls, passed, List.filter_append, List.length_append, List.filter_cons,
    List.filter_nil, h0, hi, if_true, List.length_cons, List.length_nil]
  congr 1
  simp
  omega

/-- non-monotone walls are rejected (numpy raises) — never a silent wrong count -/
theorem nf_rejects_unsorted (q2 : Rat) (ms : List ExtRat) (hm : monotone (walls ms) = false) :
    nfDefault q2 ms = none := by
  simp [nfDefault, hm]

/-- at, below and above one threshold `t` (the other scales fixed): the count changes exactly at
`Q² = t`, with `Q² = t` on the upper side -/
theorem threshold_boundary (t q2 : Rat) :
    passed q2 [ExtRat.fin t] = (if t ≤ q2 then 1 else 0) := by
  by_cases h : t ≤ q2 <;> simp [passed, ExtRat.le, h]

theorem passed_inf (q2 : Rat) : passed q2 [ExtRat.inf] = 0 := by simp [passed, ExtRat.le]

theorem passed_zero (q2 : Rat) (hq : 0 ≤ q2) : passed q2 [ExtRat.fin 0] = 1 := by
  simp [passed, ExtRat.le, hq]

theorem passed_append (q2 : Rat) (a b : List ExtRat) :
    passed q2 (a ++ b) = passed q2 a + passed q2 b := by
  simp [passed, List.filter_append]

/-- **Fixed-flavour schemes**: after `update_fns` with FFNS, FFN0 or FONLL-* and `NfFF = n`
(3 ≤ n ≤ 6), the active-flavour number is `n` at *every* `Q² ≥ 0`, for any masses and any card
values of the threshold ratios. -/
theorem ffns_constant (s : Scheme) (hs : s ≠ .ZM) (n : Nat) (h3 : 3 ≤ n) (h6 : n ≤ 6)
    (m2 k2 : List Rat) (q2 : Rat) (hq : 0 ≤ q2) :
    nfDefault q2 (matchingScales s n m2 k2) = some n := by
  cases s <;> first | exact absurd rfl hs | skip
  all_goals
    interval_cases n <;>
      simp [nfDefault, matchingScales, matchingScale, updateFns, walls, monotone, ExtRat.le,
        digitize, List.range, List.range.loop, hq]

/-- ZM-VFNS keeps the card's thresholds: matching scale `= m²·k²` -/
theorem zm_keeps_thresholds (n : Nat) (m2 k2 : List Rat) :
    matchingScales .ZM n m2 k2
      = [ExtRat.fin (m2.getD 0 1 * k2.getD 0 1), ExtRat.fin (m2.getD 1 1 * k2.getD 1 1),
         ExtRat.fin (m2.getD 2 1 * k2.getD 2 1)] := by
  simp [matchingScales, matchingScale, updateFns, List.range, List.range.loop]

/-- mass flags: fixed-flavour schemes make exactly the quarks above `NfFF` massive (FONLL: only
the first one), ZM-VFNS none -/
theorem zm_flags (s : Scheme) (n k : Nat) :
    (updateFns s n k).2 = some (match s with
      | .ZM => true
      | .FFNS | .FFN0 => decide (k + 4 ≤ n)
      | .FONLL_FFNS | .FONLL_FFN0 => decide (k + 4 ≤ n) || decide (k + 4 > n + 1)) := by
  cases s <;> simp only [updateFns]
  · by_cases h : k + 4 ≤ n <;> simp [h]
  · by_cases h : k + 4 ≤ n <;> simp [h]
  · by_cases h : k + 4 ≤ n
    · simp [h]
    · by_cases h' : k + 4 > n + 1 <;> simp [h, h'] <;> omega
  · by_cases h : k + 4 ≤ n
    · simp [h]
    · by_cases h' : k + 4 > n + 1 <;> simp [h, h'] <;> omega

/-! Non-vacuity: sorted thresholds, the three regimes around one wall -/
example : nfDefault 4 [.fin (9/4), .fin 24, .fin 29756] = some 4 := by decide +kernel
example : nfDefault (9/4) [.fin (9/4), .fin 24, .fin 29756] = some 4 := by decide +kernel
example : nfDefault (9/4 - 1/1000000) [.fin (9/4), .fin 24, .fin 29756] = some 3 := by decide +kernel
example : nfDefault 4 [.fin 24, .fin (9/4), .fin 29756] = none := by decide +kernel

end Yadism.C06
