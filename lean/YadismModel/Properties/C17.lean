/-
C17: applying a PDF contracts the operator with the right scales and couplings.
The contraction part (`ESFResult.apply_pdf`) is modelled and proved; the construction of the strong
coupling from the theory card (`Output.apply_pdf_theory`, eko `Couplings`) is external and only
observed by the search (PARTIAL, see DESIGN.md).
-/
import YadismModel.Model.ApplyPdf
import YadismModel.Lemmas.Basic

namespace Yadism.C17

open Yadism

theorem rpow_eq_pow (b : Rat) (n : Nat) : rpow b n = b ^ n := by
  induction n with
  | zero => simp [rpow]
  | succ n ih => simp [rpow, ih, pow_succ]; ring

/-- the special-cased `1.0 if power == 0` agrees with the mathematical `L⁰ = 1` for every `L`
(also `L = 0`, i.e. `ξ = 1`) -/
theorem log_power_zero_is_one (L : Rat) (n : Nat) : logPow L n = L ^ n := by
  unfold logPow
  split
  · next h => subst h; simp
  · exact rpow_eq_pow L n

/-- **The documented formula**: sum over stored orders of
`a_s^k α^l ln(1/ξR²)^i ln(1/ξF²)^j Σ_{a,j} v_{aj} f_a(x_j)/x_j` over the flavours the PDF provides. -/
theorem apply_pdf_formula (orders : List (OKey × (Nat → Nat → Rat))) (e : PdfEnv) :
    applyPdf orders e
      = listSum (orders.map fun (o, v) =>
          e.as ^ o.as * e.aem ^ o.aem * e.LR ^ o.lnR * e.LF ^ o.lnF *
            listSum ((List.range e.npid).map fun a =>
              listSum ((List.range e.ngrid).map fun j => v a j * (if e.has a then e.f a j else 0)))) := by
  unfold applyPdf
  congr 1
  apply List.map_congr_left
  intro ⟨o, v⟩ _
  simp only [rpow_eq_pow, log_power_zero_is_one, einsum, maskedPdf]

theorem einsum_add (n m : Nat) (v f g : Nat → Nat → Rat) :
    einsum n m v (fun a j => f a j + g a j) = einsum n m v f + einsum n m v g := by
  unfold einsum
  rw [← listSum_map_add]
  congr 1
  apply List.map_congr_left
  intro a _
  rw [← listSum_map_add]
  congr 1
  apply List.map_congr_left
  intro j _
  ring

theorem einsum_smul (n m : Nat) (v f : Nat → Nat → Rat) (k : Rat) :
    einsum n m v (fun a j => k * f a j) = k * einsum n m v f := by
  unfold einsum
  rw [← listSum_map_mul_left]
  congr 1
  apply List.map_congr_left
  intro a _
  rw [← listSum_map_mul_left]
  congr 1
  apply List.map_congr_left
  intro j _
  ring

/-- **Linearity in the PDF** (same flavour content): `apply_pdf(k·f + g) = k·apply_pdf(f) + apply_pdf(g)` -/
theorem linear_in_pdf (orders : List (OKey × (Nat → Nat → Rat))) (e : PdfEnv)
    (f g : Nat → Nat → Rat) (k : Rat) :
    applyPdf orders { e with f := fun a j => k * f a j + g a j }
      = k * applyPdf orders { e with f := f } + applyPdf orders { e with f := g } := by
  unfold applyPdf
  rw [← listSum_map_mul_left, ← listSum_map_add]
  congr 1
  apply List.map_congr_left
  intro ⟨o, v⟩ _
  have h : maskedPdf e.has (fun a j => k * f a j + g a j)
      = fun a j => k * maskedPdf e.has f a j + maskedPdf e.has g a j := by
    funext a j; unfold maskedPdf; split <;> simp
  simp only [h, einsum_add, einsum_smul]
  ring

/-- **Flavours the PDF does not provide are ignored**: whatever `xfxQ2` would return for them -/
theorem ignores_missing_flavors (orders : List (OKey × (Nat → Nat → Rat))) (e : PdfEnv)
    (f' : Nat → Nat → Rat) (h : ∀ a j, e.has a = true → f' a j = e.f a j) :
    applyPdf orders { e with f := f' } = applyPdf orders e := by
  unfold applyPdf
  congr 1
  apply List.map_congr_left
  intro ⟨o, v⟩ _
  have : maskedPdf e.has f' = maskedPdf e.has e.f := by
    funext a j; unfold maskedPdf; split
    · next hh => exact h a j hh
    · rfl
  simp [this]

/-- orders combine additively (the result is a sum over the stored order keys) -/
theorem apply_pdf_append (o1 o2 : List (OKey × (Nat → Nat → Rat))) (e : PdfEnv) :
    applyPdf (o1 ++ o2) e = applyPdf o1 e + applyPdf o2 e := by
  simp [applyPdf, listSum_append]

/-! Non-vacuity -/
example : applyPdf [(⟨1, 0, 1, 2⟩, fun a j => (a + j : Nat))]
    { as := 1/10, aem := 1, LR := 2, LF := 3, npid := 2, ngrid := 2, has := fun a => a == 1,
      f := fun _ _ => 1 } = 1/10 * 2 * 9 * 3 := by decide +kernel

end Yadism.C17
