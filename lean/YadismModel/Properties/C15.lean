/-
C15: serialised output round-trips losslessly (data-model level; numbers and tensors opaque).
-/
import YadismModel.Model.Serialize

namespace Yadism.C15

open Yadism Yadism.Ser

variable {ν τ : Type}

theorem keyOfList_keyToList (k : OKey) : keyOfList (keyToList k) = k := rfl

/-- `from_document(get_raw(r)) = r` -/
theorem from_document_get_raw (r : Res ν τ) : fromDocument (getRaw r) = r := by
  cases r with
  | mk x q2 nf y orders =>
    simp only [getRaw, fromDocument, List.map_map]
    congr
    have : ((fun x : List Nat × τ × τ => (keyOfList x.1, x.2.1, x.2.2)) ∘
        fun x : OKey × τ × τ => (keyToList x.1, x.2.1, x.2.2)) = id := by
      funext ⟨k, v, e⟩; simp [keyOfList_keyToList]
    simp [this]

/-- **YAML round trip**, any observable value (None, empty, any list of results, any orders) -/
theorem yaml_roundtrip (o : Obs ν τ) : loadYamlObs (dumpYamlObs o) = o := by
  cases o with
  | none => rfl
  | list rs =>
    simp only [dumpYamlObs, loadYamlObs, List.map_map]
    congr
    have : (fromDocument ∘ getRaw : Res ν τ → Res ν τ) = id := by
      funext r; exact from_document_get_raw r
    simp [this]

/-- idempotence under repeated cycles -/
theorem yaml_roundtrip_twice (o : Obs ν τ) :
    loadYamlObs (dumpYamlObs (loadYamlObs (dumpYamlObs o))) = o := by
  rw [yaml_roundtrip, yaml_roundtrip]

/-! ## tar -/

theorem zip3_map {α β γ δ : Type} (l : List δ) (f : δ → α) (g : δ → β) (h : δ → γ) :
    zip3 (l.map f) (l.map g) (l.map h) = l.map fun d => (f d, g d, h d) := by
  induction l with
  | nil => rfl
  | cons d ds ih => simp [zip3, ih]

theorem zip_map {α β δ : Type} (l : List δ) (f : δ → α) (g : δ → β) :
    List.zip (l.map f) (l.map g) = l.map fun d => (f d, g d) := by
  induction l with
  | nil => rfl
  | cons d ds ih => simp [ih]

/-- rebuilding one result from the orders of the first one and its own stacked values -/
theorem rebuild_one (keys : List (List Nat)) (r : Res ν τ)
    (hk : r.orders.map (fun o => keyToList o.1) = keys) :
    fromDocument (⟨r.x, r.q2, r.nf, r.y,
      zip3 keys (r.orders.map (·.2.1)) (r.orders.map (·.2.2))⟩ : RawRes ν τ) = r := by
  subst hk
  rw [zip3_map]
  have := from_document_get_raw r
  simp only [getRaw] at this
  exact this

/-- the `y` column written by `dump_tar` and read back by `load_tar` -/
theorem ycol_roundtrip (all : List (Res ν τ)) (b : Bool) (h : ∀ r ∈ all, r.y.isSome = b) :
    ycolOf (all.map (·.x)).length (yDump b all) = all.map (·.y) := by
  induction all with
  | nil => cases b <;> simp [ycolOf, yDump]
  | cons r rs ih =>
    have hr := h r (List.mem_cons_self)
    have hrs : ∀ r' ∈ rs, r'.y.isSome = b := fun r' hr' => h r' (List.mem_cons_of_mem _ hr')
    have ih' := ih hrs
    cases b
    · have : r.y = Option.none := by
        cases hy : r.y with
        | none => rfl
        | some v => simp [hy] at hr
      simp [ycolOf, yDump, List.replicate_succ, this] at ih' ⊢
      exact ih'
    · cases hy : r.y with
      | none => simp [hy] at hr
      | some v =>
        simp [ycolOf, yDump, hy] at ih' ⊢
        exact ih'

/-- **tar round trip** for every observable whose results share their order list and class
(what the Runner produces; `dump_tar` asserts it), including `None` and the empty list. -/
theorem tar_roundtrip (o : Obs ν τ)
    (hu : ∀ rs, o = .list rs → ∀ r0 ∈ rs.head?, ∀ r ∈ rs,
      r.orders.map (fun p => keyToList p.1) = r0.orders.map (fun p => keyToList p.1) ∧
      r.y.isSome = r0.y.isSome) :
    loadTarObs (dumpTarObs o) = o := by
  cases o with
  | none => rfl
  | list rs =>
    cases rs with
    | nil => rfl
    | cons r0 rest =>
      have hu' := hu (r0 :: rest) rfl r0 (by simp)
      simp only [dumpTarObs, loadTarObs]
      have hy := ycol_roundtrip (r0 :: rest) r0.y.isSome (fun r hr => (hu' r hr).2)
      rw [hy, zip_map, zip3_map, zip3_map]
      congr 1
      rw [List.map_map]
      refine (List.map_congr_left ?_).trans (List.map_id _)
      intro r hr
      exact rebuild_one _ r (hu' r hr).1

/-- repeated cycles -/
theorem tar_roundtrip_twice (o : Obs ν τ)
    (hu : ∀ rs, o = .list rs → ∀ r0 ∈ rs.head?, ∀ r ∈ rs,
      r.orders.map (fun p => keyToList p.1) = r0.orders.map (fun p => keyToList p.1) ∧
      r.y.isSome = r0.y.isSome) :
    loadTarObs (dumpTarObs (loadTarObs (dumpTarObs o))) = o := by
  rw [tar_roundtrip o hu, tar_roundtrip o hu]

/-- the Runner's results are uniform: every point of an observable is initialised with the same
`build_orders(pto)` key list (`compute_local`), and cross sections with the union of their
structure functions' keys, which is that same list -/
theorem runner_orders_uniform (pto : Nat) (vals : List (OKey → τ × τ)) :
    ∀ v ∈ vals, ∀ v0 ∈ vals.head?,
      ((buildOrders pto).map fun k => (k, v k)).map (fun p => keyToList p.1)
        = ((buildOrders pto).map fun k => (k, v0 k)).map (fun p => keyToList p.1) := by
  intro v _ v0 _
  simp [List.map_map]

/-! Non-vacuity: a two-point cross-section observable with two orders -/
def sample : Obs Nat Nat :=
  .list [{ x := 1, q2 := 2, nf := none, y := some 3, orders := [(⟨0,0,0,0⟩, 10, 11), (⟨1,0,0,1⟩, 12, 13)] },
         { x := 4, q2 := 5, nf := some 4, y := some 6, orders := [(⟨0,0,0,0⟩, 20, 21), (⟨1,0,0,1⟩, 22, 23)] }]

example : loadTarObs (dumpTarObs sample) = sample := by
  apply tar_roundtrip
  intro rs h r0 hr0 r hr
  simp only [sample, Obs.list.injEq] at h
  subst h
  simp at hr0 hr
  subst hr0
  rcases hr with rfl | rfl <;> simp [keyToList]

end Yadism.C15
