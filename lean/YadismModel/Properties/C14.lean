/-
C14: results do not depend on request history or cache state.

Refinement to the memo-less specification: for **every** sequence of `get_esf` requests and cache
drops (whatever the Runner loop, TMC and cross sections generate, in whatever order, with
duplicates), every request is answered with an object constructed from *its own* observable,
kinematic point and TMC flag.  Since an ESF object's result is a deterministic function of what it
was constructed with (`compute`, a parameter; the local memo `_computed/res` only stores that
value and `get_result` hands out a deep copy), the result returned for a point is the one a fresh,
history-free evaluation gives.
-/
import YadismModel.Model.Cache
import YadismModel.Generated.Memo
import Mathlib.Tactic.Ring
import Mathlib.Tactic.Linarith
import Mathlib.Data.List.Basic

namespace Yadism.C14

open Yadism.Cache

/-- a well-formed dict determines its sorted values from the three lookups -/
theorem sortedValues_wf (k : Kin) (h : k.wf = true) :
    ∃ a b, k.get? .Q2 = some a ∧ k.get? .x = some b ∧
      k.sortedValues = a :: b :: (match k.get? .y with | some c => [c] | none => []) := by
  simp only [Kin.wf, Bool.and_eq_true] at h
  obtain ⟨⟨_, hx⟩, hq⟩ := h
  obtain ⟨a, ha⟩ := Option.isSome_iff_exists.mp hq
  obtain ⟨b, hb⟩ := Option.isSome_iff_exists.mp hx
  refine ⟨a, b, ha, hb, ?_⟩
  cases hy : k.get? .y <;> simp [Kin.sortedValues, ha, hb, hy]

/-- **The cache key determines the point**: two well-formed kinematics dicts with the same sorted
values denote the same `(x, Q², y)`, whatever their insertion orders. -/
theorem key_injective (k1 k2 : Kin) (h1 : k1.wf = true) (h2 : k2.wf = true)
    (h : k1.sortedValues = k2.sortedValues) : k1.point = k2.point := by
  obtain ⟨a1, b1, ha1, hb1, hs1⟩ := sortedValues_wf k1 h1
  obtain ⟨a2, b2, ha2, hb2, hs2⟩ := sortedValues_wf k2 h2
  rw [hs1, hs2] at h
  simp only [Kin.point, ha1, hb1, ha2, hb2]
  cases hy1 : k1.get? .y <;> cases hy2 : k2.get? .y <;> simp [hy1, hy2] at h ⊢ <;> simp_all

/-- the invariant: every cache entry of observable `obs` was created by a well-formed request for
`obs` under that request's key -/
def Inv (tmcOn : Bool) (s : State) : Prop :=
  ∀ obs k o, (k, o) ∈ s.cacheOf obs →
    ∃ r : Req, r.kin.wf = true ∧ r.obs = obs ∧ k = r.key tmcOn ∧ o = r.fresh tmcOn

theorem inv_empty (tmcOn : Bool) : Inv tmcOn State.empty := by
  intro obs k o h; simp [State.empty, State.cacheOf] at h

theorem lookup_mem (c : List (Key × Obj)) (k : Key) (o : Obj) (h : lookup c k = some o) :
    (k, o) ∈ c := by
  unfold lookup at h
  cases hf : c.find? (fun e => e.1 = k) with
  | none => simp [hf] at h
  | some e =>
    simp [hf] at h
    have hm := List.mem_of_find?_eq_some hf
    have hk := List.find?_some hf
    simp at hk
    subst h
    rw [← hk]
    exact hm

/-- a request answered from the cache gets an object equal to the one a fresh construction
would give -/
theorem hit_is_fresh (tmcOn : Bool) (s : State) (hs : Inv tmcOn s) (r : Req) (hr : r.kin.wf = true)
    (o : Obj) (h : lookup (s.cacheOf r.obs) (r.key tmcOn) = some o) : o = r.fresh tmcOn := by
  obtain ⟨r', hwf, hobs, hkey, ho⟩ := hs r.obs _ o (lookup_mem _ _ _ h)
  subst ho
  simp only [Req.key, Key.mk.injEq] at hkey
  obtain ⟨hv, hf⟩ := hkey
  have hp := key_injective r.kin r'.kin hr hwf hv
  simp only [Req.fresh, hobs, hp, hf]

/-- one step preserves the invariant and answers correctly -/
theorem step_correct (tmcOn : Bool) (s : State) (hs : Inv tmcOn s) (op : Op)
    (hop : ∀ r, op = .get r → r.kin.wf = true) :
    Inv tmcOn (step tmcOn s op).1 ∧ ∀ r, op = .get r → (step tmcOn s op).2 = some (r.fresh tmcOn) := by
  cases op with
  | drop => exact ⟨inv_empty tmcOn, by intro r h; cases h⟩
  | get r =>
    have hr := hop r rfl
    simp only [step]
    cases hl : lookup (s.cacheOf r.obs) (r.key tmcOn) with
    | some o =>
      refine ⟨hs, ?_⟩
      intro r' h'; cases h'
      simp [hit_is_fresh tmcOn s hs r hr o hl]
    | none =>
      refine ⟨?_, ?_⟩
      · intro obs k o hmem
        simp only [State.setCache, State.cacheOf] at hmem
        by_cases hob : obs = r.obs
        · simp only [hob, if_true, List.mem_append, List.mem_singleton] at hmem
          rcases hmem with hmem | hmem
          · have := hs r.obs k o hmem
            rw [hob]; exact this
          · simp only [Prod.mk.injEq] at hmem
            exact ⟨r, hr, hob.symm, hmem.1, hmem.2⟩
        · simp only [hob, if_false] at hmem
          exact hs obs k o hmem
      · intro r' h'; cases h'; rfl

/-- **History independence.**  From any state satisfying the invariant (in particular the empty
one), for every list of operations whose requests are well formed, the `i`-th answer of a `get r`
is the object a fresh construction for `r` yields. -/
theorem history_independence (tmcOn : Bool) (ops : List Op) (s : State) (hs : Inv tmcOn s)
    (hops : ∀ op ∈ ops, ∀ r, op = .get r → r.kin.wf = true) :
    (run tmcOn s ops).2 = ops.map fun op => match op with
      | .get r => some (r.fresh tmcOn)
      | .drop => none := by
  induction ops generalizing s with
  | nil => rfl
  | cons op ops ih =>
    have hstep := step_correct tmcOn s hs op (fun r h => hops op (List.mem_cons_self) r h)
    simp only [run, List.map_cons]
    have ih' := ih (step tmcOn s op).1 hstep.1 (fun op' h' => hops op' (List.mem_cons_of_mem _ h'))
    rw [ih']
    congr 1
    cases op with
    | drop => simp [step]
    | get r => exact hstep.2 r rfl

/-- in particular the answer does not depend on which other requests preceded it -/
theorem answer_independent_of_prefix (tmcOn : Bool) (pre1 pre2 : List Op) (r : Req)
    (h1 : ∀ op ∈ pre1, ∀ r', op = .get r' → r'.kin.wf = true)
    (h2 : ∀ op ∈ pre2, ∀ r', op = .get r' → r'.kin.wf = true) (hr : r.kin.wf = true) :
    (run tmcOn State.empty (pre1 ++ [.get r])).2.getLast? =
    (run tmcOn State.empty (pre2 ++ [.get r])).2.getLast? := by
  have a := history_independence tmcOn (pre1 ++ [.get r]) State.empty (inv_empty _)
    (by intro op hop r' h'; simp at hop; rcases hop with hop | hop
        · exact h1 op hop r' h'
        · subst hop; cases h'; exact hr)
  have b := history_independence tmcOn (pre2 ++ [.get r]) State.empty (inv_empty _)
    (by intro op hop r' h'; simp at hop; rcases hop with hop | hop
        · exact h2 op hop r' h'
        · subst hop; cases h'; exact hr)
  rw [a, b]; simp

/-! ## The pre-fix key was not injective: witness (kept as a regression fact) -/

/-- `tuple(kinematics.values())` in insertion order -/
def insertionValues (k : Kin) : List Rat := k.map (·.2)

theorem insertion_key_collides :
    insertionValues [(.x, 1/2), (.Q2, 7/10)] = insertionValues [(.Q2, 1/2), (.x, 7/10)] ∧
    Kin.point [(.x, 1/2), (.Q2, 7/10)] ≠ Kin.point [(.Q2, 1/2), (.x, 7/10)] := by
  decide +kernel

/-- …while the sorted key separates them -/
example : Kin.sortedValues [(.x, 1/2), (.Q2, 7/10)] ≠ Kin.sortedValues [(.Q2, 1/2), (.x, 7/10)] := by
  decide +kernel

/-! ## Results land at their original index whatever the Q² order -/

theorem insertByQ2_perm (e : Nat × Rat) (l : List (Nat × Rat)) :
    (insertByQ2 e l).Perm (e :: l) := by
  induction l with
  | nil => simp [insertByQ2]
  | cons h t ih =>
    simp only [insertByQ2]
    split
    · exact List.Perm.refl _
    · exact (List.Perm.cons h ih).trans (List.Perm.swap e h t)

theorem sortByQ2_perm (l : List (Nat × Rat)) : (sortByQ2 l).Perm l := by
  induction l with
  | nil => simp [sortByQ2]
  | cons h t ih =>
    simp only [sortByQ2, List.foldr_cons] at *
    exact (insertByQ2_perm h _).trans (List.Perm.cons h ih)

/-- Non-vacuity of the refinement: a history with a duplicate, a Q²-first dict and a drop -/
example : (run true State.empty
    [.get ⟨0, [(.x, 1/2), (.Q2, 7/10)], false⟩, .get ⟨0, [(.Q2, 1/2), (.x, 7/10)], false⟩,
     .get ⟨0, [(.Q2, 7/10), (.x, 1/2)], false⟩, .drop, .get ⟨0, [(.x, 1/2), (.Q2, 7/10)], true⟩]).2
    = [some ⟨0, ⟨1/2, 7/10, none⟩, true⟩, some ⟨0, ⟨7/10, 1/2, none⟩, true⟩,
       some ⟨0, ⟨1/2, 7/10, none⟩, true⟩, none, some ⟨0, ⟨1/2, 7/10, none⟩, false⟩] := by
  decide +kernel

/-! ## Memo tables in general

Every cache of the code base (structure-function objects, scale-variation operators, projector
matrices, interpolators of N3LO grids) is a memo table: `tbl[key i]` is filled with `compute i` on a
miss and returned on a hit.  It is transparent — every answer of every history equals `compute` of
the request — exactly when the key determines the value; a key that forgets something the value
depends on has a two-request history with a wrong answer (the pattern of every seeded "memo" change). -/

structure Memo (I K V : Type) where
  key : I → K
  compute : I → V

variable {I K V : Type} [DecidableEq K]

def Memo.step (m : Memo I K V) (tbl : K → Option V) (i : I) : (K → Option V) × V :=
  match tbl (m.key i) with
  | some v => (tbl, v)
  | none => (fun k => if k = m.key i then some (m.compute i) else tbl k, m.compute i)

/-- run a history from a table, collecting the answers -/
def Memo.run (m : Memo I K V) : (K → Option V) → List I → List V
  | _, [] => []
  | tbl, i :: rest => (m.step tbl i).2 :: m.run (m.step tbl i).1 rest

/-- every stored value was computed from a request with that key -/
def Memo.Inv (m : Memo I K V) (tbl : K → Option V) : Prop :=
  ∀ k v, tbl k = some v → ∃ i, m.key i = k ∧ m.compute i = v

theorem Memo.step_correct (m : Memo I K V) (hkey : ∀ i j, m.key i = m.key j → m.compute i = m.compute j)
    (tbl : K → Option V) (hinv : m.Inv tbl) (i : I) :
    (m.step tbl i).2 = m.compute i ∧ m.Inv (m.step tbl i).1 := by
  unfold Memo.step
  cases h : tbl (m.key i) with
  | some v =>
    obtain ⟨j, hj, hv⟩ := hinv _ _ h
    exact ⟨by simp only; rw [← hv]; exact hkey j i hj, hinv⟩
  | none =>
    refine ⟨rfl, ?_⟩
    intro k v hk
    simp only at hk
    by_cases hk' : k = m.key i
    · simp only [hk', if_true, Option.some.injEq] at hk
      exact ⟨i, hk'.symm, hk⟩
    · simp only [hk', if_false] at hk
      exact hinv k v hk

/-- **history independence of a memo table with a complete key** -/
theorem Memo.run_eq_map (m : Memo I K V) (hkey : ∀ i j, m.key i = m.key j → m.compute i = m.compute j) :
    ∀ (h : List I) (tbl : K → Option V), m.Inv tbl → m.run tbl h = h.map m.compute := by
  intro h
  induction h with
  | nil => intro _ _; rfl
  | cons i rest ih =>
    intro tbl hinv
    obtain ⟨h1, h2⟩ := m.step_correct hkey tbl hinv i
    simp only [Memo.run, List.map, h1, ih _ h2]

omit [DecidableEq K] in
theorem Memo.inv_empty (m : Memo I K V) : m.Inv (fun _ => none) := by
  intro k v h; simp at h

/-- **an incomplete key is observable**: two requests with the same key and different values give
a two-step history whose second answer is wrong -/
theorem Memo.incomplete_key_is_wrong (m : Memo I K V) (i j : I) (hk : m.key i = m.key j)
    (hv : m.compute i ≠ m.compute j) :
    m.run (fun _ => none) [i, j] ≠ [i, j].map m.compute := by
  simp only [Memo.run, Memo.step, List.map]
  simp only [hk, if_true]
  intro h
  simp only [List.cons.injEq, and_true] at h
  exact hv h.2

/-- instance: the scale-variation operator cache `operators[(label, nf)]` of one `ScaleVariations`
object (one interpolation basis): the key is complete iff the operator depends on nothing else -/
example (op : String → Nat → Nat) :
    ∀ h : List (String × Nat),
      (Memo.mk (I := String × Nat) (K := String × Nat) (V := Nat) id (fun p => op p.1 p.2)).run (fun _ => none) h
        = h.map fun p => op p.1 p.2 :=
  fun h => Memo.run_eq_map _ (by intro i j hij; simp only [id] at hij; rw [hij]) h _ (Memo.inv_empty _)


/-! ## The memo tables of the code base, regenerated from the source

`harness/translate_memo.py` walks every module under `src/yadism` and lists each table that a
function fills on a miss and reads on a hit (and each "computed" flag), with the names its key is
built from (`keyVars`), the names the stored value can depend on (`deps`: what the miss branch
reads, local names resolved to parameters and `self` attributes) and which of those are attributes
assigned in `__init__` only (`immutable`: the same for every request to one object). -/

section census
open Yadism.Generated.Memo

def _root_.Yadism.Generated.Memo.Site.covered (s : Site) : Bool :=
  s.deps.all fun d => s.keyVars.contains d || s.immutable.contains d

/-- **every memo table of the code base has a complete key**: whatever a stored value can depend on
is part of the key or fixed for the lifetime of the object that owns the table -/
theorem memo_keys_cover_deps : ∀ s ∈ sites, s.covered = true := by decide

/-- the tables that exist and where — a new table shows up here (the key expressions are not pinned:
`memo_keys_cover_deps` is what constrains them, so renaming a local variable changes nothing) -/
theorem memo_census :
    sites.map (fun s => (s.fn, s.table)) =
      [("yadism.coefficient_functions.heavy.n3lo.__init__.interpolator", "interpolators"),
       ("yadism.esf.esf.EvaluatedStructureFunction.compute_local", "self._computed"),
       ("yadism.esf.scale_variations.ScaleVariations.compute_raw", "self.operators"),
       ("yadism.runner.Runner.get_sf", "self.observables"),
       ("yadism.sf.StructureFunction.get_esf", "self.cache")] := by decide

/-- what coverage buys, for any site and any semantics of its value: requests are environments
(values of the names the function can read); all requests to one object agree on its immutable
attributes; the value depends on the `deps` only; the key is the tuple of the `keyVars`.  Then the
table is transparent: every history of requests is answered exactly as if nothing were stored. -/
theorem covered_site_is_transparent {Val V : Type} [DecidableEq Val] (s : Site) (hs : s.covered = true)
    (fixed : String → Val)
    (compute : (String → Val) → V)
    (hdep : ∀ e e' : String → Val, (∀ n ∈ s.deps, e n = e' n) → compute e = compute e')
    (hist : List {e : String → Val // ∀ n ∈ s.immutable, e n = fixed n}) :
    (Memo.mk (I := {e : String → Val // ∀ n ∈ s.immutable, e n = fixed n}) (K := List Val) (V := V)
        (fun e => s.keyVars.map e.1) (fun e => compute e.1)).run (fun _ => none) hist
      = hist.map fun e => compute e.1 := by
  apply Memo.run_eq_map _ _ hist _ (Memo.inv_empty _)
  intro i j hij
  apply hdep
  intro n hn
  have hc : s.keyVars.contains n || s.immutable.contains n = true := by
    have := List.all_eq_true.mp hs n hn
    simpa using this
  rcases Bool.or_eq_true _ _ |>.mp hc with h | h
  · have hmem : n ∈ s.keyVars := by simpa using h
    exact (List.map_inj_left.mp hij) n hmem
  · have hmem : n ∈ s.immutable := by simpa using h
    rw [i.2 n hmem, j.2 n hmem]


/-- **the only process-wide mutable state** that any function of `src/yadism` changes (module-level
containers, class-level containers, class attributes rebound from inside a function, names rebound
through `global`) is the table of loaded N3LO grids — and that one is a memo table with a complete
key (first entry of `memo_census`).  Everything else a run writes lives in objects created by the
run (`Runner`, `StructureFunction`, `ScaleVariations`, …), so two runners in one process share no
state through which one could influence the other. -/
theorem shared_state_census :
    sharedState = [("yadism.coefficient_functions.heavy.n3lo.__init__", "interpolators")] := by decide

theorem shared_state_is_a_covered_memo :
    ∀ p ∈ sharedState, ∃ s ∈ sites, s.table = p.2 ∧ s.covered = true := by decide

/-- … and the check is not vacuous: a table keyed without something its value reads is rejected
(the shape of the seeded changes C05-2, C06-3, C14-2: an operator table keyed by the label alone) -/
example : Site.covered ⟨"compute_raw", "self.operators", "l", ["self.raw_labels"],
    ["nf", "self.interpolator", "self.raw_labels"], ["self.interpolator", "self.raw_labels"]⟩ = false := by decide

end census

end Yadism.C14
