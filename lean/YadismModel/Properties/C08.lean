/-
C08 — FFN0 is the high-virtuality limit of FFNS: the part Lean can carry.

(1) `*_mirror`: for every configuration the asymptotic (FFN0) generators produce kernels whose
parton weights are *identical* to those of the massive (FFNS) generators for the same heavy quark
— heavy (gluon / singlet / non-singlet), missing and intrinsic (only the `+` combination: the
`Sminus/Rminus` kernels have no asymptotic counterpart).  Hence the FFNS − FFN0 difference of any
operator entry is `Σ_channels w · (C_massive − C_asymptotic)` with the *same* `w`: the statement
reduces to the partonic coefficient functions.
(2) LO limits of the intrinsic coefficient functions and convolution points with explicit rates
are in `Properties/C08Limits.lean` (when present).
The order-by-order decay of the LeProHQ / adani based coefficient functions is **not** provable
from this repository's text; it is observed by the real-run search (see DESIGN.md §6/C08).
-/
import YadismModel.Lemmas.Basic

namespace Yadism.C08

open Yadism

/-- missing: every asymptotic kernel carries the weights of the massive missing kernel -/
theorem missing_mirror (e : Env) (nf ihq : Nat) :
    ∀ k ∈ genMissingAsy e nf ihq, ∀ k' ∈ genMissing e nf ihq, k.partons = k'.partons := by
  intro k hk k' hk'
  by_cases hcc : e.isCC
  · simp [genMissingAsy, hcc] at hk
  · simp [genMissingAsy, hcc, mk] at hk
    simp [genMissing, hcc, mk] at hk'
    obtain ⟨_, _, rfl⟩ := hk
    subst hk'
    rfl

/-- missing is non-empty on both sides exactly for the neutral current -/
theorem missing_nonempty (e : Env) (nf ihq : Nat) (h : e.isCC = false) :
    genMissing e nf ihq ≠ [] ∧ genMissingAsy e nf ihq ≠ [] := by
  simp [genMissing, genMissingAsy, h]

/-- heavy, charged current: quark and gluon weights coincide one to one -/
theorem heavy_cc_mirror (e : Env) (nf ihq : Nat) (h : e.isCC = true) :
    (genHeavyAsy e nf ihq).map (·.partons) = (genHeavy e nf ihq).map (·.partons) := by
  simp [genHeavyAsy, genHeavy, h, mk]

/-- heavy, neutral current: each log-tower `res = 0..pto_evol` repeats the (AA, VV) gluon weights
and the (AA, VV) singlet weights of the massive kernels -/
theorem heavy_nc_mirror (e : Env) (nf ihq : Nat) (h : e.isCC = false) (hpv : e.isPV = false) :
    ∀ k ∈ genHeavyAsy e nf ihq, ∃ k' ∈ genHeavy e nf ihq, k.partons = k'.partons := by
  intro k hk
  simp [genHeavyAsy, h, hpv, mk] at hk
  simp [genHeavy, h, hpv, mk]
  rcases hk with ⟨_, _, hk | hk⟩ | ⟨_, _, hk | hk⟩ <;> subst hk <;> simp

theorem heavy_nc_pv_empty (e : Env) (nf ihq : Nat) (h : e.isCC = false) (hpv : e.isPV = true) :
    genHeavyAsy e nf ihq = [] ∧ genHeavy e nf ihq = [] := by
  simp [genHeavyAsy, genHeavy, h, hpv]

/-- intrinsic: all asymptotic kernels carry the `+` weights of the first massive kernel -/
theorem intrinsic_mirror (e : Env) (nf ihq : Nat) :
    ∀ k ∈ genIntrinsicAsy e nf ihq, k.partons = (intrinsicWeights e ihq).1 ∧
      ((genIntrinsic e ihq).head?.map (·.partons)) = some (intrinsicWeights e ihq).1 := by
  intro k hk
  constructor
  · by_cases hp : 0 < e.ptoEvol <;> simp [genIntrinsicAsy, hp, mk] at hk
    · rcases hk with hk | hk | hk <;> subst hk <;> rfl
    · subst hk; rfl
  · by_cases hcc : e.isCC <;> by_cases hpv : e.isPV <;> simp [genIntrinsic, hcc, hpv, mk]

/-! Non-vacuity -/

end Yadism.C08
