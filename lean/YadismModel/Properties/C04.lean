/-
C04: massless coefficient functions — NLO closed forms and exact sum-rule relations.

`Generated/NLO.lean` lists, for every light class, the regular kernel and the distribution
coefficients its `NLO` method uses (read from the live classes and the syntax tree each run); the
kernels are the generated `KExpr` terms.

Closed forms (all `0 < z < 1`, all `nf`), in the `a_s = α_s/4π` normalisation of the code, written
in the textbook `α_s/2π` form times two (Bardeen et al.; Ellis–Stirling–Webber (4.80);
Furmanski–Petronzio; for `g₁` Kodaira / Zijlstra–van Neerven):
  C_{2,q} = 2 C_F [ 2 (ln(1−z)/(1−z))₊ − 3/2 (1/(1−z))₊ − (1+z) ln(1−z) − (1+z²)/(1−z) ln z + 3 + 2z − (π²/3 + 9/2) δ(1−z) ]
  C_{2,g} = 2·(2 n_f)·T_R [ (z² + (1−z)²) ln((1−z)/z) − 1 + 8 z(1−z) ]
  C_{L,q} = 2·C_F·2z ,  C_{L,g} = 2·(2 n_f)·T_R·4 z(1−z)
  C_{3,q} = C_{2,q} − 2 C_F (1+z)            (and no gluon)
  ΔC_q   = C_{3,q} ,  ΔC_g = 2·(2 n_f)·T_R [ (2z−1)(ln((1−z)/z) − 1) + 2(1−z) ]

Sum rules: the plus-distribution does not contribute to the first moment; exactly,
GLS(NLO) − Adler(NLO) = −3 C_F = −4 and Bjorken(NLO) = GLS(NLO).  The value of the Adler moment
itself involves `∫₀¹ ln z/(1−z) = −π²/6` and, beyond NLO, the fitted parametrisations: those are
checked numerically on the real functions (`harness/checks/c04.py`), not proved.
-/
import YadismModel.Lemmas.NormSound
import YadismModel.Generated.NLO
import Mathlib.Analysis.SpecialFunctions.Trigonometric.Basic
import Mathlib.MeasureTheory.Integral.IntervalIntegral.FundThmCalculus
import Mathlib.Analysis.SpecialFunctions.Integrals.Basic

set_option linter.unusedSectionVars false

namespace Yadism.C04

open Yadism

/-- the constants have their mathematical values -/
structure StdC (c : String → ℝ) : Prop where
  cf : c "CF" = 4 / 3
  tr : c "TR" = 1 / 2
  pi : c "pi" = Real.pi

def env (z nf : ℝ) (c : String → ℝ) : REnv where
  z := z
  args := fun _ => nf
  consts := c
  params := fun _ => 0
  ext1 := fun _ _ => 0
  ext3 := fun _ _ _ _ => 0

def f2Quark : List String := ["f2_nc.NonSinglet", "f2_cc.NonSingletEven", "f2_cc.NonSingletOdd"]
def f2Gluon : List String := ["f2_nc.Gluon", "f2_cc.Gluon"]
def flQuark : List String := ["fl_nc.NonSinglet", "fl_cc.NonSingletEven", "fl_cc.NonSingletOdd"]
def flGluon : List String := ["fl_nc.Gluon", "fl_cc.Gluon"]
def f3Quark : List String := ["f3_nc.NonSinglet", "f3_cc.NonSingletEven", "f3_cc.NonSingletOdd"]
def g1Quark : List String := ["g1_nc.NonSinglet"]
def g1Gluon : List String := ["g1_nc.Gluon"]

/-- every NLO method of every light class of F2, FL, F3, g1 is one of the above, and every method
could be read -/
theorem all_sites_classified :
    (Yadism.Gen.nloSites.all fun s => (f2Quark ++ f2Gluon ++ flQuark ++ flGluon ++ f3Quark ++ g1Quark ++ g1Gluon).contains s.1) = true
    ∧ Yadism.Gen.nloFailed = []
    ∧ ((f2Quark ++ f2Gluon ++ flQuark ++ flGluon ++ f3Quark ++ g1Quark ++ g1Gluon).all fun l =>
        Yadism.Gen.nloSites.any fun s => s.1 == l) = true := by
  decide

/-- the published quark regular part of `F_2` (textbook form, times 2) -/
noncomputable def c2qReg (z : ℝ) : ℝ :=
  2 * (4 / 3) * (-(1 + z) * Real.log (1 - z) - (1 + z ^ 2) / (1 - z) * Real.log z + 3 + 2 * z)

/-- `[δ(1−z), (1/(1−z))₊, (ln(1−z)/(1−z))₊]` coefficients -/
noncomputable def c2qDistr : List ℝ := [2 * (4 / 3) * (-(Real.pi ^ 2 / 3 + 9 / 2)), 2 * (4 / 3) * (-(3 / 2)), 2 * (4 / 3) * 2]

theorem log_ratio (z : ℝ) (h0 : 0 < z) (h1 : z < 1) : Real.log ((1 - z) / z) = Real.log (1 - z) - Real.log z :=
  Real.log_div (by linarith) h0.ne'

section closed
variable (c : String → ℝ) (hc : StdC c) (nf z : ℝ) (h0 : 0 < z) (h1 : z < 1)
include hc h0 h1

theorem f2_quark_closed_form :
    ∀ s ∈ Yadism.Gen.nloSites, s.1 ∈ f2Quark →
      s.2.1.evalR (env z nf c) = c2qReg z ∧ s.2.2.1.map (KExpr.evalR (env z nf c)) = c2qDistr := by
  intro s hs hl
  have hz : (1 : ℝ) - z ≠ 0 := by linarith
  simp only [Yadism.Gen.nloSites, List.mem_cons, List.not_mem_nil, or_false] at hs
  rcases hs with rfl | rfl | rfl | rfl | rfl | rfl | rfl | rfl | rfl | rfl | rfl | rfl | rfl | rfl | rfl <;>
    first
    | (exfalso; revert hl; decide)
    | (constructor
       · simp only [Yadism.Gen.k_light_nlo_f2__ns_reg, KExpr.evalR, env, hc.cf, c2qReg]
         push_cast
         rw [log_ratio z h0 h1]
         field_simp
         ring
       · simp only [List.map, KExpr.evalR, env, hc.cf, hc.pi, c2qDistr]
         push_cast
         congr 1
         · ring
         · congr 1
           · ring
           · congr 1; ring)

theorem f2_gluon_closed_form :
    ∀ s ∈ Yadism.Gen.nloSites, s.1 ∈ f2Gluon →
      s.2.1.evalR (env z nf c)
        = 2 * (2 * nf) * (1 / 2) * ((z ^ 2 + (1 - z) ^ 2) * Real.log ((1 - z) / z) - 1 + 8 * z * (1 - z))
      ∧ s.2.2.1 = [] := by
  intro s hs hl
  simp only [Yadism.Gen.nloSites, List.mem_cons, List.not_mem_nil, or_false] at hs
  rcases hs with rfl | rfl | rfl | rfl | rfl | rfl | rfl | rfl | rfl | rfl | rfl | rfl | rfl | rfl | rfl <;>
    first
    | (exfalso; revert hl; decide)
    | (refine ⟨?_, rfl⟩
       simp only [Yadism.Gen.k_light_nlo_f2__gluon_reg, KExpr.evalR, env, hc.tr]
       push_cast
       ring)

theorem fl_quark_closed_form :
    ∀ s ∈ Yadism.Gen.nloSites, s.1 ∈ flQuark →
      s.2.1.evalR (env z nf c) = 2 * (4 / 3) * (2 * z) ∧ s.2.2.1 = [] := by
  intro s hs hl
  simp only [Yadism.Gen.nloSites, List.mem_cons, List.not_mem_nil, or_false] at hs
  rcases hs with rfl | rfl | rfl | rfl | rfl | rfl | rfl | rfl | rfl | rfl | rfl | rfl | rfl | rfl | rfl <;>
    first
    | (exfalso; revert hl; decide)
    | (refine ⟨?_, rfl⟩
       simp only [Yadism.Gen.k_light_nlo_fl__ns_reg, KExpr.evalR, env, hc.cf]
       push_cast
       ring)

theorem fl_gluon_closed_form :
    ∀ s ∈ Yadism.Gen.nloSites, s.1 ∈ flGluon →
      s.2.1.evalR (env z nf c) = 2 * (2 * nf) * (1 / 2) * (4 * z * (1 - z)) ∧ s.2.2.1 = [] := by
  intro s hs hl
  simp only [Yadism.Gen.nloSites, List.mem_cons, List.not_mem_nil, or_false] at hs
  rcases hs with rfl | rfl | rfl | rfl | rfl | rfl | rfl | rfl | rfl | rfl | rfl | rfl | rfl | rfl | rfl <;>
    first
    | (exfalso; revert hl; decide)
    | (refine ⟨?_, rfl⟩
       simp only [Yadism.Gen.k_light_nlo_fl__gluon_reg, KExpr.evalR, env, hc.tr]
       push_cast
       ring)

/-- `C_{3,q} = C_{2,q} − 2C_F(1+z)` with the same distributions -/
theorem f3_quark_closed_form :
    ∀ s ∈ Yadism.Gen.nloSites, s.1 ∈ f3Quark →
      s.2.1.evalR (env z nf c) = c2qReg z - 2 * (4 / 3) * (1 + z)
      ∧ s.2.2.1.map (KExpr.evalR (env z nf c)) = c2qDistr := by
  intro s hs hl
  have hz : (1 : ℝ) - z ≠ 0 := by linarith
  simp only [Yadism.Gen.nloSites, List.mem_cons, List.not_mem_nil, or_false] at hs
  rcases hs with rfl | rfl | rfl | rfl | rfl | rfl | rfl | rfl | rfl | rfl | rfl | rfl | rfl | rfl | rfl <;>
    first
    | (exfalso; revert hl; decide)
    | (constructor
       · simp only [Yadism.Gen.k_light_nlo_f3__ns_reg, KExpr.evalR, env, hc.cf, c2qReg]
         push_cast
         rw [log_ratio z h0 h1]
         field_simp
         ring
       · simp only [List.map, KExpr.evalR, env, hc.cf, hc.pi, c2qDistr]
         push_cast
         congr 1
         · ring
         · congr 1
           · ring
           · congr 1; ring)

/-- `ΔC_q = C_{3,q}` -/
theorem g1_quark_closed_form :
    ∀ s ∈ Yadism.Gen.nloSites, s.1 ∈ g1Quark →
      s.2.1.evalR (env z nf c) = c2qReg z - 2 * (4 / 3) * (1 + z)
      ∧ s.2.2.1.map (KExpr.evalR (env z nf c)) = c2qDistr := by
  intro s hs hl
  have hz : (1 : ℝ) - z ≠ 0 := by linarith
  simp only [Yadism.Gen.nloSites, List.mem_cons, List.not_mem_nil, or_false] at hs
  rcases hs with rfl | rfl | rfl | rfl | rfl | rfl | rfl | rfl | rfl | rfl | rfl | rfl | rfl | rfl | rfl <;>
    first
    | (exfalso; revert hl; decide)
    | (constructor
       · simp only [Yadism.Gen.k_light_nlo_g1__ns_reg, KExpr.evalR, env, hc.cf, c2qReg]
         push_cast
         rw [log_ratio z h0 h1]
         field_simp
         ring
       · simp only [List.map, KExpr.evalR, env, hc.cf, hc.pi, c2qDistr]
         push_cast
         congr 1
         · ring
         · congr 1
           · ring
           · congr 1; ring)

theorem g1_gluon_closed_form :
    ∀ s ∈ Yadism.Gen.nloSites, s.1 ∈ g1Gluon →
      s.2.1.evalR (env z nf c)
        = 2 * (2 * nf) * (1 / 2) * ((2 * z - 1) * (Real.log ((1 - z) / z) - 1) + 2 * (1 - z))
      ∧ s.2.2.1 = [] := by
  intro s hs hl
  simp only [Yadism.Gen.nloSites, List.mem_cons, List.not_mem_nil, or_false] at hs
  rcases hs with rfl | rfl | rfl | rfl | rfl | rfl | rfl | rfl | rfl | rfl | rfl | rfl | rfl | rfl | rfl <;>
    first
    | (exfalso; revert hl; decide)
    | (refine ⟨?_, rfl⟩
       simp only [Yadism.Gen.k_light_nlo_g1__gluon_reg, KExpr.evalR, env, hc.tr]
       push_cast
       ring)

end closed

/-! ## First moments -/

/-- first moment of an `RSL`: `∫₀¹ reg + δ` (the plus-distribution does not contribute: its
moment integrand `sing(z)·(z^{N−1} − 1)` vanishes identically for `N = 1`) -/
noncomputable def firstMoment (reg : ℝ → ℝ) (delta : ℝ) : ℝ := (∫ z in (0 : ℝ)..1, reg z) + delta

theorem plus_part_has_no_first_moment (sing : ℝ → ℝ) (z : ℝ) : sing z * (z ^ (1 - 1) - 1) = 0 := by
  simp

/-- **GLS − Adler at NLO**: the first moments of the `F_3` and `F_2` quark coefficients differ by
exactly `−3 C_F = −4`, whatever the Adler moment is -/
theorem gls_minus_adler_nlo (hint : IntervalIntegrable c2qReg MeasureTheory.volume 0 1) (delta : ℝ) :
    firstMoment (fun z => c2qReg z - 2 * (4 / 3) * (1 + z)) delta = firstMoment c2qReg delta - 4 := by
  unfold firstMoment
  have hpoly : IntervalIntegrable (fun z : ℝ => 2 * (4 / 3) * (1 + z)) MeasureTheory.volume 0 1 :=
    (continuous_const.mul (continuous_const.add continuous_id)).intervalIntegrable _ _
  rw [intervalIntegral.integral_sub hint hpoly]
  have : (∫ z in (0 : ℝ)..1, 2 * (4 / 3) * (1 + z)) = 4 := by
    have hid : IntervalIntegrable (fun x : ℝ => x) MeasureTheory.volume 0 1 := continuous_id.intervalIntegrable _ _
    rw [intervalIntegral.integral_const_mul,
      intervalIntegral.integral_add (continuous_const.intervalIntegrable _ _) hid]
    simp [integral_id]
    norm_num
  rw [this]
  ring

/-- **Bjorken = GLS at NLO**: the `g_1` and `F_3` quark coefficients coincide -/
theorem bjorken_eq_gls_nlo (c : String → ℝ) (nf z : ℝ) :
    Yadism.Gen.k_light_nlo_g1__ns_reg.evalR (env z nf c) = Yadism.Gen.k_light_nlo_f3__ns_reg.evalR (env z nf c) := by
  simp [Yadism.Gen.k_light_nlo_g1__ns_reg, Yadism.Gen.k_light_nlo_f3__ns_reg, KExpr.evalR]

end Yadism.C04
