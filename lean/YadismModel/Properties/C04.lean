/-
C04: massless coefficient functions — NLO closed forms and exact sum-rule relations.

`Generated/NLO.lean` lists, for every light class, the regular kernel and the distribution
coefficients its `NLO` method uses (read from the live classes and the syntax tree each run); the
kernels are the generated `KExpr` terms.

Closed forms (all `0 < z < 1`, all `nf`), in the `a_s = α_s/4π` normalisation of the code, written
in the textbook `α_s/2π` form times two (Bardeen et al.; Ellis–Stirling–Webber (4.80);
Furmanski–Petronzio; for `g₁` Kodaira / Zijlstra–van Neerven):
  C_{2,q} = 2 C_F [ 2 (ln(1−z)/(1−z))₊ − 3/2 (1/(1−z))₊ − (1+z) ln(1−z) − (1+z²)/(1−z) ln z + 3 + 2z − (π²/3 + 9/2) δ(1−z) ]
  C_{2,g} = 2·(2 n_f)·T_R [ (z² + (1−z)²) ln((1−z)/z) − 1 + 8 z(1−z) ]
  C_{L,q} = 2·C_F·2z ,  C_{L,g} = 2·(2 n_f)·T_R·4 z(1−z)
  C_{3,q} = C_{2,q} − 2 C_F (1+z)            (and no gluon)
  ΔC_q   = C_{3,q} ,  ΔC_g = 2·(2 n_f)·T_R [ (2z−1)(ln((1−z)/z) − 1) + 2(1−z) ]

Sum rules: the plus-distribution does not contribute to the first moment; exactly,
Adler(NLO) = 0 (`adler_nlo`: the regular part integrates to `2 C_F (π²/3 + 9/2)`, which the
δ-coefficient cancels; the integral needs `∫₀¹ ln z/(1−z) = −π²/6`, `Lemmas/Dilog.lean`),
GLS(NLO) = Bjorken(NLO) = −3 C_F = −4 (`gls_nlo`, `bjorken_nlo`).  Beyond NLO the coefficient
functions are fitted parametrisations: those moments are checked numerically on the real functions
(`harness/checks/c04.py`), not proved.
-/
import YadismModel.Lemmas.NormSound
import YadismModel.Generated.NLO
import YadismModel.Lemmas.Dilog
import Mathlib.Analysis.SpecialFunctions.Trigonometric.Basic
import Mathlib.MeasureTheory.Integral.IntervalIntegral.FundThmCalculus
import Mathlib.Analysis.SpecialFunctions.Integrals.Basic

set_option linter.unusedSectionVars false

namespace Yadism.C04

open Yadism

/-- the constants have their mathematical values -/
structure StdC (c : String → ℝ) : Prop where
  cf : c "CF" = 4 / 3
  tr : c "TR" = 1 / 2
  pi : c "pi" = Real.pi

def env (z nf : ℝ) (c : String → ℝ) : REnv where
  z := z
  args := fun _ => nf
  consts := c
  params := fun _ => 0
  ext1 := fun _ _ => 0
  ext3 := fun _ _ _ _ => 0

def f2Quark : List String := ["f2_nc.NonSinglet", "f2_cc.NonSingletEven", "f2_cc.NonSingletOdd"]
def f2Gluon : List String := ["f2_nc.Gluon", "f2_cc.Gluon"]
def flQuark : List String := ["fl_nc.NonSinglet", "fl_cc.NonSingletEven", "fl_cc.NonSingletOdd"]
def flGluon : List String := ["fl_nc.Gluon", "fl_cc.Gluon"]
def f3Quark : List String := ["f3_nc.NonSinglet", "f3_cc.NonSingletEven", "f3_cc.NonSingletOdd"]
def g1Quark : List String := ["g1_nc.NonSinglet"]
def g1Gluon : List String := ["g1_nc.Gluon"]

/-- every NLO method of every light class of F2, FL, F3, g1 is one of the above, and every method
could be read -/
theorem all_sites_classified :
    (Yadism.Gen.nloSites.all fun s => (f2Quark ++ f2Gluon ++ flQuark ++ flGluon ++ f3Quark ++ g1Quark ++ g1Gluon).contains s.1) = true
    ∧ Yadism.Gen.nloFailed = []
    ∧ ((f2Quark ++ f2Gluon ++ flQuark ++ flGluon ++ f3Quark ++ g1Quark ++ g1Gluon).all fun l =>
        Yadism.Gen.nloSites.any fun s => s.1 == l) = true := by
  decide

/-- the published quark regular part of `F_2` (textbook form, times 2) -/
noncomputable def c2qReg (z : ℝ) : ℝ :=
  2 * (4 / 3) * (-(1 + z) * Real.log (1 - z) - (1 + z ^ 2) / (1 - z) * Real.log z + 3 + 2 * z)

/-- `[δ(1−z), (1/(1−z))₊, (ln(1−z)/(1−z))₊]` coefficients -/
noncomputable def c2qDistr : List ℝ := [2 * (4 / 3) * (-(Real.pi ^ 2 / 3 + 9 / 2)), 2 * (4 / 3) * (-(3 / 2)), 2 * (4 / 3) * 2]

theorem log_ratio (z : ℝ) (h0 : 0 < z) (h1 : z < 1) : Real.log ((1 - z) / z) = Real.log (1 - z) - Real.log z :=
  Real.log_div (by linarith) h0.ne'

section closed
variable (c : String → ℝ) (hc : StdC c) (nf z : ℝ) (h0 : 0 < z) (h1 : z < 1)
include hc h0 h1

theorem f2_quark_closed_form :
    ∀ s ∈ Yadism.Gen.nloSites, s.1 ∈ f2Quark →
      s.2.1.evalR (env z nf c) = c2qReg z ∧ s.2.2.1.map (KExpr.evalR (env z nf c)) = c2qDistr := by
  intro s hs hl
  have hz : (1 : ℝ) - z ≠ 0 := by linarith
  simp only [Yadism.Gen.nloSites, List.mem_cons, List.not_mem_nil, or_false] at hs
  rcases hs with rfl | rfl | rfl | rfl | rfl | rfl | rfl | rfl | rfl | rfl | rfl | rfl | rfl | rfl | rfl <;>
    first
    | (exfalso; revert hl; decide)
    | (constructor
       · simp only [Yadism.Gen.k_light_nlo_f2__ns_reg, KExpr.evalR, env, hc.cf, c2qReg]
         push_cast
         rw [log_ratio z h0 h1]
         field_simp
         ring
       · simp only [List.map, KExpr.evalR, env, hc.cf, hc.pi, c2qDistr]
         push_cast
         congr 1
         · ring
         · congr 1
           · ring
           · congr 1; ring)

theorem f2_gluon_closed_form :
    ∀ s ∈ Yadism.Gen.nloSites, s.1 ∈ f2Gluon →
      s.2.1.evalR (env z nf c)
        = 2 * (2 * nf) * (1 / 2) * ((z ^ 2 + (1 - z) ^ 2) * Real.log ((1 - z) / z) - 1 + 8 * z * (1 - z))
      ∧ s.2.2.1 = [] := by
  intro s hs hl
  simp only [Yadism.Gen.nloSites, List.mem_cons, List.not_mem_nil, or_false] at hs
  rcases hs with rfl | rfl | rfl | rfl | rfl | rfl | rfl | rfl | rfl | rfl | rfl | rfl | rfl | rfl | rfl <;>
    first
    | (exfalso; revert hl; decide)
    | (refine ⟨?_, rfl⟩
       simp only [Yadism.Gen.k_light_nlo_f2__gluon_reg, KExpr.evalR, env, hc.tr]
       push_cast
       ring)

theorem fl_quark_closed_form :
    ∀ s ∈ Yadism.Gen.nloSites, s.1 ∈ flQuark →
      s.2.1.evalR (env z nf c) = 2 * (4 / 3) * (2 * z) ∧ s.2.2.1 = [] := by
  intro s hs hl
  simp only [Yadism.Gen.nloSites, List.mem_cons, List.not_mem_nil, or_false] at hs
  rcases hs with rfl | rfl | rfl | rfl | rfl | rfl | rfl | rfl | rfl | rfl | rfl | rfl | rfl | rfl | rfl <;>
    first
    | (exfalso; revert hl; decide)
    | (refine ⟨?_, rfl⟩
       simp only [Yadism.Gen.k_light_nlo_fl__ns_reg, KExpr.evalR, env, hc.cf]
       push_cast
       ring)

theorem fl_gluon_closed_form :
    ∀ s ∈ Yadism.Gen.nloSites, s.1 ∈ flGluon →
      s.2.1.evalR (env z nf c) = 2 * (2 * nf) * (1 / 2) * (4 * z * (1 - z)) ∧ s.2.2.1 = [] := by
  intro s hs hl
  simp only [Yadism.Gen.nloSites, List.mem_cons, List.not_mem_nil, or_false] at hs
  rcases hs with rfl | rfl | rfl | rfl | rfl | rfl | rfl | rfl | rfl | rfl | rfl | rfl | rfl | rfl | rfl <;>
    first
    | (exfalso; revert hl; decide)
    | (refine ⟨?_, rfl⟩
       simp only [Yadism.Gen.k_light_nlo_fl__gluon_reg, KExpr.evalR, env, hc.tr]
       push_cast
       ring)

/-- `C_{3,q} = C_{2,q} − 2C_F(1+z)` with the same distributions -/
theorem f3_quark_closed_form :
    ∀ s ∈ Yadism.Gen.nloSites, s.1 ∈ f3Quark →
      s.2.1.evalR (env z nf c) = c2qReg z - 2 * (4 / 3) * (1 + z)
      ∧ s.2.2.1.map (KExpr.evalR (env z nf c)) = c2qDistr := by
  intro s hs hl
  have hz : (1 : ℝ) - z ≠ 0 := by linarith
  simp only [Yadism.Gen.nloSites, List.mem_cons, List.not_mem_nil, or_false] at hs
  rcases hs with rfl | rfl | rfl | rfl | rfl | rfl | rfl | rfl | rfl | rfl | rfl | rfl | rfl | rfl | rfl <;>
    first
    | (exfalso; revert hl; decide)
    | (constructor
       · simp only [Yadism.Gen.k_light_nlo_f3__ns_reg, KExpr.evalR, env, hc.cf, c2qReg]
         push_cast
         rw [log_ratio z h0 h1]
         field_simp
         ring
       · simp only [List.map, KExpr.evalR, env, hc.cf, hc.pi, c2qDistr]
         push_cast
         congr 1
         · ring
         · congr 1
           · ring
           · congr 1; ring)

/-- `ΔC_q = C_{3,q}` -/
theorem g1_quark_closed_form :
    ∀ s ∈ Yadism.Gen.nloSites, s.1 ∈ g1Quark →
      s.2.1.evalR (env z nf c) = c2qReg z - 2 * (4 / 3) * (1 + z)
      ∧ s.2.2.1.map (KExpr.evalR (env z nf c)) = c2qDistr := by
  intro s hs hl
  have hz : (1 : ℝ) - z ≠ 0 := by linarith
  simp only [Yadism.Gen.nloSites, List.mem_cons, List.not_mem_nil, or_false] at hs
  rcases hs with rfl | rfl | rfl | rfl | rfl | rfl | rfl | rfl | rfl | rfl | rfl | rfl | rfl | rfl | rfl <;>
    first
    | (exfalso; revert hl; decide)
    | (constructor
       · simp only [Yadism.Gen.k_light_nlo_g1__ns_reg, KExpr.evalR, env, hc.cf, c2qReg]
         push_cast
         rw [log_ratio z h0 h1]
         field_simp
         ring
       · simp only [List.map, KExpr.evalR, env, hc.cf, hc.pi, c2qDistr]
         push_cast
         congr 1
         · ring
         · congr 1
           · ring
           · congr 1; ring)

theorem g1_gluon_closed_form :
    ∀ s ∈ Yadism.Gen.nloSites, s.1 ∈ g1Gluon →
      s.2.1.evalR (env z nf c)
        = 2 * (2 * nf) * (1 / 2) * ((2 * z - 1) * (Real.log ((1 - z) / z) - 1) + 2 * (1 - z))
      ∧ s.2.2.1 = [] := by
  intro s hs hl
  simp only [Yadism.Gen.nloSites, List.mem_cons, List.not_mem_nil, or_false] at hs
  rcases hs with rfl | rfl | rfl | rfl | rfl | rfl | rfl | rfl | rfl | rfl | rfl | rfl | rfl | rfl | rfl <;>
    first
    | (exfalso; revert hl; decide)
    | (refine ⟨?_, rfl⟩
       simp only [Yadism.Gen.k_light_nlo_g1__gluon_reg, KExpr.evalR, env, hc.tr]
       push_cast
       ring)

end closed

/-! ## First moments -/

/-- first moment of an `RSL`: `∫₀¹ reg + δ` (the plus-distribution does not contribute: its
moment integrand `sing(z)·(z^{N−1} − 1)` vanishes identically for `N = 1`) -/
noncomputable def firstMoment (reg : ℝ → ℝ) (delta : ℝ) : ℝ := (∫ z in (0 : ℝ)..1, reg z) + delta

theorem plus_part_has_no_first_moment (sing : ℝ → ℝ) (z : ℝ) : sing z * (z ^ (1 - 1) - 1) = 0 := by
  simp

/-- **GLS − Adler at NLO**: the first moments of the `F_3` and `F_2` quark coefficients differ by
exactly `−3 C_F = −4`, whatever the Adler moment is -/
theorem gls_minus_adler_nlo (hint : IntervalIntegrable c2qReg MeasureTheory.volume 0 1) (delta : ℝ) :
    firstMoment (fun z => c2qReg z - 2 * (4 / 3) * (1 + z)) delta = firstMoment c2qReg delta - 4 := by
  unfold firstMoment
  have hpoly : IntervalIntegrable (fun z : ℝ => 2 * (4 / 3) * (1 + z)) MeasureTheory.volume 0 1 :=
    (continuous_const.mul (continuous_const.add continuous_id)).intervalIntegrable _ _
  rw [intervalIntegral.integral_sub hint hpoly]
  have : (∫ z in (0 : ℝ)..1, 2 * (4 / 3) * (1 + z)) = 4 := by
    have hid : IntervalIntegrable (fun x : ℝ => x) MeasureTheory.volume 0 1 := continuous_id.intervalIntegrable _ _
    rw [intervalIntegral.integral_const_mul,
      intervalIntegral.integral_add (continuous_const.intervalIntegrable _ _) hid]
    simp [integral_id]
    norm_num
  rw [this]
  ring

/-! ### The Adler moment itself -/

open Yadism.Dilog MeasureTheory in
/-- the regular part with its pole at `z = 1` separated: `(1+z²)/(1−z) = −(1+z) + 2/(1−z)` (both
sides are `0` at `z = 1` in Lean's totalised division, which is a null set anyway) -/
theorem c2qReg_split (z : ℝ) :
    c2qReg z = 2 * (4 / 3) * (-((2 - (1 - z)) * Real.log (1 - z)) + ((z ^ 0 * Real.log z + z ^ 1 * Real.log z)
      - 2 * (Real.log z / (1 - z)) + (3 + 2 * z))) := by
  unfold c2qReg
  by_cases h : z = 1
  · subst h; simp
  · have : (1 : ℝ) - z ≠ 0 := fun e => h (by linarith)
    field_simp
    ring

open Yadism.Dilog MeasureTheory intervalIntegral in
theorem ii_A : IntervalIntegrable (fun z : ℝ => (2 - (1 - z)) * Real.log (1 - z)) volume 0 1 := by
  have h : IntervalIntegrable (fun x : ℝ => (2 - x) * Real.log x) volume 1 0 :=
    (intervalIntegrable_log' (a := 1) (b := 0)).continuousOn_mul (by fun_prop)
  have := h.comp_sub_left 1
  simpa using this

open Yadism.Dilog MeasureTheory intervalIntegral in
theorem int_A : ∫ z in (0 : ℝ)..1, (2 - (1 - z)) * Real.log (1 - z) = -(7 / 4) := by
  have := intervalIntegral.integral_comp_sub_left (fun x : ℝ => (2 - x) * Real.log x) (a := 0) (b := 1) 1
  simp only [sub_self, sub_zero] at this
  rw [this]
  have e : (fun x : ℝ => (2 - x) * Real.log x) = fun x => 2 * (x ^ 0 * Real.log x) - x ^ 1 * Real.log x := by
    funext x; ring
  rw [e, intervalIntegral.integral_sub ((intervalIntegrable_pow_mul_log 0 0 1).const_mul 2)
    (intervalIntegrable_pow_mul_log 1 0 1), intervalIntegral.integral_const_mul,
    integral_pow_mul_log, integral_pow_mul_log]
  norm_num

open Yadism.Dilog MeasureTheory intervalIntegral in
/-- the regular part is integrable on `[0,1]` (the hypothesis of `gls_minus_adler_nlo` holds) -/
theorem c2qReg_integrable : IntervalIntegrable c2qReg volume 0 1 := by
  have e : c2qReg = fun z => 2 * (4 / 3) * (-((2 - (1 - z)) * Real.log (1 - z)) + ((z ^ 0 * Real.log z + z ^ 1 * Real.log z)
      - 2 * (Real.log z / (1 - z)) + (3 + 2 * z))) := funext c2qReg_split
  rw [e]
  refine (ii_A.neg.add ((((intervalIntegrable_pow_mul_log 0 0 1).add (intervalIntegrable_pow_mul_log 1 0 1)).sub
    (intervalIntegrable_log_div.const_mul 2)).add ?_)).const_mul _
  exact (by fun_prop : Continuous fun z : ℝ => 3 + 2 * z).intervalIntegrable _ _

open Yadism.Dilog MeasureTheory intervalIntegral in
/-- `∫₀¹ C_{2,q}^{reg} = 2 C_F (π²/3 + 9/2)`: exactly the δ-coefficient with the opposite sign -/
theorem integral_c2qReg : ∫ z in (0 : ℝ)..1, c2qReg z = 2 * (4 / 3) * (Real.pi ^ 2 / 3 + 9 / 2) := by
  have e : c2qReg = fun z => 2 * (4 / 3) * (-((2 - (1 - z)) * Real.log (1 - z)) + ((z ^ 0 * Real.log z + z ^ 1 * Real.log z)
      - 2 * (Real.log z / (1 - z)) + (3 + 2 * z))) := funext c2qReg_split
  have hpoly : IntervalIntegrable (fun z : ℝ => 3 + 2 * z) volume 0 1 :=
    (by fun_prop : Continuous fun z : ℝ => 3 + 2 * z).intervalIntegrable _ _
  have h01 := (intervalIntegrable_pow_mul_log 0 0 1).add (intervalIntegrable_pow_mul_log 1 0 1)
  have hC := intervalIntegrable_log_div.const_mul 2
  have ipoly : ∫ z in (0 : ℝ)..1, (3 + 2 * z) = 4 := by
    have h3 : IntervalIntegrable (fun _ : ℝ => (3 : ℝ)) volume 0 1 := continuous_const.intervalIntegrable _ _
    have h2 : IntervalIntegrable (fun z : ℝ => 2 * z) volume 0 1 :=
      (by fun_prop : Continuous fun z : ℝ => 2 * z).intervalIntegrable _ _
    rw [intervalIntegral.integral_add h3 h2, intervalIntegral.integral_const_mul]
    simp [integral_id]
    norm_num
  have hA : IntervalIntegrable (fun z : ℝ => -((2 - (1 - z)) * Real.log (1 - z))) volume 0 1 := ii_A.neg
  have hB : IntervalIntegrable (fun z : ℝ => z ^ 0 * Real.log z + z ^ 1 * Real.log z - 2 * (Real.log z / (1 - z))) volume 0 1 :=
    h01.sub hC
  have hBD : IntervalIntegrable (fun z : ℝ => z ^ 0 * Real.log z + z ^ 1 * Real.log z - 2 * (Real.log z / (1 - z)) + (3 + 2 * z))
      volume 0 1 := hB.add hpoly
  rw [e, intervalIntegral.integral_const_mul,
    intervalIntegral.integral_add hA hBD,
    intervalIntegral.integral_neg, int_A,
    intervalIntegral.integral_add hB hpoly, ipoly,
    intervalIntegral.integral_sub h01 hC,
    intervalIntegral.integral_add (intervalIntegrable_pow_mul_log 0 0 1) (intervalIntegrable_pow_mul_log 1 0 1),
    integral_pow_mul_log, integral_pow_mul_log, intervalIntegral.integral_const_mul,
    integral_log_div_one_sub]
  norm_num
  ring

/-- **Adler sum rule at NLO**: the first moment of the `F_2` quark coefficient (regular part plus
the δ-coefficient the code uses; the plus-distributions have no first moment) vanishes exactly -/
theorem adler_nlo : firstMoment c2qReg (c2qDistr.headD 0) = 0 := by
  unfold firstMoment
  rw [integral_c2qReg]
  simp [c2qDistr]
  ring

/-- **Gross–Llewellyn-Smith sum rule at NLO**: the first moment of the `F_3` quark coefficient is
`−3 C_F = −4` (in `a_s = α_s/4π`), i.e. `1 − α_s/π` -/
theorem gls_nlo : firstMoment (fun z => c2qReg z - 2 * (4 / 3) * (1 + z)) (c2qDistr.headD 0) = -4 := by
  rw [gls_minus_adler_nlo c2qReg_integrable, adler_nlo]
  norm_num

/-- **Bjorken sum rule at NLO**: the `g_1` quark coefficient is the `F_3` one
(`g1_quark_closed_form`), so its first moment is `−4` too -/
theorem bjorken_nlo : firstMoment (fun z => c2qReg z - 2 * (4 / 3) * (1 + z)) (c2qDistr.headD 0) = -4 := gls_nlo

section code
variable (c : String → ℝ) (hc : StdC c) (nf : ℝ)
include hc

/-- the same three statements about the kernels the code runs (`Generated/NLO.lean`, regenerated
from the source on every run): for every light `F_2` quark class the first moment of its NLO
coefficient function vanishes, for every `F_3` and `g_1` quark class it is `−4` -/
theorem adler_nlo_code :
    ∀ s ∈ Yadism.Gen.nloSites, s.1 ∈ f2Quark →
      firstMoment (fun z => s.2.1.evalR (env z nf c))
        ((s.2.2.1.map (KExpr.evalR (env (1 / 2) nf c))).headD 0) = 0 := by
  intro s hs hl
  unfold firstMoment
  have hEq : (Set.uIoo (0 : ℝ) 1).EqOn (fun z => s.2.1.evalR (env z nf c)) c2qReg := by
    intro z hz
    rw [Set.uIoo_of_le zero_le_one] at hz
    exact (f2_quark_closed_form c hc nf z hz.1 hz.2 s hs hl).1
  rw [intervalIntegral.integral_congr_uIoo hEq,
    (f2_quark_closed_form c hc nf (1 / 2) (by norm_num) (by norm_num) s hs hl).2]
  exact adler_nlo

theorem gls_nlo_code :
    ∀ s ∈ Yadism.Gen.nloSites, s.1 ∈ f3Quark →
      firstMoment (fun z => s.2.1.evalR (env z nf c))
        ((s.2.2.1.map (KExpr.evalR (env (1 / 2) nf c))).headD 0) = -4 := by
  intro s hs hl
  unfold firstMoment
  have hEq : (Set.uIoo (0 : ℝ) 1).EqOn (fun z => s.2.1.evalR (env z nf c))
      (fun z => c2qReg z - 2 * (4 / 3) * (1 + z)) := by
    intro z hz
    rw [Set.uIoo_of_le zero_le_one] at hz
    exact (f3_quark_closed_form c hc nf z hz.1 hz.2 s hs hl).1
  rw [intervalIntegral.integral_congr_uIoo hEq,
    (f3_quark_closed_form c hc nf (1 / 2) (by norm_num) (by norm_num) s hs hl).2]
  exact gls_nlo

theorem bjorken_nlo_code :
    ∀ s ∈ Yadism.Gen.nloSites, s.1 ∈ g1Quark →
      firstMoment (fun z => s.2.1.evalR (env z nf c))
        ((s.2.2.1.map (KExpr.evalR (env (1 / 2) nf c))).headD 0) = -4 := by
  intro s hs hl
  unfold firstMoment
  have hEq : (Set.uIoo (0 : ℝ) 1).EqOn (fun z => s.2.1.evalR (env z nf c))
      (fun z => c2qReg z - 2 * (4 / 3) * (1 + z)) := by
    intro z hz
    rw [Set.uIoo_of_le zero_le_one] at hz
    exact (g1_quark_closed_form c hc nf z hz.1 hz.2 s hs hl).1
  rw [intervalIntegral.integral_congr_uIoo hEq,
    (g1_quark_closed_form c hc nf (1 / 2) (by norm_num) (by norm_num) s hs hl).2]
  exact gls_nlo

end code

/-- the three quark-class lists are inhabited in the regenerated table (the statements above are
not vacuous) -/
example : (Yadism.Gen.nloSites.filter fun s => f2Quark.contains s.1).length = 3
    ∧ (Yadism.Gen.nloSites.filter fun s => f3Quark.contains s.1).length = 3
    ∧ (Yadism.Gen.nloSites.filter fun s => g1Quark.contains s.1).length = 1 := by decide

/-- **Bjorken = GLS at NLO**: the `g_1` and `F_3` quark coefficients coincide -/
theorem bjorken_eq_gls_nlo (c : String → ℝ) (nf z : ℝ) :
    Yadism.Gen.k_light_nlo_g1__ns_reg.evalR (env z nf c) = Yadism.Gen.k_light_nlo_f3__ns_reg.evalR (env z nf c) := by
  simp [Yadism.Gen.k_light_nlo_g1__ns_reg, Yadism.Gen.k_light_nlo_f3__ns_reg, KExpr.evalR]

end Yadism.C04
