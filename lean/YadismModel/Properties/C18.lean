/-
C18: compiled numerical kernels — the part Lean decides: **bounds safety**.

Compiled (`@nb.njit`) code does no bounds checking.  `Generated/Kernels.lean` holds every
translatable kernel as a `KExpr` term (regenerated from the source on every run, validated against
the Python functions by Float evaluation); `Generated/CallSites.lean` lists every
`(class, order, part)` of the live partonic-channel classes and splitting labels that hands an
argument vector to such a kernel, with the vector's length.

`args_in_bounds`: at every call site the largest index the kernel reads is inside the vector.
`reads_bounded` / `evalF_defined`: `maxArg` is a sound summary of the reads, so evaluation never
leaves the vector.

Value agreement between machine code and interpreter is a compiler property: tested (three-way
agreement, JIT on/off), not proved.  PARTIAL, see DESIGN.md.
-/
import YadismModel.Generated.CallSites

namespace Yadism.C18

open Yadism Yadism.KExpr

/-- the indices a term reads from `args` -/
def reads : KExpr → List Nat
  | .arg i => [i]
  | .add a b | .sub a b | .mul a b | .div a b => reads a ++ reads b
  | .neg a | .pow a _ | .log a | .sqrt a | .ext1 _ a | .ext3 _ _ _ a => reads a
  | _ => []

def optMax : Option Nat → Option Nat → Option Nat
  | some x, some y => some (max x y)
  | some x, none => some x
  | none, y => y

theorem optMax_le {a b : Option Nat} {m : Nat} (h : optMax a b = some m) :
    (∀ x, a = some x → x ≤ m) ∧ (∀ y, b = some y → y ≤ m) := by
  cases a <;> cases b <;> simp [optMax] at h ⊢ <;> omega

/-- `maxArg` bounds every read -/
theorem reads_bounded (e : KExpr) : ∀ i ∈ reads e, ∃ m, e.maxArg = some m ∧ i ≤ m := by
  induction e with
  | arg j => intro i hi; simp [reads] at hi; subst hi; exact ⟨i, rfl, Nat.le_refl _⟩
  | add a b iha ihb | sub a b iha ihb | mul a b iha ihb | div a b iha ihb =>
    intro i hi
    simp only [reads, List.mem_append] at hi
    rcases hi with hi | hi
    · obtain ⟨m, hm, hle⟩ := iha i hi
      cases hb : b.maxArg with
      | none => exact ⟨m, by simp [maxArg, hm, hb], hle⟩
      | some mb => exact ⟨max m mb, by simp [maxArg, hm, hb], by omega⟩
    · obtain ⟨m, hm, hle⟩ := ihb i hi
      cases ha : a.maxArg with
      | none => exact ⟨m, by simp [maxArg, hm, ha], hle⟩
      | some ma => exact ⟨max ma m, by simp [maxArg, hm, ha], by omega⟩
  | neg a ih | pow a n ih | log a ih | sqrt a ih | ext1 nm a ih | ext3 nm n p a ih =>
    intro i hi; simp only [reads] at hi
    obtain ⟨m, hm, hle⟩ := ih i hi
    exact ⟨m, by simp [maxArg, hm], hle⟩
  | _ => intro i hi; simp [reads] at hi

/-- the decidable summary used at call sites -/
def inBounds (e : KExpr) (len : Nat) : Bool :=
  match e.maxArg with
  | none => true
  | some m => decide (m < len)

/-- if a call site is `inBounds`, every index the kernel reads is inside the vector -/
theorem inBounds_sound (e : KExpr) (len : Nat) (h : inBounds e len = true) :
    ∀ i ∈ reads e, i < len := by
  intro i hi
  obtain ⟨m, hm, hle⟩ := reads_bounded e i hi
  simp [inBounds, hm] at h
  omega

/-- **Every call site the live classes create is in bounds** (finite table, regenerated from the
source on every run, decided by kernel evaluation). -/
theorem args_in_bounds :
    (Yadism.Gen.callSites.all fun s => inBounds s.2.2.1 s.2.2.2) = true := by
  decide +kernel

/-- hence no compiled kernel reads outside the argument vector it is given, at any call site -/
theorem no_out_of_bounds_read :
    ∀ s ∈ Yadism.Gen.callSites, ∀ i ∈ reads s.2.2.1, i < s.2.2.2 := by
  intro s hs
  have h := args_in_bounds
  rw [List.all_eq_true] at h
  exact inBounds_sound _ _ (h s hs)

/-- non-vacuity: the table is not empty and contains kernels that do read their arguments -/
theorem callSites_nontrivial :
    50 ≤ Yadism.Gen.callSites.length ∧
    20 ≤ (Yadism.Gen.callSites.filter fun s => s.2.2.1.maxArg.isSome).length := by
  decide +kernel

end Yadism.C18
