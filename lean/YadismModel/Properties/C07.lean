/-
C07 — heavyness, FONLL parts and coupling-restricted results add up.

Statements are about the kernel lists the Combiner model produces (tied to the real
`Combiner.collect_elems` by the `combiner` correspondence) and, through `opEntry`, about every
operator entry for an **arbitrary** convolution value `conv : ChanId → Rat` — i.e. for every
coefficient function, order, grid index, quadrature result and scale-variation key that is linear
in the kernel list.
-/
import YadismModel.Lemmas.Basic

namespace Yadism.C07

open Yadism

/-! ## FONLL parts -/

/-- `full = massless ++ massive` as kernel lists, for every configuration. -/
theorem fonll_full_list (e : Env) (f : Flavor) :
    collect e f .full = collect e f .massless ++ collect e f .massive := by
  simp [collect]

theorem fonll_full_operator (e : Env) (f : Flavor) (conv : ChanId → Rat) (p : Int) :
    opEntry (collectElems e f .full) conv p
      = opEntry (collectElems e f .massless) conv p + opEntry (collectElems e f .massive) conv p := by
  simp only [collectElems, fonll_full_list, List.map_append, opEntry_append]

/-! ## Zero-mass scheme: total = light -/

/-- with all three heavy quarks zero-mass there is no massive component at all -/
theorem heavyComponents_zm (e : Env) (hq : Nat) (hc : e.zmc = true) (hb : e.zmb = true)
    (ht : e.zmt = true) : heavyComponents e hq = [] := by
  have hm : ∀ i, e.massive i = false := by
    intro i; unfold Env.massive; split <;> simp [hc, hb, ht]
  simp [heavyComponents, hm]

theorem zm_total_eq_light (e : Env) (pa : Parts) (hc : e.zmc = true) (hb : e.zmb = true)
    (ht : e.zmt = true) : collect e .total pa = collect e .light pa := by
  simp [collect, Flavor.family, heavyComponents_zm e _ hc hb ht]

/-! ## Fixed-flavour schemes: total vs light + charm + bottom + top -/

/-- The massive part of `total` is the concatenation of the massive parts of charm, bottom, top
(any scheme, any `3 ≤ nf ≤ 6`, any mass flags). -/
theorem heavy_total_split (e : Env) (h3 : 3 ≤ e.nf) (h6 : e.nf ≤ 6) :
    heavyComponents e 0 = heavyComponents e 4 ++ heavyComponents e 5 ++ heavyComponents e 6 := by
  unfold heavyComponents
  generalize e.nf = nf at *
  interval_cases nf <;> simp [List.range, List.range.loop, Env.massive]

/-- **General decomposition** (parts = full): `total` is `light` plus the massive pieces of
charm, bottom, top, while `F_h` is its massive piece plus — when quark `h` is already light — a
single-flavour *massless* piece.  So `total + Σ_h heavylight_h = light + Σ_h F_h`. -/
theorem total_decomposition (e : Env) (h3 : 3 ≤ e.nf) (h6 : e.nf ≤ 6) :
    collect e .total .full = collect e .light .full ++
        (heavyComponents e 4 ++ heavyComponents e 5 ++ heavyComponents e 6) ∧
    collect e .charm .full = heavylightComponents e 4 ++ heavyComponents e 4 ∧
    collect e .bottom .full = heavylightComponents e 5 ++ heavyComponents e 5 ∧
    collect e .top .full = heavylightComponents e 6 ++ heavyComponents e 6 := by
  refine ⟨?_, ?_, ?_, ?_⟩ <;>
    simp [collect, Flavor.family, Flavor.hqnumber, heavy_total_split e h3 h6]

/-- no heavy observable has a single-flavour massless piece when only three flavours are light
(FFNS / FFN0 with NfFF = 3) -/
theorem no_heavylight_nf3 (e : Env) (hnf : e.nf = 3) (hq : Nat) (h : 4 ≤ hq) :
    heavylightComponents e hq = [] := by
  have : ¬ (hq < 3 ∨ hq = 3 ∧ (!e.massive hq) = true) := by omega
  simp only [heavylightComponents, hnf, this, if_false]

/-- **FFNS additivity** for three light flavours: every operator entry of `total` is the sum of
the entries of `light`, `charm`, `bottom`, `top`, for any `conv`. -/
theorem ffns3_total_is_sum (e : Env) (hnf : e.nf = 3) (conv : ChanId → Rat) (p : Int) :
    opEntry (collectElems e .total .full) conv p
      = opEntry (collectElems e .light .full) conv p
        + opEntry (collectElems e .charm .full) conv p
        + opEntry (collectElems e .bottom .full) conv p
        + opEntry (collectElems e .top .full) conv p := by
  obtain ⟨ht, hc, hb, htop⟩ := total_decomposition e (by omega) (by omega)
  simp only [collectElems, ht, hc, hb, htop, no_heavylight_nf3 e hnf _ (by omega : 4 ≤ 4),
    no_heavylight_nf3 e hnf _ (by omega : 4 ≤ 5), no_heavylight_nf3 e hnf _ (by omega : 4 ≤ 6),
    List.nil_append, List.map_append, opEntry_append]
  ring

/-- The same with `nf` arbitrary: the naive sum over-counts by exactly the single-flavour massless
pieces. -/
theorem ffns_total_general (e : Env) (h3 : 3 ≤ e.nf) (h6 : e.nf ≤ 6) (conv : ChanId → Rat) (p : Int) :
    opEntry (collectElems e .total .full) conv p
      + opEntry ((heavylightComponents e 4 ++ heavylightComponents e 5 ++ heavylightComponents e 6).map
          (Kernel.isospin e.z e.a)) conv p
      = opEntry (collectElems e .light .full) conv p
        + opEntry (collectElems e .charm .full) conv p
        + opEntry (collectElems e .bottom .full) conv p
        + opEntry (collectElems e .top .full) conv p := by
  obtain ⟨ht, hc, hb, htop⟩ := total_decomposition e h3 h6
  simp only [collectElems, ht, hc, hb, htop, List.map_append, opEntry_append]
  ring

/-! ## Coupling-restricted (positivity) results sum to the unrestricted one -/

def withPos (c : CC) (k : Option Nat) : CC := { c with ob := { c.ob with posCharge := k } }

/-- sum over the six single-quark restrictions -/
def sumPos (f : CC → Rat) (c : CC) : Rat :=
  f (withPos c (some 1)) + f (withPos c (some 2)) + f (withPos c (some 3))
    + f (withPos c (some 4)) + f (withPos c (some 5)) + f (withPos c (some 6))

private theorem raw_withPos (c : CC) (k : Option Nat) (ap : Nat) (q2 : Rat) (t : QCT) :
    (withPos c k).getWeightNCraw ap q2 t = c.getWeightNCraw ap q2 t := rfl

private theorem fl11raw_withPos (c : CC) (k : Option Nat) (ap : Nat) (q2 : Rat) (nf : Nat) (t : QCT) :
    (withPos c k).getFl11WeightRaw ap q2 nf t = c.getFl11WeightRaw ap q2 nf t := rfl

theorem pos_charge_partition_weight (c : CC) (pid : Int) (q2 : Rat) (t : QCT)
    (h1 : 1 ≤ pid.natAbs) (h6 : pid.natAbs ≤ 6) :
    sumPos (fun c' => c'.getWeightNC pid q2 t) c = (withPos c none).getWeightNC pid q2 t := by
  simp only [sumPos, CC.getWeightNC, raw_withPos]
  generalize pid.natAbs = q at *
  interval_cases q <;> simp [withPos, CC.posBlocked]

theorem pos_charge_partition_fl11 (c : CC) (pid : Int) (q2 : Rat) (nf : Nat) (t : QCT)
    (h1 : 1 ≤ pid.natAbs) (h6 : pid.natAbs ≤ 6) :
    sumPos (fun c' => c'.getFl11Weight pid q2 nf t) c = (withPos c none).getFl11Weight pid q2 nf t := by
  simp only [sumPos, CC.getFl11Weight, fl11raw_withPos]
  generalize pid.natAbs = q at *
  have hp : ∀ k, (withPos c k).ob.process = c.ob.process := fun _ => rfl
  simp only [hp]
  cases c.ob.process <;> interval_cases q <;> simp [withPos, CC.posBlocked]

/-- the pair weights inherit the partition -/
theorem pos_charge_partition_wPair (c : CC) (q : Nat) (q2 : Rat) (pv : Bool)
    (h1 : 1 ≤ q) (h6 : q ≤ 6) :
    sumPos (fun c' => c'.wPair q q2 pv) c = (withPos c none).wPair q q2 pv := by
  have hA := fun t => pos_charge_partition_weight c (q : Int) q2 t (by simpa using h1) (by simpa using h6)
  cases pv
  · simp only [CC.wPair, sumPos] at *
    rw [← hA .VV, ← hA .AA]; simp; ring
  · simp only [CC.wPair, sumPos] at *
    rw [← hA .VA, ← hA .AV]; simp; ring

/-- blocked quarks: with the restriction to quark `k`, every other quark has weight zero -/
theorem pos_charge_blocks_others (c : CC) (k : Nat) (pid : Int) (q2 : Rat) (t : QCT)
    (h : pid.natAbs ≠ k) : (withPos c (some k)).getWeightNC pid q2 t = 0 := by
  simp [withPos, CC.getWeightNC, CC.posBlocked, h]

/-! ## The partition lifted to whole weight maps (what a kernel carries) -/

theorem sumPos_add (f g : CC → Rat) (c : CC) : sumPos (fun c' => f c' + g c') c = sumPos f c + sumPos g c := by
  simp only [sumPos]; ring

theorem sumPos_neg (f : CC → Rat) (c : CC) : sumPos (fun c' => - f c') c = - sumPos f c := by
  simp only [sumPos]; ring

theorem sumPos_zero (c : CC) : sumPos (fun _ => (0 : Rat)) c = 0 := by simp [sumPos]

theorem sumPos_div (f : CC → Rat) (k : Rat) (c : CC) : sumPos (fun c' => f c' / k) c = sumPos f c / k := by
  simp only [sumPos]; ring

theorem sumPos_listSum {α} (l : List α) (f : α → CC → Rat) (c : CC) :
    sumPos (fun c' => listSum (l.map fun a => f a c')) c = listSum (l.map fun a => sumPos (f a) c) := by
  induction l with
  | nil => simp [sumPos]
  | cons a l ih =>
    simp only [List.map, listSum_cons]
    rw [sumPos_add, ih]

theorem sumPos_ite (b : Bool) (f g : CC → Rat) (c : CC) :
    sumPos (fun c' => if b then f c' else g c') c = if b then sumPos f c else sumPos g c := by
  cases b <;> simp

/-- the total charge average of `nc_weights` -/
theorem ncWeights_partition (c : CC) (q2 : Rat) (nf : Nat) (hnf : nf ≤ 6) (pv skip : Bool) (p : Int) :
    sumPos (fun c' => (ncWeights c' q2 nf pv skip).ns p) c = (ncWeights (withPos c none) q2 nf pv skip).ns p
    ∧ sumPos (fun c' => (ncWeights c' q2 nf pv skip).g p) c = (ncWeights (withPos c none) q2 nf pv skip).g p
    ∧ sumPos (fun c' => (ncWeights c' q2 nf pv skip).s p) c = (ncWeights (withPos c none) q2 nf pv skip).s p
    ∧ sumPos (fun c' => (ncWeights c' q2 nf pv skip).v p) c = (ncWeights (withPos c none) q2 nf pv skip).v p := by
  have hw : ∀ q : Nat, 1 ≤ q → q ≤ 6 → sumPos (fun c' => c'.wPair q q2 pv) c = (withPos c none).wPair q q2 pv :=
    fun q h1 h6 => pos_charge_partition_wPair c q q2 pv h1 h6
  -- the charge average
  have htot : sumPos (fun c' => listSum ((pidsUpTo nf).map fun q => if ncCoupled nf skip q then c'.wPair q q2 pv else 0)) c
      = listSum ((pidsUpTo nf).map fun q => if ncCoupled nf skip q then (withPos c none).wPair q q2 pv else 0) := by
    rw [sumPos_listSum]
    congr 1
    apply List.map_congr_left
    intro q hq
    simp only [pidsUpTo, List.mem_map, List.mem_range] at hq
    obtain ⟨i, hi, rfl⟩ := hq
    by_cases hc : ncCoupled nf skip (i + 1) = true
    · simp only [hc, if_true]; exact hw (i + 1) (by omega) (by omega)
    · simp only [hc]; simp [sumPos]
  have hns : ∀ q : Nat, ncCoupled nf skip q = true → 1 ≤ q ∧ q ≤ 6 := by
    intro q h
    simp only [ncCoupled, Bool.and_eq_true, decide_eq_true_eq] at h
    omega
  cases pv
  · -- parity conserving
    refine ⟨?_, ?_, ?_, ?_⟩
    · simp only [ncWeights, Bool.false_and, Bool.false_eq_true, if_false]
      by_cases hc : ncCoupled nf skip p.natAbs = true
      · simp only [hc, if_true]; exact hw _ (hns _ hc).1 (hns _ hc).2
      · simp only [hc]; simp [sumPos]
    · simp only [ncWeights, Bool.false_eq_true, if_false]
      by_cases hp : p = 21
      · simp only [hp, if_true]; rw [sumPos_div, htot]
      · simp only [hp, if_false]; simp [sumPos]
    · simp only [ncWeights, Bool.false_eq_true, if_false]
      split
      · rw [sumPos_div, htot]
      · simp [sumPos]
    · simp [ncWeights, PMap.zero, sumPos]
  · -- parity violating
    refine ⟨?_, ?_, ?_, ?_⟩
    · simp only [ncWeights, Bool.true_and, if_true]
      by_cases hc : ncCoupled nf skip p.natAbs = true
      · simp only [hc, if_true]
        split
        · rw [sumPos_neg, hw _ (hns _ hc).1 (hns _ hc).2]
        · exact hw _ (hns _ hc).1 (hns _ hc).2
      · simp only [hc]; simp [sumPos]
    · simp [ncWeights, PMap.zero, sumPos]
    · simp [ncWeights, PMap.zero, sumPos]
    · simp only [ncWeights, if_true]
      split
      · split
        · rw [sumPos_neg, sumPos_div, htot]
        · rw [sumPos_div, htot]
      · simp [sumPos]

/-- the weight maps of massive NC heavy-quark production -/
theorem heavyNCWeights_partition (c : CC) (q2 : Rat) (nf ihq : Nat) (h1 : 1 ≤ ihq) (h6 : ihq ≤ 6) (p : Int) :
    sumPos (fun c' => (heavyNCWeights c' q2 nf ihq).gVV p) c = (heavyNCWeights (withPos c none) q2 nf ihq).gVV p
    ∧ sumPos (fun c' => (heavyNCWeights c' q2 nf ihq).gAA p) c = (heavyNCWeights (withPos c none) q2 nf ihq).gAA p
    ∧ sumPos (fun c' => (heavyNCWeights c' q2 nf ihq).sVV p) c = (heavyNCWeights (withPos c none) q2 nf ihq).sVV p
    ∧ sumPos (fun c' => (heavyNCWeights c' q2 nf ihq).sAA p) c = (heavyNCWeights (withPos c none) q2 nf ihq).sAA p := by
  have hA := fun t => pos_charge_partition_weight c (ihq : Int) q2 t (by simpa using h1) (by simpa using h6)
  refine ⟨?_, ?_, ?_, ?_⟩ <;> simp only [heavyNCWeights] <;> split <;>
    first | exact hA _ | simp [sumPos]

/-- the `fl11` weight maps of the light N3LO pieces -/
theorem ncFl11Weights_partition (c : CC) (q2 : Rat) (nf : Nat) (hnf : nf ≤ 6) (skip : Bool) (p : Int) :
    sumPos (fun c' => (ncFl11Weights c' q2 nf skip).q p) c = (ncFl11Weights (withPos c none) q2 nf skip).q p
    ∧ sumPos (fun c' => (ncFl11Weights c' q2 nf skip).g p) c = (ncFl11Weights (withPos c none) q2 nf skip).g p := by
  have hw : ∀ q : Nat, 1 ≤ q → q ≤ 6 → sumPos (fun c' => c'.wFl11 q q2 nf) c = (withPos c none).wFl11 q q2 nf := by
    intro q h1 h6
    have hA := fun t => pos_charge_partition_fl11 c (q : Int) q2 nf t (by simpa using h1) (by simpa using h6)
    simp only [CC.wFl11, sumPos] at *
    rw [← hA .VV, ← hA .AA]; ring
  have hns : ∀ q : Nat, ncCoupled nf skip q = true → 1 ≤ q ∧ q ≤ 6 := by
    intro q h
    simp only [ncCoupled, Bool.and_eq_true, decide_eq_true_eq] at h
    omega
  have htot : sumPos (fun c' => listSum ((pidsUpTo nf).map fun q => if ncCoupled nf skip q then c'.wFl11 q q2 nf else 0)) c
      = listSum ((pidsUpTo nf).map fun q => if ncCoupled nf skip q then (withPos c none).wFl11 q q2 nf else 0) := by
    rw [sumPos_listSum]
    congr 1
    apply List.map_congr_left
    intro q hq
    by_cases hc : ncCoupled nf skip q = true
    · simp only [hc, if_true]; exact hw q (hns q hc).1 (hns q hc).2
    · simp only [hc]; simp [sumPos]
  constructor
  · simp only [ncFl11Weights]
    by_cases hc : ncCoupled nf skip p.natAbs = true
    · simp only [hc, if_true]; exact hw _ (hns _ hc).1 (hns _ hc).2
    · simp only [hc]; simp [sumPos]
  · simp only [ncFl11Weights]
    by_cases hp : p = 21
    · simp only [hp, if_true]; rw [sumPos_div, htot]
    · simp only [hp, if_false]; simp [sumPos]

/-! ## Non-vacuity: a concrete FFNS-like configuration where all pieces are non-empty, and the
witness that for four light flavours the naive sum double counts -/

def sampleE (nf : Nat) (zmc : Bool) : Env :=
  { kind := .F2,
    cc := { th := { mz2 := 8315, mw2 := 6464, s2w := 23/100, ckm := default },
            ob := { process := .EM, projectile := 11, pol := 0, propCorr := 0, posCharge := none } },
    q2 := 20, nf := nf, zmc := zmc, zmb := false, zmt := false, ffn0 := false,
    pto := 1, ptoEvol := 1, z := 1, a := 1 }

example : (collect (sampleE 3 false) .charm .full).length = 6 := by decide +kernel
example : (collect (sampleE 3 false) .total .full).length = 3 + 3 + 3 * 6 := by decide +kernel

/-- FFNS with NfFF = 4 (charm massless): `F_charm` is a non-empty *massless* single-flavour
piece, which `light` already contains: light + charm + bottom + top ≠ total. -/
theorem ffns4_heavylight_nonempty : heavylightComponents (sampleE 4 true) 4 ≠ [] := by
  decide +kernel

end Yadism.C07
