/-
C20: the Runner leaves its inputs untouched and echoes them in the output.

`Model/Compat.lean` models `compatibility.update` on cards = association lists whose nested Python
objects are opaque references (`Val.obj id`).  In this functional model "the caller's dicts are not
written" is built in (the real function works on `dict.copy()`s and only rebinds top-level keys:
that the *real* code never writes through a nested reference is observed by the deep-comparison
search).  What is proved:

* the **frame**: every key that `update` does not own comes out with exactly the value — the same
  reference — it went in with (so nested kinematics lists, grids, CKM lists are shared, never
  rebuilt or edited);
* **no write into the caller's objects** (second half of the file): on the heap model of
  `Model/Heap.lean` (objects at locations, `.copy()` allocates, nested objects stay shared) the
  static check `safe` is sound for every execution (`Heap.safe_preserves`), and the effect lists that
  `harness/translate_effects.py` regenerates from the syntax trees of `compatibility.update` (callees
  inlined), `CouplingConstants.from_dict`, `Runner.__init__`, `StructureFunction.load` and
  `CrossSection.load` pass it: every store goes, at depth 0, into an object the function created
  itself (`*_leaves_callers_objects`); the places where the cards are handed on to code that is not
  analysed are a decided table (`escapes_known`);
* **idempotence** (`update_idempotent`): upgrading an already upgraded pair of cards changes
  nothing — every step of `update` is the identity on its own output and no later step touches
  what an earlier one reads or writes.
-/
import YadismModel.Model.Compat
import YadismModel.Lemmas.HeapSound
import YadismModel.Generated.Effects
import Mathlib.Data.List.Basic
import Mathlib.Tactic.Linarith

namespace Yadism.C20

open Yadism

/-! ## association-list lemmas -/

theorem get?_set (c : Card) (k k' : String) (v : Val) :
    (c.set k v).get? k' = if k' = k then some v else c.get? k' := by
  induction c with
  | nil =>
    by_cases hk : k' = k
    · subst hk; simp [Card.set, Card.get?]
    · have : ¬ (k = k') := fun h => hk h.symm
      simp [Card.set, Card.get?, hk, this]
  | cons e es ih =>
    obtain ⟨ke, ve⟩ := e
    simp only [Card.set]
    by_cases he : ke = k
    · subst he
      by_cases hk : k' = ke
      · subst hk; simp [Card.get?]
      · have : ¬ (ke = k') := fun h => hk h.symm
        simp [Card.get?, hk, this]
    · simp only [he, if_false, Card.get?]
      by_cases hek : ke = k'
      · have : ¬ (k' = k) := fun h => he (hek.trans h)
        simp [hek, this]
      · simp only [hek, if_false]
        exact ih

theorem get?_erase (c : Card) (k k' : String) :
    (c.erase k).get? k' = if k' = k then none else c.get? k' := by
  induction c with
  | nil => simp [Card.erase, Card.get?]
  | cons e es ih =>
    obtain ⟨ke, ve⟩ := e
    simp only [Card.erase]
    by_cases he : ke = k
    · subst he
      simp only [if_true]
      rw [ih]
      by_cases hk : k' = ke
      · simp [hk]
      · have : ¬ (ke = k') := fun h => hk h.symm
        simp [Card.get?, hk, this]
    · simp only [he, if_false, Card.get?]
      by_cases hek : ke = k'
      · have : ¬ (k' = k) := fun h => he (hek.trans h)
        simp [hek, this]
      · simp only [hek, if_false]
        exact ih

/-! ## Frame -/

/-- keys of the theory card that `update` may write -/
def theoryOwned : List String :=
  ["kcThr", "kbThr", "ktThr", "ZMc", "ZMb", "ZMt", "PTODIS", "FONLLParts", "RenScaleVar",
   "FactScaleVar", "alphaqed", "alphaem", "QED", "order"]

/-- keys of the observables card that `update` may write -/
def obsOwned : List String := ["TargetDIS", "TargetDISid"]

theorem setFlavour_frame (fns : Scheme) (n k : Nat) (hk : k < 3) (t : Card) (key : String)
    (h : key ∉ theoryOwned) : (setFlavour fns n k t).get? key = t.get? key := by
  have hk' : k = 0 ∨ k = 1 ∨ k = 2 := by omega
  simp only [theoryOwned, List.mem_cons, List.mem_nil_iff, or_false, not_or] at h
  rcases hk' with rfl | rfl | rfl <;> unfold setFlavour <;>
    cases (updateFns fns n _).1 <;> cases (updateFns fns n _).2 <;>
    simp [hqfl, get?_set, h]

theorem setDefaults_frame (t : Card) (key : String) (h : key ∉ theoryOwned) :
    (setDefaults t).get? key = t.get? key := by
  simp only [theoryOwned, List.mem_cons, List.mem_nil_iff, or_false, not_or] at h
  have a : ∀ t : Card, (setPtodis t).get? key = t.get? key := by
    intro t; unfold setPtodis; split <;> simp [get?_set, h]
  have b : ∀ t : Card, (setFonll t).get? key = t.get? key := by
    intro t; unfold setFonll; split <;> simp [get?_set, h]
  simp [setDefaults, a, b]

theorem updateSV_frame (t : Card) (key : String) (h : key ∉ theoryOwned) :
    (updateSV t).get? key = t.get? key := by
  simp only [theoryOwned, List.mem_cons, List.mem_nil_iff, or_false, not_or] at h
  have a : ∀ t : Card, (setRen t).get? key = t.get? key := by
    intro t; unfold setRen; split <;> simp [get?_set, h]
  have b : ∀ t : Card, (setFact t).get? key = t.get? key := by
    intro t; unfold setFact; split <;> simp [get?_set, h]
  simp [updateSV, a, b]

theorem move_frame (t : Card) (key : String) (h : key ∉ theoryOwned) :
    (moveQED (moveAlpha t)).get? key = t.get? key := by
  simp only [theoryOwned, List.mem_cons, List.mem_nil_iff, or_false, not_or] at h
  have a : ∀ t : Card, (moveAlpha t).get? key = t.get? key := by
    intro t; unfold moveAlpha; split <;> simp [get?_set, get?_erase, h]
  have b : ∀ t : Card, (moveQED t).get? key = t.get? key := by
    intro t; unfold moveQED; split <;> simp [get?_set, get?_erase, h]
  simp [a, b]

theorem updateFnsCard_frame (t t1 : Card) (hf : updateFnsCard t = .ok t1) (key : String)
    (h : key ∉ theoryOwned) : t1.get? key = t.get? key := by
  unfold updateFnsCard at hf
  split at hf
  · split at hf
    · simp only [Except.ok.injEq] at hf
      subst hf
      rw [setDefaults_frame _ _ h, setFlavour_frame _ _ 2 (by omega) _ _ h,
        setFlavour_frame _ _ 1 (by omega) _ _ h, setFlavour_frame _ _ 0 (by omega) _ _ h]
    · simp at hf
  · simp at hf

theorem updateTarget_frame (o o1 : Card) (ht : updateTarget o = .ok o1) (key : String)
    (h : key ∉ obsOwned) : o1.get? key = o.get? key := by
  simp only [obsOwned, List.mem_cons, List.mem_nil_iff, or_false, not_or] at h
  unfold updateTarget at ht
  split at ht
  · split at ht
    · simp only [pure, Except.pure, Except.ok.injEq] at ht
      subst ht
      simp [get?_set, h]
    · simp at ht
  · simp only [pure, Except.pure, Except.ok.injEq] at ht; subst ht; rfl
  · simp at ht

/-- **Frame property**: `update` returns, for every key it does not own, exactly the value (the
very reference) the caller's card holds, on both cards. -/
theorem update_frame (t o t' o' : Card) (h : update t o = .ok (t', o')) :
    (∀ key, key ∉ theoryOwned → t'.get? key = t.get? key) ∧
    (∀ key, key ∉ obsOwned → o'.get? key = o.get? key) := by
  unfold update at h
  split at h
  · next t1 o1 hf ht =>
    simp only [Except.ok.injEq, Prod.mk.injEq] at h
    obtain ⟨h1, h2⟩ := h
    subst h1 h2
    exact ⟨fun key hk => by rw [move_frame _ _ hk, updateSV_frame _ _ hk, updateFnsCard_frame t t1 hf key hk],
           fun key hk => updateTarget_frame o o1 ht key hk⟩
  · simp at h
  · simp at h

/-! ## Named objects survive by reference -/

/-- e.g. the `observables` dict of kinematics lists, the grid, a CKM list: if the caller's card
holds the reference `obj i` under a key `update` does not own, the upgraded card holds the same
reference -/
theorem nested_objects_shared (t o t' o' : Card) (h : update t o = .ok (t', o')) (key : String)
    (i : Nat) (hk : key ∉ obsOwned) (hv : o.get? key = some (.obj i)) :
    o'.get? key = some (.obj i) := by
  rw [(update_frame t o t' o' h).2 key hk, hv]

/-! ## Idempotence -/

theorem set_of_get (c : Card) (k : String) (v : Val) (h : c.get? k = some v) : c.set k v = c := by
  induction c with
  | nil => simp [Card.get?] at h
  | cons e es ih =>
    obtain ⟨ke, ve⟩ := e
    simp only [Card.get?] at h
    simp only [Card.set]
    by_cases hk : ke = k
    · simp only [hk, if_true] at h ⊢
      simp only [Option.some.injEq] at h
      rw [h]
    · simp only [hk, if_false] at h ⊢
      rw [ih h]

theorem erase_of_get_none (c : Card) (k : String) (h : c.get? k = none) : c.erase k = c := by
  induction c with
  | nil => rfl
  | cons e es ih =>
    obtain ⟨ke, ve⟩ := e
    simp only [Card.get?] at h
    simp only [Card.erase]
    by_cases hk : ke = k
    · simp [hk] at h
    · simp only [hk, if_false] at h ⊢
      rw [ih h]

def thrKey (k : Nat) : String := "k" ++ hqfl.getD k "" ++ "Thr"
def zmKey (k : Nat) : String := "ZM" ++ hqfl.getD k ""

/-- the card already carries what `update_fns` writes for heavy flavour `k` -/
def PostFl (fns : Scheme) (n k : Nat) (c : Card) : Prop :=
  (match (updateFns fns n k).1 with
    | .keep => True
    | .zero => c.get? (thrKey k) = some (.num 0)
    | .inf => c.get? (thrKey k) = some .inf)
  ∧ (match (updateFns fns n k).2 with
    | some b => c.get? (zmKey k) = some (.bool b)
    | none => True)

theorem setFlavour_of_post (fns : Scheme) (n k : Nat) (c : Card) (h : PostFl fns n k c) :
    setFlavour fns n k c = c := by
  unfold PostFl thrKey zmKey at h
  unfold setFlavour
  obtain ⟨h1, h2⟩ := h
  cases h3 : (updateFns fns n k).1 <;> cases h4 : (updateFns fns n k).2 <;>
    simp only [h3, h4] at h1 h2 ⊢ <;>
    first
    | rfl
    | (rw [set_of_get _ _ _ h1, set_of_get _ _ _ h2])
    | (rw [set_of_get _ _ _ h2])
    | (rw [set_of_get _ _ _ h1])

/-- a step that leaves the two keys of flavour `k` alone preserves `PostFl` -/
theorem postFl_of_get (fns : Scheme) (n k : Nat) (c c' : Card)
    (h1 : c'.get? (thrKey k) = c.get? (thrKey k)) (h2 : c'.get? (zmKey k) = c.get? (zmKey k))
    (h : PostFl fns n k c) : PostFl fns n k c' := by
  unfold PostFl at *
  rw [h1, h2]
  exact h

theorem setFlavour_get (fns : Scheme) (n k : Nat) (hk : k < 3) (c : Card) (key : String)
    (h1 : key ≠ thrKey k) (h2 : key ≠ zmKey k) : (setFlavour fns n k c).get? key = c.get? key := by
  have hk' : k = 0 ∨ k = 1 ∨ k = 2 := by omega
  rcases hk' with rfl | rfl | rfl <;> simp [thrKey, zmKey, hqfl] at h1 h2 <;> unfold setFlavour <;>
    cases (updateFns fns n _).1 <;> cases (updateFns fns n _).2 <;> simp [hqfl, get?_set, h1, h2]

theorem setFlavour_post (fns : Scheme) (n k : Nat) (hk : k < 3) (c : Card) :
    PostFl fns n k (setFlavour fns n k c) := by
  have hk' : k = 0 ∨ k = 1 ∨ k = 2 := by omega
  rcases hk' with rfl | rfl | rfl <;> unfold PostFl setFlavour <;>
    cases h3 : (updateFns fns n _).1 <;> cases h4 : (updateFns fns n _).2 <;>
    simp [thrKey, zmKey, hqfl, get?_set]

/-! ### the other steps: what they read/write, when they are the identity -/

theorem setPtodis_get (c : Card) (key : String) (h : key ≠ "PTODIS") : (setPtodis c).get? key = c.get? key := by
  unfold setPtodis; split <;> simp [get?_set, h]
theorem setFonll_get (c : Card) (key : String) (h : key ≠ "FONLLParts") : (setFonll c).get? key = c.get? key := by
  unfold setFonll; split <;> simp [get?_set, h]
theorem setRen_get (c : Card) (key : String) (h : key ≠ "RenScaleVar") : (setRen c).get? key = c.get? key := by
  unfold setRen; split <;> simp [get?_set, h]
theorem setFact_get (c : Card) (key : String) (h : key ≠ "FactScaleVar") : (setFact c).get? key = c.get? key := by
  unfold setFact; split <;> simp [get?_set, h]
theorem moveAlpha_get (c : Card) (key : String) (h1 : key ≠ "alphaqed") (h2 : key ≠ "alphaem") :
    (moveAlpha c).get? key = c.get? key := by
  unfold moveAlpha; split <;> simp [get?_set, get?_erase, h1, h2]
theorem moveQED_get (c : Card) (key : String) (h1 : key ≠ "QED") (h2 : key ≠ "order") :
    (moveQED c).get? key = c.get? key := by
  unfold moveQED; split <;> simp [get?_set, get?_erase, h1, h2]

def CondP (c : Card) : Prop :=
  ∃ v, c.get? "PTODIS" = some v ∧ (v = .none → (c.get? "PTO").getD .none = .none)
def CondF (c : Card) : Prop := ∃ v, c.get? "FONLLParts" = some v ∧ v ≠ .none
def CondR (c : Card) : Prop := (c.get? "RenScaleVar").isSome = true
def CondS (c : Card) : Prop := (c.get? "FactScaleVar").isSome = true
def CondA (c : Card) : Prop := c.get? "alphaqed" = none
def CondQ (c : Card) : Prop := c.get? "QED" = none

theorem setPtodis_of (c : Card) (h : CondP c) : setPtodis c = c := by
  obtain ⟨v, hv, hn⟩ := h
  unfold setPtodis
  rw [hv]
  by_cases hvn : v = .none
  · subst hvn
    simp only
    rw [hn rfl]
    exact set_of_get _ _ _ hv
  · cases v <;> simp_all

theorem setPtodis_cond (c : Card) : CondP (setPtodis c) := by
  unfold CondP setPtodis
  split
  · refine ⟨(c.get? "PTO").getD .none, by simp [get?_set], ?_⟩
    intro h
    simp [get?_set, h]
  · refine ⟨(c.get? "PTO").getD .none, by simp [get?_set], ?_⟩
    intro h
    simp [get?_set, h]
  · rename_i h1 h2
    cases hg : c.get? "PTODIS" with
    | none => exact absurd hg h2
    | some v =>
      refine ⟨v, rfl, ?_⟩
      intro hv
      subst hv
      exact absurd hg h1

theorem setFonll_of (c : Card) (h : CondF c) : setFonll c = c := by
  obtain ⟨v, hv, hn⟩ := h
  unfold setFonll
  rw [hv]
  cases v <;> simp_all

theorem setFonll_cond (c : Card) : CondF (setFonll c) := by
  unfold CondF setFonll
  split
  · exact ⟨.str "full", by simp [get?_set], by simp⟩
  · exact ⟨.str "full", by simp [get?_set], by simp⟩
  · rename_i h1 h2
    cases hg : c.get? "FONLLParts" with
    | none => exact absurd hg h2
    | some v => exact ⟨v, rfl, fun hv => h1 (hv ▸ hg)⟩

theorem setRen_of (c : Card) (h : CondR c) : setRen c = c := by
  unfold setRen CondR at *; simp [Option.isNone_iff_eq_none, Option.isSome_iff_ne_none.mp h]
theorem setRen_cond (c : Card) : CondR (setRen c) := by
  unfold CondR setRen
  split
  · simp [get?_set]
  · rename_i h; simpa [Option.isSome_iff_ne_none, Option.isNone_iff_eq_none] using h
theorem setFact_of (c : Card) (h : CondS c) : setFact c = c := by
  unfold setFact CondS at *; simp [Option.isNone_iff_eq_none, Option.isSome_iff_ne_none.mp h]
theorem setFact_cond (c : Card) : CondS (setFact c) := by
  unfold CondS setFact
  split
  · simp [get?_set]
  · rename_i h; simpa [Option.isSome_iff_ne_none, Option.isNone_iff_eq_none] using h

theorem moveAlpha_of (c : Card) (h : CondA c) : moveAlpha c = c := by
  unfold moveAlpha CondA at *; rw [h]
theorem moveAlpha_cond (c : Card) : CondA (moveAlpha c) := by
  unfold CondA moveAlpha
  split
  · simp [get?_set, get?_erase]
  · assumption
theorem moveQED_of (c : Card) (h : CondQ c) : moveQED c = c := by
  unfold moveQED CondQ at *; rw [h]
theorem moveQED_cond (c : Card) : CondQ (moveQED c) := by
  unfold CondQ moveQED
  split
  · simp [get?_set, get?_erase]
  · simp [get?_set, get?_erase]
  · assumption

/-- everything `update` does to the theory card after the three flavour steps -/
def tailA (c : Card) : Card := moveQED (moveAlpha (setFact (setRen (setFonll (setPtodis c)))))

theorem tailA_get (c : Card) (key : String)
    (h : key ∉ ["PTODIS", "FONLLParts", "RenScaleVar", "FactScaleVar", "alphaqed", "alphaem", "QED", "order"]) :
    (tailA c).get? key = c.get? key := by
  simp only [List.mem_cons, List.mem_nil_iff, or_false, not_or] at h
  unfold tailA
  rw [moveQED_get _ _ h.2.2.2.2.2.2.1 h.2.2.2.2.2.2.2, moveAlpha_get _ _ h.2.2.2.2.1 h.2.2.2.2.2.1,
    setFact_get _ _ h.2.2.2.1, setRen_get _ _ h.2.2.1, setFonll_get _ _ h.2.1, setPtodis_get _ _ h.1]

theorem thr_zm_keys (k : Nat) (hk : k < 3) :
    thrKey k ∉ ["PTODIS", "FONLLParts", "RenScaleVar", "FactScaleVar", "alphaqed", "alphaem", "QED", "order"]
    ∧ zmKey k ∉ ["PTODIS", "FONLLParts", "RenScaleVar", "FactScaleVar", "alphaqed", "alphaem", "QED", "order"] := by
  have hk' : k = 0 ∨ k = 1 ∨ k = 2 := by omega
  rcases hk' with rfl | rfl | rfl <;> simp [thrKey, zmKey, hqfl]

theorem keys_distinct (j k : Nat) (hj : j < 3) (hk : k < 3) (hjk : j ≠ k) :
    thrKey k ≠ thrKey j ∧ thrKey k ≠ zmKey j ∧ zmKey k ≠ thrKey j ∧ zmKey k ≠ zmKey j := by
  have hj' : j = 0 ∨ j = 1 ∨ j = 2 := by omega
  have hk' : k = 0 ∨ k = 1 ∨ k = 2 := by omega
  rcases hj' with rfl | rfl | rfl <;> rcases hk' with rfl | rfl | rfl <;>
    first | (exact absurd rfl hjk) | simp [thrKey, zmKey, hqfl]

/-- the theory card after `update`: `tailA` of the three flavour steps -/
def upgraded (fns : Scheme) (n : Nat) (t : Card) : Card :=
  tailA (setFlavour fns n 2 (setFlavour fns n 1 (setFlavour fns n 0 t)))

theorem upgraded_post (fns : Scheme) (n : Nat) (t : Card) (k : Nat) (hk : k < 3) :
    PostFl fns n k (upgraded fns n t) := by
  unfold upgraded
  obtain ⟨ha, hb⟩ := thr_zm_keys k hk
  apply postFl_of_get fns n k _ _ (tailA_get _ _ ha) (tailA_get _ _ hb)
  have hk' : k = 0 ∨ k = 1 ∨ k = 2 := by omega
  rcases hk' with rfl | rfl | rfl
  · obtain ⟨a1, a2, a3, a4⟩ := keys_distinct 2 0 (by omega) (by omega) (by omega)
    obtain ⟨b1, b2, b3, b4⟩ := keys_distinct 1 0 (by omega) (by omega) (by omega)
    apply postFl_of_get fns n 0 _ _ (setFlavour_get _ _ 2 (by omega) _ _ a1 a2) (setFlavour_get _ _ 2 (by omega) _ _ a3 a4)
    apply postFl_of_get fns n 0 _ _ (setFlavour_get _ _ 1 (by omega) _ _ b1 b2) (setFlavour_get _ _ 1 (by omega) _ _ b3 b4)
    exact setFlavour_post fns n 0 (by omega) t
  · obtain ⟨a1, a2, a3, a4⟩ := keys_distinct 2 1 (by omega) (by omega) (by omega)
    apply postFl_of_get fns n 1 _ _ (setFlavour_get _ _ 2 (by omega) _ _ a1 a2) (setFlavour_get _ _ 2 (by omega) _ _ a3 a4)
    exact setFlavour_post fns n 1 (by omega) _
  · exact setFlavour_post fns n 2 (by omega) _

theorem upgraded_conds (fns : Scheme) (n : Nat) (t : Card) :
    CondP (upgraded fns n t) ∧ CondF (upgraded fns n t) ∧ CondR (upgraded fns n t)
    ∧ CondS (upgraded fns n t) ∧ CondA (upgraded fns n t) ∧ CondQ (upgraded fns n t) := by
  unfold upgraded tailA
  generalize setFlavour fns n 2 (setFlavour fns n 1 (setFlavour fns n 0 t)) = c
  refine ⟨?_, ?_, ?_, ?_, ?_, ?_⟩
  · have h := setPtodis_cond c
    unfold CondP at *
    simp only [moveQED_get _ "PTODIS" (by decide) (by decide), moveAlpha_get _ "PTODIS" (by decide) (by decide),
      setFact_get _ "PTODIS" (by decide), setRen_get _ "PTODIS" (by decide), setFonll_get _ "PTODIS" (by decide),
      moveQED_get _ "PTO" (by decide) (by decide), moveAlpha_get _ "PTO" (by decide) (by decide),
      setFact_get _ "PTO" (by decide), setRen_get _ "PTO" (by decide), setFonll_get _ "PTO" (by decide)]
    exact h
  · have h := setFonll_cond (setPtodis c)
    unfold CondF at *
    simp only [moveQED_get _ "FONLLParts" (by decide) (by decide), moveAlpha_get _ "FONLLParts" (by decide) (by decide),
      setFact_get _ "FONLLParts" (by decide), setRen_get _ "FONLLParts" (by decide)]
    exact h
  · have h := setRen_cond (setFonll (setPtodis c))
    unfold CondR at *
    simp only [moveQED_get _ "RenScaleVar" (by decide) (by decide), moveAlpha_get _ "RenScaleVar" (by decide) (by decide),
      setFact_get _ "RenScaleVar" (by decide)]
    exact h
  · have h := setFact_cond (setRen (setFonll (setPtodis c)))
    unfold CondS at *
    simp only [moveQED_get _ "FactScaleVar" (by decide) (by decide), moveAlpha_get _ "FactScaleVar" (by decide) (by decide)]
    exact h
  · have h := moveAlpha_cond (setFact (setRen (setFonll (setPtodis c))))
    unfold CondA at *
    simp only [moveQED_get _ "alphaqed" (by decide) (by decide)]
    exact h
  · exact moveQED_cond _

/-- the upgraded theory card is a fixed point of every step -/
theorem upgraded_fixed (fns : Scheme) (n : Nat) (t : Card) :
    tailA (setFlavour fns n 2 (setFlavour fns n 1 (setFlavour fns n 0 (upgraded fns n t)))) = upgraded fns n t := by
  rw [setFlavour_of_post _ _ 0 _ (upgraded_post fns n t 0 (by omega)),
    setFlavour_of_post _ _ 1 _ (upgraded_post fns n t 1 (by omega)),
    setFlavour_of_post _ _ 2 _ (upgraded_post fns n t 2 (by omega))]
  obtain ⟨hP, hF, hR, hS, hA, hQ⟩ := upgraded_conds fns n t
  unfold tailA
  rw [setPtodis_of _ hP, setFonll_of _ hF, setRen_of _ hR, setFact_of _ hS, moveAlpha_of _ hA, moveQED_of _ hQ]

/-- **idempotence**: upgrading an already upgraded pair of cards changes nothing -/
theorem update_idempotent (t o t' o' : Card) (h : update t o = .ok (t', o')) :
    update t' o' = .ok (t', o') := by
  have hframe := update_frame t o t' o' h
  unfold update at h
  split at h
  · next t1 o1 hf ht =>
    simp only [Except.ok.injEq, Prod.mk.injEq] at h
    obtain ⟨h1, h2⟩ := h
    -- shape of the first pass on the theory card
    unfold updateFnsCard at hf
    split at hf
    · next s r hs hr =>
      split at hf
      · next fns hfns =>
        simp only [Except.ok.injEq] at hf
        have ht' : t' = upgraded fns r.num.toNat t := by
          rw [← h1, ← hf]; rfl
        -- second pass, theory
        have hFNS : t'.get? "FNS" = some (.str s) := by rw [hframe.1 "FNS" (by decide), hs]
        have hNf : t'.get? "NfFF" = some (.num r) := by rw [hframe.1 "NfFF" (by decide), hr]
        have hth : updateFnsCard t' = .ok (setDefaults (setFlavour fns r.num.toNat 2 (setFlavour fns r.num.toNat 1 (setFlavour fns r.num.toNat 0 t')))) := by
          unfold updateFnsCard
          simp only [hFNS, hNf, hfns]
        -- second pass, observables
        have hob : updateTarget o' = .ok o' := by
          rw [← h2]
          unfold updateTarget at ht ⊢
          split at ht
          · next s' hs' =>
            split at ht
            · next z a id hz hid =>
              simp only [pure, Except.pure, Except.ok.injEq] at ht
              rw [← ht]
              simp [get?_set, pure, Except.pure]
            · simp at ht
          · next v hv hnot =>
            simp only [pure, Except.pure, Except.ok.injEq] at ht
            rw [← ht, hnot]
            cases v <;> first | rfl | (exact absurd rfl (hv _))
          · simp at ht
        unfold update
        rw [hth, hob]
        simp only
        have hfix := upgraded_fixed fns r.num.toNat t
        rw [← ht'] at hfix
        unfold tailA setDefaults updateSV at *
        rw [hfix]
      · simp at hf
    · simp at hf
  · simp at h
  · simp at h


/-! ## The caller's objects are never written (heap model, effects regenerated from the source) -/

section heap
open Yadism.Heap Yadism.Generated

/-- `compatibility.update` and everything it calls only store into its own two `.copy()`s -/
theorem update_writes_only_own_copies : safe Effects.update = true := by decide

/-- `update` hands the cards to no function outside `input/compatibility.py` -/
theorem update_hands_cards_to_nobody : Effects.updateEscapes = [] := by decide

/-- **`compatibility.update` leaves every object the caller can see untouched**: on every heap, in
every environment (whatever the parameters refer to), for every choice of branches, stored values
and aliases -/
theorem update_leaves_callers_objects (orc : Oracle) (env : Env) (h0 : Heap) :
    ∀ l, l < h0.length → (exec orc Effects.update (env, h0)).2[l]? = h0[l]? :=
  safe_preserves orc _ env h0 update_writes_only_own_copies

theorem from_dict_leaves_callers_objects (orc : Oracle) (env : Env) (h0 : Heap) :
    ∀ l, l < h0.length → (exec orc Effects.fromDict (env, h0)).2[l]? = h0[l]? :=
  safe_preserves orc _ env h0 (by decide)

/-- the body of `Runner.__init__` (with `update`, `from_dict`, `log.setup` inlined): all its own stores go
into objects it created -/
theorem runner_init_leaves_callers_objects (orc : Oracle) (env : Env) (h0 : Heap) :
    ∀ l, l < h0.length → (exec orc Effects.runnerInit (env, h0)).2[l]? = h0[l]? :=
  safe_preserves orc _ env h0 (by decide)

theorem load_leaves_callers_objects (orc : Oracle) (env : Env) (h0 : Heap) :
    (∀ l, l < h0.length → (exec orc Effects.sfLoad (env, h0)).2[l]? = h0[l]?) ∧
    (∀ l, l < h0.length → (exec orc Effects.xsLoad (env, h0)).2[l]? = h0[l]?) :=
  ⟨safe_preserves orc _ env h0 (by decide), safe_preserves orc _ env h0 (by decide)⟩


/-- the constructors the kinematics dicts of the observables card end up in
(`EvaluatedStructureFunction`, `EvaluatedCrossSection`, the TMC wrapper): they read the dict and keep
a reference, they store nothing into it -/
theorem esf_constructors_leave_callers_objects (orc : Oracle) (env : Env) (h0 : Heap) :
    (∀ l, l < h0.length → (exec orc Effects.esfInit (env, h0)).2[l]? = h0[l]?) ∧
    (∀ l, l < h0.length → (exec orc Effects.exsInit (env, h0)).2[l]? = h0[l]?) ∧
    (∀ l, l < h0.length → (exec orc Effects.tmcInit (env, h0)).2[l]? = h0[l]?) :=
  ⟨safe_preserves orc _ env h0 (by decide), safe_preserves orc _ env h0 (by decide),
    safe_preserves orc _ env h0 (by decide)⟩

/-- **the whole life of a `StructureFunction`** (constructor, then `load`, `get_esf`, `drop_cache`,
`get_result` in any order, any number of times): the only pre-existing things it stores into are its
own `cache` and `esfs`, which the constructor created and every method leaves its own -/
theorem sf_lifecycle_safe : lifecycleSafe Effects.sfInit Effects.sfMethods = true := by decide

theorem sf_lifecycle_leaves_callers_objects (orc : Oracle) (calls : List (List Stmt))
    (hc : ∀ c ∈ calls, c ∈ Effects.sfMethods) (env : Env) (h0 : Heap) :
    ∀ l, l < h0.length → (exec orc (Effects.sfInit ++ calls.flatten) (env, h0)).2[l]? = h0[l]? :=
  lifecycle_preserves orc _ _ sf_lifecycle_safe calls hc env h0

/-- the evaluated objects keep a reference to the caller's kinematics dict; their constructors and
`get_result` (for the TMC wrapper: the dispatch on the mode) store nothing through it -/
theorem esf_lifecycles_leave_callers_objects (orc : Oracle) (env : Env) (h0 : Heap) :
    (∀ calls : List (List Stmt), (∀ c ∈ calls, c ∈ Effects.esfObjMethods) →
      ∀ l, l < h0.length → (exec orc (Effects.esfObjInit ++ calls.flatten) (env, h0)).2[l]? = h0[l]?) ∧
    (∀ calls : List (List Stmt), (∀ c ∈ calls, c ∈ Effects.tmcObjMethods) →
      ∀ l, l < h0.length → (exec orc (Effects.tmcObjInit ++ calls.flatten) (env, h0)).2[l]? = h0[l]?) :=
  ⟨fun calls hc => lifecycle_preserves orc _ _ (by decide) calls hc env h0,
   fun calls hc => lifecycle_preserves orc _ _ (by decide) calls hc env h0⟩

theorem xs_lifecycle_leaves_callers_objects (orc : Oracle) (calls : List (List Stmt))
    (hc : ∀ c ∈ calls, c ∈ Effects.xsMethods) (env : Env) (h0 : Heap) :
    ∀ l, l < h0.length → (exec orc (Effects.xsInit ++ calls.flatten) (env, h0)).2[l]? = h0[l]? :=
  lifecycle_preserves orc _ _ (by decide) calls hc env h0

/-- where the cards (or objects reachable from them) leave the analysed code: constructors of eko's
grid and basis, the scale-variation manager, the observable containers and — through `load` — the
constructors of the evaluated structure functions / cross sections; numpy conversions; logging.
What *those* do with the caller's nested objects is not a theorem: it is observed by the
deep-comparison search (`cards_untouched_and_echoed`). A new callee shows up here. -/
def allowedEscapes : List String :=
  ["XGrid", "InterpolatorDispatcher", "cls", "np.array", "sv.ScaleVariations", "RunnerConfigs",
   "observable_name.ObservableName", "XS", "SF", "obs.load", "interpolator.to_dict",
   "self.get_esf", "exs.EvaluatedCrossSection", "esf.EvaluatedStructureFunction", "tmc.ESFTMCmap[obs_name.kind]",
   "self.runner.get_sf(obs_name).get_esf", "self.runner.get_sf", "elem.get_result", "ESFResult", "ESFInfo",
   "self.compute_local", "self._get_result_APFEL", "self._get_result_approx", "self._get_result_exact",
   "rich.console.Console", "logger.setLevel", "ekologger.setLevel", "RichHandler", "rh.setFormatter",
   "logger.addHandler", "ekologger.addHandler", "logging.FileHandler"]

theorem escapes_known :
    ∀ e ∈ Effects.fromDictEscapes ++ Effects.runnerInitEscapes ++ Effects.sfLoadEscapes ++ Effects.xsLoadEscapes
        ++ Effects.esfInitEscapes ++ Effects.exsInitEscapes ++ Effects.tmcInitEscapes ++ Effects.sfLifeEscapes
        ++ Effects.xsLifeEscapes ++ Effects.esfObjLifeEscapes ++ Effects.tmcObjLifeEscapes,
      e.1 ∈ allowedEscapes := by decide

/-- the model can exhibit the failure: one store through a parameter, or one nested store through a
copy, changes an object the caller sees — and `safe` rejects exactly these programs -/
example :
    let orc : Oracle := ⟨fun _ => true, fun _ _ => [("kcThr", .atom 0)], fun _ => 1, fun _ => 0⟩
    let env : Env := fun v => if v = "theory" then some 0 else none
    let h0 : Heap := [[("CKM", .ref 1)], [("0", .atom 5)]]
    (exec orc [.write "theory"] (env, h0)).2[0]? ≠ h0[0]?
      ∧ safe [.write "theory"] = false
      ∧ (exec orc [.copy "t" "theory", .writeNested "t"] (env, h0)).2[1]? ≠ h0[1]?
      ∧ safe [.copy "t" "theory", .writeNested "t"] = false
      ∧ (exec orc [.copy "t" "theory", .write "t"] (env, h0)).2 = h0 ++ [[("kcThr", .atom 0)]]
      ∧ safe [.copy "t" "theory", .write "t"] = true := by
  decide

end heap

/-! Non-vacuity and an executable instance of idempotence -/
def sampleT : Card :=
  [("FNS", .str "FONLL-FFNS"), ("NfFF", .num 4), ("PTO", .num 1), ("kcThr", .num 1), ("kbThr", .num 1),
   ("ktThr", .num 1), ("alphaqed", .num (7/1000)), ("QED", .num 0), ("CKM", .obj 7)]
def sampleO : Card := [("TargetDIS", .str "iron"), ("observables", .obj 3), ("interpolation_xgrid", .obj 4)]

example : ∃ t' o', update sampleT sampleO = .ok (t', o') ∧ update t' o' = .ok (t', o') ∧
    t'.get? "CKM" = some (.obj 7) ∧ o'.get? "observables" = some (.obj 3) ∧
    t'.get? "kbThr" = some .inf ∧ t'.get? "ZMb" = some (.bool false) ∧ t'.get? "alphaem" = some (.num (7/1000)) := by
  refine ⟨_, _, rfl, ?_, ?_⟩ <;> decide +kernel

end Yadism.C20
