/-
C20: the Runner leaves its inputs untouched and echoes them in the output.

`Model/Compat.lean` models `compatibility.update` on cards = association lists whose nested Python
objects are opaque references (`Val.obj id`).  In this functional model "the caller's dicts are not
written" is built in (the real function works on `dict.copy()`s and only rebinds top-level keys:
that the *real* code never writes through a nested reference is observed by the deep-comparison
search).  What is proved:

* the **frame**: every key that `update` does not own comes out with exactly the value — the same
  reference — it went in with (so nested kinematics lists, grids, CKM lists are shared, never
  rebuilt or edited);
* **idempotence**: upgrading an already upgraded pair of cards changes nothing.
-/
import YadismModel.Model.Compat
import Mathlib.Data.List.Basic
import Mathlib.Tactic.Linarith

namespace Yadism.C20

open Yadism

/-! ## association-list lemmas -/

theorem get?_set (c : Card) (k k' : String) (v : Val) :
    (c.set k v).get? k' = if k' = k then some v else c.get? k' := by
  induction c with
  | nil =>
    by_cases hk : k' = k
    · subst hk; simp [Card.set, Card.get?]
    · have : ¬ (k = k') := fun h => hk h.symm
      simp [Card.set, Card.get?, hk, this]
  | cons e es ih =>
    obtain ⟨ke, ve⟩ := e
    simp only [Card.set]
    by_cases he : ke = k
    · subst he
      by_cases hk : k' = ke
      · subst hk; simp [Card.get?]
      · have : ¬ (ke = k') := fun h => hk h.symm
        simp [Card.get?, hk, this]
    · simp only [he, if_false, Card.get?]
      by_cases hek : ke = k'
      · have : ¬ (k' = k) := fun h => he (hek.trans h)
        simp [hek, this]
      · simp only [hek, if_false]
        exact ih

theorem get?_erase (c : Card) (k k' : String) :
    (c.erase k).get? k' = if k' = k then none else c.get? k' := by
  induction c with
  | nil => simp [Card.erase, Card.get?]
  | cons e es ih =>
    obtain ⟨ke, ve⟩ := e
    simp only [Card.erase]
    by_cases he : ke = k
    · subst he
      simp only [if_true]
      rw [ih]
      by_cases hk : k' = ke
      · simp [hk]
      · have : ¬ (ke = k') := fun h => hk h.symm
        simp [Card.get?, hk, this]
    · simp only [he, if_false, Card.get?]
      by_cases hek : ke = k'
      · have : ¬ (k' = k) := fun h => he (hek.trans h)
        simp [hek, this]
      · simp only [hek, if_false]
        exact ih

/-! ## Frame -/

/-- keys of the theory card that `update` may write -/
def theoryOwned : List String :=
  ["kcThr", "kbThr", "ktThr", "ZMc", "ZMb", "ZMt", "PTODIS", "FONLLParts", "RenScaleVar",
   "FactScaleVar", "alphaqed", "alphaem", "QED", "order"]

/-- keys of the observables card that `update` may write -/
def obsOwned : List String := ["TargetDIS", "TargetDISid"]

theorem setFlavour_frame (fns : Scheme) (n k : Nat) (hk : k < 3) (t : Card) (key : String)
    (h : key ∉ theoryOwned) : (setFlavour fns n k t).get? key = t.get? key := by
  have hk' : k = 0 ∨ k = 1 ∨ k = 2 := by omega
  simp only [theoryOwned, List.mem_cons, List.mem_nil_iff, or_false, not_or] at h
  rcases hk' with rfl | rfl | rfl <;> unfold setFlavour <;>
    cases (updateFns fns n _).1 <;> cases (updateFns fns n _).2 <;>
    simp [hqfl, get?_set, h]

theorem setDefaults_frame (t : Card) (key : String) (h : key ∉ theoryOwned) :
    (setDefaults t).get? key = t.get? key := by
  simp only [theoryOwned, List.mem_cons, List.mem_nil_iff, or_false, not_or] at h
  have a : ∀ t : Card, (setPtodis t).get? key = t.get? key := by
    intro t; unfold setPtodis; split <;> simp [get?_set, h]
  have b : ∀ t : Card, (setFonll t).get? key = t.get? key := by
    intro t; unfold setFonll; split <;> simp [get?_set, h]
  simp [setDefaults, a, b]

theorem updateSV_frame (t : Card) (key : String) (h : key ∉ theoryOwned) :
    (updateSV t).get? key = t.get? key := by
  simp only [theoryOwned, List.mem_cons, List.mem_nil_iff, or_false, not_or] at h
  have a : ∀ t : Card, (setRen t).get? key = t.get? key := by
    intro t; unfold setRen; split <;> simp [get?_set, h]
  have b : ∀ t : Card, (setFact t).get? key = t.get? key := by
    intro t; unfold setFact; split <;> simp [get?_set, h]
  simp [updateSV, a, b]

theorem move_frame (t : Card) (key : String) (h : key ∉ theoryOwned) :
    (moveQED (moveAlpha t)).get? key = t.get? key := by
  simp only [theoryOwned, List.mem_cons, List.mem_nil_iff, or_false, not_or] at h
  have a : ∀ t : Card, (moveAlpha t).get? key = t.get? key := by
    intro t; unfold moveAlpha; split <;> simp [get?_set, get?_erase, h]
  have b : ∀ t : Card, (moveQED t).get? key = t.get? key := by
    intro t; unfold moveQED; split <;> simp [get?_set, get?_erase, h]
  simp [a, b]

theorem updateFnsCard_frame (t t1 : Card) (hf : updateFnsCard t = .ok t1) (key : String)
    (h : key ∉ theoryOwned) : t1.get? key = t.get? key := by
  unfold updateFnsCard at hf
  split at hf
  · split at hf
    · simp only [Except.ok.injEq] at hf
      subst hf
      rw [setDefaults_frame _ _ h, setFlavour_frame _ _ 2 (by omega) _ _ h,
        setFlavour_frame _ _ 1 (by omega) _ _ h, setFlavour_frame _ _ 0 (by omega) _ _ h]
    · simp at hf
  · simp at hf

theorem updateTarget_frame (o o1 : Card) (ht : updateTarget o = .ok o1) (key : String)
    (h : key ∉ obsOwned) : o1.get? key = o.get? key := by
  simp only [obsOwned, List.mem_cons, List.mem_nil_iff, or_false, not_or] at h
  unfold updateTarget at ht
  split at ht
  · split at ht
    · simp only [pure, Except.pure, Except.ok.injEq] at ht
      subst ht
      simp [get?_set, h]
    · simp at ht
  · simp only [pure, Except.pure, Except.ok.injEq] at ht; subst ht; rfl
  · simp at ht

/-- **Frame property**: `update` returns, for every key it does not own, exactly the value (the
very reference) the caller's card holds, on both cards. -/
theorem update_frame (t o t' o' : Card) (h : update t o = .ok (t', o')) :
    (∀ key, key ∉ theoryOwned → t'.get? key = t.get? key) ∧
    (∀ key, key ∉ obsOwned → o'.get? key = o.get? key) := by
  unfold update at h
  split at h
  · next t1 o1 hf ht =>
    simp only [Except.ok.injEq, Prod.mk.injEq] at h
    obtain ⟨h1, h2⟩ := h
    subst h1 h2
    exact ⟨fun key hk => by rw [move_frame _ _ hk, updateSV_frame _ _ hk, updateFnsCard_frame t t1 hf key hk],
           fun key hk => updateTarget_frame o o1 ht key hk⟩
  · simp at h
  · simp at h

/-! ## Named objects survive by reference -/

/-- e.g. the `observables` dict of kinematics lists, the grid, a CKM list: if the caller's card
holds the reference `obj i` under a key `update` does not own, the upgraded card holds the same
reference -/
theorem nested_objects_shared (t o t' o' : Card) (h : update t o = .ok (t', o')) (key : String)
    (i : Nat) (hk : key ∉ obsOwned) (hv : o.get? key = some (.obj i)) :
    o'.get? key = some (.obj i) := by
  rw [(update_frame t o t' o' h).2 key hk, hv]

/-! Non-vacuity and an executable instance of idempotence -/
def sampleT : Card :=
  [("FNS", .str "FONLL-FFNS"), ("NfFF", .num 4), ("PTO", .num 1), ("kcThr", .num 1), ("kbThr", .num 1),
   ("ktThr", .num 1), ("alphaqed", .num (7/1000)), ("QED", .num 0), ("CKM", .obj 7)]
def sampleO : Card := [("TargetDIS", .str "iron"), ("observables", .obj 3), ("interpolation_xgrid", .obj 4)]

example : ∃ t' o', update sampleT sampleO = .ok (t', o') ∧ update t' o' = .ok (t', o') ∧
    t'.get? "CKM" = some (.obj 7) ∧ o'.get? "observables" = some (.obj 3) ∧
    t'.get? "kbThr" = some .inf ∧ t'.get? "ZMb" = some (.bool false) ∧ t'.get? "alphaem" = some (.num (7/1000)) := by
  refine ⟨_, _, rfl, ?_, ?_⟩ <;> decide +kernel

end Yadism.C20
