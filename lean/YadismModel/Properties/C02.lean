/-
C02 — LO parton model and electroweak / CKM coupling weights.

The *spec* section writes the PDG / `docs/source/theory/fact.rst` expressions independently of the
model's code path; the theorems say the model's weight maps (the dictionaries the real code
builds, tied to it by the `corr_weights` / `combiner` correspondences) equal them for **all**
rational `Q²`, `sin²θ_W`, `M_Z²`, `M_W²`, polarisation, propagator correction and CKM² entries.
The propagator ratio `η_γZ` is a shared sub-expression (`CC.etaPhZ`): its own closed form is
`eta_closed_form`.
-/
import YadismModel.Lemmas.Basic

namespace Yadism.C02

open Yadism

/-! ## Spec (PDG 2020, "Structure functions", eqs. 18.8–18.12, in yadism's normalisation) -/

def gVq (s2w : Rat) (q : Nat) : Rat := t3 q - 2 * eQ q * s2w
def gAq (q : Nat) : Rat := t3 q
/-- charged-lepton couplings -/
def gVe (s2w : Rat) : Rat := -1/2 + 2 * s2w
def gAe : Rat := -1/2
/-- `+1` for `e⁺`, `-1` for `e⁻` -/
def lepSign (proj : Int) : Rat := if proj = -11 then 1 else -1

/-- `η_γZ` as documented -/
def etaSpec (mz2 s2w pc q2 : Rat) : Rat := q2 / (mz2 + q2) / (4 * s2w * (1 - s2w)) / (1 - pc)

/-- parity-conserving weight (F2, FL, g1): `e_q² − 2 e_q g_V^q (g_V^e ± λ g_A^e) η
   + (g_V^e² + g_A^e² ± 2 λ g_V^e g_A^e)(g_V^q² + g_A^q²) η²` -/
def specPC (s2w lam sgn eta : Rat) (q : Nat) : Rat :=
  eQ q ^ 2 - 2 * eQ q * gVq s2w q * (gVe s2w + sgn * lam * gAe) * eta
    + (gVe s2w ^ 2 + gAe ^ 2 + 2 * sgn * lam * gVe s2w * gAe) * (gVq s2w q ^ 2 + gAq q ^ 2) * eta ^ 2

/-- parity-violating weight (F3, gL, g4): `−2 e_q g_A^q (g_A^e ± λ g_V^e) η
   + 2 g_V^q g_A^q (2 g_V^e g_A^e ± λ (g_V^e² + g_A^e²)) η²` -/
def specPV (s2w lam sgn eta : Rat) (q : Nat) : Rat :=
  - 2 * eQ q * gAq q * (gAe + sgn * lam * gVe s2w) * eta
    + 2 * gVq s2w q * gAq q * (2 * gVe s2w * gAe + sgn * lam * (gVe s2w ^ 2 + gAe ^ 2)) * eta ^ 2

/-! ## Theorems -/

theorem eta_closed_form (c : CC) (q2 : Rat) :
    c.etaPhZ q2 = etaSpec c.th.mz2 c.th.s2w c.ob.propCorr q2 := rfl

/-- polarisation seen by the model for a charged lepton: `effPol = lepSign · pol` -/
theorem effPol_charged (c : CC) (h : c.ob.projectile = 11 ∨ c.ob.projectile = -11) :
    c.effPol = lepSign c.ob.projectile * c.ob.pol := by
  have e1 : Int.emod 11 2 = 1 := by decide
  have e2 : Int.emod (-11) 2 = 1 := by decide
  rcases h with h | h <;> simp [CC.effPol, lepSign, h, e1, e2]

private theorem natAbs_charged (c : CC) (h : c.ob.projectile = 11 ∨ c.ob.projectile = -11) :
    c.ob.projectile.natAbs = 11 := by
  rcases h with h | h <;> simp [h]

/-- NC, parity conserving, no coupling restriction: the `VV+AA` weight of quark `q` is the PDG
expression. -/
theorem wPair_pc_nc (c : CC) (q2 : Rat) (q : Nat) (h1 : 1 ≤ q) (h6 : q ≤ 6)
    (hproc : c.ob.process = .NC) (hproj : c.ob.projectile = 11 ∨ c.ob.projectile = -11)
    (hpos : c.ob.posCharge = none) :
    c.wPair q q2 false
      = specPC c.th.s2w c.ob.pol (lepSign c.ob.projectile) (c.etaPhZ q2) q := by
  have hq := electricCharge_quark q h1 h6
  have ht := weakIsospin3_quark q h1 h6
  simp only [CC.wPair, CC.getWeightNC, CC.getWeightNCraw, CC.posBlocked, hpos, hproc, CC.leptonicCoupling,
    CC.propagatorFactor, CC.partonicCouplingNC, CC.qph, CC.qZ, CC.vectorialCoupling,
    natAbs_charged c hproj, effPol_charged c hproj, QCT.VV, QCT.AA, QCT.isPC, Int.natAbs_natCast,
    hq, ht, specPC, gVq, gAq, gVe, gAe, electricCharge_11, weakIsospin3_11]
  simp
  ring

/-- NC, parity violating: the `VA+AV` weight of quark `q` is the PDG expression. -/
theorem wPair_pv_nc (c : CC) (q2 : Rat) (q : Nat) (h1 : 1 ≤ q) (h6 : q ≤ 6)
    (hproc : c.ob.process = .NC) (hproj : c.ob.projectile = 11 ∨ c.ob.projectile = -11)
    (hpos : c.ob.posCharge = none) :
    c.wPair q q2 true
      = specPV c.th.s2w c.ob.pol (lepSign c.ob.projectile) (c.etaPhZ q2) q := by
  have hq := electricCharge_quark q h1 h6
  have ht := weakIsospin3_quark q h1 h6
  simp only [CC.wPair, CC.getWeightNC, CC.getWeightNCraw, CC.posBlocked, hpos, hproc, CC.leptonicCoupling,
    CC.propagatorFactor, CC.partonicCouplingNC, CC.qph, CC.qZ, CC.vectorialCoupling,
    natAbs_charged c hproj, effPol_charged c hproj, QCT.VA, QCT.AV, QCT.isPC, Int.natAbs_natCast,
    hq, ht, specPV, gVq, gAq, gVe, gAe, electricCharge_11, weakIsospin3_11]
  simp
  ring

/-- EM: the parity-conserving weight is the squared charge, the parity-violating one vanishes. -/
theorem em_is_charge_sq (c : CC) (q2 : Rat) (q : Nat) (h1 : 1 ≤ q) (h6 : q ≤ 6)
    (hproc : c.ob.process = .EM) (hproj : c.ob.projectile = 11 ∨ c.ob.projectile = -11)
    (hpos : c.ob.posCharge = none) :
    c.wPair q q2 false = eQ q ^ 2 ∧ c.wPair q q2 true = 0 := by
  have hq := electricCharge_quark q h1 h6
  constructor
  · simp only [CC.wPair, CC.getWeightNC, CC.getWeightNCraw, CC.posBlocked, hpos, hproc, CC.leptonicCoupling,
      CC.propagatorFactor, CC.partonicCouplingNC, CC.qph, natAbs_charged c hproj, QCT.VV, QCT.AA,
      QCT.isPC, Int.natAbs_natCast, hq, electricCharge_11]
    simp
    ring
  · simp only [CC.wPair, CC.getWeightNC, CC.getWeightNCraw, CC.posBlocked, hpos, hproc, CC.leptonicCoupling,
      CC.propagatorFactor, CC.partonicCouplingNC, CC.qph, natAbs_charged c hproj, QCT.VA, QCT.AV,
      QCT.isPC, Int.natAbs_natCast, hq, electricCharge_11]
    simp

/-- **LO NC structure**: for every active quark the light non-singlet weight map carries the
PDG weight on `q` and on `q̄` (parity conserving) resp. the weight on `q` and minus the weight on
`q̄` (parity violating); inactive flavours and the gluon get 0.  With the LO coefficient `δ(1-z)`
this is `F = x Σ_q w_q (q ± q̄)`. -/
theorem lo_nc_weights (c : CC) (q2 : Rat) (nf q : Nat) (isPV : Bool) (h1 : 1 ≤ q) (hq : q ≤ nf) :
    (ncWeights c q2 nf isPV).ns (q : Int) = c.wPair q q2 isPV ∧
    (ncWeights c q2 nf isPV).ns (-(q : Int)) = (if isPV then - c.wPair q q2 isPV else c.wPair q q2 isPV) := by
  have hpos : ¬ ((q : Int) < 0) := by omega
  have hq0 : q ≠ 0 := by omega
  cases isPV <;>
    simp [ncWeights, ncCoupled, h1, hq, hpos, hq0, Int.natAbs_neg, Int.natAbs_natCast]

theorem lo_nc_weights_inactive (c : CC) (q2 : Rat) (nf : Nat) (isPV : Bool) (p : Int)
    (h : p.natAbs = 0 ∨ nf < p.natAbs) : (ncWeights c q2 nf isPV).ns p = 0 := by
  cases isPV <;> rcases h with h | h <;> simp [ncWeights, ncCoupled, h]

/-! ### Charged current -/

/-- squared CKM element between an up-type `u ∈ {2,4,6}` and a down-type `d ∈ {1,3,5}` quark -/
def V2 (m : CKM2) (u d : Nat) : Rat :=
  match u, d with
  | 2, 1 => m.ud | 2, 3 => m.us | 2, 5 => m.ub
  | 4, 1 => m.cd | 4, 3 => m.cs | 4, 5 => m.cb
  | 6, 1 => m.td | 6, 3 => m.ts | 6, 5 => m.tb
  | _, _ => 0

/-- partners of quark `q`: the three quarks of the other type -/
def partners (q : Nat) : List Nat := if q % 2 = 0 then [1, 3, 5] else [2, 4, 6]

def V2q (m : CKM2) (q p : Nat) : Rat := if q % 2 = 0 then V2 m q p else V2 m p q

/-- spec of the light CC weight: `2 Σ_{partners p, both flavours active} |V_qp|²` -/
def specCCLight (m : CKM2) (nf q : Nat) : Rat :=
  2 * listSum ((partners q).map fun p => if max q p ≤ nf then V2q m q p else 0)

/-- spec of the heavy CC weight for heavy quark `h`: only CKM entries that involve `h` and a
lighter partner (`CKM2Matrix.masked` with a one-letter mask) -/
def specCCHeavy (m : CKM2) (h q : Nat) : Rat :=
  2 * listSum ((partners q).map fun p => if max q p = h then V2q m q p else 0)

theorem cc_weight_light_mask (c : CC) (nf q : Nat) (hnf3 : 3 ≤ nf) (hnf6 : nf ≤ 6)
    (h1 : 1 ≤ q) (h6 : q ≤ 6) :
    c.getWeightCC q (Mask.light nf) = specCCLight c.th.ckm nf q := by
  interval_cases nf <;> interval_cases q <;>
    simp [CC.getWeightCC, CC.partonicCouplingCC, CKM2.masked, CKM2.sumFor, Mask.light, b2r,
      specCCLight, partners, V2q, V2] <;> try ring

theorem cc_weight_heavy_mask (c : CC) (h q : Nat) (hh4 : 4 ≤ h) (hh6 : h ≤ 6)
    (h1 : 1 ≤ q) (h6 : q ≤ 6) :
    c.getWeightCC q (Mask.single h) = specCCHeavy c.th.ckm h q := by
  interval_cases h <;> interval_cases q <;>
    simp [CC.getWeightCC, CC.partonicCouplingCC, CKM2.masked, CKM2.sumFor, Mask.single, b2r,
      specCCHeavy, partners, V2q, V2] <;> try ring

/-- the pid on which flavour `q` enters: `+q` iff (`q` odd) = (projectile is `e⁺` or `ν`) -/
def ccPid (c : CC) (q : Nat) : Int := c.ccSign q * (q : Int)

/-- **LO CC structure** (arbitrary CKM², mask, projectile, nf): the sum of the even and odd
non-singlet kernels puts the whole weight of flavour `q ≤ nf` on the single pid `ccPid q`
(times the sign for parity-violating kinds) and exactly 0 on the opposite pid. -/
theorem lo_cc_even_plus_odd (c : CC) (mask : Mask) (nf q : Nat) (isPV : Bool)
    (h1 : 1 ≤ q) (hq : q ≤ nf) :
    (ccWeightsEven c mask nf isPV).ns (ccPid c q) + (ccWeightsOdd c mask nf isPV).ns (ccPid c q)
      = (if isPV then sgnR (c.ccSign q) else 1) * c.getWeightCC q mask ∧
    (ccWeightsEven c mask nf isPV).ns (-(ccPid c q)) + (ccWeightsOdd c mask nf isPV).ns (-(ccPid c q))
      = 0 := by
  have hs : c.ccSign q = 1 ∨ c.ccSign q = -1 := by unfold CC.ccSign; split <;> simp
  have hq0 : q ≠ 0 := by omega
  rcases hs with hs | hs <;> cases isPV <;>
    simp [ccWeightsEven, ccWeightsOdd, ccPid, hs, h1, hq, hq0, Int.natAbs_neg, Int.natAbs_natCast, sgnR] <;>
    ring

/-- neutrino / positron: down-type quarks and up-type antiquarks; antineutrino / electron: the
mirror image. -/
theorem cc_pid_assignment (c : CC) (q : Nat) :
    ccPid c q = (if (q % 2 = 1) = (c.ob.projectile = -11 ∨ c.ob.projectile = 12) then (q : Int) else -(q : Int)) := by
  unfold ccPid CC.ccSign CC.rest
  by_cases hp : (c.ob.projectile = -11 ∨ c.ob.projectile = 12) <;>
    rcases Nat.mod_two_eq_zero_or_one q with h | h <;> simp [hp, h]

/-! ## Non-vacuity -/

def sampleCC : CC :=
  { th := { mz2 := 8315, mw2 := 6464, s2w := 23/100,
            ckm := { ud := 0.95, us := 0.05, ub := 0.0001, cd := 0.05, cs := 0.94, cb := 0.0016,
                     td := 0.0001, ts := 0.0016, tb := 0.998 } },
    ob := { process := .NC, projectile := 11, pol := 1/2, propCorr := 0, posCharge := none } }

example : sampleCC.wPair 2 100 false ≠ eQ 2 ^ 2 := by decide +kernel
example : sampleCC.wPair 2 100 true ≠ 0 := by decide +kernel
example : specCCLight sampleCC.th.ckm 4 1 = 2 * (0.95 + 0.05) := by decide +kernel

end Yadism.C02
