/-
C11: cross sections are the documented combinations of structure functions.

Spec: `docs/source/theory/intro.rst`,
  sigma = N (F2 + (yL / yplus) * (minus FL) + sign * (yminus / yplus) * xF3),
written here independently as `(N, yplus, yminus, yL)` per kind; the theorem says the coefficient
triple of the model (tied to the real `xs_coeffs_*` by correspondence) is
`(N, minus N yL / yplus, sign N yminus / yplus)` with sign = (minus 1)^l.
-/
import YadismModel.Model.XS
import YadismModel.Lemmas.Basic

namespace Yadism.C11

open Yadism

/-- documented ingredients `(N, y₊, y₋, y_L)`; `N` multiplies the whole bracket -/
structure Doc where
  N : Rat
  yp : Rat
  ym : Rat
  yL : Rat

def ypStd (y : Rat) : Rat := 1 + (1 - y) ^ 2
def ymStd (y : Rat) : Rat := 1 - (1 - y) ^ 2
def ypc (y x q2 mh : Rat) : Rat := 1 + (1 - y) ^ 2 - 2 * (x * y * mh) ^ 2 / q2

/-- the documented table (XSFPFCC in pb, CHORUS / NUTEVNU with the GeV⁻² → cm² factor) -/
def doc (kind : XSKind) (y x q2 : Rat) (p : XSParams) : Doc :=
  match kind with
  | .XSHERANC => ⟨1, ypStd y, ymStd y, y ^ 2⟩
  | .XSHERANCAVG => ⟨1, ypStd y, 0, y ^ 2⟩
  | .XSHERACC => ⟨1 / 4 * ypStd y, ypStd y, ymStd y, y ^ 2⟩
  | .XSCHORUSCC =>
    ⟨gevCm2Conv * p.gf ^ 2 * p.mn / (2 * p.pi * (1 + q2 / p.m2w) ^ 2) * ypc y x q2 p.mn,
     ypc y x q2 p.mn, ymStd y, y ^ 2⟩
  | .XSNUTEVCC => ⟨100 / (2 * (1 + q2 / p.m2w) ^ 2) * ypc y x q2 p.mn, ypc y x q2 p.mn, ymStd y, y ^ 2⟩
  | .XSNUTEVNU => ⟨gevCm2Conv * p.gf ^ 2 * p.mn / (2 * p.pi) * ypc y x q2 p.mn, ypc y x q2 p.mn, ymStd y, y ^ 2⟩
  | .FW => ⟨1, 1, 0, y ^ 2 / (2 * (y ^ 2 / 2 + (1 - y) - (p.mn * x * y) ^ 2 / q2))⟩
  | .XSFPFCC =>
    ⟨gevCm2Conv / 100 * p.gf ^ 2 / (4 * p.pi * x * (1 + q2 / p.m2w) ^ 2) * ypStd y, ypStd y, ymStd y, y ^ 2⟩
  | .F1 => ⟨1, 1, 0, 1⟩     -- 2xF1 = F2 − FL
  | .g5 => ⟨1, 1, 0, 1⟩     -- 2xg5 = g4 − gL

/-- `(−1)^ℓ`: `−1` for antileptons -/
def lsign (p : XSParams) : Rat := if p.projectilePID < 0 then -1 else 1

/-- **Coefficients are the documented ones**, for all rational `x, y, Q²` and parameters with the
documented `y₊ ≠ 0` (it is `≥ 1` for the standard definition; for the target-mass corrected one it
can vanish only on a curve outside the physical region). -/
theorem xs_coeffs_documented (kind : XSKind) (y x q2 : Rat) (p : XSParams)
    (hyp : (doc kind y x q2 p).yp ≠ 0) :
    xsCoeffs kind y x q2 p
      = ((doc kind y x q2 p).N,
         -(doc kind y x q2 p).N * (doc kind y x q2 p).yL / (doc kind y x q2 p).yp,
         lsign p * (doc kind y x q2 p).N * (doc kind y x q2 p).ym / (doc kind y x q2 p).yp) := by
  -- it suffices to compare after multiplying the 2nd and 3rd components by y+
  suffices h : (xsCoeffs kind y x q2 p).1 = (doc kind y x q2 p).N ∧
      (xsCoeffs kind y x q2 p).2.1 * (doc kind y x q2 p).yp
        = -(doc kind y x q2 p).N * (doc kind y x q2 p).yL ∧
      (xsCoeffs kind y x q2 p).2.2 * (doc kind y x q2 p).yp
        = lsign p * (doc kind y x q2 p).N * (doc kind y x q2 p).ym by
    obtain ⟨h1, h2, h3⟩ := h
    refine Prod.ext h1 (Prod.ext ?_ ?_)
    · exact (eq_div_iff hyp).mpr h2
    · exact (eq_div_iff hyp).mpr h3
  cases kind <;> simp only [doc] at hyp ⊢ <;>
    simp only [xsCoeffs, lsign, ypStd, ymStd, ypc, sq] at * <;>
    refine ⟨?_, ?_, ?_⟩ <;>
    first
      | ring1
      | (rw [div_mul_cancel₀ _ hyp]; ring1)
      | (rw [neg_div, neg_mul, div_mul_cancel₀ _ hyp]; ring1)
      | trivial
      | (simp only [div_div, div_mul_div_comm, mul_one]; ring1)

/-- the F3 term flips sign exactly for antileptons -/
theorem f3_sign (kind : XSKind) (y x q2 : Rat) (p : XSParams) (h0 : p.projectilePID ≠ 0) :
    (xsCoeffs kind y x q2 { p with projectilePID := -p.projectilePID }).2.2
      = - (xsCoeffs kind y x q2 p).2.2 := by
  by_cases h : p.projectilePID < 0
  · have h' : ¬ (0 < p.projectilePID) := by omega
    cases kind <;> simp [xsCoeffs, h, h'] <;> ring
  · have h' : (0 < p.projectilePID) := by omega
    cases kind <;> simp [xsCoeffs, h, h'] <;> ring

/-- standard `y₊ ≥ 1`, so the hypothesis of `xs_coeffs_documented` is automatic for the HERA and
FPF kinds -/
theorem ypStd_pos (y : Rat) : ypStd y ≠ 0 := by
  have : 0 ≤ (1 - y) ^ 2 := sq_nonneg _
  unfold ypStd; intro h; linarith

/-! ## The result is that linear combination, key by key -/

theorem get_smul (c : Rat) (r : Res) (k : OKey) : (Res.smul c r).get k = c * r.get k := by
  unfold Res.smul Res.get
  cases h : r k <;> simp [h]

theorem get_add (a b : Res) (k : OKey) : (Res.add a b).get k = a.get k + b.get k := by
  unfold Res.add Res.get
  cases ha : a k <;> cases hb : b k <;> simp [ha, hb]

/-- **Linearity**: every entry of the cross-section result is the coefficient combination of the
corresponding entries of the three structure functions of the same run (absent key = 0), for every
order / scale-variation key. -/
theorem xs_linear (c : Rat × Rat × Rat) (sf1 sf2 sf3 : Res) (k : OKey) :
    (xsResult c sf1 sf2 sf3).get k = c.1 * sf1.get k + c.2.1 * sf2.get k + c.2.2 * sf3.get k := by
  unfold xsResult
  by_cases h : c.2.2 = 0
  · have he : (Res.smul c.2.2 Res.empty).get k = 0 := by simp [Res.smul, Res.empty, Res.get]
    simp only [h, ne_eq, not_true_eq_false, if_false, get_add, get_smul] at *
    rw [he]; simp [h]
  · simp only [h, ne_eq, not_false_eq_true, if_true, get_add, get_smul]

/-- the key set of the result is the union of the key sets of the structure functions used -/
theorem xs_keys (c : Rat × Rat × Rat) (sf1 sf2 sf3 : Res) (k : OKey) :
    (xsResult c sf1 sf2 sf3).has k = (sf1.has k || sf2.has k || (decide (c.2.2 ≠ 0) && sf3.has k)) := by
  unfold xsResult Res.has Res.add Res.smul
  by_cases h : c.2.2 = 0 <;> cases h1 : sf1 k <;> cases h2 : sf2 k <;> cases h3 : sf3 k <;>
    simp [h, h1, h2, h3, Res.empty]

/-! Non-vacuity -/
def sampleP : XSParams := { projectilePID := -12, mn := 938/1000, m2w := 6464, gf := 11663787/1000000000000, pi := 355/113 }
example : (doc .XSCHORUSCC (1/2) (1/10) 10 sampleP).yp ≠ 0 := by decide +kernel
example : (xsCoeffs .XSCHORUSCC (1/2) (1/10) 10 sampleP).2.2 ≠ 0 := by decide +kernel

end Yadism.C11
