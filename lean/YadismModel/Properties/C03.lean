/-
C03: every coefficient / splitting kernel is one well-defined (x-independent) distribution:
`loc(x) = δ − ∫₀ˣ sing`, i.e. `loc` is differentiable on `x < 1` with `loc' = −sing`.

Three families (DESIGN.md 6/C03):
A. `RSL.from_distr_coeffs` — structural theorem for every coefficient list
   (`from_distr_coeffs_distribution`, `Lemmas/FromDistr.lean`).
B. hand-written triples whose parts are polynomials in `L = log(1−z)` over `(1−z)`:
   the verified normaliser reduces the claim to a coefficient identity which the kernel decides on
   the terms *generated from the current source* (`exact_pairs`, `approx_pairs`); the lemma
   `distributionOK_exact_sound` lifts it to all `x < 1`, all `args[0]` (nf resp. `log(Q²/m²)`).
C. local parts without singular part do not depend on `x` (`loc_only_constant`).
Closures and triples outside the fragment (listed in the evidence) are covered by the numerical
search on the real functions only.
-/
import YadismModel.Lemmas.FromDistr
import YadismModel.Generated.Triples

namespace Yadism.C03

open Yadism

/-- relative tolerance for published 5–6 digit parametrisations -/
def tau : Rat := 1 / 10000

/-- B, exact pairs (LO/NLO splitting kernels, asymptotic logs): coefficient identity, decided -/
theorem exact_pairs : (Yadism.Gen.exactPairs.all fun p => distributionOK 0 p.2.1 p.2.2) = true := by
  decide +kernel

/-- B, parametrised NNLO / N3LO non-singlet coefficients: identity within `tau` on every
coefficient (as polynomials in `nf`) -/
theorem approx_pairs : (Yadism.Gen.approxPairs.all fun p => distributionOK tau p.2.1 p.2.2) = true := by
  decide +kernel

/-- **B lifted**: for every exact pair, every `x < 1`, every value of `args[0]` and of the
symbolic constants: `d loc/dx = −sing(x)`. -/
theorem exact_pairs_distribution (env : REnv) (hstd : env.Std) :
    ∀ p ∈ Yadism.Gen.exactPairs, ∀ x : ℝ, x < 1 →
      HasDerivAt (p.2.2.fn env) (-(p.2.1.fn env x)) x := by
  intro p hp x hx
  have h := exact_pairs
  rw [List.all_eq_true] at h
  exact distributionOK_exact_sound env hstd _ _ (h p hp) x hx

/-- for every approximate pair the parts are inside the fragment, so that
`distribution_residual` applies: the residual `loc' + sing` equals
`(s(L) − (dl/dL)(L))/(1−x)` whose coefficients `approx_pairs` bounds by `tau·|s_k|` -/
theorem approx_pairs_in_fragment :
    (Yadism.Gen.approxPairs.all fun p =>
      (match normLD p.2.1, normLD p.2.2 with
       | some s, some l => s.k == 1 && l.k == 0
       | _, _ => false)) = true := by
  decide +kernel

/-- C: local parts that come without a singular part do not mention `z` … -/
theorem loc_only_constant : (Yadism.Gen.locOnly.all fun p => localIsConstant p.2) = true := by
  decide +kernel

/-- … hence are x-independent -/
theorem loc_only_x_independent (env : REnv) :
    ∀ p ∈ Yadism.Gen.locOnly, ∀ x y : ℝ, p.2.fn env x = p.2.fn env y := by
  intro p hp x y
  have h := loc_only_constant
  rw [List.all_eq_true] at h
  have hp' := h p hp
  simp only [localIsConstant, Bool.not_eq_true'] at hp'
  exact usesZ_false_const env p.2 hp' x y

/-- A: restated here so that it is audited with the property -/
theorem from_distr_coeffs (cs : List ℝ) (x : ℝ) (hx : x < 1) :
    HasDerivAt (locFromCoeffs cs) (-(singFromCoeffs cs.tail x)) x :=
  from_distr_coeffs_distribution cs x hx

/-- non-vacuity -/
theorem tables_nonempty :
    4 ≤ Yadism.Gen.exactPairs.length ∧ 8 ≤ Yadism.Gen.approxPairs.length ∧ 5 ≤ Yadism.Gen.locOnly.length := by
  decide +kernel

end Yadism.C03
