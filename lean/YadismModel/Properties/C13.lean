/-
C13 — symmetry and decoupling relations between processes and beams, at the level of the weight
maps (which, by linearity of the operator in the weights — `opEntry` — are relations between
whole outputs for any coefficient functions, orders and scale-variation keys).
-/
import YadismModel.Lemmas.Basic

namespace Yadism.C13

open Yadism

/-! ## NC → EM when the Z decouples -/

def withProcess (c : CC) (p : Process) : CC := { c with ob := { c.ob with process := p } }

/-- `NC − EM = η·(A + η·B)` with `A, B` independent of `M_Z`: the difference vanishes linearly
with the propagator ratio `η_γZ` (e.g. `M_Z → ∞`), and exactly when `η = 0`. -/
theorem nc_minus_em (c : CC) (pid : Int) (q2 : Rat) (t : QCT) :
    (withProcess c .NC).getWeightNC pid q2 t - (withProcess c .EM).getWeightNC pid q2 t
      = (if c.posBlocked pid.natAbs then 0 else
          c.etaPhZ q2 * (2 * c.leptonicCoupling .phZ t * c.partonicCouplingNC .phZ pid.natAbs t
            + c.etaPhZ q2 * (c.leptonicCoupling .ZZ t * c.partonicCouplingNC .ZZ pid.natAbs t))) := by
  have hb : ∀ p, (withProcess c p).posBlocked pid.natAbs = c.posBlocked pid.natAbs := fun _ => rfl
  have hl : ∀ p m, (withProcess c p).leptonicCoupling m t = c.leptonicCoupling m t := fun _ _ => rfl
  have hp : ∀ p m, (withProcess c p).partonicCouplingNC m pid.natAbs t = c.partonicCouplingNC m pid.natAbs t :=
    fun _ _ => rfl
  have he : ∀ p, (withProcess c p).etaPhZ q2 = c.etaPhZ q2 := fun _ => rfl
  simp only [CC.getWeightNC, CC.getWeightNCraw, hb, hl, hp, CC.propagatorFactor, he]
  split
  · simp
  · simp [withProcess]; ring

theorem nc_to_em (c : CC) (pid : Int) (q2 : Rat) (t : QCT) (h : c.etaPhZ q2 = 0) :
    (withProcess c .NC).getWeightNC pid q2 t = (withProcess c .EM).getWeightNC pid q2 t := by
  have := nc_minus_em c pid q2 t
  rw [h] at this
  have h0 : (if c.posBlocked pid.natAbs then (0 : Rat) else
      0 * (2 * c.leptonicCoupling .phZ t * c.partonicCouplingNC .phZ pid.natAbs t
            + 0 * (c.leptonicCoupling .ZZ t * c.partonicCouplingNC .ZZ pid.natAbs t))) = 0 := by
    split <;> simp
  rw [h0] at this
  linarith

/-- same for the `fl11` flavour class -/
theorem nc_to_em_fl11 (c : CC) (pid : Int) (q2 : Rat) (nf : Nat) (t : QCT) (h : c.etaPhZ q2 = 0) :
    (withProcess c .NC).getFl11Weight pid q2 nf t = (withProcess c .EM).getFl11Weight pid q2 nf t := by
  have hb : ∀ p, (withProcess c p).posBlocked pid.natAbs = c.posBlocked pid.natAbs := fun _ => rfl
  have hl : ∀ p m, (withProcess c p).leptonicCoupling m t = c.leptonicCoupling m t := fun _ _ => rfl
  have hp : ∀ p m, (withProcess c p).partonicCouplingFl11 m pid.natAbs nf t
      = c.partonicCouplingFl11 m pid.natAbs nf t := fun _ _ => rfl
  have he : ∀ p, (withProcess c p).etaPhZ q2 = c.etaPhZ q2 := fun _ => rfl
  simp only [CC.getFl11Weight, CC.getFl11WeightRaw, hb, hl, hp, CC.propagatorFactor, he, h]
  simp [withProcess]

/-! ## Positron with polarisation `P` = electron with polarisation `−P` -/

def withBeam (c : CC) (proj : Int) (pol : Rat) : CC :=
  { c with ob := { c.ob with projectile := proj, pol := pol } }

theorem positron_flip_weight (c : CC) (P : Rat) (pid : Int) (q2 : Rat) (t : QCT) :
    (withBeam c (-11) P).getWeightNC pid q2 t = (withBeam c 11 (-P)).getWeightNC pid q2 t := by
  have e1 : Int.emod 11 2 = 1 := by decide
  have e2 : Int.emod (-11) 2 = 1 := by decide
  simp [CC.getWeightNC, CC.getWeightNCraw, CC.posBlocked, CC.leptonicCoupling, CC.effPol,
    CC.propagatorFactor, CC.partonicCouplingNC, CC.etaPhZ, CC.vectorialCoupling, CC.qph, CC.qZ,
    withBeam, e1, e2]

theorem positron_flip_fl11 (c : CC) (P : Rat) (pid : Int) (q2 : Rat) (nf : Nat) (t : QCT) :
    (withBeam c (-11) P).getFl11Weight pid q2 nf t = (withBeam c 11 (-P)).getFl11Weight pid q2 nf t := by
  have e1 : Int.emod 11 2 = 1 := by decide
  have e2 : Int.emod (-11) 2 = 1 := by decide
  simp [CC.getFl11Weight, CC.getFl11WeightRaw, CC.posBlocked, CC.leptonicCoupling, CC.effPol,
    CC.propagatorFactor, CC.partonicCouplingFl11, CC.etaPhZ, CC.vectorialCoupling, CC.qph, CC.qZ,
    withBeam, e1, e2]

/-- hence every NC weight map (all six kinds, light / heavy / intrinsic / fl11) coincides -/
theorem positron_flip_ncWeights (c : CC) (P : Rat) (q2 : Rat) (nf : Nat) (pv sk : Bool) (p : Int) :
    (ncWeights (withBeam c (-11) P) q2 nf pv sk).ns p = (ncWeights (withBeam c 11 (-P)) q2 nf pv sk).ns p ∧
    (ncWeights (withBeam c (-11) P) q2 nf pv sk).g p = (ncWeights (withBeam c 11 (-P)) q2 nf pv sk).g p ∧
    (ncWeights (withBeam c (-11) P) q2 nf pv sk).s p = (ncWeights (withBeam c 11 (-P)) q2 nf pv sk).s p ∧
    (ncWeights (withBeam c (-11) P) q2 nf pv sk).v p = (ncWeights (withBeam c 11 (-P)) q2 nf pv sk).v p := by
  have hw : ∀ q, (withBeam c (-11) P).wPair q q2 pv = (withBeam c 11 (-P)).wPair q q2 pv := by
    intro q; cases pv <;> simp [CC.wPair, positron_flip_weight]
  cases pv <;> simp [ncWeights, hw]

/-! ## Charge conjugation of the charged-current weights -/

/-- the conjugate beam: `ν ↔ ν̄`, `e⁻ ↔ e⁺` -/
def conjBeam (c : CC) : CC := { c with ob := { c.ob with projectile := - c.ob.projectile } }

/-- hypothesis: the projectile is one of the four supported ones -/
def validProj (c : CC) : Prop :=
  c.ob.projectile = 11 ∨ c.ob.projectile = -11 ∨ c.ob.projectile = 12 ∨ c.ob.projectile = -12

theorem ccSign_conj (c : CC) (h : validProj c) (q : Nat) : (conjBeam c).ccSign q = - c.ccSign q := by
  rcases h with h | h | h | h <;> rcases Nat.mod_two_eq_zero_or_one q with hq | hq <;>
    simp [CC.ccSign, CC.rest, conjBeam, h, hq]

theorem getWeightCC_conj (c : CC) (q : Nat) (m : Mask) : (conjBeam c).getWeightCC q m = c.getWeightCC q m := rfl

theorem ccTot_conj (c : CC) (m : Mask) (nf : Nat) : (conjBeam c).ccTot m nf = c.ccTot m nf := rfl

private theorem rest_conj (c : CC) (h : validProj c) : (conjBeam c).rest = 1 - c.rest := by
  rcases h with h | h | h | h <;> simp [CC.rest, conjBeam, h]

private theorem rest_le (c : CC) : c.rest = 0 ∨ c.rest = 1 := by
  unfold CC.rest; split <;> simp

/-- the sign that multiplies the conjugated operator: `-1` for parity-violating kinds -/
def sigma (pv : Bool) : Rat := if pv then -1 else 1

private theorem ccSign_pm (c : CC) (q : Nat) : c.ccSign q = 1 ∨ c.ccSign q = -1 := by
  unfold CC.ccSign; split <;> simp

/-- even non-singlet, gluon and singlet weights: `W_{conj}[p] = σ · W[-p]` -/
theorem cc_conj_even (c : CC) (h : validProj c) (m : Mask) (nf : Nat) (pv : Bool) (p : Int) :
    (ccWeightsEven (conjBeam c) m nf pv).ns p = sigma pv * (ccWeightsEven c m nf pv).ns (-p) := by
  rcases ccSign_pm c p.natAbs with hs | hs <;> cases pv <;>
    simp [ccWeightsEven, ccSign_conj c h, getWeightCC_conj, Int.natAbs_neg, sigma, sgnR, hs]

/-- odd non-singlet and valence weights -/
theorem cc_conj_odd (c : CC) (h : validProj c) (m : Mask) (nf : Nat) (pv : Bool) (p : Int) :
    (ccWeightsOdd (conjBeam c) m nf pv).ns p = sigma pv * (ccWeightsOdd c m nf pv).ns (-p) := by
  obtain ⟨n, rfl | rfl⟩ := Int.eq_nat_or_neg p
  all_goals
    rcases Nat.eq_zero_or_pos n with hn | hn
    · subst hn; simp [ccWeightsOdd]
    have f1 : ((n : Int) = -(n : Int)) = False := by simp; omega
    have f2 : (-(n : Int) = (n : Int)) = False := by simp; omega
    rcases ccSign_pm c n with hs | hs <;> cases pv <;>
      simp [ccWeightsOdd, ccSign_conj c h, getWeightCC_conj, Int.natAbs_neg, Int.natAbs_natCast,
        sigma, sgnR, hs, f1, f2]

/-- valence (only used by the parity-violating kinds): odd in the pid, blind to the beam -/
theorem cc_conj_valence (c : CC) (m : Mask) (nf : Nat) (p : Int) :
    (ccWeightsOdd (conjBeam c) m nf true).v p = sigma true * (ccWeightsOdd c m nf true).v (-p) := by
  obtain ⟨n, rfl | rfl⟩ := Int.eq_nat_or_neg p
  all_goals
    rcases Nat.eq_zero_or_pos n with hn | hn
    · subst hn; simp [ccWeightsOdd]
    have g1 : ¬ ((n : Int) < 0) := by omega
    have g2 : (-(n : Int) < 0) := by omega
    simp [ccWeightsOdd, ccTot_conj, Int.natAbs_neg, Int.natAbs_natCast, sigma, g1, g2, hn]

/-- gluon and singlet of the even combination are beam independent and pid-symmetric: they are
only used by the parity-conserving kinds (`σ = 1`) -/
theorem cc_conj_even_gs (c : CC) (m : Mask) (nf : Nat) (p : Int) :
    (ccWeightsEven (conjBeam c) m nf false).g p = (ccWeightsEven c m nf false).g p ∧
    (ccWeightsEven (conjBeam c) m nf false).s p = (ccWeightsEven c m nf false).s (-p) := by
  simp [ccWeightsEven, ccTot_conj, Int.natAbs_neg]

/-- heavy / intrinsic / asy CC weights (`cc_weights`): `ns`, and the gluon (self-conjugate) -/
theorem cc_conj_plain (c : CC) (h : validProj c) (m : Mask) (nf : Nat) (pv : Bool) (p : Int) :
    (ccWeights (conjBeam c) m nf pv).ns p = sigma pv * (ccWeights c m nf pv).ns (-p) ∧
    (ccWeights (conjBeam c) m nf pv).g 21 = sigma pv * (ccWeights c m nf pv).g 21 := by
  constructor
  · obtain ⟨n, rfl | rfl⟩ := Int.eq_nat_or_neg p
    all_goals
      rcases Nat.eq_zero_or_pos n with hn | hn
      · subst hn; simp [ccWeights]
      have f1 : ((n : Int) = -(n : Int)) = False := by simp; omega
      have f2 : (-(n : Int) = (n : Int)) = False := by simp; omega
      rcases ccSign_pm c n with hs | hs <;> cases pv <;>
        simp [ccWeights, ccSign_conj c h, getWeightCC_conj, Int.natAbs_neg, Int.natAbs_natCast,
          sigma, sgnR, hs, f1, f2]
  · rcases rest_le c with hr | hr <;> cases pv <;>
      simp [ccWeights, ccTot_conj, rest_conj c h, hr, sigma] <;> ring

/-! ## Exchange of two active quarks with identical electroweak charges (NC, EM) -/

/-- the NC/EM pair weight depends on the quark only through its parity (charge and isospin) -/
theorem wPair_same_charges (c : CC) (q q' : Nat) (q2 : Rat) (pv : Bool)
    (h1 : 1 ≤ q) (h6 : q ≤ 6) (h1' : 1 ≤ q') (h6' : q' ≤ 6) (hpar : q % 2 = q' % 2)
    (hpos : c.ob.posCharge = none) :
    c.wPair q q2 pv = c.wPair q' q2 pv := by
  have he : electricCharge q = electricCharge q' := by
    interval_cases q <;> interval_cases q' <;> simp_all [electricCharge]
  have ht : weakIsospin3 q = weakIsospin3 q' := by
    interval_cases q <;> interval_cases q' <;> simp_all [weakIsospin3]
  cases pv <;>
    simp [CC.wPair, CC.getWeightNC, CC.getWeightNCraw, CC.posBlocked, hpos, CC.partonicCouplingNC,
      CC.qph, CC.qZ, CC.vectorialCoupling, he, ht]

/-- so exchanging the PDFs of `q` and `q'` (both active) leaves every light NC operator unchanged:
the non-singlet weights agree and gluon / singlet / valence weights are flavour blind -/
theorem equal_charge_exchange (c : CC) (q q' : Nat) (q2 : Rat) (nf : Nat) (pv : Bool)
    (h1 : 1 ≤ q) (hq : q ≤ nf) (h1' : 1 ≤ q') (hq' : q' ≤ nf) (hnf : nf ≤ 6)
    (hpar : q % 2 = q' % 2) (hpos : c.ob.posCharge = none) :
    (ncWeights c q2 nf pv).ns q = (ncWeights c q2 nf pv).ns q' ∧
    (ncWeights c q2 nf pv).ns (-(q : Int)) = (ncWeights c q2 nf pv).ns (-(q' : Int)) ∧
    (ncWeights c q2 nf pv).s q = (ncWeights c q2 nf pv).s q' ∧
    (ncWeights c q2 nf pv).v q = (ncWeights c q2 nf pv).v q' := by
  have hw := wPair_same_charges c q q' q2 pv h1 (by omega) h1' (by omega) hpar hpos
  have n1 : ¬ ((q : Int) < 0) := by omega
  have n2 : ¬ ((q' : Int) < 0) := by omega
  have p1 : 0 < q := by omega
  have p2 : 0 < q' := by omega
  cases pv <;>
    simp [ncWeights, ncCoupled, h1, hq, h1', hq', hw, n1, n2, p1, p2, Int.natAbs_neg,
      Int.natAbs_natCast, PMap.zero]

/-! ## Non-vacuity -/
def sampleNu : CC :=
  { th := { mz2 := 8315, mw2 := 6464, s2w := 23/100,
            ckm := { ud := 0.95, us := 0.05, ub := 0.0001, cd := 0.05, cs := 0.94, cb := 0.0016,
                     td := 0.0001, ts := 0.0016, tb := 0.998 } },
    ob := { process := .CC, projectile := 12, pol := 0, propCorr := 0, posCharge := none } }

example : validProj sampleNu := by simp [validProj, sampleNu]
example : (ccWeightsOdd sampleNu (Mask.light 4) 4 true).ns 1 = 1 ∧
    (ccWeightsOdd (conjBeam sampleNu) (Mask.light 4) 4 true).ns 1 = 1 ∧
    (ccWeightsOdd sampleNu (Mask.light 4) 4 true).ns (-1) = -1 := by
  refine ⟨?_, ?_, ?_⟩ <;> norm_num [ccWeightsOdd, sampleNu, conjBeam, CC.ccSign, CC.rest,
    CC.getWeightCC, CC.partonicCouplingCC, CKM2.masked, CKM2.sumFor, Mask.light, b2r, sgnR]

end Yadism.C13
