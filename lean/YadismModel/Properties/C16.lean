/-
C16: every documented configuration yields a finite result or a clear rejection — the dispatch
part: **no cell of the configuration lattice ends in an internal lookup error**.

`Generated/Dispatch.lean` is read from the live modules and classes on every run; the Combiner
model supplies the kernels each cell asks for; `no_internal_error` is decided by the kernel over
the whole lattice.  Kinematic rejection is proved for all rationals.  Finiteness of the numbers
themselves is observed (real runs), not proved.
-/
import YadismModel.Model.Dispatch
import YadismModel.Generated.Dispatch
import Mathlib.Tactic.Linarith
import Mathlib.Tactic.IntervalCases

namespace Yadism.C16

open Yadism

/-! ## Which channel objects can the Combiner ever ask for?

`chanSet isCC isPV` lists every `(family, class)` the kernel generators can produce for a
parity-conserving / parity-violating kind and a neutral / charged process, with `pto_evol ≤ 3`
(the range of the theory card's `PTO`).  `collect_chans` proves, for **every** environment — any nf, any
mass flags, any weights, any flavour and FONLL part — that nothing outside this list is requested;
`chanSet_not_internal` then decides the finite question against the tables read from the live
modules. -/

def asyNames (channel : String) : List String :=
  ["AsyLL" ++ channel, "AsyNLL" ++ channel, "AsyNNLL" ++ channel, "AsyNNNLL" ++ channel]

def chanSet (isCC isPV : Bool) : List (String × String) :=
  (if isCC then
    (if isPV then
      [("light", "NonSingletEven"), ("light", "NonSingletOdd"), ("light", "Valence"),
       ("intrinsic", "Rplus")]
     else
      [("light", "NonSingletEven"), ("light", "NonSingletOdd"), ("light", "Gluon"), ("light", "Singlet"),
       ("intrinsic", "Splus")]) ++
    [("heavy", "NonSinglet"), ("heavy", "Gluon"), ("asy", "AsyQuark"), ("asy", "AsyGluon")]
   else
    (if isPV then
      [("light", "NonSinglet"), ("light", "Valence"), ("intrinsic", "Rplus"), ("intrinsic", "Rminus")]
     else
      [("light", "NonSinglet"), ("light", "Gluon"), ("light", "Singlet"), ("light", "QuarkFL11"),
       ("light", "GluonFL11"), ("heavy", "GluonVV"), ("heavy", "GluonAA"), ("heavy", "SingletVV"),
       ("heavy", "SingletAA"), ("intrinsic", "Splus"), ("intrinsic", "Sminus")]
       ++ (asyNames "Gluon").map (fun n => ("asy", n))
       ++ (asyNames "Singlet").map (fun n => ("asy", n))) ++
    [("heavy", "NonSinglet")] ++ (asyNames "NonSinglet").map (fun n => ("asy", n))) ++
  [("asy", "AsyLLIntrinsic"), ("asy", "AsyNLLIntrinsicMatching"), ("asy", "AsyNLLIntrinsicLight")]

theorem asy_ns_mem (n : String) (pv : Bool) (h : n ∈ asyNames "NonSinglet") : ("asy", n) ∈ chanSet false pv := by
  cases pv <;> simp [chanSet, List.mem_append, List.mem_map] <;> tauto

theorem asy_gluon_mem (n : String) (h : n ∈ asyNames "Gluon") : ("asy", n) ∈ chanSet false false := by
  simp [chanSet, List.mem_append, List.mem_map]; tauto

theorem asy_singlet_mem (n : String) (h : n ∈ asyNames "Singlet") : ("asy", n) ∈ chanSet false false := by
  simp [chanSet, List.mem_append, List.mem_map]; tauto

def idOf (k : Kernel) : String × String := (k.chan.family, k.chan.cls)

/-- a list of kernels only asks for channels of `S` -/
def within (S : List (String × String)) (L : List Kernel) : Prop := ∀ k ∈ L, idOf k ∈ S

theorem within_nil (S) : within S [] := by intro k hk; simp at hk
theorem within_append {S} {a b : List Kernel} (ha : within S a) (hb : within S b) : within S (a ++ b) := by
  intro k hk; rcases List.mem_append.mp hk with h | h
  · exact ha k h
  · exact hb k h
theorem within_flatten {S} {ls : List (List Kernel)} (h : ∀ l ∈ ls, within S l) : within S ls.flatten := by
  intro k hk
  obtain ⟨l, hl, hkl⟩ := List.mem_flatten.mp hk
  exact h l hl k hkl
theorem within_of_ids {S} {L : List Kernel} (h : ∀ i ∈ L.map idOf, i ∈ S) : within S L := by
  intro k hk; exact h (idOf k) (List.mem_map.mpr ⟨k, hk, rfl⟩)

theorem asyName_mem (res : Nat) (h : res ≤ 3) (channel : String) :
    asyName res channel ∈ asyNames channel := by
  interval_cases res <;> simp [asyName, asyNames, List.replicate] <;> decide

section Chans
variable (e : Env)

local notation "S" => chanSet e.isCC e.isPV

theorem genLight_chans (nf : Nat) : within S (genLight e nf) := by
  apply within_of_ids
  unfold genLight
  by_cases hcc : e.isCC <;> by_cases hpv : e.isPV <;> by_cases h3 : e.pto = 3 <;>
    simp [hcc, hpv, h3, mk, idOf, chanSet, asyNames]

theorem genMissing_chans (nf ihq : Nat) : within S (genMissing e nf ihq) := by
  apply within_of_ids
  unfold genMissing
  by_cases hcc : e.isCC <;> simp [hcc, mk, idOf, chanSet, asyNames]

theorem genMissingAsy_chans (nf ihq : Nat) (hpe : e.ptoEvol ≤ 3) : within S (genMissingAsy e nf ihq) := by
  intro k hk
  unfold genMissingAsy at hk
  by_cases hcc : e.isCC
  · simp [hcc] at hk
  · simp only [hcc, Bool.false_eq_true, if_false, List.mem_map, List.mem_range] at hk
    obtain ⟨res, hres, rfl⟩ := hk
    have hm := asyName_mem res (by omega) "NonSinglet"
    have hc : e.isCC = false := by simpa using hcc
    simp only [idOf, mk, hc]
    exact asy_ns_mem _ _ hm

theorem genSingleFlavorLight_chans (nf ihq : Nat) : within S (genSingleFlavorLight e nf ihq) := by
  apply within_of_ids
  unfold genSingleFlavorLight
  by_cases hcc : e.isCC <;> by_cases hpv : e.isPV <;> by_cases h3 : e.pto = 3 <;>
    simp [hcc, hpv, h3, mk, idOf, chanSet, asyNames]

theorem genHeavy_chans (nf ihq : Nat) : within S (genHeavy e nf ihq) := by
  apply within_of_ids
  unfold genHeavy
  by_cases hcc : e.isCC <;> by_cases hpv : e.isPV <;> simp [hcc, hpv, mk, idOf, chanSet, asyNames]

theorem genIntrinsic_chans (ihq : Nat) : within S (genIntrinsic e ihq) := by
  apply within_of_ids
  unfold genIntrinsic
  by_cases hcc : e.isCC <;> by_cases hpv : e.isPV <;> simp [hcc, hpv, mk, idOf, chanSet, asyNames]

theorem genIntrinsicAsy_chans (nf ihq : Nat) : within S (genIntrinsicAsy e nf ihq) := by
  apply within_of_ids
  unfold genIntrinsicAsy
  by_cases hcc : e.isCC <;> by_cases hp : 0 < e.ptoEvol <;> simp [hcc, hp, mk, idOf, chanSet, asyNames]

theorem genHeavyAsy_chans (nf ihq : Nat) (hpe : e.ptoEvol ≤ 3) : within S (genHeavyAsy e nf ihq) := by
  intro k hk
  unfold genHeavyAsy at hk
  by_cases hcc : e.isCC
  · simp [hcc, mk] at hk
    rcases hk with rfl | rfl <;> simp [idOf, chanSet, hcc]
  · by_cases hpv : e.isPV
    · simp [hcc, hpv] at hk
    · simp only [hcc, hpv, Bool.false_eq_true, if_false, List.mem_append, List.mem_flatten, List.mem_map,
        List.mem_range] at hk
      have hc : e.isCC = false := by simpa using hcc
      have hp : e.isPV = false := by simpa using hpv
      rcases hk with ⟨l, ⟨res, hres, rfl⟩, hk⟩ | ⟨l, ⟨res, hres, rfl⟩, hk⟩
      · have hm := asyName_mem res (by omega) "Gluon"
        simp only [List.mem_cons, List.mem_nil_iff, or_false] at hk
        rcases hk with rfl | rfl <;> simp only [idOf, mk, hc, hp] <;> exact asy_gluon_mem _ hm
      · have hm := asyName_mem res (by omega) "Singlet"
        simp only [List.mem_cons, List.mem_nil_iff, or_false] at hk
        rcases hk with rfl | rfl <;> simp only [idOf, mk, hc, hp] <;> exact asy_singlet_mem _ hm

/-- **Every kernel the Combiner can collect is in `chanSet`** — for every environment with
`pto_evol ≤ 2`, every flavour and every FONLL part. -/
theorem collect_chans (fl : Flavor) (pa : Parts) (hpe : e.ptoEvol ≤ 3) : within S (collect e fl pa) := by
  have hlight : within S (lightComponent e) := by
    simp only [lightComponent]
    refine within_append (genLight_chans e _) (within_flatten ?_)
    intro l hl
    simp only [List.mem_map, List.mem_range] at hl
    obtain ⟨i, _, rfl⟩ := hl
    split
    · split
      · exact genMissingAsy_chans e _ _ hpe
      · exact genMissing_chans e _ _
    · exact within_nil _
  have hhl : ∀ hq, within S (heavylightComponents e hq) := by
    intro hq; simp only [heavylightComponents]
    split
    · exact genSingleFlavorLight_chans e _ _
    · exact within_nil _
  have hh : ∀ hq, within S (heavyComponents e hq) := by
    intro hq; simp only [heavyComponents]
    refine within_flatten ?_
    intro l hl
    simp only [List.mem_map, List.mem_range] at hl
    obtain ⟨i, _, rfl⟩ := hl
    split
    · exact within_nil _
    · split
      · exact within_nil _
      · unfold heavyPiece
        refine within_append ?_ ?_
        · split
          · exact genIntrinsicAsy_chans e _ _
          · exact genIntrinsic_chans e _
        · split
          · exact genHeavyAsy_chans e _ _ hpe
          · exact genHeavy_chans e _ _
  simp only [collect]
  refine within_append (within_append ?_ ?_) ?_
  · split
    · exact hlight
    · exact within_nil _
  · split
    · exact hhl _
    · exact within_nil _
  · split
    · exact hh _
    · exact within_nil _

end Chans

/-! ## The finite question, decided against the live tables -/

def kinds : List Kind := [.F2, .FL, .F3, .g1, .gL, .g4]

/-- for every kind, process, order and every channel of `chanSet`: module import, class lookup and
construction of the orders do not end in an internal error -/
theorem chanSet_not_internal :
    (kinds.all fun k => [false, true].all fun cc => [0, 1, 2, 3].all fun pto =>
      (chanSet cc k.isPV).all fun id =>
        !(chanOutcome Yadism.Gen.moduleTable k cc pto ⟨id.1, id.2, 0, 0⟩).isInternal) = true := by
  decide +kernel

theorem chanOutcome_id (tab : ModuleTable) (k : Kind) (cc : Bool) (pto : Nat) (c : ChanId) :
    chanOutcome tab k cc pto c = chanOutcome tab k cc pto ⟨c.family, c.cls, 0, 0⟩ := rfl

theorem foldl_andThen_internal (f : Kernel → Outcome) (L : List Kernel) (acc : Outcome)
    (h : (L.foldl (fun a k => a.andThen fun _ => f k) acc).isInternal = true) :
    acc.isInternal = true ∨ ∃ k ∈ L, (f k).isInternal = true := by
  induction L generalizing acc with
  | nil => left; simpa using h
  | cons x xs ih =>
    simp only [List.foldl_cons] at h
    rcases ih _ h with h' | ⟨k, hk, hk'⟩
    · cases acc with
      | ok => right; exact ⟨x, List.mem_cons_self, by simpa [Outcome.andThen] using h'⟩
      | rejected w => simp [Outcome.andThen, Outcome.isInternal] at h'
      | internal w => left; rfl
    · right; exact ⟨k, List.mem_cons_of_mem _ hk, hk'⟩

/-- **No internal error**: for every environment (any nf, mass flags, weights, Q²), flavour and
FONLL part with `pto ≤ 3`, `pto_evol ≤ 2`, the structure function either is built or is rejected
explicitly — never an internal lookup error. -/
theorem no_internal_error (e : Env) (fl : Flavor) (pa : Parts) (hpto : e.pto ≤ 3) (hpe : e.ptoEvol ≤ 3) :
    (sfOutcome Yadism.Gen.moduleTable e fl pa).isInternal = false := by
  by_contra hcon
  have hint : (sfOutcome Yadism.Gen.moduleTable e fl pa).isInternal = true := by
    cases h : (sfOutcome Yadism.Gen.moduleTable e fl pa).isInternal <;> simp_all
  unfold sfOutcome at hint
  rcases foldl_andThen_internal _ _ _ hint with h | ⟨k, hk, hk'⟩
  · simp [Outcome.isInternal] at h
  · have hmem := collect_chans e fl pa hpe k hk
    have hdec := chanSet_not_internal
    simp only [List.all_eq_true] at hdec
    have hkind : e.kind ∈ kinds := by cases e.kind <;> simp [kinds]
    have hcc : e.isCC ∈ [false, true] := by cases e.isCC <;> simp
    have hp : e.pto ∈ [0, 1, 2, 3] := by
      have := hpto
      interval_cases e.pto <;> simp
    have := hdec e.kind hkind e.isCC hcc e.pto hp (idOf k) hmem
    rw [chanOutcome_id] at hk'
    simp only [idOf, Env.isPV] at this hmem
    simp [hk'] at this

/-- with target-mass corrections (all three modes dispatch alike) -/
theorem no_internal_error_tmc (tmc : Nat) (e : Env) (fl : Flavor) (pa : Parts) (hpto : e.pto ≤ 3)
    (hpe : e.ptoEvol ≤ 3) :
    (tmcOutcome Yadism.Gen.moduleTable Yadism.Gen.tmcKinds tmc e fl pa).isInternal = false := by
  unfold tmcOutcome
  split
  · exact no_internal_error e fl pa hpto hpe
  · split
    · rfl
    · have h1 := no_internal_error e fl pa hpto hpe
      cases hs : sfOutcome Yadism.Gen.moduleTable e fl pa with
      | ok =>
        simp only [Outcome.andThen]
        cases hk : e.kind <;> simp only [] <;> try rfl
        exact no_internal_error { e with kind := .F2 } fl pa hpto hpe
      | rejected w => rfl
      | internal w => simp [hs, Outcome.isInternal] at h1

/-! non-vacuity: accepted and rejected cells both exist -/
def sampleEnv (k : Kind) (p : Process) (pto : Nat) : Env :=
  { kind := k,
    cc := { th := { mz2 := 1, mw2 := 1, s2w := 1/4, ckm := default },
            ob := { process := p, projectile := 11, pol := 0, propCorr := 0, posCharge := none } },
    q2 := 10, nf := 3, zmc := false, zmb := false, zmt := false, ffn0 := false, pto := pto, ptoEvol := 1,
    z := 1, a := 1 }

theorem nonvacuous :
    sfOutcome Yadism.Gen.moduleTable (sampleEnv .F2 .NC 2) .total .full = .ok ∧
    (sfOutcome Yadism.Gen.moduleTable (sampleEnv .g1 .CC 1) .total .full ≠ .ok) ∧
    (sfOutcome Yadism.Gen.moduleTable (sampleEnv .g1 .NC 3) .light .full ≠ .ok) ∧
    (collect (sampleEnv .F2 .NC 2) .total .full).length = 24 := by
  decide +kernel

/-- **Kinematics outside the domain are always rejected** (all rationals) -/
theorem kinematics_rejected (x q2 g : Rat) (h : x ≤ 0 ∨ 1 < x ∨ q2 ≤ 0 ∨ x < g) :
    kinOutcome x q2 g ≠ .ok := by
  unfold kinOutcome
  rcases h with h | h | h | h
  · have : x > 1 ∨ x ≤ 0 := Or.inr h
    simp [this]
  · have : x > 1 ∨ x ≤ 0 := Or.inl h
    simp [this]
  · by_cases h1 : x > 1 ∨ x ≤ 0
    · simp [h1]
    · simp [h1, h]
  · by_cases h1 : x > 1 ∨ x ≤ 0
    · simp [h1]
    · by_cases h2 : q2 ≤ 0
      · simp [h1, h2]
      · simp [h1, h2, h]

theorem kinematics_accepted (x q2 g : Rat) (hx0 : 0 < x) (hx1 : x ≤ 1) (hq : 0 < q2) (hg : g ≤ x) :
    kinOutcome x q2 g = .ok := by
  unfold kinOutcome
  have h1 : ¬ (x > 1 ∨ x ≤ 0) := by
    intro h; rcases h with h | h <;> linarith
  have h2 : ¬ (q2 ≤ 0) := by linarith
  have h3 : ¬ (x < g) := by linarith
  simp [h1, h2, h3]

/-- **Sanitising visits every observable**: every `kind_flavor` name is a valid observable name (so
`replace_nans_with_0` does not skip it) and the metadata keys of an output are not -/
theorem sanitised :
    (Yadism.Gen.allKinds.all fun k => Yadism.Gen.allFlavors.all fun f =>
      isValidName Yadism.Gen.allKinds Yadism.Gen.allFlavors (k ++ "_" ++ f)) = true ∧
    (["xgrid", "pids", "projectilePID", "polynomial_degree", "is_log", "theory", "observables"].all fun m =>
      !isValidName Yadism.Gen.allKinds Yadism.Gen.allFlavors m) = true := by
  decide +kernel

end Yadism.C16
