/-
C09: heavy-quark production respects its kinematic threshold.

The guard `is_below_pair_threshold`, `_xi`, `_eta`, the charged-current `labda` and convolution
point are terms generated from the source; the tables `ncGuards`, `decoratedOrders`, … record the
shape of the surrounding code (all in `Generated/Threshold.lean`, regenerated every run).

Neutral current: the generated guard is `Q²(1−z)/z ≤ 4m²` (inclusive: *at or below*), equivalent to
`z ≥ z_max = Q²/(Q²+4m²)`, monotone in `z` (hadronic ⇒ partonic on the whole integration range),
and exactly the complement of the domain `η > 0` of the massive coefficient functions; every
regular part of every heavy NC class starts with this guard and there are no singular parts; the
hadronic decorator wraps every order and empties it, so that every operator entry is 0.
Charged current: the convolution point is `x(1+m²/Q²)`, inherited by every class, used by
`compute_local` both as argument and as prefactor, and `conv.convolution` returns 0 beyond
`1 − eps`.  The mass is the one of the produced quark (`m2hq[ihq−4]`).
-/
import YadismModel.Lemmas.NormSound
import YadismModel.Generated.Threshold
import Mathlib.Tactic.Positivity
import Mathlib.Tactic.Push

namespace Yadism.C09

open Yadism

/-- real environment of the threshold terms -/
def renv (q2 m2 x z : ℝ) : REnv where
  z := z
  args := fun _ => 0
  consts := fun _ => 0
  params := fun n => if n = "Q2" then q2 else if n = "m2hq" then m2 else if n = "x" then x else 0
  ext1 := fun _ _ => 0
  ext3 := fun _ _ _ _ => 0

/-- real meaning of a comparison guard -/
def Guard.holdsR (g : Guard) (env : REnv) : Prop :=
  match g.op with
  | .le => g.lhs.evalR env ≤ g.rhs.evalR env
  | .lt => g.lhs.evalR env < g.rhs.evalR env
  | .ge => g.lhs.evalR env ≥ g.rhs.evalR env
  | .gt => g.lhs.evalR env > g.rhs.evalR env

/-- "below the pair threshold" as the code decides it -/
def below (q2 m2 z : ℝ) : Prop := Guard.holdsR Yadism.Gen.pairGuard (renv q2 m2 0 z)

/-! ## Neutral current: the guard -/

/-- the generated guard is `ŝ = Q²(1−z)/z ≤ 4m²`, with the boundary included -/
theorem guard_is_pair_threshold (q2 m2 z : ℝ) : below q2 m2 z ↔ q2 * (1 - z) / z ≤ 4 * m2 := by
  simp [below, Guard.holdsR, Yadism.Gen.pairGuard, KExpr.evalR, renv]

/-- a point exactly on the threshold is below it ("at or below") -/
theorem on_threshold_is_below (q2 m2 z : ℝ) (h : q2 * (1 - z) / z = 4 * m2) : below q2 m2 z := by
  rw [guard_is_pair_threshold]; exact h.le

/-- the partonic threshold `z_max = 1/(1+4m²/Q²) = Q²/(Q²+4m²)` -/
theorem below_iff_beyond_zmax (q2 m2 z : ℝ) (hq : 0 < q2) (hm : 0 ≤ m2) (hz : 0 < z) :
    below q2 m2 z ↔ q2 / (q2 + 4 * m2) ≤ z := by
  rw [guard_is_pair_threshold]
  have hd : 0 < q2 + 4 * m2 := by linarith
  rw [div_le_iff₀ hz, div_le_iff₀ hd]
  constructor <;> intro h <;> nlinarith

/-- the guard is monotone: once below, every larger momentum fraction is below too; in
particular a point below the *hadronic* threshold (`z = x`) has its whole integration range
`[x, 1]` beyond the partonic threshold -/
theorem below_mono (q2 m2 x z : ℝ) (hq : 0 < q2) (hm : 0 ≤ m2) (hx : 0 < x) (hxz : x ≤ z)
    (h : below q2 m2 x) : below q2 m2 z := by
  rw [below_iff_beyond_zmax q2 m2 _ hq hm] at *
  · linarith
  · exact hx
  · linarith

/-- `_xi = Q²/m²` and `_eta(z) = ŝ/(4m²) − 1` … -/
theorem xi_eta (q2 m2 z : ℝ) (hm : m2 ≠ 0) (hz : z ≠ 0) :
    Yadism.Gen.ncXi.evalR (renv q2 m2 0 z) = q2 / m2
    ∧ Yadism.Gen.ncEta.evalR (renv q2 m2 0 z) = q2 * (1 - z) / z / (4 * m2) - 1 := by
  constructor
  · simp [Yadism.Gen.ncXi, KExpr.evalR, renv]
  · simp [Yadism.Gen.ncEta, KExpr.evalR, renv]
    field_simp

/-- … so the massive coefficient functions (defined for `η > 0`) are evaluated exactly where the
guard does not hold -/
theorem eta_pos_iff_above (q2 m2 z : ℝ) (hm : 0 < m2) (hz : 0 < z) :
    0 < Yadism.Gen.ncEta.evalR (renv q2 m2 0 z) ↔ ¬ below q2 m2 z := by
  rw [(xi_eta q2 m2 z hm.ne' hz.ne').2, guard_is_pair_threshold, not_le, sub_pos, lt_div_iff₀ (by positivity)]
  constructor <;> intro h <;> linarith

/-- the guard's second clause `or η(z) ≤ 0` (added by the repair of F26 so that the double
rounding of `η(z)` cannot put a point on the open side of the guard with `η ≤ 0`) changes nothing
over exact numbers: `η(z) ≤ 0` holds exactly when the first clause does -/
theorem eta_clause_is_redundant (q2 m2 z : ℝ) (hm : 0 < m2) (hz : 0 < z) :
    Yadism.Gen.ncEta.evalR (renv q2 m2 0 z) ≤ 0 ↔ below q2 m2 z := by
  rw [← not_lt, eta_pos_iff_above q2 m2 z hm hz, not_not]

/-- … so the guard as written (either clause) is the pair threshold -/
theorem guard_with_eta_clause (q2 m2 z : ℝ) (hm : 0 < m2) (hz : 0 < z) :
    (below q2 m2 z ∨ (Yadism.Gen.pairGuardEtaClause = true ∧ Yadism.Gen.ncEta.evalR (renv q2 m2 0 z) ≤ 0))
      ↔ below q2 m2 z := by
  constructor
  · rintro (h | ⟨_, h⟩)
    · exact h
    · exact (eta_clause_is_redundant q2 m2 z hm hz).mp h
  · exact Or.inl

/-! ## Neutral current: every integrand and every order is guarded -/

/-- every regular part of every heavy NC class and order starts with
`if self.is_below_pair_threshold(z): return 0.0`, and no class has a singular part -/
theorem all_regular_parts_guarded :
    (Yadism.Gen.ncGuards.all fun r => r.2.1 && !r.2.2.1) = true ∧ Yadism.Gen.ncGuards.length ≥ 20 := by
  decide

/-- so the integrand vanishes for partonic momentum fractions beyond the partonic threshold -/
theorem integrand_vanishes_beyond_threshold (raw : Rat) : guardedReg true raw = 0 := rfl

theorem integrand_untouched_above_threshold (raw : Rat) : guardedReg false raw = raw := rfl

/-- the hadronic decorator has the expected shape and wraps all four orders -/
theorem decorator_wraps_every_order :
    Yadism.Gen.decoratorShape = true ∧ Yadism.Gen.decoratedOrders = [0, 1, 2, 3] := by
  decide

/-- below the hadronic threshold every operator entry of the channel is exactly zero, whatever
the parts (including the *local* term of the "missing" channel), the basis function and the weight -/
theorem hadronic_threshold_zero (eps point : Rat) (bs : Bool) (p : RslParts Rat) (quad pdfAtX w : Rat) :
    operatorEntry eps point bs (decorate true p) quad pdfAtX w = 0 := by
  simp [operatorEntry, convolutionModel, decorate, RslParts.empty]

theorem above_threshold_untouched {α : Type} (p : RslParts α) : decorate false p = p := rfl

/-! ## Charged current -/

/-- the convolution point is the slow-rescaling variable `x(1+m²/Q²) = x/λ` -/
theorem cc_point_is_slow_rescaling (q2 m2 x : ℝ) (hq : 0 < q2) (hm : 0 ≤ m2) :
    Yadism.Gen.ccLabda.evalR (renv q2 m2 x 0) = 1 / (1 + m2 / q2)
    ∧ Yadism.Gen.ccPoint.evalR (renv q2 m2 x 0) = x * (1 + m2 / q2) := by
  have h : (1 : ℝ) + m2 / q2 ≠ 0 := by positivity
  constructor
  · simp [Yadism.Gen.ccLabda, KExpr.evalR, renv]
  · simp [Yadism.Gen.ccPoint, KExpr.evalR, renv]

/-- no charged-current heavy class overrides it, and `compute_local` uses the channel's point as
convolution argument and as prefactor -/
theorem cc_point_used_everywhere :
    (Yadism.Gen.ccPointInherited.all fun r => r.2) = true ∧ Yadism.Gen.ccPointInherited.length ≥ 6
    ∧ Yadism.Gen.esfUsesChannelPoint = true := by
  decide

/-- `conv.convolution` starts with the two early exits, with `eps = 1e-10` -/
theorem conv_early_exits :
    Yadism.Gen.convEmptyDomainExit = true ∧ Yadism.Gen.convBelowSupportExit = true
    ∧ Yadism.Gen.convEps = 1 / 10000000000 := by
  decide +kernel

/-- when the rescaled point reaches one (up to the integration border) the entry is zero -/
theorem cc_zero_beyond_one (point : Rat) (bs : Bool) (p : RslParts Rat) (quad pdfAtX w : Rat)
    (h : point ≥ 1 - Yadism.Gen.convEps) :
    operatorEntry Yadism.Gen.convEps point bs p quad pdfAtX w = 0 := by
  simp [operatorEntry, convolutionModel, h]

/-- below one the entry is the weight times the point times the convolution at the point -/
theorem cc_entry_below_one (point : Rat) (p : RslParts Rat) (quad pdfAtX w : Rat)
    (h : point < 1 - Yadism.Gen.convEps) :
    operatorEntry Yadism.Gen.convEps point false p quad pdfAtX w
      = w * (point * ((if p.reg.isSome || p.sing.isSome then quad else 0) + pdfAtX * p.loc.getD 0)) := by
  simp [operatorEntry, convolutionModel, not_le.mpr h]

/-! ## The mass is the one of the produced quark -/

theorem mass_of_produced_quark :
    (Yadism.Gen.massLookup.all fun r => r.2.1 == "ihq" && r.2.2 == 4) = true ∧ Yadism.Gen.massLookup.length = 2 := by
  decide

theorem massOf_table (mc mb mt : Rat) :
    massOf [mc, mb, mt] 4 = some mc ∧ massOf [mc, mb, mt] 5 = some mb ∧ massOf [mc, mb, mt] 6 = some mt := by
  simp [massOf]

/-! ## Exact rational evaluation agrees with the real semantics -/

def castEnv (e : QEnv) : REnv where
  z := (e.z : ℝ)
  args := fun _ => 0
  consts := fun _ => 0
  params := fun n => (e.params n : ℝ)
  ext1 := fun _ _ => 0
  ext3 := fun _ _ _ _ => 0

theorem evalQ_sound (env : QEnv) : ∀ (e : KExpr) (q : Rat), e.evalQ env = some q → e.evalR (castEnv env) = (q : ℝ) := by
  intro e
  induction e with
  | lit r => intro q h; simp [KExpr.evalQ] at h; simp [KExpr.evalR, h]
  | z => intro q h; simp [KExpr.evalQ] at h; simp [KExpr.evalR, castEnv, h]
  | param n => intro q h; simp [KExpr.evalQ] at h; simp [KExpr.evalR, castEnv, h]
  | add a b iha ihb =>
    intro q h
    simp only [KExpr.evalQ, bind, Option.bind] at h
    cases ha : a.evalQ env with
    | none => simp [ha] at h
    | some x =>
      cases hb : b.evalQ env with
      | none => simp [ha, hb] at h
      | some y =>
        simp [ha, hb, pure] at h
        simp [KExpr.evalR, iha x ha, ihb y hb, ← h]
  | sub a b iha ihb =>
    intro q h
    simp only [KExpr.evalQ, bind, Option.bind] at h
    cases ha : a.evalQ env with
    | none => simp [ha] at h
    | some x =>
      cases hb : b.evalQ env with
      | none => simp [ha, hb] at h
      | some y =>
        simp [ha, hb, pure] at h
        simp [KExpr.evalR, iha x ha, ihb y hb, ← h]
  | mul a b iha ihb =>
    intro q h
    simp only [KExpr.evalQ, bind, Option.bind] at h
    cases ha : a.evalQ env with
    | none => simp [ha] at h
    | some x =>
      cases hb : b.evalQ env with
      | none => simp [ha, hb] at h
      | some y =>
        simp [ha, hb, pure] at h
        simp [KExpr.evalR, iha x ha, ihb y hb, ← h]
  | div a b iha ihb =>
    intro q h
    simp only [KExpr.evalQ, bind, Option.bind] at h
    cases hb : b.evalQ env with
    | none => simp [hb] at h
    | some y =>
      simp only [hb] at h
      by_cases hy : y = 0
      · simp [hy] at h
      · cases ha : a.evalQ env with
        | none => simp [hy, ha] at h
        | some x =>
          simp [hy, ha, pure] at h
          simp [KExpr.evalR, iha x ha, ihb y hb, ← h]
  | neg a ih =>
    intro q h
    simp only [KExpr.evalQ, bind, Option.bind] at h
    cases ha : a.evalQ env with
    | none => simp [ha] at h
    | some x =>
      simp [ha, pure] at h
      simp [KExpr.evalR, ih x ha, ← h]
  | pow a n ih =>
    intro q h
    simp only [KExpr.evalQ, bind, Option.bind] at h
    cases ha : a.evalQ env with
    | none => simp [ha] at h
    | some x =>
      simp [ha, pure] at h
      simp [KExpr.evalR, ih x ha, ← h]
  | const n => intro q h; simp [KExpr.evalQ] at h
  | arg i => intro q h; simp [KExpr.evalQ] at h
  | log a _ => intro q h; simp [KExpr.evalQ] at h
  | sqrt a _ => intro q h; simp [KExpr.evalQ] at h
  | ext1 n a _ => intro q h; simp [KExpr.evalQ] at h
  | ext3 n i j a _ => intro q h; simp [KExpr.evalQ] at h

/-- the executable guard (used by the correspondence on exact boundary points) decides the real one -/
theorem holdsQ_sound (g : Guard) (env : QEnv) (b : Bool) (h : g.holdsQ env = some b) :
    b = true ↔ Guard.holdsR g (castEnv env) := by
  simp only [Guard.holdsQ, bind, Option.bind] at h
  cases hl : g.lhs.evalQ env with
  | none => simp [hl] at h
  | some l =>
    cases hr : g.rhs.evalQ env with
    | none => simp [hl, hr] at h
    | some r =>
      simp [hl, hr, pure] at h
      have el := evalQ_sound env g.lhs l hl
      have er := evalQ_sound env g.rhs r hr
      unfold Guard.holdsR
      rw [el, er, ← h]
      cases g.op <;> simp [Cmp.holds]

/-! ## Non-vacuity: concrete points on both sides of and exactly on the threshold -/

example : Yadism.Gen.pairGuard.holdsQ (thrEnv 9 (9/4) 0 (1/2)) = some true   -- on the threshold
    ∧ Yadism.Gen.pairGuard.holdsQ (thrEnv 9 (9/4) 0 (49/100)) = some false   -- above
    ∧ Yadism.Gen.pairGuard.holdsQ (thrEnv 9 (9/4) 0 (51/100)) = some true    -- below
    ∧ Yadism.Gen.pairGuard.holdsQ (thrEnv 9 (9/4) 0 0) = none := by          -- z = 0: undefined
  decide +kernel

example : operatorEntry Yadism.Gen.convEps (1/2) false ⟨some 1, none, some 2⟩ 3 5 7 = 7 * (1/2 * (3 + 5 * 2)) := by
  decide +kernel

end Yadism.C09
