/-
`RSL.from_distr_coeffs` (`partonic_channel.py`): the hand-modelled loop kernels
`sing_from_distr_coeffs` / `loc_from_distr_coeffs` and the proof that they always form one
distribution, for **every** coefficient list (structural induction).
-/
import YadismModel.Lemmas.Distribution

namespace Yadism

/-- `Σ_i cs[i] · L^(k+i)` — the loop of `sing_from_distr_coeffs` started at power `k`, without the
`1/(1-z)` -/
def singNum : List ℝ → Nat → ℝ → ℝ
  | [], _, _ => 0
  | c :: cs, k, L => c * L ^ k + singNum cs (k + 1) L

/-- `Σ_i cs[i] · L^(k+i+1)/(k+i+1)` — the loop of `loc_from_distr_coeffs` -/
noncomputable def locNum : List ℝ → Nat → ℝ → ℝ
  | [], _, _ => 0
  | c :: cs, k, L => c * L ^ (k + 1) / ((k : ℝ) + 1) + locNum cs (k + 1) L

/-- `sing_from_distr_coeffs(z, coeffs)` -/
noncomputable def singFromCoeffs (cs : List ℝ) (z : ℝ) : ℝ := singNum cs 0 (Real.log (1 - z)) / (1 - z)

/-- `loc_from_distr_coeffs(x, coeffs)`: `coeffs[0]` is the delta coefficient -/
noncomputable def locFromCoeffs (cs : List ℝ) (x : ℝ) : ℝ :=
  match cs with
  | [] => 0
  | d :: rest => d + locNum rest 0 (Real.log (1 - x))

theorem locNum_hasDerivAt (cs : List ℝ) : ∀ (k : Nat) (L : ℝ),
    HasDerivAt (fun L => locNum cs k L) (singNum cs k L) L := by
  induction cs with
  | nil => intro k L; simpa [locNum, singNum] using hasDerivAt_const L (0 : ℝ)
  | cons c cs ih =>
    intro k L
    have hk : ((k : ℝ) + 1) ≠ 0 := by positivity
    have hpow : HasDerivAt (fun L : ℝ => c * L ^ (k + 1) / ((k : ℝ) + 1)) (c * L ^ k) L := by
      have h := ((hasDerivAt_pow (k + 1) L).const_mul c).div_const ((k : ℝ) + 1)
      refine h.congr_deriv ?_
      simp only [Nat.add_sub_cancel]
      push_cast
      field_simp
    show HasDerivAt (fun L => c * L ^ (k + 1) / ((k : ℝ) + 1) + locNum cs (k + 1) L)
      (c * L ^ k + singNum cs (k + 1) L) L
    exact hpow.add (ih (k + 1) L)

/-- **Every `from_distr_coeffs` RSL is one distribution**: for all coefficient lists and all
`x < 1`, `d loc/dx = - sing(x)` (with `sing` built from `coeffs[1:]`, as the class method does),
and `loc(0)` is the delta coefficient. -/
theorem from_distr_coeffs_distribution (cs : List ℝ) (x : ℝ) (hx : x < 1) :
    HasDerivAt (locFromCoeffs cs) (-(singFromCoeffs cs.tail x)) x := by
  cases cs with
  | nil =>
    have h := hasDerivAt_const x (0 : ℝ)
    have e : -(singFromCoeffs ([] : List ℝ).tail x) = 0 := by simp [singFromCoeffs, singNum]
    rw [e]
    exact h
  | cons d rest =>
    have hcomp := (locNum_hasDerivAt rest 0 (Real.log (1 - x))).comp x (log_one_sub_hasDerivAt x hx)
    have h := (hasDerivAt_const x d).add hcomp
    have e : (0 + singNum rest 0 (Real.log (1 - x)) * -(1 / (1 - x)))
        = -(singFromCoeffs (d :: rest).tail x) := by
      simp only [singFromCoeffs, List.tail_cons]; ring
    rw [e] at h
    exact h

theorem from_distr_coeffs_delta (d : ℝ) (rest : List ℝ) : locFromCoeffs (d :: rest) 0 = d := by
  have : ∀ (cs : List ℝ) (k : Nat), locNum cs k 0 = 0 := by
    intro cs
    induction cs with
    | nil => intro k; rfl
    | cons c cs ih => intro k; simp [locNum, ih]
  simp [locFromCoeffs, this]

/-- `RSL.from_delta`: a pure delta has an x-independent local part -/
theorem from_delta_const (d : ℝ) (x y : ℝ) : locFromCoeffs [d] x = locFromCoeffs [d] y := by
  simp [locFromCoeffs, locNum]

end Yadism
