/-
Real semantics of `KExpr` and soundness of the normaliser `normLD` (`Model/Norm.lean`):
if `normLD e = some ⟨p, k⟩` then for every `z < 1`
`evalR e = p(log(1-z)) · (1-z)^(-k)`.
-/
import YadismModel.Model.Norm
import Mathlib.Analysis.SpecialFunctions.Log.Basic
import Mathlib.Analysis.SpecialFunctions.Pow.Real
import Mathlib.Analysis.SpecialFunctions.Sqrt
import Mathlib.Tactic.Ring
import Mathlib.Tactic.FieldSimp
import Mathlib.Tactic.Linarith
import Mathlib.Data.Rat.Cast.Order

namespace Yadism

/-- real-valued environment of a kernel evaluation -/
structure REnv where
  z : ℝ
  args : Nat → ℝ
  consts : String → ℝ
  params : String → ℝ
  ext1 : String → ℝ → ℝ
  ext3 : String → Nat → Nat → ℝ → ℝ

/-- the intended meaning of a kernel term over the reals -/
noncomputable def KExpr.evalR (env : REnv) : KExpr → ℝ
  | .lit q => (q : ℝ)
  | .const n => env.consts n
  | .z => env.z
  | .arg i => env.args i
  | .param n => env.params n
  | .add a b => evalR env a + evalR env b
  | .sub a b => evalR env a - evalR env b
  | .mul a b => evalR env a * evalR env b
  | .div a b => evalR env a / evalR env b
  | .neg a => - evalR env a
  | .pow a n => evalR env a ^ n
  | .log a => Real.log (evalR env a)
  | .sqrt a => Real.sqrt (evalR env a)
  | .ext1 n a => env.ext1 n (evalR env a)
  | .ext3 n i j a => env.ext3 n i j (evalR env a)

/-- the constants have their mathematical values -/
structure REnv.Std (env : REnv) : Prop where
  cf : env.consts "CF" = 4 / 3
  ca : env.consts "CA" = 3
  tr : env.consts "TR" = 1 / 2

/-! ## generic polynomial evaluation -/

/-- evaluation of a dense polynomial given the meaning `f` of its coefficients -/
def Poly.evalWith {C : Type} (f : C → ℝ) (x : ℝ) : Poly C → ℝ
  | [] => 0
  | a :: p => f a + x * Poly.evalWith f x p

/-- `f` respects the coefficient operations -/
structure IsHom {C : Type} [Coeff C] (f : C → ℝ) : Prop where
  zero : f Coeff.zero = 0
  one : f Coeff.one = 1
  add : ∀ a b, f (Coeff.add a b) = f a + f b
  mul : ∀ a b, f (Coeff.mul a b) = f a * f b
  neg : ∀ a, f (Coeff.neg a) = - f a
  ofRat : ∀ q : Rat, f (Coeff.ofRat q) = (q : ℝ)
  const : ∀ a (q : Rat), Coeff.constVal a = some q → f a = (q : ℝ)

section
variable {C : Type} [Coeff C] {f : C → ℝ} (hf : IsHom f) (x : ℝ)
include hf

theorem Poly.evalWith_add : ∀ p q : Poly C,
    Poly.evalWith f x (Poly.add p q) = Poly.evalWith f x p + Poly.evalWith f x q
  | [], q => by simp [Poly.add, Poly.evalWith]
  | a :: p, [] => by simp [Poly.add, Poly.evalWith]
  | a :: p, b :: q => by
      simp only [Poly.add, Poly.evalWith, hf.add, Poly.evalWith_add p q]; ring

theorem Poly.evalWith_smul (c : C) : ∀ p : Poly C,
    Poly.evalWith f x (Poly.smul c p) = f c * Poly.evalWith f x p
  | [] => by simp [Poly.smul, Poly.evalWith]
  | a :: p => by
      have ih := Poly.evalWith_smul c p
      simp only [Poly.smul, List.map_cons, Poly.evalWith, hf.mul] at ih ⊢
      rw [ih]; ring

theorem Poly.evalWith_neg : ∀ p : Poly C,
    Poly.evalWith f x (Poly.neg p) = - Poly.evalWith f x p
  | [] => by simp [Poly.neg, Poly.evalWith]
  | a :: p => by
      have ih := Poly.evalWith_neg p
      simp only [Poly.neg, List.map_cons, Poly.evalWith, hf.neg] at ih ⊢
      rw [ih]; ring

theorem Poly.evalWith_mul : ∀ p q : Poly C,
    Poly.evalWith f x (Poly.mul p q) = Poly.evalWith f x p * Poly.evalWith f x q
  | [], q => by simp [Poly.mul, Poly.evalWith]
  | a :: p, q => by
      simp only [Poly.mul, Poly.evalWith_add hf, Poly.evalWith_smul hf, Poly.evalWith, hf.zero,
        Poly.evalWith_mul p q]
      ring

theorem Poly.evalWith_pow (p : Poly C) : ∀ n,
    Poly.evalWith f x (Poly.pow p n) = Poly.evalWith f x p ^ n
  | 0 => by simp [Poly.pow, Poly.evalWith, hf.one]
  | n + 1 => by
      simp only [Poly.pow, Poly.evalWith_mul hf, Poly.evalWith_pow p n, pow_succ]; ring

/-- polynomials over a hom are again a hom: the step that lets coefficient rings nest -/
theorem IsHom.poly : IsHom (Poly.evalWith f x : Poly C → ℝ) where
  zero := rfl
  one := by simp [Coeff.one, Poly.evalWith, hf.one]
  add := Poly.evalWith_add hf x
  mul := Poly.evalWith_mul hf x
  neg := Poly.evalWith_neg hf x
  ofRat q := by simp [Coeff.ofRat, Poly.evalWith, hf.ofRat]
  const a q h := by
    match a, h with
    | [], h => simp [Coeff.constVal] at h; subst h; simp [Poly.evalWith]
    | [c], h =>
      simp only [Coeff.constVal] at h
      simp [Poly.evalWith, hf.const c q h]
    | _ :: _ :: _, h => simp [Coeff.constVal] at h

end

theorem isHom_rat : IsHom (fun q : Rat => (q : ℝ)) where
  zero := by simp [Coeff.zero]
  one := by simp [Coeff.one]
  add a b := by simp [Coeff.add]
  mul a b := by simp [Coeff.mul]
  neg a := by simp [Coeff.neg]
  ofRat q := by simp [Coeff.ofRat]
  const a q h := by simp [Coeff.constVal] at h; subst h; rfl

/-! ## the concrete coefficient ring ℚ[args0][zeta2][zeta3] -/

/-- meaning of a coefficient given the values `a0 = args[0]`, `z2 = zeta2`, `z3 = zeta3` -/
def coefEval (a0 z2 z3 : ℝ) : CoefT → ℝ :=
  Poly.evalWith (Poly.evalWith (Poly.evalWith (fun q : Rat => (q : ℝ)) z3) z2) a0

theorem coefEval_hom (a0 z2 z3 : ℝ) : IsHom (coefEval a0 z2 z3) :=
  ((isHom_rat.poly z3).poly z2).poly a0

theorem coefEval_var0 (a0 z2 z3 : ℝ) (v : CoefT) (h : (Coeff.var 0 : Option CoefT) = some v) :
    coefEval a0 z2 z3 v = a0 := by
  simp [Coeff.var] at h; subst h
  simp [coefEval, Poly.evalWith, Coeff.zero, Coeff.one]

theorem coefEval_var1 (a0 z2 z3 : ℝ) (v : CoefT) (h : (Coeff.var 1 : Option CoefT) = some v) :
    coefEval a0 z2 z3 v = z2 := by
  simp [Coeff.var] at h; subst h
  simp [coefEval, Poly.evalWith, Coeff.zero, Coeff.one]

theorem coefEval_var2 (a0 z2 z3 : ℝ) (v : CoefT) (h : (Coeff.var 2 : Option CoefT) = some v) :
    coefEval a0 z2 z3 v = z3 := by
  simp [Coeff.var] at h; subst h
  simp [coefEval, Poly.evalWith, Coeff.zero, Coeff.one]

/-- value of a polynomial in `L` -/
def polyLEval (a0 z2 z3 L : ℝ) (p : PolyLA) : ℝ := Poly.evalWith (coefEval a0 z2 z3) L p

/-- value of a normal form: `p(L) · (1-z)^(-k)` -/
noncomputable def LD.eval (a0 z2 z3 z : ℝ) (d : LD) : ℝ :=
  polyLEval a0 z2 z3 (Real.log (1 - z)) d.p * (1 - z) ^ (-d.k)

theorem isOneMinusZ_eval (env : REnv) (e : KExpr) (h : isOneMinusZ e = true) :
    e.evalR env = 1 - env.z := by
  match e, h with
  | .sub (.lit q) .z, h =>
    simp [isOneMinusZ] at h; subst h; simp [KExpr.evalR]

/-- **Soundness of the normaliser.** -/
theorem normLD_sound (env : REnv) (hstd : env.Std) (hz : env.z < 1) :
    ∀ (e : KExpr) (d : LD), normLD e = some d →
      e.evalR env = d.eval (env.args 0) (env.consts "zeta2") (env.consts "zeta3") env.z := by
  have h1z : (1 - env.z) ≠ 0 := by linarith
  set a0 := env.args 0
  set z2 := env.consts "zeta2"
  set z3 := env.consts "zeta3"
  have hom := coefEval_hom a0 z2 z3
  intro e
  induction e with
  | lit q =>
    intro d h; simp [normLD] at h; subst h
    simp [KExpr.evalR, LD.eval, polyLEval, constPoly, Poly.evalWith, hom.ofRat]
  | const n =>
    intro d h
    simp only [normLD] at h
    cases hc : constRat n with
    | some q =>
      simp [hc] at h; subst h
      have hq : env.consts n = (q : ℝ) := by
        unfold constRat at hc
        split at hc <;> simp at hc <;> subst hc
        · rw [hstd.cf]; norm_num
        · rw [hstd.ca]; norm_num
        · rw [hstd.tr]; norm_num
      simp [KExpr.evalR, LD.eval, polyLEval, constPoly, Poly.evalWith, hom.ofRat, hq]
    | none =>
      simp only [hc] at h
      cases hv : constVar n with
      | none => simp [hv] at h
      | some i =>
        simp only [hv] at h
        unfold constVar at hv
        split at hv <;> simp at hv <;> subst hv
        · cases hvar : (Coeff.var 1 : Option CoefT) with
          | none => simp [hvar] at h
          | some v =>
            simp [hvar] at h; subst h
            simp [KExpr.evalR, LD.eval, polyLEval, Poly.evalWith, coefEval_var1 a0 z2 z3 v hvar, z2]
        · cases hvar : (Coeff.var 2 : Option CoefT) with
          | none => simp [hvar] at h
          | some v =>
            simp [hvar] at h; subst h
            simp [KExpr.evalR, LD.eval, polyLEval, Poly.evalWith, coefEval_var2 a0 z2 z3 v hvar, z3]
  | z => intro d h; simp [normLD] at h
  | arg i =>
    intro d h
    simp only [normLD] at h
    split at h
    · next hi =>
      subst hi
      cases hvar : (Coeff.var 0 : Option CoefT) with
      | none => simp [hvar] at h
      | some v =>
        simp [hvar] at h; subst h
        simp [KExpr.evalR, LD.eval, polyLEval, Poly.evalWith, coefEval_var0 a0 z2 z3 v hvar, a0]
    · simp at h
  | param n => intro d h; simp [normLD] at h
  | add a b iha ihb =>
    intro d h
    simp only [normLD, Option.bind_eq_bind, Option.pure_def] at h
    cases ha : normLD a with
    | none => simp [ha] at h
    | some x =>
      cases hb : normLD b with
      | none => simp [ha, hb] at h
      | some y =>
        simp only [ha, hb, Option.bind_some] at h
        split at h
        · next hk =>
          simp at h; subst h
          simp only [KExpr.evalR, iha x ha, ihb y hb, LD.eval, polyLEval, Poly.evalWith_add hom, hk]
          ring
        · simp at h
  | sub a b iha ihb =>
    intro d h
    simp only [normLD] at h
    split at h
    · next h1 =>
      simp at h; subst h
      rw [isOneMinusZ_eval env _ h1]
      simp [LD.eval, polyLEval, constPoly, Poly.evalWith, hom.ofRat]
    · simp only [Option.bind_eq_bind, Option.pure_def] at h
      cases ha : normLD a with
      | none => simp [ha] at h
      | some x =>
        cases hb : normLD b with
        | none => simp [ha, hb] at h
        | some y =>
          simp only [ha, hb, Option.bind_some] at h
          split at h
          · next hk =>
            simp at h; subst h
            simp only [KExpr.evalR, iha x ha, ihb y hb, LD.eval, polyLEval, Poly.evalWith_add hom,
              Poly.evalWith_neg hom, hk]
            ring
          · simp at h
  | mul a b iha ihb =>
    intro d h
    simp only [normLD, Option.bind_eq_bind, Option.pure_def] at h
    cases ha : normLD a with
    | none => simp [ha] at h
    | some x =>
      cases hb : normLD b with
      | none => simp [ha, hb] at h
      | some y =>
        simp [ha, hb] at h; subst h
        simp only [KExpr.evalR, iha x ha, ihb y hb, LD.eval, polyLEval, Poly.evalWith_mul hom]
        rw [neg_add, zpow_add₀ h1z]
        ring
  | div a b iha ihb =>
    intro d h
    simp only [normLD, Option.bind_eq_bind, Option.pure_def] at h
    cases ha : normLD a with
    | none => simp [ha] at h
    | some x =>
      cases hb : normLD b with
      | none => simp [ha, hb] at h
      | some y =>
        simp only [ha, hb, Option.bind_some] at h
        cases hc : (Coeff.constVal y.p : Option Rat) with
        | none => simp [hc] at h
        | some c =>
          simp only [hc] at h
          split at h
          · simp at h
          · next hc0 =>
            simp at h; subst h
            have hcr : ((c : ℝ)) ≠ 0 := by exact_mod_cast hc0
            have hy : polyLEval a0 z2 z3 (Real.log (1 - env.z)) y.p = (c : ℝ) :=
              (hom.poly (Real.log (1 - env.z))).const y.p c hc
            simp only [KExpr.evalR, iha x ha, ihb y hb, LD.eval, polyLEval, Poly.evalWith_smul hom,
              hom.ofRat] at hy ⊢
            rw [hy, show -(x.k - y.k) = -x.k + y.k by ring, zpow_add₀ h1z, zpow_neg]
            push_cast
            field_simp
            have hk1 : (1 - env.z) ^ (-y.k) * (1 - env.z) ^ y.k = 1 := by
              rw [← zpow_add₀ h1z]; simp
            rw [mul_assoc, hk1, mul_one]
  | neg a iha =>
    intro d h
    simp only [normLD, Option.bind_eq_bind, Option.pure_def] at h
    cases ha : normLD a with
    | none => simp [ha] at h
    | some x =>
      simp [ha] at h; subst h
      simp only [KExpr.evalR, iha x ha, LD.eval, polyLEval, Poly.evalWith_neg hom]; ring
  | pow a n iha =>
    intro d h
    simp only [normLD, Option.bind_eq_bind, Option.pure_def] at h
    cases ha : normLD a with
    | none => simp [ha] at h
    | some x =>
      simp [ha] at h; subst h
      simp only [KExpr.evalR, iha x ha, LD.eval, polyLEval, Poly.evalWith_pow hom, mul_pow]
      congr 1
      rw [← zpow_natCast, ← zpow_mul]
      congr 1; ring
  | log a _ =>
    intro d h
    simp only [normLD] at h
    split at h
    · next h1 =>
      simp at h; subst h
      simp [KExpr.evalR, isOneMinusZ_eval env a h1, LD.eval, polyLEval, Poly.evalWith, hom.zero, hom.one]
    · simp at h
  | sqrt a _ => intro d h; simp [normLD] at h
  | ext1 n a _ => intro d h; simp [normLD] at h
  | ext3 n i j a _ => intro d h; simp [normLD] at h

end Yadism
