/-
Properties of the interpolation basis (`Model/Interp.lean`) over any linearly ordered field
(`ℚ` for linear grids of rationals, `ℝ` for logarithmic grids): the bridge to Mathlib's Lagrange
basis, values at the nodes, what `evaluate_x` returns on an interval, reproduction of polynomials,
and the support.
-/
import YadismModel.Model.Interp
import Mathlib.LinearAlgebra.Lagrange
import Mathlib.Algebra.Order.Field.Basic
import Mathlib.Algebra.BigOperators.Intervals
import Mathlib.Tactic.Ring
import Mathlib.Tactic.Linarith
import Mathlib.Tactic.FieldSimp

set_option linter.unusedSectionVars false

namespace Yadism.Interp

open Polynomial

variable {K : Type} [Field K] [LinearOrder K] [IsStrictOrderedRing K]

theorem prodUpTo_eq (f : Nat → K) (n : Nat) : prodUpTo f n = ∏ i ∈ Finset.range n, f i := by
  induction n with
  | zero => simp [prodUpTo]
  | succ m ih => simp [prodUpTo, ih, Finset.prod_range_succ]

theorem sumUpTo_eq (f : Nat → K) (n : Nat) : sumUpTo f n = ∑ i ∈ Finset.range n, f i := by
  induction n with
  | zero => simp [sumUpTo]
  | succ m ih => simp [sumUpTo, ih, Finset.sum_range_succ]

/-! ## block layout -/

theorem kminOf_spec (n d i : Nat) (hd : 1 ≤ d) (hn : d + 1 ≤ n) (hi : i + 1 < n) :
    kminOf n d i ≤ i ∧ i + 1 ≤ kminOf n d i + d ∧ kminOf n d i + d + 1 ≤ n := by
  unfold kminOf po2
  split <;> split <;> omega

theorem inBlock_iff (n d i j : Nat) : inBlock n d i j = true ↔ kminOf n d i ≤ j ∧ j ≤ kminOf n d i + d := by
  simp [inBlock]

theorem mem_areas (n d j i : Nat) : i ∈ areas n d j ↔ i + 1 < n ∧ inBlock n d i j = true := by
  simp [areas]
  omega

theorem areas_sorted (n d j : Nat) : (areas n d j).Pairwise (· < ·) := by
  unfold areas
  exact List.Pairwise.filter _ List.pairwise_lt_range

/-! ## bridge to `Lagrange.basis` -/

section lagrange
variable (xs : Nat → K) (hxs : StrictMono xs)
include hxs

theorem injOn_block (kmin d : Nat) : Set.InjOn (fun s => xs (kmin + s)) (Finset.range (d + 1) : Set Nat) := by
  intro a _ b _ h
  have := hxs.injective h
  omega

theorem lagrange_eq (kmin d s0 : Nat) (t : K) :
    lagrange xs kmin d (kmin + s0) t
      = (Lagrange.basis (Finset.range (d + 1)) (fun s => xs (kmin + s)) s0).eval t := by
  unfold lagrange
  rw [prodUpTo_eq, Lagrange.basis, eval_prod]
  have hg : (fun s => if kmin + s = kmin + s0 then (1 : K) else (t - xs (kmin + s)) / (xs (kmin + s0) - xs (kmin + s))) s0 = 1 := by
    simp
  rw [← Finset.prod_erase (Finset.range (d + 1)) hg]
  apply Finset.prod_congr rfl
  intro s hs
  have hne : s ≠ s0 := (Finset.mem_erase.mp hs).1
  have : ¬ (kmin + s = kmin + s0) := by omega
  simp only [this, if_false, Lagrange.basisDivisor, eval_mul, eval_C, eval_sub, eval_X]
  rw [div_eq_inv_mul]

/-- the Lagrange polynomial of any node vanishes at every *other* node of the block -/
theorem lagrange_zero_at_other_node (kmin d j k : Nat) (hk1 : kmin ≤ k) (hk2 : k ≤ kmin + d) (hjk : j ≠ k) :
    lagrange xs kmin d j (xs k) = 0 := by
  unfold lagrange
  rw [prodUpTo_eq]
  apply Finset.prod_eq_zero (i := k - kmin) (Finset.mem_range.mpr (by omega))
  have h1 : kmin + (k - kmin) = k := by omega
  have h2 : ¬ (k = j) := fun h => hjk h.symm
  simp [h1, h2]

/-- … and is 1 at its own node -/
theorem lagrange_one_at_own_node (kmin d j : Nat) :
    lagrange xs kmin d j (xs j) = 1 := by
  unfold lagrange
  rw [prodUpTo_eq]
  apply Finset.prod_eq_one
  intro s _
  by_cases h : kmin + s = j
  · simp [h]
  · have : xs j - xs (kmin + s) ≠ 0 := sub_ne_zero.mpr (fun hh => h (hxs.injective hh).symm)
    simp [h, div_self this]

theorem lagrange_at_node (kmin d j k : Nat) (hk1 : kmin ≤ k) (hk2 : k ≤ kmin + d) :
    lagrange xs kmin d j (xs k) = if j = k then 1 else 0 := by
  by_cases h : j = k
  · subst h; simp [lagrange_one_at_own_node xs hxs]
  · simp [h, lagrange_zero_at_other_node xs hxs kmin d j k hk1 hk2 h]

/-- on one block, the Lagrange combination of the node values of a polynomial of degree `≤ d` is
the polynomial itself -/
theorem block_reproduces (kmin d : Nat) (q : K[X]) (hq : q.natDegree ≤ d) (t : K) :
    (∑ s ∈ Finset.range (d + 1), q.eval (xs (kmin + s)) * lagrange xs kmin d (kmin + s) t) = q.eval t := by
  have hinj := injOn_block xs hxs kmin d
  have hdeg : q.degree < (Finset.range (d + 1)).card := by
    rw [Finset.card_range]
    calc q.degree ≤ (q.natDegree : WithBot ℕ) := Polynomial.degree_le_natDegree
      _ ≤ (d : WithBot ℕ) := by exact_mod_cast hq
      _ < ((d + 1 : ℕ) : WithBot ℕ) := by exact_mod_cast Nat.lt_succ_self d
  have h := Lagrange.eq_interpolate (v := fun s => xs (kmin + s)) hinj hdeg
  conv_rhs => rw [h]
  rw [Lagrange.interpolate_apply, eval_finsetSum]
  apply Finset.sum_congr rfl
  intro s hs
  rw [eval_mul, eval_C, lagrange_eq xs hxs kmin d s]

end lagrange

/-! ## what `evaluate_x` returns -/

section eval
variable (xs : Nat → K) (hxs : StrictMono xs) (n d j : Nat)
include hxs

/-- `t` in the half-open interval `(x_i, x_{i+1}]`: the scan over an increasing list of areas
returns the polynomial of area `i` if it is in the list; otherwise `0`, or (only when `t` is the
node `x_{i+1}` and the list starts with area `i+1`) the polynomial of that area at its left end -/
theorem evalAreas_interval (i : Nat) (t : K) (h1 : xs i < t) (h2 : t ≤ xs (i + 1)) :
    ∀ (L : List Nat) (first : Bool), L.Pairwise (· < ·) →
      (i ∈ L → evalAreas xs n d j t L first = lagrange xs (kminOf n d i) d j t)
      ∧ (i ∉ L → evalAreas xs n d j t L first = 0
          ∨ (t = xs (i + 1) ∧ evalAreas xs n d j t L first = lagrange xs (kminOf n d (i + 1)) d j t)) := by
  intro L
  induction L with
  | nil => intro first _; simp [evalAreas]
  | cons a rest ih =>
    intro first hp
    have hrest := (List.pairwise_cons.mp hp).2
    have hlt := (List.pairwise_cons.mp hp).1
    by_cases ha : a = i
    · subst ha
      constructor
      · intro _
        simp [evalAreas, h1, h2]
      · intro hn; simp at hn
    · -- the interval condition fails for `a ≠ i`
      have hint : ¬ (xs a < t ∧ t ≤ xs (a + 1)) := by
        rintro ⟨c1, c2⟩
        rcases Nat.lt_or_gt_of_ne ha with hlt' | hgt
        · have : xs (a + 1) ≤ xs i := hxs.monotone (by omega)
          exact absurd (lt_of_lt_of_le h1 (le_trans c2 this)) (lt_irrefl _)
        · have : xs (i + 1) ≤ xs a := hxs.monotone (by omega)
          exact absurd (lt_of_lt_of_le c1 (le_trans h2 this)) (lt_irrefl _)
      by_cases heq : first = true ∧ t = xs a
      · -- then `a = i + 1`
        have hai : a = i + 1 := by
          have c1 : xs i < xs a := heq.2 ▸ h1
          have c2 : xs a ≤ xs (i + 1) := heq.2 ▸ h2
          have := hxs.lt_iff_lt.mp c1
          have := hxs.le_iff_le.mp c2
          omega
        constructor
        · intro hmem
          rcases List.mem_cons.mp hmem with h | h
          · exact absurd h.symm ha
          · have := hlt i h; omega
        · intro _
          right
          refine ⟨hai ▸ heq.2, ?_⟩
          simp [evalAreas, heq, hai]
      · have hstep : evalAreas xs n d j t (a :: rest) first = evalAreas xs n d j t rest false := by
          simp only [evalAreas]
          rw [if_neg]
          rintro (c | c)
          · exact hint c
          · exact heq c
        rw [hstep]
        have ih' := ih false hrest
        constructor
        · intro hmem
          rcases List.mem_cons.mp hmem with h | h
          · exact absurd h.symm ha
          · exact ih'.1 h
        · intro hnm
          have hnr : i ∉ rest := fun h => hnm (List.mem_cons_of_mem _ h)
          rcases ih'.2 hnr with h | ⟨_, h⟩
          · left; exact h
          · -- with `first = false` the second alternative cannot arise; re-derive `0`
            left
            -- no element of `rest` can be hit: show by a direct scan
            have : ∀ (M : List Nat), (∀ b ∈ M, b ≠ i) → evalAreas xs n d j t M false = 0 := by
              intro M
              induction M with
              | nil => intro _; simp [evalAreas]
              | cons b M ihM =>
                intro hb
                have hbi : b ≠ i := hb b (by simp)
                have hintb : ¬ (xs b < t ∧ t ≤ xs (b + 1)) := by
                  rintro ⟨c1, c2⟩
                  rcases Nat.lt_or_gt_of_ne hbi with hlt' | hgt
                  · have : xs (b + 1) ≤ xs i := hxs.monotone (by omega)
                    exact absurd (lt_of_lt_of_le h1 (le_trans c2 this)) (lt_irrefl _)
                  · have : xs (i + 1) ≤ xs b := hxs.monotone (by omega)
                    exact absurd (lt_of_lt_of_le c1 (le_trans h2 this)) (lt_irrefl _)
                simp only [evalAreas]
                rw [if_neg]
                · exact ihM (fun c hc => hb c (List.mem_cons_of_mem _ hc))
                · rintro (c | c)
                  · exact hintb c
                  · simp at c
            exact this rest (fun b hb hbi => hnr (hbi ▸ hb))

/-- at the first grid node only the area starting there can be hit, and only as first area -/
theorem evalAreas_first_node : ∀ (L : List Nat) (first : Bool),
    evalAreas xs n d j (xs 0) L first
      = if first = true ∧ L.head? = some 0 then lagrange xs (kminOf n d 0) d j (xs 0) else 0 := by
  intro L
  induction L with
  | nil => intro first; simp [evalAreas]
  | cons a rest ih =>
    intro first
    have hint : ¬ (xs a < xs 0 ∧ xs 0 ≤ xs (a + 1)) := by
      rintro ⟨c1, _⟩
      have := hxs.lt_iff_lt.mp c1
      omega
    by_cases heq : first = true ∧ xs 0 = xs a
    · have ha : a = 0 := (hxs.injective heq.2).symm
      subst ha
      simp [evalAreas, heq.1]
    · have hne : ¬ (first = true ∧ (a :: rest).head? = some 0) := by
        rintro ⟨c1, c2⟩
        simp at c2
        exact heq ⟨c1, by rw [c2]⟩
      simp only [evalAreas]
      rw [if_neg (by rintro (c | c); exact hint c; exact heq c), if_neg hne, ih false]
      simp

/-- if every area ends strictly below `u`, the basis function vanishes at `u` -/
theorem evalAreas_above (u : K) : ∀ (L : List Nat) (first : Bool),
    (∀ i ∈ L, xs (i + 1) < u) → evalAreas xs n d j u L first = 0 := by
  intro L
  induction L with
  | nil => intro _ _; simp [evalAreas]
  | cons a rest ih =>
    intro first h
    have ha := h a (by simp)
    have hmono : xs a < xs (a + 1) := hxs (by omega)
    simp only [evalAreas]
    rw [if_neg]
    · exact ih false (fun i hi => h i (List.mem_cons_of_mem _ hi))
    · rintro (⟨_, c2⟩ | ⟨_, c2⟩)
      · exact absurd (lt_of_le_of_lt c2 ha) (lt_irrefl _)
      · rw [c2] at ha
        exact absurd (lt_trans hmono ha) (lt_irrefl _)

end eval

/-- in an increasing list the last element bounds every element -/
theorem le_getLast_of_sorted : ∀ (L : List Nat), L.Pairwise (· < ·) → ∀ m, L.getLast? = some m → ∀ a ∈ L, a ≤ m := by
  intro L
  induction L with
  | nil => intro _ m h; simp at h
  | cons b M ihM =>
    intro hp m hm a ha
    cases M with
    | nil =>
      simp at hm ha
      omega
    | cons c M' =>
      have hm' : (c :: M').getLast? = some m := by simpa [List.getLast?_cons_cons] using hm
      have hpM := (List.pairwise_cons.mp hp).2
      rcases List.mem_cons.mp ha with rfl | ha'
      · have hc := ihM hpM m hm' c (by simp)
        have := (List.pairwise_cons.mp hp).1 c (by simp)
        omega
      · exact ihM hpM m hm' a ha'

theorem getLast?_mem : ∀ (L : List Nat) (m : Nat), L.getLast? = some m → m ∈ L := by
  intro L m h
  exact List.mem_of_getLast? h

/-! ## the basis functions -/

section basis
variable (xs : Nat → K) (hxs : StrictMono xs) (n d : Nat) (hd : 1 ≤ d) (hn : d + 1 ≤ n)
include hxs hd hn

/-- **`evaluate_x` on an interval**: for `x_i < t ≤ x_{i+1}` basis function `j` is the Lagrange
polynomial of node `j` in the block of that interval, or `0` if `j` is not in the block -/
theorem basis_on_interval (i j : Nat) (hi : i + 1 < n) (t : K) (h1 : xs i < t) (h2 : t ≤ xs (i + 1)) :
    basis xs n d j t = if inBlock n d i j = true then lagrange xs (kminOf n d i) d j t else 0 := by
  unfold basis
  have hA := evalAreas_interval xs hxs n d j i t h1 h2 (areas n d j) true (areas_sorted n d j)
  by_cases hb : inBlock n d i j = true
  · simp only [hb, if_true]
    exact hA.1 ((mem_areas n d j i).mpr ⟨hi, hb⟩)
  · simp only [hb]
    have hnm : i ∉ areas n d j := fun h => hb ((mem_areas n d j i).mp h).2
    rcases hA.2 hnm with h | ⟨ht, h⟩
    · simpa using h
    · -- `t` is the node `x_{i+1}` and `j` is not in block `i`: the polynomial of area `i+1`
      -- vanishes there because `j ≠ i+1`
      simp only [Bool.false_eq_true, if_false]
      rw [h, ht]
      by_cases hlast : i + 2 < n
      · have hk := kminOf_spec n d (i + 1) hd hn hlast
        have hj : j ≠ i + 1 := by
          intro hEq
          apply hb
          have hki := kminOf_spec n d i hd hn hi
          rw [inBlock_iff]
          omega
        exact lagrange_zero_at_other_node xs hxs _ d j (i + 1) (by omega) (by omega) hj
      · -- `i + 1` is the last node: there is no area `i+1`; unfold once more
        have hi1 : i + 2 = n := by omega
        -- area `i+1` does not exist, so the alternative of `evalAreas_interval` is impossible:
        -- re-evaluate directly
        have : ∀ a ∈ areas n d j, a ≠ i + 1 := by
          intro a ha
          have := ((mem_areas n d j a).mp ha).1
          omega
        -- generic scan: no element equals `i` (not in list) nor `i+1`
        have scan : ∀ (M : List Nat) (first : Bool), (∀ b ∈ M, b ≠ i ∧ b ≠ i + 1) →
            evalAreas xs n d j (xs (i + 1)) M first = 0 := by
          intro M
          induction M with
          | nil => intro _ _; simp [evalAreas]
          | cons b M ihM =>
            intro first hbm
            obtain ⟨hb1, hb2⟩ := hbm b (by simp)
            simp only [evalAreas]
            rw [if_neg]
            · exact ihM false (fun c hc => hbm c (List.mem_cons_of_mem _ hc))
            · rintro (⟨c1, c2⟩ | ⟨_, c2⟩)
              · have := hxs.lt_iff_lt.mp c1
                have := hxs.le_iff_le.mp c2
                omega
              · have := hxs.injective c2
                omega
        have h0 := scan (areas n d j) true (fun b hb => ⟨fun hbi => hnm (hbi ▸ hb), this b hb⟩)
        rw [← ht] at h0
        rw [← ht, ← h, h0]

/-- **interpolation property**: `p_j(x_k) = δ_jk` at every grid node -/
theorem basis_at_node (j k : Nat) (hj : j < n) (hk : k < n) :
    basis xs n d j (xs k) = if j = k then 1 else 0 := by
  rcases Nat.eq_zero_or_pos k with rfl | hkpos
  · -- first node
    unfold basis
    rw [evalAreas_first_node xs hxs n d j]
    have h0 := kminOf_spec n d 0 hd hn (by omega)
    have hk0 : kminOf n d 0 = 0 := by omega
    by_cases hb : inBlock n d 0 j = true
    · have hhead : (areas n d j).head? = some 0 := by
        unfold areas
        have : List.range (n - 1) = 0 :: (List.range' 1 (n - 2)) := by
          rw [List.range_eq_range']
          have : n - 1 = (n - 2) + 1 := by omega
          rw [this, List.range'_succ]
        rw [this]
        simp [List.filter_cons, hb]
      rw [inBlock_iff, hk0] at hb
      simp only [hhead, and_self, if_true, hk0]
      exact lagrange_at_node xs hxs 0 d j 0 (by omega) (by omega)
    · have hhead : (areas n d j).head? ≠ some 0 := by
        intro h
        have : 0 ∈ areas n d j := List.mem_of_mem_head? h
        exact hb ((mem_areas n d j 0).mp this).2
      have hj0 : j ≠ 0 := by
        intro h
        apply hb
        rw [inBlock_iff, hk0, h]
        omega
      simp [hhead, hj0]
  · -- node `k ≥ 1` is the upper end of interval `k-1`
    obtain ⟨i, rfl⟩ : ∃ i, k = i + 1 := ⟨k - 1, by omega⟩
    have hi : i + 1 < n := hk
    rw [basis_on_interval xs hxs n d hd hn i j hi (xs (i + 1)) (hxs (by omega)) le_rfl]
    have hki := kminOf_spec n d i hd hn hi
    by_cases hb : inBlock n d i j = true
    · simp only [hb, if_true]
      exact lagrange_at_node xs hxs _ d j (i + 1) (by omega) (by omega)
    · have : j ≠ i + 1 := by
        intro h
        apply hb
        rw [inBlock_iff]
        omega
      simp [hb, this]

/-- **support**: when `is_below_x(t)` holds, the basis function vanishes at every `u > t` -/
theorem basis_zero_above (j : Nat) (t u : K) (hb : isBelowX xs n d j t = true) (hu : t < u) :
    basis xs n d j u = 0 := by
  unfold basis
  apply evalAreas_above xs hxs n d j u
  intro i hi
  unfold isBelowX at hb
  -- the last area bounds every area
  have hsorted := areas_sorted n d j
  have hlast := le_getLast_of_sorted
  cases hl : (areas n d j).getLast? with
  | none =>
    have : areas n d j = [] := List.getLast?_eq_none_iff.mp hl
    rw [this] at hi
    simp at hi
  | some m =>
    rw [hl] at hb
    have hle : xs (m + 1) ≤ t := by simpa using hb
    have him := hlast _ hsorted m hl i hi
    have : xs (i + 1) ≤ xs (m + 1) := hxs.monotone (by omega)
    exact lt_of_le_of_lt (le_trans this hle) hu

/-- … and at `t` itself, unless `t` is the last grid node -/
theorem basis_zero_of_below (j : Nat) (t : K) (hb : isBelowX xs n d j t = true) (ht : t < xs (n - 1)) (hj : j < n) :
    basis xs n d j t = 0 := by
  cases hl : (areas n d j).getLast? with
  | none =>
    have : areas n d j = [] := List.getLast?_eq_none_iff.mp hl
    unfold basis
    rw [this]
    simp [evalAreas]
  | some m =>
    have hb' := hb
    unfold isBelowX at hb'
    rw [hl] at hb'
    have hle : xs (m + 1) ≤ t := by simpa using hb'
    have hm_mem : m ∈ areas n d j := getLast?_mem _ _ hl
    have hm1 : m + 1 < n := ((mem_areas n d j m).mp hm_mem).1
    rcases lt_or_eq_of_le hle with hlt | heq
    · have hbm : isBelowX xs n d j (xs (m + 1)) = true := by
        unfold isBelowX
        rw [hl]
        simp
      exact basis_zero_above xs hxs n d hd hn j (xs (m + 1)) t hbm hlt
    · rw [← heq, basis_at_node xs hxs n d hd hn j (m + 1) hj hm1]
      have : j ≠ m + 1 := by
        intro hjm
        have hlt' : xs (m + 1) < xs (n - 1) := heq ▸ ht
        have hm2 : m + 1 < n - 1 := hxs.lt_iff_lt.mp hlt'
        have hspec := kminOf_spec n d (m + 1) hd hn (by omega)
        have hin : m + 1 ∈ areas n d j := by
          rw [mem_areas]
          refine ⟨by omega, ?_⟩
          rw [inBlock_iff, hjm]
          omega
        have := le_getLast_of_sorted _ (areas_sorted n d j) m hl (m + 1) hin
        omega
      simp [this]

/-- **reproduction of polynomials**: inside the grid the interpolant of a polynomial of degree
at most the interpolation degree *is* the polynomial -/
theorem interpolant_reproduces (q : K[X]) (hq : q.natDegree ≤ d) (t : K)
    (ht0 : xs 0 ≤ t) (ht1 : t ≤ xs (n - 1)) :
    interpolant xs (fun j => q.eval (xs j)) n d t = q.eval t := by
  unfold interpolant
  rw [sumUpTo_eq]
  rcases eq_or_lt_of_le ht0 with h0 | h0
  · -- at the first node
    rw [← h0]
    have : ∀ j ∈ Finset.range n, q.eval (xs j) * basis xs n d j (xs 0) = if j = 0 then q.eval (xs 0) else 0 := by
      intro j hj
      rw [basis_at_node xs hxs n d hd hn j 0 (Finset.mem_range.mp hj) (by omega)]
      by_cases h : j = 0 <;> simp [h]
    rw [Finset.sum_congr rfl this]
    simp
    omega
  · -- find the interval
    have hex : ∃ i, i + 1 < n ∧ xs i < t ∧ t ≤ xs (i + 1) := by
      have hEx : ∃ m, m < n ∧ t ≤ xs m := ⟨n - 1, by omega, ht1⟩
      classical
      have hm : Nat.find hEx < n ∧ t ≤ xs (Nat.find hEx) := Nat.find_spec hEx
      have hm0 : Nat.find hEx ≠ 0 := by
        intro h
        rw [h] at hm
        exact absurd (lt_of_lt_of_le h0 hm.2) (lt_irrefl _)
      refine ⟨Nat.find hEx - 1, by omega, ?_, ?_⟩
      · by_contra hc
        have hle : t ≤ xs (Nat.find hEx - 1) := not_lt.mp hc
        have hmin := Nat.find_min hEx (m := Nat.find hEx - 1) (by omega)
        exact hmin ⟨by omega, hle⟩
      · have : Nat.find hEx - 1 + 1 = Nat.find hEx := by omega
        rw [this]; exact hm.2
    obtain ⟨i, hi, h1, h2⟩ := hex
    have hk := kminOf_spec n d i hd hn hi
    have hterm : ∀ j ∈ Finset.range n, q.eval (xs j) * basis xs n d j t
        = if kminOf n d i ≤ j ∧ j ≤ kminOf n d i + d then q.eval (xs j) * lagrange xs (kminOf n d i) d j t else 0 := by
      intro j _
      rw [basis_on_interval xs hxs n d hd hn i j hi t h1 h2]
      by_cases hb : inBlock n d i j = true
      · have := (inBlock_iff n d i j).mp hb
        simp [hb, this]
      · have : ¬ (kminOf n d i ≤ j ∧ j ≤ kminOf n d i + d) := fun h => hb ((inBlock_iff n d i j).mpr h)
        simp [hb, this]
    rw [Finset.sum_congr rfl hterm, ← Finset.sum_filter]
    have hfilter : (Finset.range n).filter (fun j => kminOf n d i ≤ j ∧ j ≤ kminOf n d i + d)
        = Finset.Ico (kminOf n d i) (kminOf n d i + d + 1) := by
      ext j
      simp only [Finset.mem_filter, Finset.mem_range, Finset.mem_Ico]
      omega
    rw [hfilter, Finset.sum_Ico_eq_sum_range]
    have : kminOf n d i + d + 1 - kminOf n d i = d + 1 := by omega
    rw [this]
    exact block_reproduces xs hxs (kminOf n d i) d q hq t

/-- **partition of unity** -/
theorem partition_of_unity (t : K) (ht0 : xs 0 ≤ t) (ht1 : t ≤ xs (n - 1)) :
    sumUpTo (fun j => basis xs n d j t) n = 1 := by
  have h := interpolant_reproduces xs hxs n d hd hn (1 : K[X]) (by simp) t ht0 ht1
  unfold interpolant at h
  simpa using h

/-- **values at the nodes**: the interpolant takes the node values -/
theorem interpolant_at_node (f : Nat → K) (k : Nat) (hk : k < n) :
    interpolant xs f n d (xs k) = f k := by
  unfold interpolant
  rw [sumUpTo_eq]
  have : ∀ j ∈ Finset.range n, f j * basis xs n d j (xs k) = if j = k then f k else 0 := by
    intro j hj
    rw [basis_at_node xs hxs n d hd hn j k (Finset.mem_range.mp hj) hk]
    by_cases h : j = k <;> simp [h]
  rw [Finset.sum_congr rfl this]
  simp [hk]

/-- **continuity at the nodes**: the polynomial piece used *above* an interior node `x_k`
(the block of interval `k`) also takes the value `f_k` at `x_k`; with `interpolant_at_node`
(the value from the interval below, `x_k` being its upper end) the two one-sided values agree -/
theorem piece_above_node (f : Nat → K) (k : Nat) (hk : k + 1 < n) :
    (∑ j ∈ Finset.range n,
        f j * (if inBlock n d k j = true then lagrange xs (kminOf n d k) d j (xs k) else 0)) = f k := by
  have hkk := kminOf_spec n d k hd hn hk
  have : ∀ j ∈ Finset.range n,
      f j * (if inBlock n d k j = true then lagrange xs (kminOf n d k) d j (xs k) else 0)
        = if j = k then f k else 0 := by
    intro j _
    by_cases hb : inBlock n d k j = true
    · simp only [hb, if_true]
      rw [lagrange_at_node xs hxs _ d j k (by omega) (by omega)]
      by_cases h : j = k
      · simp [h]
      · simp [h]
    · have : j ≠ k := by
        intro h
        apply hb
        rw [inBlock_iff]
        omega
      simp [hb, this]
  rw [Finset.sum_congr rfl this]
  simp
  omega

end basis

end Yadism.Interp
