/-
From the coefficient obligation to the analytic statement of C03:
`loc` is differentiable on `x < 1` with `loc'(x) = -sing(x)`, i.e. `loc(x) = δ - ∫₀ˣ sing`.
-/
import YadismModel.Lemmas.NormSound
import Mathlib.Analysis.SpecialFunctions.Log.Deriv
import Mathlib.Analysis.Calculus.Deriv.Mul
import Mathlib.Analysis.Calculus.Deriv.Add
import Mathlib.Analysis.Calculus.Deriv.Comp

namespace Yadism

section PolyDeriv
variable (a0 z2 z3 : ℝ)

local notation "ev" => polyLEval a0 z2 z3

private theorem hom' : IsHom (coefEval a0 z2 z3) := coefEval_hom a0 z2 z3

/-- `derivL p (k+1)` evaluates to `Σ (k+1+i) c_i L^i` — recursion on the head -/
theorem derivL_cons (c : CoefT) (r : PolyLA) (k : Nat) (L : ℝ) :
    ev L (derivL (c :: r) (k + 1)) = ((k : ℝ) + 1) * coefEval a0 z2 z3 c + L * ev L (derivL r (k + 2)) := by
  simp only [derivL, polyLEval, Poly.evalWith, (hom' a0 z2 z3).mul, (hom' a0 z2 z3).ofRat]
  push_cast; ring

/-- lemma A: `G_k = k·P + G_0` -/
theorem derivL_shift (p : PolyLA) : ∀ (k : Nat) (L : ℝ),
    ev L (derivL p (k + 1)) = (k : ℝ) * ev L p + ev L (derivL p 1) := by
  induction p with
  | nil => intro k L; simp [derivL, polyLEval, Poly.evalWith]
  | cons c r ih =>
    intro k L
    rw [derivL_cons, derivL_cons, ih (k + 1) L, ih 1 L]
    simp only [polyLEval, Poly.evalWith]
    push_cast; ring

/-- lemma B: `G_0 = P + L·P'` with `P' = ev (derivL p 0)` -/
theorem derivL_zero_one (p : PolyLA) (L : ℝ) :
    ev L (derivL p 1) = ev L p + L * ev L (derivL p 0) := by
  cases p with
  | nil => simp [derivL, polyLEval, Poly.evalWith]
  | cons c r =>
    have h1 := derivL_cons a0 z2 z3 c r 0 L
    have h2 := derivL_shift a0 z2 z3 r 1 L
    simp only [Nat.cast_zero, zero_add, Nat.cast_one] at h1 h2
    rw [h1, h2]
    simp only [derivL, polyLEval, Poly.evalWith]
    ring

/-- the formal derivative is the derivative -/
theorem polyL_hasDerivAt (p : PolyLA) : ∀ L : ℝ,
    HasDerivAt (fun L => ev L p) (ev L (derivL p 0)) L := by
  induction p with
  | nil => intro L; simpa [polyLEval, Poly.evalWith, derivL] using hasDerivAt_const L (0 : ℝ)
  | cons c r ih =>
    intro L
    have hmul : HasDerivAt (fun L => L * ev L r) (1 * ev L r + L * ev L (derivL r 0)) L :=
      (hasDerivAt_id L).mul (ih L)
    have h := (hasDerivAt_const L (coefEval a0 z2 z3 c)).add hmul
    have e : ev L (derivL (c :: r) 0) = 0 + (1 * ev L r + L * ev L (derivL r 0)) := by
      simp only [derivL]
      rw [derivL_zero_one]; ring
    rw [e]
    exact h

end PolyDeriv

/-- `x ↦ log(1-x)` has derivative `-1/(1-x)` for `x < 1` -/
theorem log_one_sub_hasDerivAt (x : ℝ) (hx : x < 1) :
    HasDerivAt (fun x => Real.log (1 - x)) (-(1 / (1 - x))) x := by
  have h1 : HasDerivAt (fun x : ℝ => 1 - x) (-1) x := (hasDerivAt_id' x).const_sub 1
  have hne : (1 - x) ≠ 0 := by linarith
  have h2 := (Real.hasDerivAt_log hne).comp x h1
  have e : (1 - x)⁻¹ * -1 = -(1 / (1 - x)) := by rw [one_div]; ring
  rw [e] at h2
  exact h2

/-! ## closeness with tolerance 0 is equality of values -/

theorem listClose_evalWith {α : Type} (close : α → α → Bool) (zero : α) (g : α → ℝ) (hz : g zero = 0)
    (hc : ∀ x y, close x y = true → g x = g y) (t : ℝ) :
    ∀ a b : List α, listClose close zero a b = true → Poly.evalWith g t a = Poly.evalWith g t b := by
  intro a
  induction a with
  | nil =>
    intro b
    induction b with
    | nil => intro _; rfl
    | cons y ys ihb =>
      intro h
      simp only [listClose, List.all_cons, Bool.and_eq_true] at h
      have := hc zero y h.1
      have ih := ihb (by simpa [listClose] using h.2)
      simp only [Poly.evalWith] at ih ⊢
      rw [← this, hz, ← ih]; ring
  | cons x xs iha =>
    intro b
    cases b with
    | nil =>
      intro h
      simp only [listClose, Bool.and_eq_true] at h
      have := hc x zero h.1
      have ih := iha [] h.2
      simp only [Poly.evalWith] at ih ⊢
      rw [this, hz, ih]; ring
    | cons y ys =>
      intro h
      simp only [listClose, Bool.and_eq_true] at h
      simp only [Poly.evalWith, hc x y h.1, iha ys h.2]

theorem ratClose_zero (x y : Rat) (h : ratClose 0 x y = true) : (x : ℝ) = (y : ℝ) := by
  simp only [ratClose, zero_mul, decide_eq_true_eq] at h
  have : x - y = 0 := by
    have hn : 0 ≤ (x - y).abs := Rat.abs_nonneg
    exact Rat.abs_eq_zero_iff.mp (le_antisymm h hn)
  have : x = y := by linarith
  rw [this]

theorem closeL_zero_eval (a0 z2 z3 L : ℝ) (p q : PolyLA) (h : closeL 0 p q = true) :
    polyLEval a0 z2 z3 L p = polyLEval a0 z2 z3 L q := by
  unfold polyLEval coefEval
  refine listClose_evalWith _ _ _ ?_ ?_ L p q h
  · simp [Poly.evalWith]
  intro x y hxy
  refine listClose_evalWith _ _ _ ?_ ?_ a0 x y hxy
  · simp [Poly.evalWith]
  intro x y hxy
  refine listClose_evalWith _ _ _ ?_ ?_ z2 x y hxy
  · simp [Poly.evalWith]
  intro x y hxy
  refine listClose_evalWith _ _ _ ?_ ?_ z3 x y hxy
  · simp
  intro x y hxy
  exact ratClose_zero x y hxy

/-! ## the analytic statement -/

/-- a kernel as a function of the momentum fraction, everything else fixed -/
noncomputable def KExpr.fn (e : KExpr) (env : REnv) : ℝ → ℝ := fun x => e.evalR { env with z := x }

/-- For every pair inside the fragment, whatever the coefficients are:
the local part is differentiable for `x < 1` with derivative `-(dl/dL)(L)/(1-x)`. -/
theorem loc_hasDerivAt (env : REnv) (hstd : env.Std) (loc : KExpr) (l : PolyLA)
    (hl : normLD loc = some ⟨l, 0⟩) (x : ℝ) (hx : x < 1) :
    HasDerivAt (loc.fn env)
      (-(polyLEval (env.args 0) (env.consts "zeta2") (env.consts "zeta3") (Real.log (1 - x)) (derivL l 0)
          / (1 - x))) x := by
  set a0 := env.args 0
  set z2 := env.consts "zeta2"
  set z3 := env.consts "zeta3"
  have hcomp := (polyL_hasDerivAt a0 z2 z3 l (Real.log (1 - x))).comp x (log_one_sub_hasDerivAt x hx)
  have heq : (loc.fn env) =ᶠ[nhds x] fun x => polyLEval a0 z2 z3 (Real.log (1 - x)) l := by
    have hopen : ∀ᶠ y in nhds x, y < 1 := (isOpen_Iio.eventually_mem hx)
    filter_upwards [hopen] with y hy
    have hs := normLD_sound { env with z := y } ⟨hstd.cf, hstd.ca, hstd.tr⟩ hy loc ⟨l, 0⟩ hl
    simpa [KExpr.fn, LD.eval] using hs
  refine (hcomp.congr_of_eventuallyEq heq).congr_deriv ?_
  field_simp

/-- the singular part is `s(L)/(1-x)` -/
theorem sing_value (env : REnv) (hstd : env.Std) (sing : KExpr) (s : PolyLA)
    (hs : normLD sing = some ⟨s, 1⟩) (x : ℝ) (hx : x < 1) :
    sing.fn env x
      = polyLEval (env.args 0) (env.consts "zeta2") (env.consts "zeta3") (Real.log (1 - x)) s / (1 - x) := by
  have h := normLD_sound { env with z := x } ⟨hstd.cf, hstd.ca, hstd.tr⟩ hx sing ⟨s, 1⟩ hs
  simp only [KExpr.fn, h, LD.eval]
  have hne : (1 - x) ≠ 0 := by linarith
  simp [zpow_neg]
  field_simp

/-- **Exact pairs**: if the coefficient obligation holds with tolerance 0 then for every
`x < 1`, every `args[0]` (nf or `log(Q²/m²)`), every value of the symbolic constants:
`d loc/dx = - sing(x)`.  With `loc(0) = δ` this is `loc(x) = δ - ∫₀ˣ sing`. -/
theorem distributionOK_exact_sound (env : REnv) (hstd : env.Std) (sing loc : KExpr)
    (h : distributionOK 0 sing loc = true) (x : ℝ) (hx : x < 1) :
    HasDerivAt (loc.fn env) (-(sing.fn env x)) x := by
  unfold distributionOK at h
  cases hs : normLD sing with
  | none => simp [hs] at h
  | some s =>
    cases hl : normLD loc with
    | none => simp [hs, hl] at h
    | some l =>
      simp only [hs, hl, Bool.and_eq_true, beq_iff_eq] at h
      obtain ⟨⟨hk1, hk0⟩, hclose⟩ := h
      obtain ⟨sp, sk⟩ := s
      obtain ⟨lp, lk⟩ := l
      simp only at hk1 hk0 hclose
      subst hk1 hk0
      have hd := loc_hasDerivAt env hstd loc lp hl x hx
      rw [sing_value env hstd sing sp hs x hx,
        ← closeL_zero_eval _ _ _ _ _ _ hclose]
      exact hd

/-- **Approximate pairs** (published parametrisations with 5–6 digits): the residual is given
*exactly* by the coefficient differences the obligation bounds:
`loc'(x) + sing(x) = (s(L) − (dl/dL)(L)) / (1-x)`. -/
theorem distribution_residual (env : REnv) (hstd : env.Std) (sing loc : KExpr) (s l : PolyLA)
    (hs : normLD sing = some ⟨s, 1⟩) (hl : normLD loc = some ⟨l, 0⟩) (x : ℝ) (hx : x < 1) :
    ∃ d, HasDerivAt (loc.fn env) d x ∧
      d + sing.fn env x =
        (polyLEval (env.args 0) (env.consts "zeta2") (env.consts "zeta3") (Real.log (1 - x)) s
          - polyLEval (env.args 0) (env.consts "zeta2") (env.consts "zeta3") (Real.log (1 - x)) (derivL l 0))
        / (1 - x) := by
  refine ⟨_, loc_hasDerivAt env hstd loc l hl x hx, ?_⟩
  rw [sing_value env hstd sing s hs x hx]
  ring

/-- a term that does not mention `z` is constant in the momentum fraction -/
theorem usesZ_false_const (env : REnv) (e : KExpr) (h : e.usesZ = false) (x y : ℝ) :
    e.fn env x = e.fn env y := by
  unfold KExpr.fn
  induction e with
  | z => simp [KExpr.usesZ] at h
  | add a b iha ihb | sub a b iha ihb | mul a b iha ihb | div a b iha ihb =>
    simp only [KExpr.usesZ, Bool.or_eq_false_iff] at h
    simp only [KExpr.evalR, iha h.1, ihb h.2]
  | neg a ih | pow a n ih | log a ih | sqrt a ih | ext1 nm a ih | ext3 nm i j a ih =>
    simp only [KExpr.usesZ] at h
    simp only [KExpr.evalR, ih h]
  | _ => simp [KExpr.evalR]

end Yadism
