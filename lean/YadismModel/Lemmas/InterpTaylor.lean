/-
The distance of a smooth function to the polynomials of degree ≤ d on an interval of length `L`
is at most `M·L^(d+1)/d!` (`M` a bound of the (d+1)-th derivative): Mathlib's Taylor remainder
bound, with the Taylor polynomial exhibited as a `Polynomial ℝ` of degree ≤ d.
-/
import Mathlib.Analysis.Calculus.Taylor
import Mathlib.Analysis.Calculus.IteratedDeriv.Defs
import Mathlib.Analysis.Calculus.TangentCone.Real

namespace Yadism.Interp

open Polynomial Set

/-- the Taylor polynomial at `a`, as a `Polynomial` -/
noncomputable def taylorPoly (c : ℕ → ℝ) (a : ℝ) (d : ℕ) : ℝ[X] :=
  ∑ k ∈ Finset.range (d + 1), C ((Nat.factorial k : ℝ)⁻¹ * c k) * (X - C a) ^ k

theorem taylorPoly_natDegree (c : ℕ → ℝ) (a : ℝ) (d : ℕ) : (taylorPoly c a d).natDegree ≤ d := by
  unfold taylorPoly
  apply Polynomial.natDegree_sum_le_of_forall_le
  intro k hk
  have hk' : k ≤ d := by have := Finset.mem_range.mp hk; omega
  calc (C ((Nat.factorial k : ℝ)⁻¹ * c k) * (X - C a) ^ k).natDegree
      ≤ (C ((Nat.factorial k : ℝ)⁻¹ * c k)).natDegree + ((X - C a) ^ k).natDegree := natDegree_mul_le
    _ ≤ 0 + k := by
        apply add_le_add
        · exact le_of_eq (natDegree_C _)
        · calc ((X - C a) ^ k).natDegree ≤ k * (X - C a).natDegree := natDegree_pow_le
            _ ≤ k * 1 := Nat.mul_le_mul_left _ (by rw [natDegree_X_sub_C])
            _ = k := by simp
    _ ≤ d := by omega

theorem taylorPoly_eval (c : ℕ → ℝ) (a : ℝ) (d : ℕ) (x : ℝ) :
    (taylorPoly c a d).eval x = ∑ k ∈ Finset.range (d + 1), ((Nat.factorial k : ℝ)⁻¹ * (x - a) ^ k) * c k := by
  unfold taylorPoly
  rw [eval_finsetSum]
  apply Finset.sum_congr rfl
  intro k _
  simp only [eval_mul, eval_C, eval_pow, eval_sub, eval_X]
  ring

/-- **Taylor**: a function with `(d+1)`-th derivative bounded by `M` is within
`M·(b−a)^(d+1)/d!` of a polynomial of degree ≤ `d`, everywhere on `[a, b]` -/
theorem exists_poly_close (f : ℝ → ℝ) (d : ℕ) (hf : ContDiff ℝ (d + 1 : ℕ) f) (M : ℝ)
    (hM : ∀ y, |iteratedDeriv (d + 1) f y| ≤ M) (a b : ℝ) (hab : a < b) :
    ∃ q : ℝ[X], q.natDegree ≤ d ∧ ∀ x ∈ Icc a b, |f x - q.eval x| ≤ M * (b - a) ^ (d + 1) / (Nat.factorial d) := by
  refine ⟨taylorPoly (fun k => iteratedDerivWithin k f (Icc a b) a) a d, taylorPoly_natDegree _ _ _, ?_⟩
  intro x hx
  have hM0 : 0 ≤ M := le_trans (abs_nonneg _) (hM a)
  have hb := taylor_mean_remainder_bound (f := f) (a := a) (b := b) (C := M) (x := x) (n := d)
    (le_of_lt hab) (by exact_mod_cast hf.contDiffOn) hx (by
      intro y hy
      rw [iteratedDerivWithin_eq_iteratedDeriv (uniqueDiffOn_Icc hab) (by exact_mod_cast hf.contDiffAt) hy]
      exact hM y)
  rw [taylor_within_apply] at hb
  rw [taylorPoly_eval]
  simp only [smul_eq_mul, Real.norm_eq_abs] at hb
  refine le_trans hb ?_
  have hxa : 0 ≤ x - a := by linarith [hx.1]
  have hxb : x - a ≤ b - a := by linarith [hx.2]
  have hfac : (0 : ℝ) < Nat.factorial d := by exact_mod_cast Nat.factorial_pos d
  apply div_le_div_of_nonneg_right _ (le_of_lt hfac)
  apply mul_le_mul_of_nonneg_left _ hM0
  exact pow_le_pow_left₀ hxa hxb _

end Yadism.Interp
