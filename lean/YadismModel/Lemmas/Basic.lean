/-
Helper lemmas about the coupling model (proof files may import single Mathlib modules).
-/
import YadismModel.Model.Operator
import Mathlib.Tactic.Ring
import Mathlib.Tactic.FieldSimp
import Mathlib.Tactic.Linarith
import Mathlib.Tactic.NormNum
import Mathlib.Tactic.IntervalCases
import Mathlib.Algebra.Order.Field.Rat

namespace Yadism

/-- independent statement of the quark charges -/
def eQ (q : Nat) : Rat := if q % 2 = 0 then 2/3 else -1/3
/-- independent statement of the quark weak isospin -/
def t3 (q : Nat) : Rat := if q % 2 = 0 then 1/2 else -1/2

theorem electricCharge_quark (q : Nat) (h1 : 1 ≤ q) (h6 : q ≤ 6) : electricCharge q = eQ q := by
  interval_cases q <;> simp [electricCharge, eQ]

theorem weakIsospin3_quark (q : Nat) (h1 : 1 ≤ q) (h6 : q ≤ 6) : weakIsospin3 q = t3 q := by
  interval_cases q <;> simp [weakIsospin3, t3]

@[simp] theorem electricCharge_11 : electricCharge 11 = -1 := by simp [electricCharge]
@[simp] theorem electricCharge_12 : electricCharge 12 = 0 := by simp [electricCharge]
@[simp] theorem weakIsospin3_11 : weakIsospin3 11 = -1/2 := by simp [weakIsospin3]
@[simp] theorem weakIsospin3_12 : weakIsospin3 12 = 1/2 := by simp [weakIsospin3]

@[simp] theorem listSum_nil : listSum [] = 0 := rfl

theorem foldl_add_eq (l : List Rat) (a : Rat) : l.foldl (· + ·) a = a + l.foldl (· + ·) 0 := by
  induction l generalizing a with
  | nil => simp
  | cons x xs ih => simp only [List.foldl_cons]; rw [ih (a + x), ih (0 + x)]; ring

@[simp] theorem listSum_cons (x : Rat) (l : List Rat) : listSum (x :: l) = x + listSum l := by
  unfold listSum; simp only [List.foldl_cons]; rw [foldl_add_eq]; ring

theorem listSum_append (l₁ l₂ : List Rat) : listSum (l₁ ++ l₂) = listSum l₁ + listSum l₂ := by
  induction l₁ with
  | nil => simp
  | cons x xs ih => simp [ih]; ring

theorem listSum_map_add {α} (l : List α) (f g : α → Rat) :
    listSum (l.map fun a => f a + g a) = listSum (l.map f) + listSum (l.map g) := by
  induction l with
  | nil => simp
  | cons x xs ih => simp [ih]; ring

theorem listSum_map_mul_left {α} (l : List α) (k : Rat) (f : α → Rat) :
    listSum (l.map fun a => k * f a) = k * listSum (l.map f) := by
  induction l with
  | nil => simp
  | cons x xs ih => simp [ih]; ring

theorem listSum_map_zero {α} (l : List α) : listSum (l.map fun _ => (0 : Rat)) = 0 := by
  induction l with
  | nil => simp
  | cons x xs ih => rw [List.map_cons, listSum_cons, ih]; ring

end Yadism

namespace Yadism

theorem opEntry_append (a b : List Kernel) (conv : ChanId → Rat) (p : Int) :
    opEntry (a ++ b) conv p = opEntry a conv p + opEntry b conv p := by
  simp [opEntry, listSum_append]

@[simp] theorem opEntry_nil (conv : ChanId → Rat) (p : Int) : opEntry [] conv p = 0 := by
  simp [opEntry]

@[simp] theorem opEntry_cons (k : Kernel) (ks : List Kernel) (conv : ChanId → Rat) (p : Int) :
    opEntry (k :: ks) conv p = k.partons p * conv k.chan + opEntry ks conv p := by
  simp [opEntry]

end Yadism
