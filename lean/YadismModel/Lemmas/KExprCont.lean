/-
Continuity of the real semantics of a kernel term in its environment: if the values of `z`,
`args`, constants and params depend continuously on a parameter `t`, and at `t₀` the term divides
by nothing that vanishes and takes no logarithm of zero, then its value is continuous at `t₀`.
-/
import YadismModel.Lemmas.NormSound
import Mathlib.Topology.Algebra.Field

namespace Yadism

/-- no division by zero, no logarithm of zero, no external special function -/
def KExpr.regularAt (env : REnv) : KExpr → Prop
  | .add a b | .sub a b | .mul a b => regularAt env a ∧ regularAt env b
  | .div a b => regularAt env a ∧ regularAt env b ∧ b.evalR env ≠ 0
  | .neg a | .pow a _ | .sqrt a => regularAt env a
  | .log a => regularAt env a ∧ a.evalR env ≠ 0
  | .ext1 _ _ | .ext3 _ _ _ _ => False
  | _ => True

theorem KExpr.evalR_continuousAt {T : Type} [TopologicalSpace T] (env : T → REnv) (t0 : T)
    (hz : ContinuousAt (fun t => (env t).z) t0)
    (hargs : ∀ i, ContinuousAt (fun t => (env t).args i) t0)
    (hc : ∀ n, ContinuousAt (fun t => (env t).consts n) t0)
    (hp : ∀ n, ContinuousAt (fun t => (env t).params n) t0) :
    ∀ e : KExpr, e.regularAt (env t0) → ContinuousAt (fun t => e.evalR (env t)) t0 := by
  intro e
  induction e with
  | lit q => intro _; exact continuousAt_const
  | const n => intro _; exact hc n
  | z => intro _; exact hz
  | arg i => intro _; exact hargs i
  | param n => intro _; exact hp n
  | add a b iha ihb => intro h; exact (iha h.1).add (ihb h.2)
  | sub a b iha ihb => intro h; exact (iha h.1).sub (ihb h.2)
  | mul a b iha ihb => intro h; exact (iha h.1).mul (ihb h.2)
  | div a b iha ihb => intro h; exact (iha h.1).div (ihb h.2.1) h.2.2
  | neg a ih => intro h; exact (ih h).neg
  | pow a n ih => intro h; exact (ih h).pow n
  | log a ih =>
    intro h
    exact ContinuousAt.comp (g := Real.log) (f := fun t => a.evalR (env t)) (Real.continuousAt_log h.2) (ih h.1)
  | sqrt a ih =>
    intro h
    exact ContinuousAt.comp (g := Real.sqrt) (f := fun t => a.evalR (env t)) Real.continuous_sqrt.continuousAt (ih h)
  | ext1 n a _ => intro h; exact h.elim
  | ext3 n i j a _ => intro h; exact h.elim

end Yadism
