/-
Helper lemmas for C04: the one improper integral the NLO Adler sum rule needs,
  ∫₀¹ ln z /(1−z) dz = −π²/6 ,
proved from the geometric series, `∫₀¹ zⁿ ln z = −1/(n+1)²`, the interchange of sum and integral for
an absolutely summable family, and Mathlib's `hasSum_zeta_two` (Basel).
-/
import Mathlib.NumberTheory.ZetaValues
import Mathlib.MeasureTheory.Integral.DominatedConvergence
import Mathlib.MeasureTheory.Integral.IntervalIntegral.FundThmCalculus
import Mathlib.Analysis.SpecialFunctions.Integrals.Basic
import Mathlib.Analysis.SpecialFunctions.Log.NegMulLog

open MeasureTheory Real intervalIntegral Set

namespace Yadism.Dilog

theorem intervalIntegrable_pow_mul_log (n : ℕ) (a b : ℝ) :
    IntervalIntegrable (fun x : ℝ => x ^ n * log x) volume a b :=
  (intervalIntegrable_log' (a := a) (b := b)).continuousOn_mul (continuous_pow n).continuousOn

/-- antiderivative of `x^n log x` -/
noncomputable def G (n : ℕ) (x : ℝ) : ℝ :=
  x ^ n * (x * log x) / (n + 1) - x ^ (n + 1) / (n + 1) ^ 2

theorem G_cont (n : ℕ) : Continuous (G n) := by
  unfold G
  have := continuous_mul_log
  fun_prop

theorem G_deriv (n : ℕ) (x : ℝ) (hx : x ≠ 0) : HasDerivAt (G n) (x ^ n * log x) x := by
  have hn : ((n : ℝ) + 1) ≠ 0 := by positivity
  have h1 : HasDerivAt (fun y : ℝ => y ^ (n + 1) * log y)
      (((n + 1 : ℕ) : ℝ) * x ^ (n + 1 - 1) * log x + x ^ (n + 1) * x⁻¹) x :=
    (hasDerivAt_pow (n + 1) x).mul (hasDerivAt_log hx)
  have h2 : HasDerivAt (fun y : ℝ => y ^ (n + 1) * log y / (n + 1) - y ^ (n + 1) / (n + 1) ^ 2)
      ((((n + 1 : ℕ) : ℝ) * x ^ (n + 1 - 1) * log x + x ^ (n + 1) * x⁻¹) / (n + 1)
        - (((n + 1 : ℕ) : ℝ) * x ^ (n + 1 - 1)) / (n + 1) ^ 2) x :=
    (h1.div_const ((n : ℝ) + 1)).sub ((hasDerivAt_pow (n + 1) x).div_const (((n : ℝ) + 1) ^ 2))
  have heq : G n = fun y : ℝ => y ^ (n + 1) * log y / (n + 1) - y ^ (n + 1) / (n + 1) ^ 2 := by
    funext y; unfold G; ring
  rw [heq]
  convert h2 using 1
  simp only [Nat.add_sub_cancel]
  push_cast
  field_simp
  ring

theorem integral_pow_mul_log (n : ℕ) : ∫ x in (0 : ℝ)..1, x ^ n * log x = -1 / ((n : ℝ) + 1) ^ 2 := by
  rw [integral_eq_sub_of_hasDerivAt_of_le zero_le_one (G_cont n).continuousOn
    (fun x hx => G_deriv n x hx.1.ne') (intervalIntegrable_pow_mul_log n 0 1)]
  simp [G]
  ring


/-- the restriction of Lebesgue measure to `(0,1]` -/
noncomputable abbrev μ01 : Measure ℝ := volume.restrict (Ioc (0 : ℝ) 1)

theorem integrable_F (n : ℕ) : Integrable (fun x : ℝ => x ^ n * log x) μ01 := by
  have := (intervalIntegrable_pow_mul_log n 0 1)
  rw [intervalIntegrable_iff_integrableOn_Ioc_of_le zero_le_one] at this
  exact this

theorem norm_F (n : ℕ) : ∫ x, ‖x ^ n * log x‖ ∂μ01 = 1 / ((n : ℝ) + 1) ^ 2 := by
  have h : ∫ x, ‖x ^ n * log x‖ ∂μ01 = ∫ x, -(x ^ n * log x) ∂μ01 := by
    apply setIntegral_congr_fun measurableSet_Ioc
    intro x hx
    have h1 : 0 ≤ x ^ n := pow_nonneg hx.1.le n
    have h2 : log x ≤ 0 := log_nonpos hx.1.le hx.2
    simp only [norm_mul, Real.norm_eq_abs, abs_of_nonneg h1, abs_of_nonpos h2]
    ring
  rw [h, MeasureTheory.integral_neg, ← intervalIntegral.integral_of_le zero_le_one, integral_pow_mul_log]
  ring

theorem summable_inv_sq_succ : Summable fun n : ℕ => 1 / ((n : ℝ) + 1) ^ 2 := by
  have := (summable_nat_add_iff 1).mpr hasSum_zeta_two.summable
  simpa using this

theorem tsum_inv_sq_succ : ∑' n : ℕ, 1 / ((n : ℝ) + 1) ^ 2 = π ^ 2 / 6 := by
  have h := hasSum_zeta_two
  have h2 := (hasSum_nat_add_iff' 1).mpr h
  simp at h2
  have := h2.tsum_eq
  simpa using this

theorem series_eq (x : ℝ) (hx : x ∈ Ioc (0 : ℝ) 1) : ∑' n : ℕ, x ^ n * log x = log x / (1 - x) := by
  rcases eq_or_lt_of_le hx.2 with h | h
  · subst h; simp
  · rw [tsum_mul_right, tsum_geometric_of_lt_one hx.1.le h]
    field_simp

/-- `∫₀¹ ln z /(1−z) dz = −π²/6` -/
theorem integral_log_div_one_sub : ∫ x in (0 : ℝ)..1, log x / (1 - x) = -(π ^ 2 / 6) := by
  have hs := hasSum_integral_of_summable_integral_norm (μ := μ01)
    (F := fun (n : ℕ) (x : ℝ) => x ^ n * log x) integrable_F
    (by simp only [norm_F]; exact summable_inv_sq_succ)
  have hcongr : ∫ x, (∑' n : ℕ, x ^ n * log x) ∂μ01 = ∫ x, log x / (1 - x) ∂μ01 :=
    setIntegral_congr_fun measurableSet_Ioc series_eq
  rw [hcongr] at hs
  have hterm : (fun n : ℕ => ∫ x, x ^ n * log x ∂μ01) = fun n : ℕ => -(1 / ((n : ℝ) + 1) ^ 2) := by
    funext n
    rw [← intervalIntegral.integral_of_le zero_le_one, integral_pow_mul_log]
    ring
  rw [hterm] at hs
  rw [intervalIntegral.integral_of_le zero_le_one, ← hs.tsum_eq, tsum_neg, tsum_inv_sq_succ]


theorem log_div_bound (x : ℝ) (hx : x ∈ Ioc (0 : ℝ) 1) : ‖log x / (1 - x)‖ ≤ ‖log x‖ + 1 := by
  rcases eq_or_lt_of_le hx.2 with h | h
  · subst h; simp
  · have h1 : 0 < 1 - x := by linarith
    have h2 : log x ≤ 0 := log_nonpos hx.1.le hx.2
    have h3 : log (1 / x) ≤ 1 / x - 1 := log_le_sub_one_of_pos (one_div_pos.mpr hx.1)
    rw [one_div, log_inv] at h3
    have h4 : -(x * log x) ≤ 1 - x := by
      have := mul_le_mul_of_nonneg_left h3 hx.1.le
      have hx0 : x ≠ 0 := hx.1.ne'
      have e : x * (x⁻¹ - 1) = 1 - x := by field_simp
      linarith
    rw [norm_div, Real.norm_eq_abs, Real.norm_eq_abs, abs_of_nonpos h2, abs_of_pos h1, div_le_iff₀ h1]
    nlinarith

theorem integrable_log_div : Integrable (fun x : ℝ => log x / (1 - x)) μ01 := by
  have hb : Integrable (fun x : ℝ => ‖log x‖ + 1) μ01 := by
    have h0 := (integrable_F 0).norm
    simp only [pow_zero, one_mul] at h0
    exact h0.add (integrable_const 1)
  refine hb.mono' (measurable_log.div (measurable_const.sub measurable_id)).aestronglyMeasurable ?_
  exact (ae_restrict_iff' measurableSet_Ioc).mpr (Filter.Eventually.of_forall log_div_bound)

theorem intervalIntegrable_log_div : IntervalIntegrable (fun x : ℝ => log x / (1 - x)) volume 0 1 := by
  rw [intervalIntegrable_iff_integrableOn_Ioc_of_le zero_le_one]
  exact integrable_log_div

end Yadism.Dilog
