/-
Bridge between the executable list-of-rows matrices of `Model/Mat.lean` (on which the kernel decides
the projector relations) and Mathlib's `Matrix (Fin n) (Fin n) ℚ`: product, sum and zero agree for
well-shaped operands.
-/
import YadismModel.Model.Mat
import Mathlib.Data.Matrix.Basic
import Mathlib.Data.Matrix.Mul
import Mathlib.Algebra.BigOperators.Fin
import Mathlib.Algebra.Algebra.Basic
import Mathlib.Algebra.Order.Field.Rat
import Mathlib.Tactic.Ring

namespace Yadism.MatBridge

open Yadism

/-- list-of-rows matrix as a Mathlib matrix (missing entries are 0) -/
def toMat (n : Nat) (m : QMat) : Matrix (Fin n) (Fin n) ℚ :=
  fun i j => (m.getD i.val []).getD j.val 0

/-- every row has exactly `n` entries and there are `n` rows -/
def wellShaped (n : Nat) (m : QMat) : Bool := m.length == n && m.all fun r => r.length == n

theorem dotQ_eq_sum (r c : List ℚ) (n : Nat) (h : r.length ≤ n) :
    dotQ r c = ∑ k ∈ Finset.range n, r.getD k 0 * c.getD k 0 := by
  induction r generalizing c n with
  | nil => simp [dotQ]
  | cons a as ih =>
    cases c with
    | nil => simp [dotQ]
    | cons b bs =>
      cases n with
      | zero => simp at h
      | succ n =>
        have h' : as.length ≤ n := by simpa using h
        rw [Finset.sum_range_succ', dotQ, ih bs n h']
        simp [add_comm]

theorem col_getD (b : QMat) (j k : Nat) : (b.col j).getD k 0 = (b.getD k []).getD j 0 := by
  unfold QMat.col
  by_cases hk : k < b.length
  · simp [List.getD_eq_getElem?_getD, hk]
  · have : b.length ≤ k := Nat.le_of_not_lt hk
    simp [List.getD_eq_getElem?_getD, this]

theorem toMat_mul (n : Nat) (a b : QMat) (ha : wellShaped n a = true) :
    toMat n (QMat.mul a b n) = toMat n a * toMat n b := by
  simp only [wellShaped, Bool.and_eq_true, beq_iff_eq, List.all_eq_true] at ha
  obtain ⟨hlen, hrows⟩ := ha
  ext i j
  have hi : i.val < a.length := by rw [hlen]; exact i.isLt
  have hrow : (a.getD i.val []).length ≤ n := by
    have := hrows (a[i.val]) (List.getElem_mem hi)
    simp [List.getD_eq_getElem?_getD, hi, this]
  simp only [toMat, Matrix.mul_apply, QMat.mul]
  rw [Fin.sum_univ_eq_sum_range (fun k => (a.getD i.val []).getD k 0 * (b.getD k []).getD j.val 0) n]
  simp only [List.getD_eq_getElem?_getD, List.getElem?_map, hi, List.getElem?_eq_getElem, Option.map_some,
    Option.getD_some, List.getElem?_range j.isLt]
  have := dotQ_eq_sum (a[i.val]) (b.col j.val) n (by
    have := hrows (a[i.val]) (List.getElem_mem hi); simp [this])
  rw [this]
  refine Finset.sum_congr rfl fun k _ => ?_
  rw [col_getD]
  simp [List.getD_eq_getElem?_getD]

theorem toMat_zero (n : Nat) : toMat n (QMat.zero n) = 0 := by
  ext i j
  simp [toMat, QMat.zero, List.getD_eq_getElem?_getD, i.isLt, j.isLt]


theorem wellShaped_zero (n : Nat) : wellShaped n (QMat.zero n) = true := by
  simp [wellShaped, QMat.zero]

theorem wellShaped_add (n : Nat) (a b : QMat) (ha : wellShaped n a = true) (hb : wellShaped n b = true) :
    wellShaped n (QMat.add a b) = true := by
  simp only [wellShaped, Bool.and_eq_true, beq_iff_eq, List.all_eq_true] at ha hb ⊢
  refine ⟨by simp [QMat.add, ha.1, hb.1], ?_⟩
  intro r hr
  simp only [QMat.add, List.mem_iff_getElem, List.length_zipWith, List.getElem_zipWith] at hr
  obtain ⟨i, hi, rfl⟩ := hr
  have h1 := ha.2 (a[i]) (List.getElem_mem _)
  have h2 := hb.2 (b[i]) (List.getElem_mem _)
  simp [h1, h2]

theorem toMat_add (n : Nat) (a b : QMat) (ha : wellShaped n a = true) (hb : wellShaped n b = true) :
    toMat n (QMat.add a b) = toMat n a + toMat n b := by
  simp only [wellShaped, Bool.and_eq_true, beq_iff_eq, List.all_eq_true] at ha hb
  ext i j
  have hia : i.val < a.length := by rw [ha.1]; exact i.isLt
  have hib : i.val < b.length := by rw [hb.1]; exact i.isLt
  have h1 := ha.2 (a[i.val]) (List.getElem_mem _)
  have h2 := hb.2 (b[i.val]) (List.getElem_mem _)
  have hja : j.val < (a[i.val]).length := by rw [h1]; exact j.isLt
  have hjb : j.val < (b[i.val]).length := by rw [h2]; exact j.isLt
  simp [toMat, QMat.add, List.getD_eq_getElem?_getD, hia, hib, hja, hjb]

end Yadism.MatBridge
